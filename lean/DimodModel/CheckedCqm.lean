import DimodModel.CheckedExpr

/-! Checked-indexing model of the Constraint / CQM level of `constrained_quadratic_model.h` (property C20): the
    constraint vector `constraints_` (`constraint_ref(c)`, `remove_constraint(c)`, copy assignment and swap of two
    constraints), the variable table `varinfo_` (`set_lower_bound` / `set_upper_bound` / `set_vartype`), and the CQM-wide
    `substitute_variable` / `remove_variable` / `fix_variable`, which visit the objective and every constraint
    (`Expression::substitute_variable`, `Expression::reindex_variables`).  Every `operator[]` / `begin() + i` the C++
    performs is a `List` lookup that fails (`none` = undefined behaviour) outside the vector.  `cstep` is the same call
    without checks (`Cqm.removeVarAt`, `Cqm.mapExprs` of `DimodModel/Cqm.lean`).  Whole-model copy / move / swap touch no
    index (they copy or exchange the three members); in this value model they are the identity on each side.
    Core Lean only. -/

namespace Expr

/-- `Expression::reindex_variables(v)`: when `v` is present at local position `i`, `base_type::remove_variable(i)` and
    `variables_.erase(variables_.begin() + i)` need `i` inside the vectors; the repair loops run over `0 … size` -/
def reindex? (e : Expr) (v : Nat) : Option Expr :=
  match e.idx.get? v with
  | some i =>
    match e.vars[i]? with
    | some _ => (e.qb.removeVar? i).map fun _ => e.reindex v
    | none => none
  | none => some (e.reindex v)

end Expr

namespace Cqm

/-- `for (auto& c_ptr : constraints_) …` with a step that may fail -/
def mapOpt {α β} (f : α → Option β) : List α → Option (List β)
  | [] => some []
  | a :: t =>
    match f a, mapOpt f t with
    | some b, some bs => some (b :: bs)
    | _, _ => none

/-- the objective, then every constraint -/
def mapExprs? (m : Cqm) (f : Expr → Option Expr) : Option Cqm :=
  match f m.obj, mapOpt (fun (k : Cons) => (f k.e).map fun e => { k with e := e }) m.cons with
  | some o, some cs => some { m with obj := o, cons := cs }
  | _, _ => none

/-- one call on a `ConstrainedQuadraticModel` at index level -/
inductive COp where
  | objOp (op : EOp)                       -- `objective.<op>`
  | consOp (c : Nat) (op : EOp)            -- `constraint_ref(c).<op>`
  | addConstraint                          -- `add_constraint()`
  | removeConstraint (c : Nat)
  | assignConstraint (c d : Nat)           -- `constraint_ref(c) = constraint_ref(d)`
  | swapConstraints (c d : Nat)
  | substituteVariable (v : Nat) (mu c : Rat)
  | removeVariable (v : Nat)
  | fixVariable (v : Nat) (a : Rat)
  | setLowerBound (v : Nat) (x : Rat)
  | setUpperBound (v : Nat) (x : Rat)
  | setVartype (v : Nat) (t : VT4)
  | clear

def substituteAll (m : Cqm) (v : Nat) (mu c : Rat) : Cqm := m.mapExprs (·.substitute v mu c)

def substituteAll? (m : Cqm) (v : Nat) (mu c : Rat) : Option Cqm := m.mapExprs? (·.substitute? v mu c)

/-- `remove_variable(v)`: `reindex_variables(v)` everywhere, then `varinfo_.erase(varinfo_.begin() + v)` -/
def removeVarAt? (m : Cqm) (v : Nat) : Option Cqm :=
  match m.mapExprs? (·.reindex? v), m.vt[v]? with
  | some _, some _ => some (m.removeVarAt v)
  | _, _ => none

def cstep (m : Cqm) : COp → Cqm
  | .objOp op => { m with obj := m.obj.stepE m.vt op }
  | .consOp c op => m.modCons c fun k => { k with e := k.e.stepE m.vt op }
  | .addConstraint => { m with cons := m.cons ++ [{}] }
  | .removeConstraint c => { m with cons := Bqm.eraseIdx m.cons c }
  | .assignConstraint c d => m.modCons c fun k => (m.cons[d]?).getD k
  | .swapConstraints c d =>
    (m.modCons c fun k => (m.cons[d]?).getD k).modCons d fun k => (m.cons[c]?).getD k
  | .substituteVariable v mu c => m.substituteAll v mu c
  | .removeVariable v => m.removeVarAt v
  | .fixVariable v a => (m.substituteAll v 0 a).removeVarAt v
  | .setLowerBound v x => { m with lb := setAt m.lb v x }
  | .setUpperBound v x => { m with ub := setAt m.ub v x }
  | .setVartype v t => { m with vt := setAt m.vt v t }
  | .clear => { m with vt := [], lb := [], ub := [], obj := {}, cons := [], labels := [], clabels := [] }

/-- the same call with every vector access checked; `none` = an access outside a vector -/
def cstep? (m : Cqm) : COp → Option Cqm
  | .objOp op => (m.obj.stepE? m.vt op).map fun e => { m with obj := e }
  | .consOp c op =>
    match m.cons[c]? with                                   -- `*constraints_[c]`
    | some k => (k.e.stepE? m.vt op).map fun _ => m.cstep (.consOp c op)
    | none => none
  | .addConstraint => some (m.cstep .addConstraint)
  | .removeConstraint c =>
    match m.cons[c]? with                                   -- `constraints_.erase(begin() + c, begin() + c + 1)`
    | some _ => some (m.cstep (.removeConstraint c))
    | none => none
  | .assignConstraint c d =>
    match m.cons[c]?, m.cons[d]? with
    | some _, some _ => some (m.cstep (.assignConstraint c d))
    | _, _ => none
  | .swapConstraints c d =>
    match m.cons[c]?, m.cons[d]? with
    | some _, some _ => some (m.cstep (.swapConstraints c d))
    | _, _ => none
  | .substituteVariable v mu c => m.substituteAll? v mu c
  | .removeVariable v => m.removeVarAt? v
  | .fixVariable v a => (m.substituteAll? v 0 a).bind fun m1 => m1.removeVarAt? v
  | .setLowerBound v x => match m.lb[v]? with | some _ => some (m.cstep (.setLowerBound v x)) | none => none
  | .setUpperBound v x => match m.ub[v]? with | some _ => some (m.cstep (.setUpperBound v x)) | none => none
  | .setVartype v t => match m.vt[v]? with | some _ => some (m.cstep (.setVartype v t)) | none => none
  | .clear => some (m.cstep .clear)

/-- the documented preconditions (the `assert`s of the header): constraint and variable indices inside the model -/
def COp.Pre (m : Cqm) : COp → Prop
  | .consOp c _ => c < m.cons.length
  | .removeConstraint c => c < m.cons.length
  | .assignConstraint c d => c < m.cons.length ∧ d < m.cons.length
  | .swapConstraints c d => c < m.cons.length ∧ d < m.cons.length
  | .removeVariable v => v < m.vt.length
  | .fixVariable v _ => v < m.vt.length
  | .setLowerBound v _ => v < m.vt.length
  | .setUpperBound v _ => v < m.vt.length
  | .setVartype v _ => v < m.vt.length
  | _ => True

def crun (m : Cqm) (ops : List COp) : Cqm := ops.foldl cstep m

def crun? : Option Cqm → List COp → Option Cqm
  | r, [] => r
  | none, _ => none
  | some m, op :: t => crun? (m.cstep? op) t

/-- every call of the sequence meets its precondition in the state it is issued in -/
def PreAll : Cqm → List COp → Prop
  | _, [] => True
  | m, op :: t => COp.Pre m op ∧ PreAll (m.cstep op) t

end Cqm
