import DimodModel.Generators

/-! # C17 — the random generators: deterministic post-processing of an explicit draw stream (core Lean only)

Anchors: `dimod/generators/random.py` (`uniform`, `randint`, `ran_r`, `power_r`, `doped`, `gnm_random_bqm`,
`gnp_random_bqm`), `knapsack.py:random_knapsack`, `multi_knapsack.py:random_multi_knapsack`,
`binpacking.py:random_bin_packing`.

The NumPy generator is a *contract*: a stream `σ : Nat → Rat` of the scalars it returns, in the order the
code consumes them (`uniform(low, high, size=k)` consumes `k` scalars of `[low, high)`, `randint(a, b, size=k)`
`k` integers of `[a, b)`, `choice(values, size=k)` `k` indices, `randint(bound)` one integer of `[0, bound)`).
Everything dimod does with the draws is modelled as coded: which variable / edge receives which draw, the
index → value maps of `ran_r` / `power_r` / `doped`, the pair selection of `gnm_random_bqm` (selection sampling
over all pairs, D39 repair), the edge test of `gnp_random_bqm`, the capacities of the random knapsacks.
Every generator returns the calls it makes and the number of scalars it consumed. -/

namespace Rnd
open Pen Gen

abbrev Stream := Nat → Rat

/-- the `k` scalars starting at position `start` -/
def takeS (σ : Stream) (start k : Nat) : List Rat := (List.range k).map (fun i => σ (start + i))

/-- `BinaryQuadraticModel.from_numpy_vectors(ldata, (irow, icol, qdata), offset, vartype, variable_order=variables)`
    with `irow, icol` the positions of the edge ends: linear biases by position, one `add_quadratic` per edge -/
def fromVectors (vars : List Label) (ldata : List Rat) (edges : List (Label × Label)) (qdata : List Rat) (off : Rat) :
    List (PTerm Label) :=
  (vars.zip ldata).map (fun p => PTerm.lin p.1 p.2)
  ++ (edges.zip qdata).map (fun p => PTerm.quad p.1.1 p.1.2 p.2)
  ++ [PTerm.const off]

/-- `uniform(graph, vartype, low, high, seed)` and `randint(graph, vartype, low, high, seed)`: `len(variables)`
    draws for the linear biases, `len(edges)` for the quadratic ones, one for the offset — in this order -/
def graphGen (vars : List Label) (edges : List (Label × Label)) (σ : Stream) : List (PTerm Label) × Nat :=
  (fromVectors vars (takeS σ 0 vars.length) edges (takeS σ vars.length edges.length) (σ (vars.length + edges.length)),
   vars.length + edges.length + 1)

/-- `rvals[i]` of `ran_r` / `power_r`: `[-r, …, -1, 1, …, r]` -/
def rval (r : Nat) (i : Nat) : Rat := if i < r then ((i : Int) - (r : Int) : Int) else ((i : Int) - (r : Int) + 1 : Int)

def idxOf (d : Rat) : Nat := d.floor.toNat

/-- `ran_r(r, graph, seed)` / `power_r(r, graph, seed)`: `choice(rvals, size=len(edges))` — one index draw per
    edge; linear biases and offset 0 (the two differ in the distribution of the index only); `none` = `r < 1` -/
def ranR (r : Nat) (vars : List Label) (edges : List (Label × Label)) (σ : Stream) : Option (List (PTerm Label) × Nat) :=
  if r < 1 then none else
  some (fromVectors vars (vars.map (fun _ => 0)) edges ((takeS σ 0 edges.length).map (fun d => rval r (idxOf d))) 0, edges.length)

/-- `doped(p, graph, seed, fm)`: per edge `set_linear(u, 0); set_linear(v, 0); add_interaction(u, v, choice([1, -1], p=…))`
    — one index draw per edge (0 ↦ 1, 1 ↦ −1) -/
def doped (edges : List (Label × Label)) (σ : Stream) : List (PTerm Label) × Nat :=
  (((List.range edges.length).zip edges).flatMap (fun p =>
      [PTerm.lin p.2.1 0, PTerm.lin p.2.2 0, PTerm.quad p.2.1 p.2.2 (if idxOf (σ p.1) = 0 then 1 else -1)]),
   edges.length)

/-- the pairs `(ui, vi)`, `ui < vi`, in the row order of the adjacency matrix -/
def pairsRow (n : Nat) : List (Nat × Nat) :=
  (List.range n).flatMap (fun i => ((List.range n).filter (fun j => i < j)).map (fun j => (i, j)))

/-- the selection loop of `gnm_random_bqm`: pair number `t` is taken iff `randint(N − t) < m − k`; stops
    when `m` pairs are taken; returns the pairs taken and the next stream position -/
def gnmLoop (m : Nat) (σ : Stream) : List (Nat × Nat) → Nat → Nat → List (Nat × Nat) × Nat
  | [], _, pos => ([], pos)
  | p :: rest, k, pos =>
    if σ pos < ((m - k : Nat) : Rat) then
      (if k + 1 = m then ([p], pos + 1)
       else let r := gnmLoop m σ rest (k + 1) (pos + 1); (p :: r.1, r.2))
    else gnmLoop m σ rest k (pos + 1)

/-- `gnm_random_bqm(labels, num_interactions, vartype, random_state)` with the default bias generator:
    `uniform(size=n)` linear, `uniform(size=m)` quadratic, the selection draws, `uniform(size=1)` offset -/
def gnm (labels : List Label) (numInter : Nat) (σ : Stream) : List (PTerm Label) × Nat :=
  let n := labels.length
  let m := min (n * (n - 1) / 2) numInter
  let lin := (labels.zip (takeS σ 0 n)).map (fun p => PTerm.lin p.1 p.2)
  let sel := if m = 0 then (([] : List (Nat × Nat)), n + m) else gnmLoop m σ (pairsRow n) 0 (n + m)
  let quad := (sel.1.zip (takeS σ n m)).map (fun p =>
    PTerm.quad (labels.getD p.1.1 (Label.int 0)) (labels.getD p.1.2 (Label.int 0)) p.2)
  (lin ++ quad ++ [PTerm.const (σ sel.2)], sel.2 + 1)

/-- the rows of `gnp_random_bqm`: row `v` consumes `n − v − 1` draws, neighbour `w` exists iff its draw `< p` -/
def gnpRows (n : Nat) (p : Rat) (σ : Stream) : Nat → Nat → List (Nat × Nat)
  | 0, _ => []
  | rows + 1, pos =>
    let v := n - (rows + 1)
    let cnt := n - v - 1
    ((List.range cnt).filter (fun i => σ (pos + i) < p)).map (fun i => (v, v + 1 + i)) ++ gnpRows n p σ rows (pos + cnt)

/-- `gnp_random_bqm(labels, p, vartype, random_state)` with the default bias generator -/
def gnp (labels : List Label) (p : Rat) (σ : Stream) : List (PTerm Label) × Nat :=
  let n := labels.length
  let e := gnpRows n p σ n 0
  let pos := n * (n - 1) / 2
  let lin := (labels.zip (takeS σ pos n)).map (fun p => PTerm.lin p.1 p.2)
  let quad := (e.zip (takeS σ (pos + n) e.length)).map (fun p =>
    PTerm.quad (labels.getD p.1.1 (Label.int 0)) (labels.getD p.1.2 (Label.int 0)) p.2)
  (lin ++ quad ++ [PTerm.const (σ (pos + n + e.length))], pos + n + e.length + 1)

/-- `random_knapsack(num_items, seed, value_range, weight_range, tightness_ratio)`: `integers(*value_range, n)`,
    `integers(*weight_range, n)`, `capacity = int(sum(weights) · ratio)` -/
def randomKnapsack (n : Nat) (ratio : Rat) (σ : Stream) : Option GCqm × Nat :=
  let values := takeS σ 0 n
  let weights := takeS σ n n
  let cap : Rat := ((weights.foldl (· + ·) 0 * ratio).floor : Int)
  (knapsack values weights cap, 2 * n)

/-- `random_multi_knapsack(num_items, num_bins, seed, value_range, weight_range)`: values, weights, then
    `integers(cap_low, cap_high, num_bins)` capacities -/
def randomMultiKnapsack (n bins : Nat) (σ : Stream) : Option GCqm × Nat :=
  (multiKnapsack (takeS σ 0 n) (takeS σ n n) (takeS σ (2 * n) bins), 2 * n + bins)

/-- `random_bin_packing(num_items, seed, weight_range)`: weights; the capacity `int(n · mean(weights) / 5)` is
    computed in floating point by the code and passed through here as `capacity` -/
def randomBinPacking (n : Nat) (capacity : Rat) (σ : Stream) : GCqm × Nat :=
  (binPacking (takeS σ 0 n) capacity, n)

end Rnd
