import DimodModel.JsonObject

/-! # The CQM and DQM header dictionaries as JSON dictionaries, and what the loaders read out of them  (C09)

`ConstrainedQuadraticModel.to_file` writes the seven counts (`cqmCounts`), `DiscreteQuadraticModel.to_file`
four counts and the `variables` flag; `json.dumps(data, sort_keys=True)` orders the keys as below.
`from_file` of a CQM uses `data["num_variables"]` and compares the whole dictionary with the counts
recomputed from the loaded model; `from_file` of a DQM only tests `data['variables']`. -/

namespace FileFmt

def natField (n : Nat) : HField := .val (.int (n : Int))

/-- the CQM header dictionary, keys in `sort_keys=True` order -/
def cqmCountsDict (k : CqmCounts) : HDict :=
  [("num_biases", natField k.numBiases), ("num_constraints", natField k.numConstraints),
   ("num_linear_biases_real", natField k.numLinearReal), ("num_quadratic_variables", natField k.numQuadVars),
   ("num_quadratic_variables_real", natField k.numQuadVarsReal), ("num_variables", natField k.numVariables),
   ("num_weighted_constraints", natField k.numWeighted)]

def natOf : Option HField → Option Nat
  | some (.val (.int z)) => if z < 0 then none else some z.toNat
  | _ => none

/-- the header data as the CQM loader uses it: the seven numbers (a dictionary with other keys can
    never equal `expected`, so it is not a header any loader accepts) -/
def cqmCountsOfDict (d : HDict) : Option CqmCounts :=
  if d.length ≠ 7 then none else
  match natOf (d.get? "num_variables"), natOf (d.get? "num_constraints"), natOf (d.get? "num_biases"),
        natOf (d.get? "num_quadratic_variables"), natOf (d.get? "num_quadratic_variables_real"),
        natOf (d.get? "num_linear_biases_real"), natOf (d.get? "num_weighted_constraints") with
  | some a, some b, some c, some e, some f, some g, some i =>
    some { numVariables := a, numConstraints := b, numBiases := c, numQuadVars := e, numQuadVarsReal := f, numLinearReal := g,
           numWeighted := i }
  | _, _, _, _, _, _, _ => none

/-- `json.loads(header.decode('ascii'))` + the use the CQM loader makes of it -/
def parseCqmHeader (b : Bytes) : Option CqmCounts := (loadsDict (asciiChars b)).bind cqmCountsOfDict

/-- the DQM header dictionary -/
def dqmCountsDict (k : DqmCounts) (variables : Bool) : HDict :=
  [("num_case_interactions", natField k.numCaseInteractions), ("num_cases", natField k.numCases),
   ("num_variable_interactions", natField k.numVariableInteractions), ("num_variables", natField k.numVariables),
   ("variables", .bool variables)]

/-- Python truthiness of a header value -/
def fieldTruthy : HField → Bool
  | .bool b => b
  | .val (.int z) => z ≠ 0
  | .val (.str s) => s ≠ ""
  | .val (.arr l) => !l.isEmpty
  | .val (.flt r) => r ≠ "0.0" && r ≠ "-0.0"

/-- `header_data['variables']` (its truth value) together with the dictionary -/
def dqmHeaderOfDict (d : HDict) : Option (Bool × HDict) := (d.get? "variables").map fun f => (fieldTruthy f, d)

def parseDqmHeader (b : Bytes) : Option (Bool × HDict) := (loadsDict (asciiChars b)).bind dqmHeaderOfDict

end FileFmt
