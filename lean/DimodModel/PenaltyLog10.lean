import DimodModel.Penalty
import Generated.SlackRule

/-! Round 8 (C16): the number of `log10` slack variables of `DiscreteQuadraticModel.add_linear_inequality_constraint` as the
    source computes it (over `Generated.SlackRule.dqmNumDigits`, extracted by `harness/translators/slack_rule.py`):
    the exact number of decimal digits `len(str(S))`, or the float pipeline `int(np.ceil(np.log10(S + 1)))`, which is NOT
    modelled (it is the parameter `fl`, any function).  Core Lean only. -/

namespace Pen
open Generated.SlackRule

/-- `len(str(S))` of a non-negative Python int: the number of decimal digits -/
def decDigits (S : Nat) : Nat := if S < 10 then 1 else decDigits (S / 10) + 1
decreasing_by omega

/-- the number of digit variables as the source computes it -/
def numDigitsBy (impl : Log10Impl) (fl : Nat → Nat) (S : Nat) : Nat :=
  match impl with
  | .decimalDigits => decDigits S
  | .floatCeilLog10 => fl S

/-- the loop `for j in range(n): list(range(0, min(S + 1, 10 ** (j + 1)), 10 ** j))[1:]` for a count `n` -/
def slackLog10By (n S : Nat) : List (List Nat) :=
  (List.range n).map (fun j => rangeStepTail (min (S + 1) (10^(j+1))) (10^j))

/-- the digit lists of the DQM log10 method over the extracted rule -/
def slackLog10Dqm (fl : Nat → Nat) (S : Nat) : List (List Nat) := slackLog10By (numDigitsBy dqmNumDigits fl S) S

end Pen
