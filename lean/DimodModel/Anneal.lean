import DimodModel.EnumPost

/-! # C07 — the stochastic reference samplers as state machines over an explicit stream of random draws

Mirror of
* `reference/samplers/simulated_annealing.py`: `SimulatedAnnealingSampler.sample`, `ising_simulated_annealing`
  (β schedule, `sigmas`, adjacency, `greedy_coloring`, the random initial guess, per sweep `energy_diff_h`, per colour
  class `energy_diff_J` and the acceptance test `log(p) < -β·(Δh + ΔJ)`, final `ising_energy`);
* `reference/samplers/random_sampler.py` → `IdentitySampler.sample(initial_states_generator='random')` →
  `core/initialized.py:_random_generator` (`np_rand.choice(values, size=(rem, num_variables))`).

The pseudo-random generator is a *contract*, not a model: the code's calls `random.choice((-1, 1))`,
`math.log(random.uniform(0, 1))` and `RandomState.choice(values, size)` deliver scalars; the model takes them as
explicit inputs — for the annealer keyed by the variable they are drawn for (every variable is drawn for exactly
once per sweep: the colour classes partition the variables), for the random sampler as a row-major stream.
Everything dimod does with the draws is modelled as coded.  Core Lean only. -/

namespace Enum

inductive SaErr where
  | value     -- ValueError
  | zerodiv   -- ZeroDivisionError (`num_sweeps = 1`: `0 * (β1 - β0) / (1 - 1.)`)
  | key       -- KeyError (an interaction with a variable that has no entry in `h`)
deriving DecidableEq

def dictGet (d : List (Label × Rat)) (l : Label) : Rat := ((d.find? (fun p => p.1 = l)).map (·.2)).getD 0
def hasKey (d : List (Label × Rat)) (l : Label) : Bool := (d.find? (fun p => p.1 = l)).isSome

def absR (q : Rat) : Rat := if q < 0 then -q else q

def maxL : List Rat → Rat
  | [] => 0
  | [a] => a
  | a :: b :: t => let m := maxL (b :: t); if a < m then m else a

def sumL : List Rat → Rat
  | [] => 0
  | a :: t => a + sumL t

def dedupL (l : List Label) : List Label := l.foldl (fun acc x => if acc.contains x then acc else acc ++ [x]) []

/-- `sigmas[v]`: `abs(h[v])` plus `abs(J[(a, b)])` once for each end of an interaction that is `v` -/
def sigmaOf (h : List (Label × Rat)) (J : List (Label × Label × Rat)) (v : Label) : Rat :=
  absR (dictGet h v) + sumL (J.map fun (a, b, j) => (if a = v then absR j else 0) + (if b = v then absR j else 0))

def jKeysOK (h : List (Label × Rat)) (J : List (Label × Label × Rat)) : Bool :=
  J.all fun (a, b, _) => hasKey h a && hasKey h b

/-- the two ends of the β schedule: the default `(.1, 2·max σ)` (`0.0` for no variables) or the given pair, both
    of which must be positive -/
def betaEnds (h : List (Label × Rat)) (J : List (Label × Label × Rat)) (br : Option (Rat × Rat)) : Except SaErr (Rat × Rat) :=
  match br with
  | none =>
    if !jKeysOK h J then .error .key
    else .ok (1 / 10, if h.isEmpty then 0 else 2 * maxL (h.map fun (v, _) => sigmaOf h J v))
  | some (a, b) => if a ≤ 0 ∨ b ≤ 0 then .error .value else .ok (a, b)

/-- `[β0 + i·(β1 − β0)/(num_sweeps − 1.) for i in range(num_sweeps)]`.  For `num_sweeps = 1` the single entry is
    `0·(β1 − β0)/0.`: a `ZeroDivisionError` when `β1 − β0` is a Python float, and `nan` (`none`, with a NumPy
    RuntimeWarning) when it is a NumPy scalar — which is the case exactly when `β1` comes from the default
    `2.·max(sigmas)` over biases read from a numeric-dtype model (`npScalar`) -/
def betaSchedule (b0 b1 : Rat) (ns : Int) (npScalar : Bool) : Except SaErr (List (Option Rat)) :=
  if ns ≤ 0 then .error .value
  else if ns = 1 then (if npScalar then .ok [none] else .error .zerodiv)
  else .ok ((List.range ns.toNat).map fun (i : Nat) => some (b0 + ((i : Int) : Rat) * (b1 - b0) / ((ns : Rat) - 1)))

/-- `adj[v]` (a set): the other ends of the interactions `v` takes part in -/
def nbrs (J : List (Label × Label × Rat)) (v : Label) : List Label :=
  dedupL (J.flatMap fun (a, b, _) => (if a = v then [b] else []) ++ (if b = v then [a] else []))

/-! ## `greedy_coloring` -/

structure GC where
  poss : List (Label × List Nat)       -- `possible_colors`, in dict order
  colors : List (Nat × List Label)     -- `colors`, in the order the colours were first used

/-- `min(possible_colors, key=lambda n: len(possible_colors[n]))`: the first entry of minimal size -/
def argMinLen : List (Label × List Nat) → Option (Label × List Nat)
  | [] => none
  | a :: t => match argMinLen t with
    | none => some a
    | some b => if b.2.length < a.2.length then some b else some a

def minNat : List Nat → Option Nat
  | [] => none
  | a :: t => match minNat t with
    | none => some a
    | some b => if b < a then some b else some a

def addColor (colors : List (Nat × List Label)) (c : Nat) (n : Label) : List (Nat × List Label) :=
  if colors.any (fun p => p.1 = c) then colors.map (fun p => if p.1 = c then (p.1, p.2 ++ [n]) else p)
  else colors ++ [(c, [n])]

def gcStep (J : List (Label × Label × Rat)) (st : GC) : Option GC :=
  match argMinLen st.poss with
  | none => none
  | some (n, cs) =>
    match minNat cs with
    | none => none
    | some c =>
      let nb := nbrs J n
      some ⟨(st.poss.filter (fun p => p.1 ≠ n)).map (fun p => if nb.contains p.1 then (p.1, p.2.filter (· ≠ c)) else p),
            addColor st.colors c n⟩

def greedy (J : List (Label × Label × Rat)) : Nat → GC → List (Nat × List Label)
  | 0, st => st.colors
  | fuel + 1, st =>
    if st.poss.isEmpty then st.colors else
    match gcStep J st with
    | none => st.colors
    | some st' => greedy J fuel st'

/-- the colour classes in the order `for color in colors` visits them -/
def colorClasses (h : List (Label × Rat)) (J : List (Label × Label × Rat)) : List (Nat × List Label) :=
  greedy J h.length ⟨h.map (fun (v, _) => (v, List.range h.length)), []⟩

/-! ## one annealing run -/

def jGet (J : List (Label × Label × Rat)) (u v : Label) : Rat :=
  ((J.find? (fun t => t.1 = u ∧ t.2.1 = v)).map (·.2.2)).getD 0

/-- `energy_diff_h[v] = -2 * spins[v] * h[v]` -/
def diffH (h spins : List (Label × Rat)) (v : Label) : Rat := -2 * dictGet spins v * dictGet h v

/-- `energy_diff_J[v0]`: `-2.` times the sum over `adj[v0]` of `spins[v0]·spins[v1]·J[(v0, v1)]` (if present) plus
    `spins[v0]·spins[v1]·J[(v1, v0)]` (if present) -/
def diffJ (J : List (Label × Label × Rat)) (spins : List (Label × Rat)) (v : Label) : Rat :=
  -2 * sumL ((nbrs J v).map fun w => dictGet spins v * dictGet spins w * jGet J v w + dictGet spins v * dictGet spins w * jGet J w v)

/-- one colour class: the `ΔJ` of all its nodes are computed first, then each node `v` of the class is flipped iff
    its draw `log(p)` is below `-1.·β·(Δh[v] + ΔJ[v])` -/
def accept (beta : Option Rat) (logp delta : Rat) : Bool :=
  match beta with
  | none => false                       -- every comparison with `nan` is false
  | some b => decide (logp < -1 * b * delta)

def classStep (J : List (Label × Label × Rat)) (beta : Option Rat) (dh : Label → Rat) (draw : Label → Rat)
    (spins : List (Label × Rat)) (nodes : List Label) : List (Label × Rat) :=
  spins.map fun (l, s) =>
    if nodes.contains l ∧ accept beta (draw l) (dh l + diffJ J spins l) = true then (l, s * -1) else (l, s)

/-- one sweep: `Δh` from the spins at the start of the sweep, then the classes in colour order -/
def sweep (h : List (Label × Rat)) (J : List (Label × Label × Rat)) (classes : List (Nat × List Label)) (beta : Option Rat)
    (draw : Label → Rat) (spins : List (Label × Rat)) : List (Label × Rat) :=
  classes.foldl (fun sp c => classStep J beta (diffH h spins) draw sp c.2) spins

/-- the sweeps, one per β; `σ i v` = the `log(uniform)` drawn for variable `v` in sweep `i` -/
def annealLoop (h : List (Label × Rat)) (J : List (Label × Label × Rat)) (classes : List (Nat × List Label)) :
    List (Option Rat) → (Nat → Label → Rat) → Nat → List (Label × Rat) → List (Label × Rat)
  | [], _, _, sp => sp
  | b :: bs, σ, i, sp => annealLoop h J classes bs σ (i + 1) (sweep h J classes b (σ i) sp)

/-- `{v: random.choice((-1, 1)) for v in h}`: index draw 0 ↦ −1, otherwise ↦ 1 -/
def initSpins (h : List (Label × Rat)) (c : Label → Rat) : List (Label × Rat) :=
  h.map fun (v, _) => (v, if c v = 0 then -1 else 1)

/-- the draws of one read: the initial choices and the acceptance draws -/
structure Draws where
  init : Label → Rat
  acc : Nat → Label → Rat

/-- `ising_simulated_annealing(h, J, beta_range, num_sweeps)`: the final spins (the energy is recomputed from them
    by `ising_energy`, see `saAssemble`) -/
def isingSA (h : List (Label × Rat)) (J : List (Label × Label × Rat)) (br : Option (Rat × Rat)) (ns : Int) (np : Bool) (d : Draws) :
    Except SaErr (List (Label × Rat)) :=
  match betaEnds h J br with
  | .error e => .error e
  | .ok (b0, b1) =>
    match betaSchedule b0 b1 ns (np && br.isNone && !h.isEmpty) with
    | .error e => .error e
    | .ok betas =>
      if !jKeysOK h J then .error .key
      else .ok (annealLoop h J (colorClasses h J) betas d.acc 0 (initSpins h d.init))

/-- all reads -/
def saReads (h : List (Label × Rat)) (J : List (Label × Label × Rat)) (br : Option (Rat × Rat)) (ns : Int) (np : Bool) :
    List Draws → Except SaErr (List (List (Label × Rat)))
  | [] => .ok []
  | d :: ds =>
    match isingSA h J br ns np d with
    | .error e => .error e
    | .ok sp => match saReads h J br ns np ds with
      | .error e => .error e
      | .ok rest => .ok (sp :: rest)

/-- `SimulatedAnnealingSampler.sample(bqm, beta_range, num_reads, num_sweeps)`; `h`, `J` = what `bqm.to_ising()`
    returns as dicts (one entry per variable / interaction), `np` = the biases are NumPy scalars (numeric dtype),
    `reads` = the draws of the `num_reads` runs -/
def saSample (m : Bqm) (h : List (Label × Rat)) (J : List (Label × Label × Rat)) (br : Option (Rat × Rat)) (ns : Int)
    (np : Bool) (reads : List Draws) : Except SaErr (List Row) :=
  if reads.length < 1 then .error .value else
  match saReads h J br ns np reads with
  | .error e => .error e
  | .ok spins => .ok (saAssemble m spins)

/-! ## RandomSampler -/

/-- `values = sorted(vartype.value)`; `choice(values, …)` = `values[index draw]` -/
def coin (spin : Bool) (d : Rat) : Rat := if d = 0 then (if spin then -1 else 0) else 1

/-- `np_rand.choice(values, size=(rem, n))`: `rem` rows of `n` draws, row-major -/
def randomRows (spin : Bool) (n rem : Nat) (σ : Nat → Rat) : List (List Rat) :=
  (List.range rem).map fun i => (List.range n).map fun j => coin spin (σ (i * n + j))

/-- `RandomSampler.sample(bqm, num_reads, seed)` = `IdentitySampler().sample(bqm, num_reads=…, seed=…,
    initial_states_generator='random')` with no initial states: `labels` = `bqm.variables` -/
def randomSample (m : Bqm) (labels : List Label) (numReads : Nat) (σ : Nat → Rat) : Except Unit (List Row) :=
  parseInitialStates m labels [] none .random (some numReads) (randomRows m.spin labels.length numReads σ)

/-! ## the remaining entry points: `PolySampler.sample_hising` / `sample_hubo`, `NullSampler` -/

/-- `BinaryPolynomial.from_hising(h, J)`: `poly = {(k,): v for k, v in h.items()}; poly.update(J)` — a term of `J`
    that is the 1-tuple of a variable of `h` replaces that variable's entry -/
def fromHising (h : List (Label × Rat)) (J : Poly) : Poly :=
  ((h.filter fun (v, _) => !J.any (fun t => t.1 = [v])).map fun (v, b) => ([v], b)) ++ J

/-- `sample_hising(h, J)` = `sample_poly(BinaryPolynomial.from_hising(h, J))` -/
def sampleHising (child : Poly → List Row) (h : List (Label × Rat)) (J : Poly) : List Row := child (fromHising h J)

/-- `sample_hubo(H)` = `sample_poly(BinaryPolynomial.from_hubo(H))` -/
def sampleHubo (child : Poly → List Row) (H : Poly) : List Row := child H

/-- `NullSampler.sample(bqm)` = `SampleSet.from_samples([], energy=[], vartype=bqm.vartype)` relabelled to the
    problem's variables: no rows -/
def nullSample (_m : Bqm) : List Row := []

end Enum
