import DimodModel.Sym

/-! # C06 — operators as programs over a store of model objects

`Sym.build` is functional, so "operands are left unmodified" cannot even be stated there.  This file
models the *object level* of the operator overloads: each non-in-place operator body is the sequence of
allocations (`copy`, `from_bqm`, a fresh product) and in-place mutations (`update`, `scale`,
`offset +=`) it performs, in the code's order; in-place operators mutate their left operand.
`DimodProofs/SymStore.lean` proves that the programs of the non-in-place operators write only to
objects they allocated themselves and compute the values of `Sym.mAdd` / `mSub` / `mMul`. -/

namespace Sym

abbrev Store := List Model

inductive Instr where
  | copy (src : Nat)                  -- allocate `src.copy()`
  | fromBqm (src : Nat)               -- allocate `QuadraticModel.from_bqm(src)`
  | mulNew (a b : Nat)                -- allocate the product built by the double loop of `__mul__`
  | scale (dst : Nat) (q : Rat)       -- `dst.scale(q)`
  | update (dst src : Nat)            -- `dst.update(src)`
  | addOffset (dst : Nat) (q : Rat)   -- `dst.offset += q`
  | newQM                             -- allocate `QuadraticModel()` (the expression views' operators start from it)

/-- the object an instruction mutates (allocations mutate nothing) -/
def Instr.target : Instr → Option Nat
  | .scale d _ => some d
  | .update d _ => some d
  | .addOffset d _ => some d
  | _ => none

/-- `update` dispatches on the class of the receiver -/
def upd (m o : Model) : Except Err Model := if m.isQM then qmUpdate m o else .ok (bqmUpdate m o)

/-- the product of two objects of the same class (`QuadraticModel.__mul__` / the same-vartype branch of
    `BinaryQuadraticModel.__mul__`) -/
def mulObj (a b : Model) : Except Err Model :=
  if a.isQM then qmMul a b
  else if ¬ (a.isLinear ∧ b.isLinear) then .error .type else bqmMulSame a b

def setAt (h : Store) (i : Nat) (m : Model) : Store := h.set i m

def step (h : Store) : Instr → Except Err Store
  | .copy s => match h[s]? with | some m => .ok (h ++ [m]) | none => .error .value
  | .newQM => .ok (h ++ [emptyQM])
  | .fromBqm s => match h[s]? with | some m => .ok (h ++ [m.toQM]) | none => .error .value
  | .mulNew a b =>
    match h[a]?, h[b]? with
    | some x, some y => match mulObj x y with | .ok m => .ok (h ++ [m]) | .error e => .error e
    | _, _ => .error .value
  | .scale d q => match h[d]? with | some m => .ok (setAt h d (m.scale q)) | none => .error .value
  | .addOffset d q => match h[d]? with | some m => .ok (setAt h d (m.addOffset q)) | none => .error .value
  | .update d s =>
    match h[d]?, h[s]? with
    | some m, some o => match upd m o with | .ok m' => .ok (setAt h d m') | .error e => .error e
    | _, _ => .error .value

def exec (h : Store) : List Instr → Except Err Store
  | [] => .ok h
  | i :: is => match step h i with | .ok h' => exec h' is | .error e => .error e

/-! ## the operator bodies (`a`, `b` = positions of the operands, `n` = first free position) -/

/-- `BQM.__add__(BQM)` same vartype, `QM.__add__(QM)`: `new = self.copy(); new.update(other)` -/
def progAddSame (a b n : Nat) : List Instr := [.copy a, .update n b]
/-- `BQM.__add__(BQM)` different vartypes: `qm = from_bqm(self); qm += from_bqm(other)` -/
def progAddPromoteBoth (a b n : Nat) : List Instr := [.fromBqm a, .fromBqm b, .update n (n + 1)]
/-- `BQM.__add__(QM)`: `QuadraticModel.from_bqm(self) + other` -/
def progAddPromoteLeft (a b n : Nat) : List Instr := [.fromBqm a, .copy n, .update (n + 1) b]
/-- `BQM.__radd__(QM)`: `qm = other.copy(); qm += from_bqm(self)` -/
def progAddPromoteRight (a b n : Nat) : List Instr := [.copy a, .fromBqm b, .update n (n + 1)]
/-- `__sub__`: `new = self.copy(); new.scale(-1); new.update(other); new.scale(-1)` -/
def progSubSame (a b n : Nat) : List Instr := [.copy a, .scale n (-1), .update n b, .scale n (-1)]
def progSubPromoteBoth (a b n : Nat) : List Instr := [.fromBqm a, .fromBqm b, .scale n (-1), .update n (n + 1), .scale n (-1)]
def progSubPromoteLeft (a b n : Nat) : List Instr := [.fromBqm a, .copy n, .scale (n + 1) (-1), .update (n + 1) b, .scale (n + 1) (-1)]
def progSubPromoteRight (a b n : Nat) : List Instr := [.fromBqm b, .copy a, .scale (n + 1) (-1), .update (n + 1) n, .scale (n + 1) (-1)]
/-- model ± number, number − model -/
def progAddNum (a : Nat) (q : Rat) (n : Nat) : List Instr := [.copy a, .addOffset n q]
def progRsubNum (a : Nat) (q : Rat) (n : Nat) : List Instr := [.copy a, .scale n (-1), .addOffset n q]
/-- model * number, -model, model / number -/
def progScale (a : Nat) (q : Rat) (n : Nat) : List Instr := [.copy a, .scale n q]
/-- products -/
def progMulSame (a b _n : Nat) : List Instr := [.mulNew a b]
def progMulPromoteLeft (a b n : Nat) : List Instr := [.fromBqm a, .mulNew n b]
def progMulPromoteRight (a b n : Nat) : List Instr := [.fromBqm b, .mulNew n a]
def progMulPromoteBoth (a b n : Nat) : List Instr := [.fromBqm b, .fromBqm a, .mulNew n (n + 1)]

/-- the in-place forms that do mutate: `self.update(other)`, `self.scale(q)`, `self.offset += q`,
    `scale(-1); update; scale(-1)` -/
def progIaddSame (a b : Nat) : List Instr := [.update a b]
def progIsubSame (a b : Nat) : List Instr := [.scale a (-1), .update a b, .scale a (-1)]

/-- all write targets are objects allocated by the program itself -/
def WritesFresh (n : Nat) (p : List Instr) : Bool := p.all fun i => match i.target with | some d => decide (n ≤ d) | none => true

/-! ## the remaining non-in-place forms -/

/-- `quicksum([first, *rest])` when every `+=` is in place: `model = copy.deepcopy(first); for obj in rest: model += obj` -/
def progQuicksum (first : Nat) (rest : List Nat) (n : Nat) : List Instr := .copy first :: rest.map (fun b => .update n b)
/-- `quicksum([a, b])` with a BQM accumulator and a QM item: `BQM.__iadd__` declines, `model = model + obj` builds
    `QuadraticModel.from_bqm(model) + obj` -/
def progQuicksumPromote (a b n : Nat) : List Instr := [.copy a, .fromBqm n, .copy (n + 1), .update (n + 2) b]
/-- `a ** 2` = `a * a` (same object twice) -/
def progPow2 (a n : Nat) : List Instr := progMulSame a a n
/-- `view + other`, `view - other`, `view + q`, `view - q` (`_ExpressionMixin`): `qm = QuadraticModel(); qm.update(self)`, then
    the in-place operator on the fresh `qm` (with `from_bqm(other)` for a BQM operand) -/
def progViewAdd (a b n : Nat) : List Instr := [.newQM, .update n a, .update n b]
def progViewAddBqm (a b n : Nat) : List Instr := [.newQM, .update n a, .fromBqm b, .update n (n + 1)]
def progViewSub (a b n : Nat) : List Instr := [.newQM, .update n a, .scale n (-1), .update n b, .scale n (-1)]
def progViewSubBqm (a b n : Nat) : List Instr := [.newQM, .update n a, .fromBqm b, .scale n (-1), .update n (n + 1), .scale n (-1)]
def progViewAddNum (a : Nat) (q : Rat) (n : Nat) : List Instr := [.newQM, .update n a, .addOffset n q]
/-- `other + view`, `other - view` (`__radd__`, `__rsub__`): the copy `qm`, then the operator of `other` with `qm` as right operand -/
def progViewRadd (a b n : Nat) : List Instr := [.newQM, .update n a] ++ progAddSame b n (n + 1)
def progViewRsub (a b n : Nat) : List Instr := [.newQM, .update n a] ++ progSubSame b n (n + 1)
def progViewRsubNum (a : Nat) (q : Rat) (n : Nat) : List Instr := [.newQM, .update n a] ++ progRsubNum n q (n + 1)

end Sym
