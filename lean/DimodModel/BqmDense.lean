import DimodModel.Bqm

/-! `QuadraticModelBase::add_quadratic_from_dense` (abc.h) AS CODED, with its structure-dependent fast path: `is_linear()` is
    evaluated once, before the loop; a model without interactions gets every term by `add_quadratic_back` (appended to both
    neighbourhoods, no search - the asserts of `add_quadratic_back` are compiled out of the extension), any other model by the
    sorted insert `add_quadratic`.  `Bqm.addQuadraticFromDense` (DimodModel/Bqm.lean) always uses the sorted insert; that the two
    agree on every model is `Bqm.addQuadraticFromDenseCoded_eq` (DimodProofs/BqmDense.lean).  Core Lean only. -/

namespace Bqm

/-- `add_quadratic_back(u, v, b)`, `u ≠ v`: one entry appended to each of the two neighbourhoods -/
def addQBack (m : Bqm) (u v : Nat) (b : Rat) : Bqm :=
  { m with adj := modifyAt (modifyAt m.adj u (· ++ [(v, b)])) v (· ++ [(u, b)]) }

/-- the upper triangle in the order of the two nested loops -/
def upperPairs (k : Nat) : List (Nat × Nat) :=
  (List.range k).flatMap fun u => ((List.range k).filter (u < ·)).map fun v => (u, v)

/-- `dense[u * k + v] + dense[v * k + u]` -/
def denseTerm (k : Nat) (dense : List Rat) (p : Nat × Nat) : Rat :=
  dense.getD (p.1 * k + p.2) 0 + dense.getD (p.2 * k + p.1) 0

/-- the loop with `add_quadratic_back` (taken when `is_linear()`).  The diagonal call `add_quadratic_back(u, u, dense[u][u])`
    is left out: cyBQM rejects a non-zero diagonal before, and with bias 0 the call adds 0 to the offset (SPIN) or to the
    linear bias (BINARY). -/
def denseBack (m : Bqm) (k : Nat) (dense : List Rat) : Bqm :=
  (upperPairs k).foldl (fun acc p => if denseTerm k dense p ≠ 0 then acc.addQBack p.1 p.2 (denseTerm k dense p) else acc) m

/-- the loop with the sorted insert `add_quadratic` (taken otherwise) -/
def denseInsert (m : Bqm) (k : Nat) (dense : List Rat) : Bqm :=
  (upperPairs k).foldl (fun acc p => if denseTerm k dense p ≠ 0 then acc.addQ p.1 p.2 (denseTerm k dense p) else acc) m

/-- `add_quadratic_from_dense` (cyBQM over abc.h) as coded: checks as `Bqm.addQuadraticFromDense`, then the branch on
    `is_linear()` -/
def addQuadraticFromDenseCoded (m : Bqm) (k : Nat) (dense : List Rat) : Bqm × Option ErrC :=
  if (List.range k).any (fun u => dense.getD (u * (k + 1)) 0 ≠ 0) then (m, some .value) else
  if !m.isRange then (m, some .runtime) else
  let m := if k > m.n then (m.resize k).1 else m
  (if m.isLinear then m.denseBack k dense else m.denseInsert k dense, none)

/-- the call for a source of the given shape (`Generated.DenseBranch.shape`, extracted from abc.h by
    harness/translators/c04_dense_branch.py): 0 = sorted insert only, 1 = the `is_linear()` branch as coded; any other decision
    structure is not modelled (`none`) -/
def addQuadraticFromDenseGen (shape : Nat) (m : Bqm) (k : Nat) (dense : List Rat) : Option (Bqm × Option ErrC) :=
  match shape with
  | 0 => some (m.addQuadraticFromDense k dense)
  | 1 => some (m.addQuadraticFromDenseCoded k dense)
  | _ => none

end Bqm
