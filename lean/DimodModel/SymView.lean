import DimodModel.SymCmp

/-! # C06 — expression views as operands of operators, comparisons and `set_objective`; `sum` with a start value

Mirror of
* `_ExpressionMixin.__add__/__radd__/__sub__/__rsub__` (`dimod/constrained/expression.py`): these are the `.view` rows of
  `valAdd`/`valSub` in `Sym.lean` (`qm = QuadraticModel(); qm.update(self); qm += other | other + qm | …`);
* the builtin `sum(items, start)`: `acc = start; for it in items: acc = acc + it` (binary `+`, never `+=`; the default
  start is the int 0, so `sum(views)` begins with `0 + view` → `view.__radd__(0)`);
* `ConstrainedQuadraticModel.set_objective(model)` / `add_constraint(comparison)` fed with the value of `view op x`
  (always a fresh `QuadraticModel`): the CQM stores a copy which the views `cqm.objective` / `cqm.constraints[l].lhs` read.

Core Lean only. -/

namespace Sym

/-- builtin `sum(items, start)` on evaluated operands -/
def sumVals (start : Val) (items : List Val) : Except Err Val := items.foldlM valAdd start

/-- the nested `+` tree `((start + i0) + i1) + …` -/
def sumExpr (start : SymExpr) (items : List SymExpr) : SymExpr := items.foldl .add start

/-- `cqm.set_objective(v)` then `cqm.objective` (`obj = true`), or `cqm.add_constraint_from_model(v, …)` then
    `cqm.constraints[label].lhs`: a model is copied into the CQM and read back through a view; a number or a view
    has no `.data` → TypeError/AttributeError (the harness never feeds those) -/
def setView (obj : Bool) : Val → Except Err Val
  | .mdl m => .ok (.view obj m.toQM)
  | _ => .error .type

/-- a variable-free BQM carrying only an offset (`BQM(vartype)` with `.offset = c`, or every variable fixed) -/
def constBQM (vt : VT) (c : Rat) : Model := ⟨false, vt, [], [], c⟩

/-- the sum of the energies of a list of operands -/
def sumEvals (x : Label → Rat) : List Val → Rat
  | [] => 0
  | v :: vs => v.eval x + sumEvals x vs

end Sym
