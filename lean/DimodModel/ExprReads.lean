import DimodModel.Cqm
import DimodModel.Energy
import Generated.ExprReindex

/-! Read paths of a CQM expression (property C01, round 8).

`Expression` (expression.h) keeps its variables twice: `variables_` (position → model index) and `indices_`
(model index → position, a hash map).  The energy loops (`Expression::energy`, `cyexpression._energies`) and
`iter_quadratic` walk positions; every label-based accessor — `get_linear` (hence `iter_linear`, the `linear` mapping,
`to_polystring`), `get_quadratic` (hence the `quadratic` mapping's and `adj`'s `__getitem__`), `degree`, `has_variable` —
goes through `indices_.find`.  "The coefficients the expression itself reports" are therefore two readings; this file
states both on C05's state model (`Expr` of `DimodModel/Cqm.lean`, which carries `idx` and updates it exactly as the three
loops of `reindex_variables` do) and restates `reindex_variables` over the guards regenerated from the source.
Core Lean only. -/

namespace ExprReads
open En

/-- the expression as the energy loops see it: base model + `variables_` -/
def toEn (e : _root_.Expr) : En.Expr Rat :=
  { vars := e.vars, qb := { lin := e.qb.lin, adj := some e.qb.adj, off := e.qb.off } }

/-- `[get_linear(v) for v in variables]` — what `iter_linear`, the `linear` mapping and `to_polystring` report:
    `Expression::linear(g)` = `indices_.find(g)`, 0 when absent -/
def labelLin (e : _root_.Expr) : List Rat := e.vars.map e.linear

/-- the interactions `iter_quadratic` lists, each bias re-read by label as `get_quadratic(u, v)` does
    (two `indices_` lookups, then the neighbourhood) — the `quadratic` mapping's `__getitem__`, `adj[u][v]` -/
def labelQuad (e : _root_.Expr) : List (Nat × Nat × Rat) :=
  (toEn e).qb.iterQuadratic.map fun t => (t.1, t.2.1, e.quadratic (e.vars.getD t.1 0) (e.vars.getD t.2.1 0))

/-- the polynomial of the label-based readings at the sample `x` (indexed by model index) -/
def labelPoly (e : _root_.Expr) (x : Nat → Rat) : Rat :=
  polyEval e.qb.off (labelLin e) (labelQuad e) (fun i => x (e.vars.getD i 0))

/-- the polynomial of the positional readings (`iter_quadratic`, base `linear(i)`) -/
def positionPoly (e : _root_.Expr) (x : Nat → Rat) : Rat :=
  polyEval e.qb.off e.qb.lin (toEn e).qb.iterQuadratic (fun i => x (e.vars.getD i 0))

/-- `Expression::has_variable(g)` / `degree(g)`: through `indices_` -/
def degree (e : _root_.Expr) (g : Nat) : Nat :=
  match e.idx.get? g with
  | some i => (e.qb.adj.getD i []).length
  | none => 0

/-! ## `reindex_variables` over the guards regenerated from expression.h -/

open _root_.Expr in
/-- loops 1–3 with the generated guards; `start` as computed by the caller -/
def reindexTailGen (start : Nat) (e : _root_.Expr) (v : Nat) : _root_.Expr :=
  { e with
    vars := shiftDown v e.vars,
    idx := setRange (shiftDown v e.vars) (fun _ => true)
             (List.range' start ((shiftDown v e.vars).length - start))
             (setRange (shiftDown v e.vars) (fun u => Generated.ExprReindex.beforeGuard u v) (List.range start)
               (e.vars.foldl (fun m u => if Generated.ExprReindex.eraseGuard u v then m.erase u else m) e.idx)) }

/-- `reindex_variables(v)` with the generated default of `start` -/
def reindexGen (e : _root_.Expr) (v : Nat) : _root_.Expr :=
  match e.idx.get? v with
  | some i => reindexTailGen i { vars := Bqm.eraseIdx e.vars i, idx := e.idx.erase v, qb := e.qb.removeVar i } v
  | none => reindexTailGen (Generated.ExprReindex.startDefault e.vars.length) e v

/-- the shape of seeded change C01-9: `start` defaults to 0 and loop 2 re-inserts only labels `> v` -/
def reindexSeed (e : _root_.Expr) (v : Nat) : _root_.Expr :=
  let tail (start : Nat) (e : _root_.Expr) : _root_.Expr :=
    { e with
      vars := _root_.Expr.shiftDown v e.vars,
      idx := _root_.Expr.setRange (_root_.Expr.shiftDown v e.vars) (fun _ => true)
               (List.range' start ((_root_.Expr.shiftDown v e.vars).length - start))
               (_root_.Expr.setRange (_root_.Expr.shiftDown v e.vars) (fun u => decide (u > v)) (List.range start)
                 (_root_.Expr.eraseAbove v e.vars e.idx)) }
  match e.idx.get? v with
  | some i => tail i { vars := Bqm.eraseIdx e.vars i, idx := e.idx.erase v, qb := e.qb.removeVar i }
  | none => tail 0 e

/-- an expression built by the view's own mutators in the order given (`enforce_variable` appends) -/
def build (ops : List (Nat × Rat)) : _root_.Expr := ops.foldl (fun e p => e.addLinear p.1 p.2) {}

/-- the answer line of the driver: `variables_`, the label readings of every model index below `n`, the positional linear
    biases, and the energy at `x` by the loop and by the label readings -/
def report (e : _root_.Expr) (n : Nat) (x : Nat → Rat) : List Nat × List Rat × List Rat × Rat × Rat :=
  (e.vars, (List.range n).map e.linear, e.qb.lin, (toEn e).energyCpp x, labelPoly e x)

/-! ## one step of a history on a state rebuilt from its readings (driver line `exprstep`) -/

/-- the state of an expression rebuilt from what it reports: variables in their private order with their linear biases
    (`enforce_variable` appends), then the interactions in `iter_quadratic` order (model indices), then the offset -/
def rebuild (n : Nat) (vars : List Nat) (lin : List Rat) (quad : List (Nat × Nat × Rat)) (off : Rat) : _root_.Expr :=
  ((quad.foldl (fun (e : _root_.Expr) t => e.addQuadratic (List.replicate n .integer) t.1 t.2.1 t.2.2)
      ((vars.zip lin).foldl (fun (e : _root_.Expr) p => e.addLinear p.1 p.2) {})).addOffset off)

inductive StepOp
  | remove (v : Nat)              -- parent `remove_variable(v)`: `reindex_variables(v)`
  | fix (v : Nat) (a : Rat)       -- parent `fix_variable(v, a)`: `substitute_variable(v, 0, a)`, then `reindex_variables(v)`
  | viewRemove (v : Nat)          -- the view's own `remove_variable(v)` (the model keeps the variable)

def applyOp (e : _root_.Expr) : StepOp → _root_.Expr
  | .remove v => reindexGen e v
  | .fix v a => reindexGen (e.substitute v 0 a) v
  | .viewRemove v => e.removeVar v

/-- label readings of every pair `g ≤ h < n` with a non-zero answer -/
def labelQuadAll (e : _root_.Expr) (n : Nat) : List (Nat × Nat × Rat) :=
  ((List.range n).flatMap fun g => (List.range n).filterMap fun h =>
    if g ≤ h then some (g, h, e.quadratic g h) else none).filter fun t => t.2.2 ≠ 0

end ExprReads
