import DimodModel.Reduce

/-! # C15 — `BinaryPolynomial` as a mutable OBJECT (core Lean only)

Anchor: `dimod/higherorder/polynomial.py`.  The object is the dict `self._terms` (insertion order kept); the
reductions (`reduce_binary_polynomial`, `make_quadratic`, `make_quadratic_cqm`, `HigherOrderComposite.sample_poly`)
take the object itself when it is a `BinaryPolynomial` of the right vartype (`_init_binary_polynomial` returns it
unchanged) and read `poly.items()` / `poly.variables` AT THE TIME OF THE CALL: there is no per-object cache in the code,
so the model of "reduce after a history of mutations" is the reduction of the current state.

Modelled as coded: `__setitem__` (`self._terms[asfrozenset(term)] = bias`: an existing key keeps its position and
its stored key object), `poly[t] += b` (`__getitem__` then `__setitem__`: `KeyError` when absent), `__delitem__` /
`pop` (`KeyError` when absent), `popitem` (`MutableMapping`: the first key; `KeyError` when empty), `scale` (every
key not in `ignored_terms` gets `bias * scalar`), `normalize` (`lmin/lmax/pmin/pmax` start at 0, constants take no part
in the ranges, `inv_scalar = max(lmin/lo, lmax/hi, pmin/plo, pmax/phi)`; `ZeroDivisionError` when a range bound is 0;
no change when `inv_scalar == 0`; else `scale(1/inv_scalar)`).  `update` / `setdefault` are `MutableMapping` mixins over
`__setitem__` / `__contains__`: the harness expands them.  `relabel_variables(mapping, inplace=True)`: the validation of `iter_safe_relabels` and the
in-place loop for a mapping without label conflicts (`PolyOp.relabel`), and for a mapping WITH a conflict (swap / cycle) the two safe steps of `resolve_label_conflict`
with its integer counter (`PolyOp.relabelVia`; the harness sends the op that the code's own test `any(v in new_labels for v in old_labels)` selects,
the other op answers `conflictNotModelled`). -/

namespace Red
open Pen

abbrev PolyState := List (LTerm × Rat)

inductive PolyErr | keyError | zeroDivision | valueError | conflictNotModelled
  deriving DecidableEq, Repr

/-- `asfrozenset(term)` -/
def asKey (t : List Label) : LTerm := dedup t

def objGet : PolyState → LTerm → Option Rat
  | [], _ => none
  | e :: r, k => if sameSet e.1 k then some e.2 else objGet r k

/-- `self._terms[k] = b` -/
def objSet : PolyState → LTerm → Rat → PolyState
  | [], k, b => [(k, b)]
  | e :: r, k, b => if sameSet e.1 k then (e.1, b) :: r else e :: objSet r k b

/-- `del self._terms[k]` (the caller checked that the key is present) -/
def objDel (s : PolyState) (k : LTerm) : PolyState := s.filter (fun e => !sameSet e.1 k)

def isIgnored (ignored : List LTerm) (k : LTerm) : Bool := ignored.any (fun i => sameSet i k)

/-- `for term in self: if term not in ignored_terms: self[term] *= scalar` -/
def scaleTerms (c : Rat) (ignored : List LTerm) (s : PolyState) : PolyState :=
  s.map fun e => if isIgnored ignored e.1 then e else (e.1, e.2 * c)

/-- `min(bias, m)` / `max(bias, m)` over the selected terms, starting from 0 -/
def minBias (sel : LTerm → Bool) (s : PolyState) : Rat := s.foldl (fun m e => if sel e.1 then min e.2 m else m) 0
def maxBias (sel : LTerm → Bool) (s : PolyState) : Rat := s.foldl (fun m e => if sel e.1 then max e.2 m else m) 0

/-- the four range bounds after `parse_range` (a number `r` became `(-|r|, |r|)` in the harness) -/
structure Ranges where
  linLo : Rat
  linHi : Rat
  polyLo : Rat
  polyHi : Rat

def invScalar (rg : Ranges) (ignored : List LTerm) (s : PolyState) : Rat :=
  let lin := fun (k : LTerm) => !isIgnored ignored k && k.length == 1
  let hi := fun (k : LTerm) => !isIgnored ignored k && decide (k.length > 1)
  max (max (max (minBias lin s / rg.linLo) (maxBias lin s / rg.linHi)) (minBias hi s / rg.polyLo)) (maxBias hi s / rg.polyHi)

/-- `submap.get(v, v)` -/
def mapLabel (m : List (Label × Label)) (v : Label) : Label :=
  match m.find? (fun p => p.1 == v) with
  | some p => p.2
  | none => v

/-- `frozenset(submap.get(v, v) for v in oldterm)` -/
def relabelTerm (m : List (Label × Label)) (t : LTerm) : LTerm := dedup (t.map (mapLabel m))

/-- the loop of `relabel_variables` for one safe submap, over the snapshot `list(self.items())`:
    `if newterm != oldterm: self[newterm] = bias; del self[oldterm]` -/
def relabelStep (m : List (Label × Label)) (s : PolyState) : PolyState :=
  s.foldl (fun acc e => let nt := relabelTerm m e.1
                        if sameSet nt e.1 then acc else objDel (objSet acc nt e.2) e.1) s

def stateVars (s : PolyState) : List Label := dedup (s.flatMap (·.1))

/-- `iter_safe_relabels(mapping, self.variables)`: `ValueError` when two items are mapped to the same label or a new label is an
    existing variable that is not relabelled itself; when an old label is also a new label the code goes through intermediate labels
    (`resolve_label_conflict`) — not modelled (`conflictNotModelled`); else the mapping itself is the one safe relabelling -/
def safeRelabel (m : List (Label × Label)) (existing : List Label) : Except PolyErr (List (Label × Label)) :=
  let news := m.map (·.2)
  let olds := m.map (·.1)
  if (dedup news).length < m.length then .error .valueError
  else if news.any (fun v => existing.contains v && !olds.contains v) then .error .valueError
  else if olds.any (fun v => news.contains v) then .error .conflictNotModelled
  else .ok m

/-- `lbl = next(counter); while lbl in new_labels or lbl in old_labels or lbl in existing: lbl = next(counter)`
    (`fuel` = number of labels to avoid + 1: one of that many consecutive integers is free) -/
def nextFreeLabel (avoid : List Label) : Nat → Nat → Nat
  | 0, c => c
  | fuel + 1, c => if avoid.contains (.int c) then nextFreeLabel avoid fuel (c + 1) else c

/-- `resolve_label_conflict(mapping, existing, old_labels, new_labels)`: the two dicts `old_to_intermediate`, `intermediate_to_new`
    (insertion order), the counter starting at `2 * len(mapping)` -/
def resolveConflict (m : List (Label × Label)) (existing : List Label) : List (Label × Label) × List (Label × Label) :=
  let news := m.map (·.2)
  let olds := m.map (·.1)
  let avoid := news ++ olds ++ existing
  let r := m.foldl (fun (st : Nat × List (Label × Label) × List (Label × Label)) p =>
      if p.1 == p.2 then st
      else if news.contains p.1 || olds.contains p.2 then
        let lbl := nextFreeLabel avoid (avoid.length + 1) st.1
        (lbl + 1, st.2.1 ++ [(p.1, .int lbl)], st.2.2 ++ [(.int lbl, p.2)])
      else (st.1, st.2.1 ++ [(p.1, p.2)], st.2.2)) (2 * m.length, [], [])
  (r.2.1, r.2.2)

/-- `relabel_variables(mapping)` when an old label is also a new label (swap, cycle, chain): `iter_safe_relabels` yields the two
    dicts of `resolve_label_conflict`, the in-place loop runs once for each (`existing = self.variables` is read once, before) -/
def relabelConflict (m : List (Label × Label)) (s : PolyState) : Except PolyErr PolyState :=
  let news := m.map (·.2)
  let olds := m.map (·.1)
  let existing := stateVars s
  if (dedup news).length < m.length then .error .valueError
  else if news.any (fun v => existing.contains v && !olds.contains v) then .error .valueError
  else if olds.any (fun v => news.contains v) then
    let r := resolveConflict m existing
    .ok (relabelStep r.2 (relabelStep r.1 s))
  else .error .conflictNotModelled          -- no conflict: that is `PolyOp.relabel`

inductive PolyOp
  | setItem (t : List Label) (b : Rat)
  | addItem (t : List Label) (b : Rat)
  | delItem (t : List Label)
  | popItem
  | scale (c : Rat) (ignored : List (List Label))
  | normalize (rg : Ranges) (ignored : List (List Label))
  | relabel (m : List (Label × Label))     -- `relabel_variables(mapping)` (a dict: different keys), in place
  | relabelVia (m : List (Label × Label))  -- the same call when the mapping has a label conflict (two safe steps)

def applyOp (s : PolyState) : PolyOp → Except PolyErr PolyState
  | .setItem t b => .ok (objSet s (asKey t) b)
  | .addItem t b =>
    match objGet s (asKey t) with
    | some old => .ok (objSet s (asKey t) (old + b))
    | none => .error .keyError
  | .delItem t =>
    match objGet s (asKey t) with
    | some _ => .ok (objDel s (asKey t))
    | none => .error .keyError
  | .popItem =>
    match s with
    | [] => .error .keyError
    | e :: _ => .ok (objDel s e.1)
  | .scale c ignored => .ok (scaleTerms c (ignored.map asKey) s)
  | .normalize rg ignored =>
    if rg.linLo = 0 ∨ rg.linHi = 0 ∨ rg.polyLo = 0 ∨ rg.polyHi = 0 then .error .zeroDivision
    else
      let inv := invScalar rg (ignored.map asKey) s
      if inv = 0 then .ok s else .ok (scaleTerms (1 / inv) (ignored.map asKey) s)
  | .relabel m =>
    match safeRelabel m (stateVars s) with
    | .ok sub => .ok (relabelStep sub s)
    | .error e => .error e
  | .relabelVia m => relabelConflict m s

def runOps (s : PolyState) : List PolyOp → Except PolyErr PolyState
  | [] => .ok s
  | op :: r =>
    match applyOp s op with
    | .ok s' => runOps s' r
    | .error e => .error e

/-- the object built by `BinaryPolynomial(raw, vartype)` and then mutated -/
def objectAfter (vt : VT) (raw : List (List Label × Rat)) (ops : List PolyOp) : Except PolyErr PolyState :=
  runOps (normPoly vt raw) ops

end Red
