import DimodModel.PenaltyOpts

/-! Round 8 (C16, D76g): `penalization_method='unbalanced'` called with a LIST of multipliers of any length, as coded.
    `Pen.bqmIneqFull` knows only `.pair l0 l1`; a shorter list raises `IndexError` — before anything is changed when the
    source reads both multipliers first (`Generated.SlackRule.unbalancedChecksFirst`, extracted by
    `harness/translators/slack_rule.py`), otherwise after the linear biases and the offset were added.  Core Lean only. -/

namespace Pen
open Generated.SlackRule

inductive UnbalancedL where
  | skipped                                   -- warning, `[]`, nothing added
  | infeasible                                -- ValueError
  | indexError (added : List (PTerm Label))   -- IndexError; `added`: what the model had received before the raise
  | ok (bag : List (PTerm Label))

/-- the unbalanced method on a multiplier list; `checksFirst`: the multipliers are read before the loop -/
def bqmUnbalancedL (checksFirst : Bool) (label : String) (terms : List (Label × Int)) (lams : List Rat) (c lb ub : Int)
    (cross : Bool) : UnbalancedL :=
  match ineqPlan (terms.map (·.2)) c lb ub with
  | .skip => .skipped
  | .infeasible => .infeasible
  | plan =>
    let ubc : Int := match plan with
      | .equality u => u
      | .slack u _ _ => u
      | _ => 0
    match lams with
    | l0 :: l1 :: _ =>
      match bqmIneqFull label terms (.pair l0 l1) c lb ub cross .unbalanced with
      | .ok bag _ => .ok bag
      | _ => .skipped                         -- unreachable: the plan is neither skip nor infeasible
    | [l0] =>
      if checksFirst then .indexError []      -- `lagrange_multiplier[1]` raises in the added statement
      else .indexError (terms.map (fun t => PTerm.lin t.1 (l0 * (t.2 : Rat))) ++ [PTerm.const (((-ubc : Int)) : Rat)])
    | [] =>
      if checksFirst || !terms.isEmpty then .indexError []   -- `lagrange_multiplier[0]` raises at the first term
      else .indexError [PTerm.const (((-ubc : Int)) : Rat)]  -- no term: the loop is empty, the offset is changed, then `[1]` raises

end Pen
