import DimodModel.Cqm

/-! Property C08 — feasibility / violation reports of a CQM.

    Three layers, all executable over `Rat`:

    1. `Feas.exprEnergy`  : `_cyExpression._energies` for one sample row (`cyexpression.pyx`), i.e. the
       sub-sample in the expression's private order fed to `abc::energy`, *with* the separate branch for
       an expression without variables (`subsamples.shape[1] == 0`);
       `Feas.polyValue`   : the value of the expression's polynomial at the row (no special case).
    2. the **definition** (`activity`, `violation`, `satisfied`, `feasible`, `energy`), on a list of
       evaluated constraints `CEval` (sense, rhs, weight, penalty, lhs energy per row);
    3. the two implementations as coded:
       * per sample — `iterConstraintData` → `iterViolations` / `violations` / `checkFeasible`
         (`constrained.py`),
       * vectorised — `fromSamplesCqm` (`sampleset.py:SampleSet.from_samples_cqm`), including the
         `is_satisfied.all()` short-cut evaluated over the *whole* `np.empty` array (columns not yet
         written are a parameter `garbage`) and the `soft` label set.

    Rows are functions `Nat → _` of the row index (only indices `< n` matter). Core Lean only. -/

namespace Feas

def absR (x : Rat) : Rat := if x < 0 then -x else x

/-! ### 1. expression energies -/

/-- inner loop of `abc::energy`: the neighbourhood is scanned until the first index above `u`.
    The source writes `term.bias * u_val * x_v`, evaluated left to right, so the first product already is in the bias
    type (double) and the two sample values are never multiplied in the sample's integer type; the model (exact
    rationals) is only faithful to that order — `u_val * x_v` formed first would wrap for int8/16/32 samples.  The
    harness (C08 `wide` mode) feeds integer samples of every width with values up to 2^20 to pin this down. -/
def nbhEnergy (u : Nat) (x : Nat → Rat) (nb : List (Nat × Rat)) : Rat :=
  ((nb.takeWhile (fun p => p.1 ≤ u)).map (fun p => p.2 * x u * x p.1)).sum

/-- `abc::energy(sample)` over local indices -/
def qbEnergy (q : QB) (x : Nat → Rat) : Rat :=
  q.off + ((List.range q.lin.length).map (fun u => x u * q.lin.getD u 0 + nbhEnergy u x (q.adj.getD u []))).sum

/-- the value of the expression's polynomial at a row given by *global* index -/
def polyValue (e : Expr) (row : Nat → Rat) : Rat := qbEnergy e.qb (fun i => row (e.vars.getD i 0))

/-- `_cyExpression._energies` for one row: `zeroVarsOffset` = what the `shape[1] == 0` branch stores
    (`true`: `expression.offset()` — the code after the repair of D2; `false`: the literal `0`) -/
def exprEnergyWith (zeroVarsOffset : Bool) (e : Expr) (row : Nat → Rat) : Rat :=
  if e.vars.length = 0 then (if zeroVarsOffset then e.qb.off else 0) else polyValue e row

def exprEnergy (e : Expr) (row : Nat → Rat) : Rat := exprEnergyWith true e row

/-! ### 2. the definition -/

/-- a constraint together with its left-hand-side energy on every row -/
structure CEval where
  label : Label
  sense : Sense
  rhs : Rat
  weight : Option Rat     -- none = hard
  quad : Bool             -- quadratic penalty
  lhs : Nat → Rat

def activity (c : CEval) (r : Nat) : Rat := c.lhs r - c.rhs

def violation (c : CEval) (r : Nat) : Rat :=
  match c.sense with
  | .eq => absR (activity c r)
  | .le => activity c r
  | .ge => -(activity c r)

def tol (atol rtol : Rat) (c : CEval) : Rat := atol + rtol * absR c.rhs

def satisfied (atol rtol : Rat) (c : CEval) (r : Nat) : Bool := decide (violation c r ≤ tol atol rtol c)

/-- every *hard* constraint is satisfied -/
def feasible (atol rtol : Rat) (cs : List CEval) (r : Nat) : Bool :=
  cs.all fun c => c.weight.isSome || satisfied atol rtol c r

def penaltyTerm (atol rtol : Rat) (c : CEval) (r : Nat) : Rat :=
  match c.weight with
  | none => 0
  | some w => if satisfied atol rtol c r then 0
              else if c.quad then w * (violation c r * violation c r) else w * violation c r

/-- objective + Σ over violated soft constraints of weight × violation (or violation²) -/
def energy (atol rtol : Rat) (obj : Nat → Rat) (cs : List CEval) (r : Nat) : Rat :=
  obj r + (cs.map (penaltyTerm atol rtol · r)).sum

/-! ### 3a. per-sample implementation (`constrained.py`) -/

structure CData where
  label : Label
  lhsEnergy : Rat
  rhsEnergy : Rat
  sense : Sense
  activity : Rat
  violation : Rat

/-- one iteration of `iter_constraint_data` -/
def datum (c : CEval) (r : Nat) : CData :=
  { label := c.label, lhsEnergy := c.lhs r, rhsEnergy := c.rhs, sense := c.sense,
    activity := c.lhs r - c.rhs,
    violation := match c.sense with
      | .eq => absR (c.lhs r - c.rhs)
      | .ge => -(c.lhs r - c.rhs)
      | .le => c.lhs r - c.rhs }

def iterConstraintData (cs : List CEval) (r : Nat) : List CData := cs.map (datum · r)

def maxR (a b : Rat) : Rat := if a < b then b else a

/-- `iter_violations(sample, skip_satisfied, clip)` -/
def iterViolations (skip clip : Bool) (cs : List CEval) (r : Nat) : List (Label × Rat) :=
  if skip then ((iterConstraintData cs r).filter (fun d => decide (d.violation > 0))).map fun d => (d.label, d.violation)
  else if clip then (iterConstraintData cs r).map fun d => (d.label, maxR d.violation 0)
  else (iterConstraintData cs r).map fun d => (d.label, d.violation)

/-! the `labels=` argument of `iter_constraint_data` / `iter_violations` -/

/-- the constraints visited: `labels is None` (the default) — all of them, in model order; otherwise exactly the labels
    given, **in the order given** (an empty iterable visits nothing; a label given twice is visited twice), up to the
    first label that is not a constraint, where `ValueError` is raised (second component; the generator has yielded the
    data of the labels before it) -/
def selectGo (cs : List CEval) : List Label → List CEval × Bool
  | [] => ([], false)
  | l :: t => match cs.find? (fun c => c.label = l) with
    | some c => (c :: (selectGo cs t).1, (selectGo cs t).2)
    | none => ([], true)

def selectCons (labels : Option (List Label)) (cs : List CEval) : List CEval × Bool :=
  match labels with
  | none => (cs, false)
  | some ls => selectGo cs ls

/-- `iter_constraint_data(sample, labels=labels)`: what is yielded, and whether it ends in `ValueError` -/
def iterConstraintDataL (labels : Option (List Label)) (cs : List CEval) (r : Nat) : List CData × Bool :=
  (iterConstraintData (selectCons labels cs).1 r, (selectCons labels cs).2)

/-- `iter_violations(sample, skip_satisfied, clip, labels=labels)` -/
def iterViolationsL (skip clip : Bool) (labels : Option (List Label)) (cs : List CEval) (r : Nat) : List (Label × Rat) × Bool :=
  (iterViolations skip clip (selectCons labels cs).1 r, (selectCons labels cs).2)

/-- `check_feasible(sample, rtol, atol)`; `hardOnly` = the generator skips soft constraints
    (`true`: the code after the repair of D36; `false`: every constraint counts) -/
def checkFeasibleWith (hardOnly : Bool) (atol rtol : Rat) (cs : List CEval) (r : Nat) : Bool :=
  (cs.zip (iterConstraintData cs r)).all fun (c, d) =>
    (hardOnly && c.weight.isSome) || decide (d.violation ≤ atol + rtol * absR d.rhsEnergy)

def checkFeasible (atol rtol : Rat) (cs : List CEval) (r : Nat) : Bool := checkFeasibleWith true atol rtol cs r

/-! ### 3b. vectorised implementation (`SampleSet.from_samples_cqm`) -/

/-- the violation vector as the vectorised code computes it -/
def vecViol (c : CEval) (r : Nat) : Rat :=
  match c.sense with
  | .eq => absR (c.lhs r - c.rhs)
  | .ge => c.rhs - c.lhs r
  | .le => c.lhs r - c.rhs

/-- `is_satisfied[:, i] = violation <= atol + rtol*abs(rhs)` -/
def vecCol (atol rtol : Rat) (c : CEval) (r : Nat) : Bool := decide (vecViol c r ≤ atol + rtol * absR c.rhs)

def colAll (n : Nat) (col : Nat → Bool) : Bool := (List.range n).all col

structure VAcc where
  energies : Nat → Rat
  cols : List (Nat → Bool)     -- columns written so far
  soft : List Label            -- the `soft` set

/-- `is_satisfied.all()` right after column `cols.length - 1` was written: the array has `total`
    columns, the ones not yet written hold whatever `np.empty` returned (`garbage j`) -/
def allSat (n total : Nat) (garbage : Nat → Nat → Bool) (cols : List (Nat → Bool)) : Bool :=
  cols.all (colAll n) && ((List.range total).drop cols.length).all (fun j => colAll n (garbage j))

def addPenalty (atol rtol : Rat) (c : CEval) (w : Rat) (en : Nat → Rat) (r : Nat) : Rat :=
  en r + w * (if vecCol atol rtol c r then 0 else 1) * (if c.quad then vecViol c r * vecViol c r else vecViol c r)

/-- body of the loop over `cqm.constraints.items()` -/
def vecStep (n total : Nat) (atol rtol : Rat) (garbage : Nat → Nat → Bool) (acc : VAcc) (c : CEval) : VAcc :=
  match c.weight with
  | some w =>
    if allSat n total garbage (acc.cols ++ [vecCol atol rtol c]) then
      { acc with cols := acc.cols ++ [vecCol atol rtol c] }
    else
      { energies := addPenalty atol rtol c w acc.energies,
        cols := acc.cols ++ [vecCol atol rtol c],
        soft := if c.label ∈ acc.soft then acc.soft else c.label :: acc.soft }
  | none => { acc with cols := acc.cols ++ [vecCol atol rtol c] }

def vecLoop (n : Nat) (atol rtol : Rat) (garbage : Nat → Nat → Bool) (obj : Nat → Rat) (cs : List CEval) : VAcc :=
  cs.foldl (vecStep n cs.length atol rtol garbage) { energies := obj, cols := [], soft := [] }

structure VResult where
  energies : Nat → Rat
  isSatisfied : List (Nat → Bool)     -- one column per constraint
  isFeasible : Nat → Bool

/-- `if soft: hard = [i for i, label in enumerate(constraint_labels) if label not in soft];
    is_feasible = is_satisfied[:, hard].all(axis=1)  else  is_satisfied.all(axis=1)` -/
def hardCols (cs : List CEval) (acc : VAcc) : List (Nat → Bool) :=
  if acc.soft.isEmpty then acc.cols
  else ((cs.zip acc.cols).filter (fun p => !(decide (p.1.label ∈ acc.soft)))).map (·.2)

def fromSamplesCqm (n : Nat) (atol rtol : Rat) (garbage : Nat → Nat → Bool) (obj : Nat → Rat) (cs : List CEval) : VResult :=
  { energies := (vecLoop n atol rtol garbage obj cs).energies,
    isSatisfied := (vecLoop n atol rtol garbage obj cs).cols,
    isFeasible := fun r => (hardCols cs (vecLoop n atol rtol garbage obj cs)).all (· r) }

/-! ### gluing to the CQM model: evaluate every expression of a `Cqm` on rows given by global index -/

def evalCons (m : Cqm) (rows : Nat → Nat → Rat) : List CEval :=
  (m.cons.zip m.clabels).map fun (c, l) =>
    { label := l, sense := c.sense, rhs := c.rhs, weight := c.weight, quad := c.quadPenalty,
      lhs := fun r => exprEnergy c.e (rows r) }

def evalObj (m : Cqm) (rows : Nat → Nat → Rat) : Nat → Rat := fun r => exprEnergy m.obj (rows r)

end Feas
