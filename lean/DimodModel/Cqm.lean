import DimodModel.Vars
import DimodModel.Bqm
import Generated.AbcSubst

/-! Executable model of `Expression` / `Constraint` / `ConstrainedQuadraticModel`
    (`expression.h`, `constraint.h`, `constrained_quadratic_model.h`, `cyconstrained.pyx`,
    `cyexpression.pyx`, `constrained.py`) — property C05 (and the state C08/C18 observe).

    * `QB`    : `abc::QuadraticModelBase` over *local* indices (linear vector, sorted symmetric
                neighbourhoods, offset);
    * `Expr`  : `Expression` = `QB` + `variables_` (`vars`, global index of each local variable)
                + `indices_` (`idx`, the hash map global → local, kept explicitly and updated
                exactly as the three loops of `reindex_variables` do);
    * `Cons`  : `Constraint` = `Expr` + sense, rhs, weight, penalty, discrete marker;
    * `Cqm`   : `varinfo_` (three parallel lists), objective, constraints, and the two Python
                label lists (`variables`, `constraint_labels`; their own sparse representation
                is property C13's business, here they are the lists C13 proves them to be).

    Every mutator returns the new state *next to* the outcome (`none` = returned normally,
    `some c` = raised an exception of class `c`), so "state after a call that raised" exists.
    Core Lean only. -/

inductive VT4 | binary | spin | integer | real
  deriving DecidableEq, Repr

inductive Sense | le | ge | eq
  deriving DecidableEq, Repr

/-- base quadratic model over *local* indices -/
structure QB where
  lin : List Rat := []
  adj : List (List (Nat × Rat)) := []
  off : Rat := 0

structure Expr where
  vars : List Nat := []          -- `variables_`
  idx : AMap Nat Nat := []       -- `indices_`
  qb : QB := {}

structure Cons where
  e : Expr := {}
  sense : Sense := .eq
  rhs : Rat := 0
  weight : Option Rat := none    -- none = +inf = hard
  quadPenalty : Bool := false
  discrete : Bool := false       -- `marked_discrete_`

structure Cqm where
  vt : List VT4 := []
  lb : List Rat := []
  ub : List Rat := []
  obj : Expr := {}
  cons : List Cons := []
  labels : List Label := []
  clabels : List Label := []

namespace VT4
/-- `vartype_limits<double, …>` -/
def maxInt : Rat := 9007199254740991            -- 2^53 - 1
def maxReal : Rat := 1000000000000000019884624838656   -- the double nearest 1e30
def min : VT4 → Rat
  | .binary => 0 | .spin => -1 | .integer => -maxInt | .real => -maxReal
def max : VT4 → Rat
  | .binary => 1 | .spin => 1 | .integer => maxInt | .real => maxReal
def defaultMin : VT4 → Rat
  | .binary => 0 | .spin => -1 | .integer => 0 | .real => 0
def defaultMax : VT4 → Rat := max
end VT4

namespace QB

def n (q : QB) : Nat := q.lin.length

/-- `add_variable()` -/
def addVar (q : QB) : QB := { q with lin := q.lin ++ [0], adj := q.adj ++ [[]] }

/-- `asymmetric_quadratic_ref(u, v) (+)= b` -/
def asym (q : QB) (u v : Nat) (b : Rat) (set : Bool) : QB :=
  { q with adj := Bqm.modifyAt q.adj u (fun nb => Bqm.nbhAdd nb v b set) }

def addLinear (q : QB) (u : Nat) (b : Rat) : QB := { q with lin := Bqm.modifyAt q.lin u (· + b) }
def setLinear (q : QB) (u : Nat) (b : Rat) : QB := { q with lin := Bqm.modifyAt q.lin u (fun _ => b) }

/-- `abc::add_quadratic(u, v, b)` with the vartype of `u` (local) supplied -/
def addQuadratic (q : QB) (vtu : VT4) (u v : Nat) (b : Rat) : QB :=
  if u = v then
    match vtu with
    | .binary => q.addLinear u b
    | .spin => { q with off := q.off + b }
    | _ => q.asym u u b false
  else (q.asym u v b false).asym v u b false

/-- `abc::add_quadratic_back(u, v, b)`: append without searching -/
def addQuadraticBack (q : QB) (vtu : VT4) (u v : Nat) (b : Rat) : QB :=
  if u = v then
    match vtu with
    | .binary => q.addLinear u b
    | .spin => { q with off := q.off + b }
    | _ => { q with adj := Bqm.modifyAt q.adj u (· ++ [(v, b)]) }
  else { q with adj := Bqm.modifyAt (Bqm.modifyAt q.adj u (· ++ [(v, b)])) v (· ++ [(u, b)]) }

/-- `abc::quadratic(u, v)` on one neighbourhood: the bias stored for `v`, 0 if there is none -/
def nbhCoef (nb : List (Nat × Rat)) (v : Nat) : Rat :=
  match nb with
  | [] => 0
  | (w, c) :: t => if w = v then c else nbhCoef t v

def nbhHas (nb : List (Nat × Rat)) (v : Nat) : Bool := nb.any (fun p => p.1 = v)
def nbhDrop (nb : List (Nat × Rat)) (v : Nat) : List (Nat × Rat) := nb.filter (fun p => p.1 ≠ v)

/-- `abc::remove_interaction(u, v)`; the flag is the returned bool -/
def removeInteraction (q : QB) (u v : Nat) : QB × Bool :=
  if nbhHas (q.adj.getD u []) v then
    ({ q with adj := Bqm.modifyAt (Bqm.modifyAt q.adj u (nbhDrop · v)) v (nbhDrop · u) }, true)
  else (q, false)

/-- one neighbourhood after `remove_variable(vi)`: entry `vi` dropped, larger indices decremented -/
def shiftNbh (vi : Nat) (nb : List (Nat × Rat)) : List (Nat × Rat) :=
  (nb.filter (fun p => p.1 ≠ vi)).map (fun p => if p.1 > vi then (p.1 - 1, p.2) else p)

/-- `abc::remove_variable(vi)` -/
def removeVar (q : QB) (vi : Nat) : QB :=
  { q with lin := Bqm.eraseIdx q.lin vi, adj := (Bqm.eraseIdx q.adj vi).map (shiftNbh vi) }

def scaleEntry (nb : List (Nat × Rat)) (w : Nat) (m : Rat) : List (Nat × Rat) :=
  nb.map fun e => if e.1 = w then (e.1, e.2 * m) else e

/-- body of the loop of `abc::substitute_variable(v, m, c)` for one term `p` of `adj[v]`.
    `patched` = the loop starts with the `term.v == v` branch (repair of D4). -/
def substStep (patched : Bool) (v : Nat) (m c : Rat) (q : QB) (p : Nat × Rat) : QB :=
  if patched && p.1 = v then
    { q with off := q.off + p.2 * c * c,
             lin := Bqm.modifyAt q.lin v (· + 2 * p.2 * m * c),
             adj := Bqm.modifyAt q.adj v (scaleEntry · v (m * m)) }
  else
    { q with lin := Bqm.modifyAt q.lin p.1 (· + p.2 * c),
             adj := Bqm.modifyAt (Bqm.modifyAt q.adj p.1 (scaleEntry · v m)) v (scaleEntry · p.1 m) }

/-- `abc::substitute_variable(v, m, c)`: x_v ↦ m·x_v + c, exactly as coded -/
def substituteWith (patched : Bool) (q : QB) (v : Nat) (m c : Rat) : QB :=
  (q.adj.getD v []).foldl (substStep patched v m c)
    { q with off := q.off + q.lin.getD v 0 * c, lin := Bqm.modifyAt q.lin v (· * m) }

def substitute (q : QB) (v : Nat) (m c : Rat) : QB :=
  q.substituteWith Generated.AbcSubst.selfLoopBranch v m c

/-- `abc::fix_variable(v, a)` -/
def fixVar (q : QB) (v : Nat) (a : Rat) : QB :=
  (fun lin => ({ q with lin := lin, off := q.off + a * lin.getD v 0 } : QB).removeVar v)
    ((q.adj.getD v []).foldl (fun l p => Bqm.modifyAt l p.1 (· + p.2 * a)) q.lin)

def scale (q : QB) (s : Rat) : QB :=
  { off := q.off * s, lin := q.lin.map (· * s), adj := q.adj.map (·.map fun p => (p.1, p.2 * s)) }

def isLinear (q : QB) : Bool := q.adj.all (·.isEmpty)

/-- lower-triangle terms in `cbegin_quadratic` order: (u, v, bias) with v ≤ u, local indices -/
def lowerAt (u : Nat) (nb : List (Nat × Rat)) : List (Nat × Nat × Rat) :=
  (nb.filter (fun p => p.1 ≤ u)).map (fun p => (u, p.1, p.2))

def lowerFrom : Nat → List (List (Nat × Rat)) → List (Nat × Nat × Rat)
  | _, [] => []
  | u, nb :: t => lowerAt u nb ++ lowerFrom (u + 1) t

def lower (q : QB) : List (Nat × Nat × Rat) := lowerFrom 0 q.adj

end QB

namespace Expr

/-- `enforce_variable(g)` -/
def enforce (e : Expr) (g : Nat) : Expr × Nat :=
  match e.idx.get? g with
  | some i => (e, i)
  | none => ({ vars := e.vars ++ [g], idx := e.idx.set g e.vars.length, qb := e.qb.addVar }, e.vars.length)

def addLinear (e : Expr) (g : Nat) (b : Rat) : Expr :=
  { (e.enforce g).1 with qb := (e.enforce g).1.qb.addLinear (e.enforce g).2 b }

def setLinear (e : Expr) (g : Nat) (b : Rat) : Expr :=
  { (e.enforce g).1 with qb := (e.enforce g).1.qb.setLinear (e.enforce g).2 b }

/-- `base_type::add_quadratic(enforce_variable(u), enforce_variable(v), bias)`: the two `enforce_variable`
    calls are function arguments, whose evaluation order C++ leaves unspecified; g++ (the compiler of
    every dimod wheel and of the build under test) evaluates them right to left, so `v` is enforced
    first.  Only the private variable order of a term that introduces two new variables depends on it. -/
def addQuadratic (e : Expr) (vt : List VT4) (gu gv : Nat) (b : Rat) : Expr :=
  { ((e.enforce gv).1.enforce gu).1 with
      qb := ((e.enforce gv).1.enforce gu).1.qb.addQuadratic (vt.getD gu .binary) ((e.enforce gv).1.enforce gu).2
              (e.enforce gv).2 b }

def addQuadraticBack (e : Expr) (vt : List VT4) (gu gv : Nat) (b : Rat) : Expr :=
  { ((e.enforce gv).1.enforce gu).1 with
      qb := ((e.enforce gv).1.enforce gu).1.qb.addQuadraticBack (vt.getD gu .binary) ((e.enforce gv).1.enforce gu).2
              (e.enforce gv).2 b }

def addOffset (e : Expr) (b : Rat) : Expr := { e with qb := { e.qb with off := e.qb.off + b } }

/-- loop 1 of `reindex_variables`: `indices_.erase(u)` for every `u > v` -/
def eraseAbove (v : Nat) (vars : List Nat) (m : AMap Nat Nat) : AMap Nat Nat :=
  vars.foldl (fun m u => if u > v then m.erase u else m) m

/-- loops 2 and 3 of `reindex_variables` on the already decremented `variables_` -/
def setRange (vars : List Nat) (p : Nat → Bool) (is : List Nat) (m : AMap Nat Nat) : AMap Nat Nat :=
  is.foldl (fun m i => if p (vars.getD i 0) then m.set (vars.getD i 0) i else m) m

def shiftDown (v : Nat) (vars : List Nat) : List Nat := vars.map fun u => if u > v then u - 1 else u

/-- the part of `reindex_variables(v)` after the optional removal; `start` as in the code -/
def reindexTail (start : Nat) (e : Expr) (v : Nat) : Expr :=
  { e with
    vars := shiftDown v e.vars,
    idx := setRange (shiftDown v e.vars) (fun _ => true)
             (List.range' start ((shiftDown v e.vars).length - start))
             (setRange (shiftDown v e.vars) (fun u => u ≥ v) (List.range start)
               (eraseAbove v e.vars e.idx)) }

/-- `reindex_variables(v)`: drop `v` if present, shift larger global indices down, repair `indices_` -/
def reindex (e : Expr) (v : Nat) : Expr :=
  match e.idx.get? v with
  | some i => reindexTail i { vars := Bqm.eraseIdx e.vars i, idx := e.idx.erase v, qb := e.qb.removeVar i } v
  | none => reindexTail e.vars.length e v

/-- `indices_[*it] -= 1` for the variables behind the erased position -/
def decrIdx (tail : List Nat) (m : AMap Nat Nat) : AMap Nat Nat :=
  tail.foldl (fun m u => m.set u ((m.get? u).getD 0 - 1)) m

/-- `Expression::remove_variable(g)` (the variable stays in the model) -/
def removeVar (e : Expr) (g : Nat) : Expr :=
  match e.idx.get? g with
  | none => e
  | some i => { vars := Bqm.eraseIdx e.vars i, idx := decrIdx (e.vars.drop (i + 1)) (e.idx.erase g),
                qb := e.qb.removeVar i }

def rebuildIdx (vars : List Nat) : AMap Nat Nat :=
  (List.range vars.length).foldl (fun m i => m.set (vars.getD i 0) i) []

/-- `relabel_variables(labels)` -/
def relabel (e : Expr) (gs : List Nat) : Expr := { e with vars := gs, idx := rebuildIdx gs }

def substitute (e : Expr) (g : Nat) (m c : Rat) : Expr :=
  match e.idx.get? g with
  | some i => { e with qb := e.qb.substitute i m c }
  | none => e

def removeInteraction (e : Expr) (gu gv : Nat) : Expr :=
  match e.idx.get? gu, e.idx.get? gv with
  | some i, some j => { e with qb := (e.qb.removeInteraction i j).1 }
  | _, _ => e

def hasVar (e : Expr) (g : Nat) : Bool := (e.idx.get? g).isSome

/-- `Expression::linear(g)`: 0 for a variable the expression does not contain -/
def linear (e : Expr) (g : Nat) : Rat :=
  match e.idx.get? g with
  | some i => e.qb.lin.getD i 0
  | none => 0

/-- `Expression::quadratic(g, h)`: 0 when either variable or the interaction is absent -/
def quadratic (e : Expr) (g h : Nat) : Rat :=
  match e.idx.get? g, e.idx.get? h with
  | some i, some j => QB.nbhCoef (e.qb.adj.getD i []) j
  | _, _ => 0

end Expr

namespace Cons
/-- `Constraint::is_onehot` -/
def isOnehot (vt : List VT4) (c : Cons) : Bool :=
  c.e.qb.isLinear && decide (c.e.vars.length ≥ 2) && decide (c.sense = .eq) && decide (c.e.qb.off = 0) &&
  c.e.vars.all (fun g => vt.getD g .spin = .binary) && c.e.qb.lin.all (· = c.rhs)
/-- `ConstraintView.is_discrete` -/
def isDiscrete (vt : List VT4) (c : Cons) : Bool := c.discrete && c.isOnehot vt
def isSoft (c : Cons) : Bool := c.weight.isSome
end Cons

namespace Cqm

abbrev Res := Cqm × Option ErrC

def numVars (m : Cqm) : Nat := m.vt.length

def findIdx (v : Label) : List Label → Nat → Option Nat
  | [], _ => none
  | l :: ls, i => if l = v then some i else findIdx v ls (i + 1)

def idx? (m : Cqm) (v : Label) : Option Nat := findIdx v m.labels 0
def cidx? (m : Cqm) (v : Label) : Option Nat := findIdx v m.clabels 0

def setAt {α} (l : List α) (i : Nat) (a : α) : List α := Bqm.modifyAt l i (fun _ => a)

def mapExprs (m : Cqm) (f : Expr → Expr) : Cqm :=
  { m with obj := f m.obj, cons := m.cons.map fun c => { c with e := f c.e } }

def modCons (m : Cqm) (ci : Nat) (f : Cons → Cons) : Cqm := { m with cons := Bqm.modifyAt m.cons ci f }

/-- `add_variables` once the bounds are parsed: `lbG`/`ubG` = "was given", `lbv`/`ubv` = the values -/
def addVariableCore (m : Cqm) (vt : VT4) (v : Option Label) (lbG ubG : Bool) (lbv ubv : Rat) : Res :=
  if lbv < vt.min then (m, some .value)
  else if ubv > vt.max then (m, some .value)
  else if lbv > ubv then (m, some .value)
  else
    match (match v with | some l => m.idx? l | none => none) with
    | some i =>
      if m.vt.getD i .binary ≠ vt then (m, some .value)
      else if lbG && m.lb.getD i 0 ≠ lbv then (m, some .value)
      else if ubG && m.ub.getD i 0 ≠ ubv then (m, some .value)
      else (m, none)
    | none =>
      ({ m with vt := m.vt ++ [vt], lb := m.lb ++ [lbv], ub := m.ub ++ [ubv],
                labels := m.labels ++ [match v with | some l => l | none => LSpec.autoLabel m.labels] }, none)

/-- `cyConstrainedQuadraticModel.add_variables(vartype, (v,), lower_bound, upper_bound)`;
    `v = none` is `add_variable(vartype)` with a generated label -/
def addVariableG (m : Cqm) (vt : VT4) (v : Option Label) (lb ub : Option Rat) : Res :=
  m.addVariableCore vt v
    (vt = .spin || vt = .binary || lb.isSome) (vt = .spin || vt = .binary || ub.isSome)
    (if vt = .spin then -1 else if vt = .binary then 0 else lb.getD vt.defaultMin)
    (if vt = .spin then 1 else if vt = .binary then 1 else ub.getD vt.defaultMax)

/-- kept for callers that always pass explicit bounds (returns the flag "did not raise") -/
def addVariable (m : Cqm) (vt : VT4) (v : Label) (lb ub : Rat) : Cqm × Bool :=
  ((m.addVariableG vt (some v) (some lb) (some ub)).1, (m.addVariableG vt (some v) (some lb) (some ub)).2.isNone)

/-- a BQM/QM handed over in its own variable order -/
structure ModelIn where
  vars : List Label
  info : List (VT4 × Rat × Rat)   -- vartype and bounds of each variable in the incoming model
  lin : List Rat
  quad : List (Nat × Nat × Rat)   -- lower-triangle terms in iteration order, indices into `vars`
  off : Rat

/-- first loop of `add_constraint_from_model` / `_set_objective_from_cyqm`: `true` iff a variable that
    already exists has another vartype or other bounds -/
def conflicts (m : Cqm) (mi : ModelIn) : Bool :=
  (mi.vars.zip mi.info).any fun (v, (vt, lb, ub)) =>
    match m.idx? v with
    | some g => m.vt.getD g .binary ≠ vt || m.lb.getD g 0 ≠ lb || m.ub.getD g 0 ≠ ub
    | none => false

/-- second loop: variables not yet present are appended (in the incoming order) -/
def addMissing (m : Cqm) (mi : ModelIn) : Cqm :=
  (mi.vars.zip mi.info).foldl (fun m (v, (vt, lb, ub)) =>
    match m.idx? v with
    | some _ => m
    | none => { m with vt := m.vt ++ [vt], lb := m.lb ++ [lb], ub := m.ub ++ [ub], labels := m.labels ++ [v] }) m

def mapping (m : Cqm) (mi : ModelIn) : List Nat := mi.vars.map fun v => (m.idx? v).getD 0

/-- copy path: `add_linear(mapping[i], …)` for every variable, then `add_quadratic` per term, then offset -/
def buildCopy (vt : List VT4) (gs : List Nat) (mi : ModelIn) : Expr :=
  (mi.quad.foldl (fun e t => e.addQuadratic vt (gs.getD t.1 0) (gs.getD t.2.1 0) t.2.2)
    ((gs.zip mi.lin).foldl (fun e p => e.addLinear p.1 p.2) ({} : Expr))).addOffset mi.off

/-- the incoming model's own `QuadraticModelBase` (what the move path takes over wholesale) -/
def ModelIn.toQB (mi : ModelIn) : QB :=
  mi.quad.foldl (fun q t =>
      if t.1 = t.2.1 then q.asym t.1 t.1 t.2.2 false else (q.asym t.1 t.2.1 t.2.2 false).asym t.2.1 t.1 t.2.2 false)
    { lin := mi.lin, adj := mi.lin.map fun _ => [], off := mi.off }

/-- move path: base object moved, then `relabel_variables(mapping)` -/
def buildMove (gs : List Nat) (mi : ModelIn) : Expr := ({ qb := mi.toQB } : Expr).relabel gs

/-- `set_weight(weight, penalty)` on constraint `ci`; penalty: 0 linear, 1 quadratic, other = unknown string -/
def setWeight (m : Cqm) (ci : Nat) (weight : Option Rat) (penalty : Nat) : Res :=
  match weight with
  | some w => if w ≤ 0 then (m, some .value) else
    if penalty = 0 then (m.modCons ci fun c => { c with weight := some w, quadPenalty := false }, none)
    else if penalty = 1 then
      if ((m.cons.getD ci {}).e.vars.all fun g => m.vt.getD g .integer = .binary || m.vt.getD g .integer = .spin)
      then (m.modCons ci fun c => { c with weight := some w, quadPenalty := true }, none)
      else (m, some .value)
    else (m, some .value)
  | none =>     -- `ConstraintView.set_weight(None)`: weight = +inf
    if penalty = 0 then (m.modCons ci fun c => { c with weight := none, quadPenalty := false }, none)
    else if penalty = 1 then
      if ((m.cons.getD ci {}).e.vars.all fun g => m.vt.getD g .integer = .binary || m.vt.getD g .integer = .spin)
      then (m.modCons ci fun c => { c with weight := none, quadPenalty := true }, none)
      else (m, some .value)
    else (m, some .value)

/-- tail shared by the `add_constraint_*` paths: push, label, optional `set_weight` (which can raise
    *after* the constraint is in the model) -/
def pushCons (m : Cqm) (e : Expr) (sense : Sense) (rhs : Rat) (label : Label)
    (weight : Option Rat) (penalty : Nat) : Res :=
  (fun (m1 : Cqm) => match weight with
    | none => (m1, none)
    | some w => m1.setWeight m.cons.length (some w) penalty)
  { m with cons := m.cons ++ [{ e, sense, rhs }], clabels := m.clabels ++ [label] }

/-- `add_constraint_from_model(qm, sense, rhs, label, copy, weight, penalty)` (also the comparison form) -/
def addConstraintModel (m : Cqm) (mi : ModelIn) (sense : Sense) (rhs : Rat) (label : Label) (copy : Bool)
    (weight : Option Rat) (penalty : Nat) : Res :=
  if label ∈ m.clabels then (m, some .value)
  else if m.conflicts mi then (m, some .value)
  else
    (fun (m1 : Cqm) =>
      m1.pushCons (if copy then buildCopy m1.vt (m1.mapping mi) mi else buildMove (m1.mapping mi) mi)
        sense rhs label weight penalty)
    (m.addMissing mi)

/-- kept signature of the design prototype (copy path, weight given as option, linear/quadratic flag) -/
def addConstraint (m : Cqm) (mi : ModelIn) (sense : Sense) (rhs : Rat) (label : Label)
    (weight : Option Rat) (quadPenalty : Bool) : Option Cqm :=
  match m.addConstraintModel mi sense rhs label true weight (if quadPenalty then 1 else 0) with
  | (m', none) => some m'
  | _ => none

/-- `set_objective(model)` -/
def setObjectiveModel (m : Cqm) (mi : ModelIn) : Res :=
  if m.conflicts mi then (m, some .value)
  else
    (fun (m1 : Cqm) => ({ m1 with obj := buildCopy m1.vt (m1.mapping mi) mi }, none))
    (m.addMissing mi)

def setObjective (m : Cqm) (mi : ModelIn) : Option Cqm :=
  match m.setObjectiveModel mi with
  | (m', none) => some m'
  | _ => none

/-- one term of an iterable: `[]`, `[v]`, `[u, v]` + bias -/
structure Term where
  vs : List Label
  bias : Rat

/-- the loop shared by `set_objective(iterable)` and `add_constraint_from_iterable`: stops at the first
    bad term and reports what was built so far -/
def addTerms (m : Cqm) : List Term → Expr → Expr × Option ErrC
  | [], e => (e, none)
  | t :: ts, e =>
    match t.vs with
    | [] => addTerms m ts (e.addOffset t.bias)
    | [v] => match m.idx? v with
      | some g => addTerms m ts (e.addLinear g t.bias)
      | none => (e, some .value)
    | [u, v] => match m.idx? u, m.idx? v with
      | some gu, some gv => addTerms m ts (e.addQuadratic m.vt gu gv t.bias)
      | _, _ => (e, some .value)
    | _ => (e, some .value)

/-- `set_objective(iterable)`: the objective is cleared first, a bad term leaves the partial objective -/
def setObjectiveTerms (m : Cqm) (ts : List Term) : Res :=
  ({ m with obj := (m.addTerms ts {}).1 }, (m.addTerms ts {}).2)

/-- `add_constraint_from_iterable`: the constraint is built completely before it is added -/
def addConstraintTerms (m : Cqm) (ts : List Term) (sense : Sense) (rhs : Rat) (label : Label)
    (weight : Option Rat) (penalty : Nat) : Res :=
  if label ∈ m.clabels then (m, some .value)
  else match m.addTerms ts {} with
    | (e, none) => m.pushCons e sense rhs label weight penalty
    | (_, some c) => (m, some c)

/-- labels of the constraints in `CQM.discrete` (marked and one-hot) that contain global variable `g` -/
def inDiscrete (m : Cqm) (g : Nat) : Bool :=
  m.cons.any fun c => c.isDiscrete m.vt && c.e.hasVar g

/-- `add_discrete_from_model(qm, label, copy, check_overlaps)` (also the comparison form once sense/rhs passed) -/
def addDiscreteModel (m : Cqm) (mi : ModelIn) (label : Label) (copy checkOverlaps : Bool) : Res :=
  if !mi.quad.isEmpty then (m, some .value)
  else if ((mi.vars.zip mi.info).zip mi.lin).any (fun ((v, (vt, _, _)), b) =>
      (match m.idx? v with
       | some g => (checkOverlaps && m.inDiscrete g) || m.vt.getD g .binary ≠ .binary
       | none => vt ≠ .binary) || b ≠ 1) then (m, some .value)
  else match m.addConstraintModel mi .eq 1 label copy none 0 with
    | (m1, none) => (m1.modCons m.cons.length fun c => { c with discrete := true }, none)
    | r => r

/-- `add_discrete_from_comparison(comp, label, copy, check_overlaps)` -/
def addDiscreteComparison (m : Cqm) (mi : ModelIn) (sense : Sense) (rhs : Rat) (label : Label)
    (copy checkOverlaps : Bool) : Res :=
  if sense ≠ .eq then (m, some .value)
  else if rhs ≠ 1 then (m, some .value)
  else m.addDiscreteModel mi label copy checkOverlaps

/-- the keys of `bqm.set_linear(v, 1) for v in variables`: first occurrences, in order -/
def uniq : List Label → List Label
  | [] => []
  | a :: t => a :: (uniq t).filter (· ≠ a)

/-- the float32 BQM `add_discrete_from_iterable` builds: every label once, bias 1 -/
def discreteModelOf (vs : List Label) : ModelIn :=
  { vars := uniq vs, info := (uniq vs).map fun _ => (.binary, 0, 1), lin := (uniq vs).map fun _ => 1, quad := [], off := 0 }

/-- `add_discrete_from_iterable(variables, label, check_overlaps)`: a float32 BQM with `set_linear(v, 1)` per label -/
def addDiscreteVars (m : Cqm) (vs : List Label) (label : Label) (checkOverlaps : Bool) : Res :=
  if label ∈ m.clabels then (m, some .value)
  else if vs.any (fun v => match m.idx? v with
      | some g => (checkOverlaps && m.inDiscrete g) || m.vt.getD g .binary ≠ .binary
      | none => false) then (m, some .value)
  else
    match m.addConstraintModel (discreteModelOf vs) .eq 1 label false none 0 with
    | (m1, none) => (m1.modCons m.cons.length fun c => { c with discrete := true }, none)
    | r => r

/-- C++ `remove_variable(g)` + label removal -/
def removeVarAt (m : Cqm) (g : Nat) : Cqm :=
  { m.mapExprs (·.reindex g) with
      vt := Bqm.eraseIdx m.vt g, lb := Bqm.eraseIdx m.lb g, ub := Bqm.eraseIdx m.ub g,
      labels := Bqm.eraseIdx m.labels g }

/-- Python `remove_variable(v)` (with `.lhs.variables`, i.e. after the repair of D10) -/
def removeVariableR (m : Cqm) (v : Label) : Res :=
  match m.idx? v with
  | none => (m, some .value)
  | some g => if m.inDiscrete g then (m, some .value) else (m.removeVarAt g, none)

def removeVariable (m : Cqm) (v : Label) : Option Cqm :=
  match m.removeVariableR v with
  | (m', none) => some m'
  | _ => none

/-- the marker update `cyConstrainedQuadraticModel.fix_variable` *intends* (for a BINARY variable fixed to a
    non-zero value: constraints marked discrete that contain it lose the mark).  In the code the loop body is
    `constraint = self.cppcqm.constraint_ref(i); … constraint.mark_discrete(False)`; Cython infers a *value*
    type for `constraint`, so the mark is cleared on a copy and the model's constraints keep theirs
    (`is_discrete()` = marked ∧ one-hot stays meaningful).  Kept here for reference; `fixVariableR` does not
    use it. -/
def unmarkForFix (m : Cqm) (g : Nat) (a : Rat) : Cqm :=
  { m with cons := m.cons.map (fun c =>
      if m.vt.getD g .spin = .binary && a ≠ 0 && c.discrete && c.e.hasVar g then { c with discrete := false } else c) }

/-- in-place `fix_variable(v, a)`: (ineffective marker update,) `substitute(v, 0, a)`, `remove_variable` -/
def fixVariableR (m : Cqm) (v : Label) (a : Rat) : Res :=
  match m.idx? v with
  | none => (m, some .value)
  | some g => ((m.mapExprs (·.substitute g 0 a)).removeVarAt g, none)

def fixVariable (m : Cqm) (v : Label) (a : Rat) : Option Cqm :=
  match m.fixVariableR v a with
  | (m', none) => some m'
  | _ => none

/-- `fix_variables(fixed, inplace=True)`: one at a time, stops at the first that raises -/
def fixVariablesInplace (m : Cqm) : List (Label × Rat) → Res
  | [] => (m, none)
  | (v, a) :: t => match m.fixVariableR v a with
    | (m1, none) => fixVariablesInplace m1 t
    | r => r

/-- `fix_variables_expr(src, dst, old_to_new, assignments)`; `o2n g = none` means fixed -/
def fixExpr (vtNew : List VT4) (o2n : Nat → Option Nat) (asg : Nat → Rat) (src : Expr) : Expr :=
  (src.qb.lower.foldl (fun dst t =>
      match o2n (src.vars.getD t.1 0), o2n (src.vars.getD t.2.1 0) with
      | none, none => dst.addOffset (asg (src.vars.getD t.1 0) * asg (src.vars.getD t.2.1 0) * t.2.2)
      | none, some nv => dst.addLinear nv (asg (src.vars.getD t.1 0) * t.2.2)
      | some nu, none => dst.addLinear nu (asg (src.vars.getD t.2.1 0) * t.2.2)
      | some nu, some nv => dst.addQuadraticBack vtNew nu nv t.2.2)
    ((src.vars.zip src.qb.lin).foldl (fun dst p =>
        match o2n p.1 with
        | none => dst.addOffset (p.2 * asg p.1)
        | some nv => dst.addLinear nv p.2)
      (({} : Expr).addOffset src.qb.off)))

def lastAssign (fixed : List (Nat × Rat)) (g : Nat) : Rat :=
  match fixed.reverse.find? (·.1 = g) with
  | some p => p.2
  | none => 0

/-- number of kept (non-fixed) global indices below `g` -/
def keptBelow (isFixed : Nat → Bool) (g : Nat) : Nat := ((List.range g).filter (fun i => !isFixed i)).length

/-- `fix_variables(fixed, inplace=False)`: C++ `fix_variables` into a new model, then the two relabels.
    The receiver is unchanged; the result is the new model. -/
def fixVariablesCopy (m : Cqm) (fixed : List (Label × Rat)) : Option Cqm :=
  if fixed.any (fun p => (m.idx? p.1).isNone) then none else
  (fun (fx : List (Nat × Rat)) =>
    (fun (isFixed : Nat → Bool) (keep : List Nat) =>
      (fun (vtNew : List VT4) (o2n : Nat → Option Nat) =>
        some { vt := vtNew, lb := keep.map (m.lb.getD · 0), ub := keep.map (m.ub.getD · 0),
               labels := keep.map (m.labels.getD · (.int 0)),
               obj := fixExpr vtNew o2n (lastAssign fx) m.obj,
               cons := m.cons.map (fun c =>
                 (fun (e : Expr) =>
                   ({ c with e := e, discrete := c.discrete && ({ c with e := e } : Cons).isOnehot vtNew } : Cons))
                 (fixExpr vtNew o2n (lastAssign fx) c.e)),
               clabels := m.clabels })
      (keep.map (m.vt.getD · .binary)) (fun g => if isFixed g then none else some (keptBelow isFixed g)))
    (fun g => fx.any (·.1 = g)) ((List.range m.numVars).filter (fun g => !(fx.any (·.1 = g)))))
  (fixed.map fun p => ((m.idx? p.1).getD 0, p.2))

/-- Python part of `flip_variable`: constraints in `CQM.discrete` that contain `g` lose their mark -/
def unmarkDiscreteWith (m : Cqm) (g : Nat) : Cqm :=
  { m with cons := m.cons.map (fun c => if c.isDiscrete m.vt && c.e.hasVar g then { c with discrete := false } else c) }

def flipVariableR (m : Cqm) (v : Label) : Res :=
  match m.idx? v with
  | none => (m, some .value)
  | some g =>
    match m.vt.getD g .integer with
    | .spin => (m.mapExprs (·.substitute g (-1) 0), none)
    | .binary =>
      -- C++ substitution, then Python: discrete constraints containing v lose their mark
      ((m.mapExprs (·.substitute g (-1) 1)).unmarkDiscreteWith g, none)
    | _ => (m, some .value)

def flipVariable (m : Cqm) (v : Label) : Option Cqm :=
  match m.flipVariableR v with
  | (m', none) => some m'
  | _ => none

/-- C++ `change_vartype(vt, g)`; `false` = `logic_error` (TypeError in Python) -/
def changeVartypeAt (m : Cqm) (vt : VT4) (g : Nat) : Cqm × Bool :=
  (fun (src : VT4) =>
    if src = vt then (m, true)
    else if src = .spin && vt = .binary then
      ({ m.mapExprs (·.substitute g 2 (-1)) with vt := setAt m.vt g .binary, lb := setAt m.lb g 0, ub := setAt m.ub g 1 }, true)
    else if src = .binary && vt = .spin then
      ({ m.mapExprs (·.substitute g (1/2) (1/2)) with vt := setAt m.vt g .spin, lb := setAt m.lb g (-1), ub := setAt m.ub g 1 }, true)
    else if src = .spin && vt = .integer then
      ({ m.mapExprs (·.substitute g 2 (-1)) with vt := setAt m.vt g .integer, lb := setAt m.lb g 0, ub := setAt m.ub g 1 }, true)
    else if src = .binary && vt = .integer then ({ m with vt := setAt m.vt g .integer }, true)
    else (m, false))
  (m.vt.getD g .integer)

def changeVartypeR (m : Cqm) (vt : VT4) (v : Label) : Res :=
  match m.idx? v with
  | none => (m, some .value)
  | some g => match m.changeVartypeAt vt g with
    | (m1, true) => (m1, none)
    | (m1, false) => (m1, some .type)

def changeVartype (m : Cqm) (vt : VT4) (v : Label) : Option Cqm :=
  match m.changeVartypeR vt v with
  | (m', none) => some m'
  | _ => none

/-- `spin_to_binary(inplace=True)` -/
def spinToBinary (m : Cqm) : Cqm :=
  (List.range m.numVars).foldl (fun m g => if m.vt.getD g .binary = .spin then (m.changeVartypeAt .binary g).1 else m) m

def removeConstraintAt (m : Cqm) (c : Nat) : Cqm :=
  { m with cons := Bqm.eraseIdx m.cons c, clabels := Bqm.eraseIdx m.clabels c }

/-- variables a cascading removal takes with it: used by constraint `ci` and by nothing else -/
def cascadeVars (m : Cqm) (ci : Nat) : List Nat :=
  ((m.cons.getD ci {}).e.vars.filter fun g =>
    !m.obj.hasVar g && !((List.range m.cons.length).any fun cj => cj ≠ ci && (m.cons.getD cj {}).e.hasVar g))

/-- remove the labelled variables one after the other (labels are stable under removal) -/
def removeLabels (m : Cqm) : List Label → Res
  | [] => (m, none)
  | v :: t => match m.removeVariableR v with
    | (m1, none) => removeLabels m1 t
    | r => r

def removeConstraintR (m : Cqm) (label : Label) (cascade : Bool) : Res :=
  match m.cidx? label with
  | none => (m, some (if cascade then .index else .value))   -- `constraints[label]` KeyError / `index` ValueError
  | some c =>
    if cascade then (m.removeConstraintAt c).removeLabels ((m.cascadeVars c).map (m.labels.getD · (.int 0)))
    else (m.removeConstraintAt c, none)

def removeConstraint (m : Cqm) (label : Label) : Option Cqm :=
  match m.removeConstraintR label false with
  | (m', none) => some m'
  | _ => none

/-- `relabel_variables(mapping)` = `Variables._relabel` on the label list (C13) -/
def relabelVariables (m : Cqm) (mp : List (Label × Label)) : Res :=
  match LSpec.step m.labels (.relabel mp) with
  | (l, true) => ({ m with labels := l }, none)
  | (_, false) => (m, some .value)

def relabelConstraints (m : Cqm) (mp : List (Label × Label)) : Res :=
  match LSpec.step m.clabels (.relabel mp) with
  | (l, true) => ({ m with clabels := l }, none)
  | (_, false) => (m, some .value)

def setLowerBound (m : Cqm) (v : Label) (lb : Rat) : Res :=
  match m.idx? v with
  | none => (m, some .value)
  | some g =>
    (fun (vt : VT4) =>
      if vt = .binary || vt = .spin then (m, some .value)
      else if lb < vt.min then (m, some .value)
      else if lb > m.ub.getD g 0 then (m, some .value)
      else if vt = .integer && lb.ceil > (m.ub.getD g 0).floor then (m, some .value)
      else ({ m with lb := setAt m.lb g lb }, none))
    (m.vt.getD g .binary)

def setUpperBound (m : Cqm) (v : Label) (ub : Rat) : Res :=
  match m.idx? v with
  | none => (m, some .value)
  | some g =>
    (fun (vt : VT4) =>
      if vt = .binary || vt = .spin then (m, some .value)
      else if ub > vt.max then (m, some .value)
      else if ub < m.lb.getD g 0 then (m, some .value)
      else if vt = .integer && (m.lb.getD g 0).ceil > ub.floor then (m, some .value)
      else ({ m with ub := setAt m.ub g ub }, none))
    (m.vt.getD g .binary)

/-! ### mutation through the views (`cqm.objective`, `cqm.constraints[label].lhs`); `which = none` is
    the objective, `some label` a constraint -/

def modExpr (m : Cqm) (which : Option Label) (f : Expr → Expr) : Option Cqm :=
  match which with
  | none => some { m with obj := f m.obj }
  | some l => (m.cidx? l).map fun ci => m.modCons ci fun c => { c with e := f c.e }

def getExpr (m : Cqm) (which : Option Label) : Option Expr :=
  match which with
  | none => some m.obj
  | some l => (m.cidx? l).map fun ci => (m.cons.getD ci {}).e

/-- an unknown constraint label is a `KeyError` from `cqm.constraints[label]` -/
def ofOpt (m : Cqm) : Option Cqm → Res
  | some m' => (m', none)
  | none => (m, some .index)

def knownView (m : Cqm) (w : Option Label) : Bool :=
  match w with
  | none => true
  | some l => (m.cidx? l).isSome

def viewAddLinear (m : Cqm) (w : Option Label) (v : Label) (b : Rat) : Res :=
  if !(m.knownView w) then (m, some .index) else
  match m.idx? v with
  | none => (m, some .value)
  | some g => m.ofOpt (m.modExpr w (·.addLinear g b))

def viewSetLinear (m : Cqm) (w : Option Label) (v : Label) (b : Rat) : Res :=
  if !(m.knownView w) then (m, some .index) else
  match m.idx? v with
  | none => (m, some .value)
  | some g => m.ofOpt (m.modExpr w (·.setLinear g b))

/-- `_cyExpression.add_quadratic(u, v, bias)` with `REAL_INTERACTIONS` off -/
def viewAddQuadratic (m : Cqm) (w : Option Label) (u v : Label) (b : Rat) : Res :=
  if !(m.knownView w) then (m, some .index) else
  match m.idx? u, m.idx? v with
  | some gu, some gv =>
    if gu = gv && (m.vt.getD gu .integer = .spin || m.vt.getD gu .integer = .binary) then
      -- the message is formatted with `self.variables[ui]` (the expression's own list, global index)
      (m, some (if gu < ((m.getExpr w).getD {}).vars.length then .value else .index))
    else if m.vt.getD gu .integer = .real then
      (m, some (if gu < ((m.getExpr w).getD {}).vars.length then .value else .index))
    else if m.vt.getD gv .integer = .real then
      (m, some (if gv < ((m.getExpr w).getD {}).vars.length then .value else .index))
    else m.ofOpt (m.modExpr w (·.addQuadratic m.vt gu gv b))
  | _, _ => (m, some .value)

def viewRemoveInteraction (m : Cqm) (w : Option Label) (u v : Label) : Res :=
  if !(m.knownView w) then (m, some .index) else
  match m.idx? u, m.idx? v with
  | some gu, some gv => m.ofOpt (m.modExpr w (·.removeInteraction gu gv))
  | _, _ => (m, some .value)

def viewRemoveVariable (m : Cqm) (w : Option Label) (v : Label) : Res :=
  if !(m.knownView w) then (m, some .index) else
  match m.idx? v with
  | none => (m, some .value)
  | some g => m.ofOpt (m.modExpr w (·.removeVar g))

def viewSetOffset (m : Cqm) (w : Option Label) (b : Rat) : Res :=
  m.ofOpt (m.modExpr w fun e => { e with qb := { e.qb with off := b } })

def viewMarkDiscrete (m : Cqm) (l : Label) (mark : Bool) : Res :=
  match m.cidx? l with
  | none => (m, some .index)
  | some ci => (m.modCons ci fun c => { c with discrete := mark }, none)

def viewSetWeight (m : Cqm) (l : Label) (weight : Option Rat) (penalty : Nat) : Res :=
  match m.cidx? l with
  | none => (m, some .index)
  | some ci => m.setWeight ci weight penalty


/-! ### histories: every public mutation as one `Op`, `step` applies it, `run` a whole history -/

inductive Op
  | addVariable (vt : VT4) (v : Option Label) (lb ub : Option Rat)
  | setObjectiveModel (mi : ModelIn)
  | setObjectiveTerms (ts : List Term)
  | addConstraintModel (mi : ModelIn) (sense : Sense) (rhs : Rat) (label : Label) (copy : Bool)
      (weight : Option Rat) (penalty : Nat)          -- also `add_constraint_from_comparison`
  | addConstraintTerms (ts : List Term) (sense : Sense) (rhs : Rat) (label : Label) (weight : Option Rat) (penalty : Nat)
  | addDiscreteModel (mi : ModelIn) (label : Label) (copy checkOverlaps : Bool)
  | addDiscreteComparison (mi : ModelIn) (sense : Sense) (rhs : Rat) (label : Label) (copy checkOverlaps : Bool)
  | addDiscreteVars (vs : List Label) (label : Label) (checkOverlaps : Bool)
  | removeVariable (v : Label)
  | fixVariable (v : Label) (a : Rat)
  | fixVariables (fixed : List (Label × Rat))          -- inplace=True
  | flipVariable (v : Label)
  | changeVartype (vt : VT4) (v : Label)
  | spinToBinary
  | removeConstraint (label : Label) (cascade : Bool)
  | relabelVariables (mp : List (Label × Label))
  | relabelConstraints (mp : List (Label × Label))
  | setLowerBound (v : Label) (x : Rat)
  | setUpperBound (v : Label) (x : Rat)
  | viewAddLinear (w : Option Label) (v : Label) (b : Rat)
  | viewSetLinear (w : Option Label) (v : Label) (b : Rat)
  | viewAddQuadratic (w : Option Label) (u v : Label) (b : Rat)
  | viewRemoveInteraction (w : Option Label) (u v : Label)
  | viewRemoveVariable (w : Option Label) (v : Label)
  | viewSetOffset (w : Option Label) (b : Rat)
  | viewMarkDiscrete (l : Label) (mark : Bool)
  | viewSetWeight (l : Label) (weight : Option Rat) (penalty : Nat)
  | deepcopy                                            -- the copy is the same value

def step (m : Cqm) : Op → Res
  | .addVariable vt v lb ub => m.addVariableG vt v lb ub
  | .setObjectiveModel mi => m.setObjectiveModel mi
  | .setObjectiveTerms ts => m.setObjectiveTerms ts
  | .addConstraintModel mi sense rhs label copy weight penalty => m.addConstraintModel mi sense rhs label copy weight penalty
  | .addConstraintTerms ts sense rhs label weight penalty => m.addConstraintTerms ts sense rhs label weight penalty
  | .addDiscreteModel mi label copy chk => m.addDiscreteModel mi label copy chk
  | .addDiscreteComparison mi sense rhs label copy chk => m.addDiscreteComparison mi sense rhs label copy chk
  | .addDiscreteVars vs label chk => m.addDiscreteVars vs label chk
  | .removeVariable v => m.removeVariableR v
  | .fixVariable v a => m.fixVariableR v a
  | .fixVariables fixed => m.fixVariablesInplace fixed
  | .flipVariable v => m.flipVariableR v
  | .changeVartype vt v => m.changeVartypeR vt v
  | .spinToBinary => (m.spinToBinary, none)
  | .removeConstraint label cascade => m.removeConstraintR label cascade
  | .relabelVariables mp => m.relabelVariables mp
  | .relabelConstraints mp => m.relabelConstraints mp
  | .setLowerBound v x => m.setLowerBound v x
  | .setUpperBound v x => m.setUpperBound v x
  | .viewAddLinear w v b => m.viewAddLinear w v b
  | .viewSetLinear w v b => m.viewSetLinear w v b
  | .viewAddQuadratic w u v b => m.viewAddQuadratic w u v b
  | .viewRemoveInteraction w u v => m.viewRemoveInteraction w u v
  | .viewRemoveVariable w v => m.viewRemoveVariable w v
  | .viewSetOffset w b => m.viewSetOffset w b
  | .viewMarkDiscrete l mark => m.viewMarkDiscrete l mark
  | .viewSetWeight l weight penalty => m.viewSetWeight l weight penalty
  | .deepcopy => (m, none)

/-- the Python model object after it has been `clear()`ed -/
def ModelIn.cleared : ModelIn := { vars := [], info := [], lin := [], quad := [], off := 0 }

/-- what is left of the model *object* handed to `add_constraint_from_model(…, copy)`: with `copy=False` the base object
    is moved into the CQM and the source is `clear()`ed — as soon as the label check and the compatibility loop have
    passed, so also when `set_weight` raises afterwards; otherwise the source keeps its value -/
def sourceAfterAdd (m : Cqm) (mi : ModelIn) (label : Label) (copy : Bool) : ModelIn :=
  if copy || decide (label ∈ m.clabels) || m.conflicts mi then mi else ModelIn.cleared

/-- the source model object after a model-taking call (`none`: the call takes no model) -/
def sourceAfter (m : Cqm) : Op → Option ModelIn
  | .setObjectiveModel mi => some mi                                   -- always copied
  | .addConstraintModel mi _ _ label copy _ _ => some (m.sourceAfterAdd mi label copy)
  | .addDiscreteModel mi label copy chk =>         -- every error of the discrete forms comes before the move
    some (if (m.addDiscreteModel mi label copy chk).2.isNone then m.sourceAfterAdd mi label copy else mi)
  | .addDiscreteComparison mi sense rhs label copy chk =>
    some (if (m.addDiscreteComparison mi sense rhs label copy chk).2.isNone then m.sourceAfterAdd mi label copy else mi)
  | _ => none

/-- the model after a history (exceptions are caught by the caller, the state they leave stays) -/
def run (m : Cqm) (ops : List Op) : Cqm := ops.foldl (fun m op => (m.step op).1) m

end Cqm
