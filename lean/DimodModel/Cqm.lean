import DimodModel.Bqm

/-! Feasibility prototype (scratch): executable model of `Expression` / `Constraint` /
    `ConstrainedQuadraticModel` (expression.h, constrained_quadratic_model.h, cyconstrained.pyx,
    constrained.py), enough for add/remove/fix/flip/change_vartype histories. -/

inductive VT4 | binary | spin | integer | real
  deriving DecidableEq, Repr

inductive Sense | le | ge | eq
  deriving DecidableEq, Repr

/-- base quadratic model over *local* indices -/
structure QB where
  lin : List Rat := []
  adj : List (List (Nat × Rat)) := []
  off : Rat := 0

structure Expr where
  vars : List Nat := []      -- `variables_`: global index of each local variable
  qb : QB := {}

structure Cons where
  e : Expr := {}
  sense : Sense := .eq
  rhs : Rat := 0
  weight : Option Rat := none   -- none = hard
  quadPenalty : Bool := false
  discrete : Bool := false

structure Cqm where
  vt : List VT4 := []
  lb : List Rat := []
  ub : List Rat := []
  obj : Expr := {}
  cons : List Cons := []
  labels : List Label := []
  clabels : List Label := []

namespace QB
def n (q : QB) : Nat := q.lin.length
def addVar (q : QB) : QB := { q with lin := q.lin ++ [0], adj := q.adj ++ [[]] }
def asym (q : QB) (u v : Nat) (b : Rat) (set : Bool) : QB :=
  { q with adj := Bqm.modifyAt q.adj u (fun nb => Bqm.nbhAdd nb v b set) }
/-- `abc::add_quadratic` with the vartype of `u` (local) supplied -/
def addQuadratic (q : QB) (vtu : VT4) (u v : Nat) (b : Rat) : QB :=
  if u = v then
    match vtu with
    | .binary => { q with lin := Bqm.modifyAt q.lin u (· + b) }
    | .spin => { q with off := q.off + b }
    | _ => q.asym u u b false
  else (q.asym u v b false).asym v u b false
def removeVar (q : QB) (vi : Nat) : QB :=
  let fix (nb : List (Nat × Rat)) : List (Nat × Rat) :=
    (nb.filter (fun p => p.1 ≠ vi)).map (fun p => if p.1 > vi then (p.1 - 1, p.2) else p)
  { q with lin := Bqm.eraseIdx q.lin vi, adj := (Bqm.eraseIdx q.adj vi).map fix }
/-- `abc::substitute_variable(v, m, c)` exactly as coded (self-loop handled as the code does) -/
def substitute (q : QB) (v : Nat) (m c : Rat) : QB :=
  let lv := q.lin.getD v 0
  let q := { q with off := q.off + lv * c, lin := Bqm.modifyAt q.lin v (· * m) }
  let nb := q.adj.getD v []
  -- loop over the neighbourhood of v
  nb.foldl (fun q p =>
    let q := { q with lin := Bqm.modifyAt q.lin p.1 (· + p.2 * c) }
    -- asymmetric_quadratic_ref(term.v, v) *= m ; term.bias *= m
    let scaleAt (q : QB) (a b : Nat) : QB :=
      { q with adj := Bqm.modifyAt q.adj a (fun nb => nb.map fun e => if e.1 = b then (e.1, e.2 * m) else e) }
    scaleAt (scaleAt q p.1 v) v p.1) q
/-- `abc::fix_variable(v, a)` (used by the copying path's per-expression fix and by QM) -/
def fixVar (q : QB) (v : Nat) (a : Rat) : QB :=
  let nb := q.adj.getD v []
  let lin := nb.foldl (fun l p => Bqm.modifyAt l p.1 (· + a * p.2)) q.lin
  ({ q with lin := lin, off := q.off + a * lin.getD v 0 }).removeVar v
def scale (q : QB) (s : Rat) : QB :=
  { off := q.off * s, lin := q.lin.map (· * s), adj := q.adj.map (·.map fun p => (p.1, p.2 * s)) }
end QB

namespace Expr
def localOf? (e : Expr) (g : Nat) : Option Nat :=
  let rec go : List Nat → Nat → Option Nat
    | [], _ => none
    | x :: xs, i => if x = g then some i else go xs (i+1)
  go e.vars 0
/-- `enforce_variable` -/
def enforce (e : Expr) (g : Nat) : Expr × Nat :=
  match e.localOf? g with
  | some i => (e, i)
  | none => (({ vars := e.vars ++ [g], qb := e.qb.addVar } : Expr), e.vars.length)
def addLinear (e : Expr) (g : Nat) (b : Rat) : Expr :=
  let (e, i) := e.enforce g
  { e with qb := { e.qb with lin := Bqm.modifyAt e.qb.lin i (· + b) } }
def addQuadratic (e : Expr) (vt : List VT4) (gu gv : Nat) (b : Rat) : Expr :=
  let (e, ui) := e.enforce gu
  let (e, vi) := e.enforce gv
  { e with qb := e.qb.addQuadratic (vt.getD gu .binary) ui vi b }
/-- `reindex_variables(v)`: drop `v` if present, shift larger global indices down -/
def reindex (e : Expr) (g : Nat) : Expr :=
  let e := match e.localOf? g with
    | some i => ({ vars := Bqm.eraseIdx e.vars i, qb := e.qb.removeVar i } : Expr)
    | none => e
  { e with vars := e.vars.map fun x => if x > g then x - 1 else x }
def substitute (e : Expr) (g : Nat) (m c : Rat) : Expr :=
  match e.localOf? g with
  | some i => { e with qb := e.qb.substitute i m c }
  | none => e
end Expr

namespace Cqm

def numVars (m : Cqm) : Nat := m.vt.length

def idx? (m : Cqm) (v : Label) : Option Nat :=
  let rec go : List Label → Nat → Option Nat
    | [], _ => none
    | l :: ls, i => if l = v then some i else go ls (i+1)
  go m.labels 0

def cidx? (m : Cqm) (v : Label) : Option Nat :=
  let rec go : List Label → Nat → Option Nat
    | [], _ => none
    | l :: ls, i => if l = v then some i else go ls (i+1)
  go m.clabels 0

def addVariable (m : Cqm) (vt : VT4) (v : Label) (lb ub : Rat) : Cqm × Bool :=
  match m.idx? v with
  | some i =>
    if m.vt.getD i .binary = vt && (vt = .binary || vt = .spin || (m.lb.getD i 0 = lb && m.ub.getD i 0 = ub))
    then (m, true) else (m, false)
  | none =>
    ({ m with vt := m.vt ++ [vt], lb := m.lb ++ [lb], ub := m.ub ++ [ub], labels := m.labels ++ [v] }, true)

/-- terms of a model handed over in its own variable order: all variables get a linear entry first,
    then the lower-triangle quadratic terms -/
structure ModelIn where
  vars : List Label
  info : List (VT4 × Rat × Rat)   -- vartype and bounds of each variable in the incoming model
  lin : List Rat
  quad : List (Nat × Nat × Rat)   -- indices into `vars`
  off : Rat

def buildExpr (m : Cqm) (mi : ModelIn) : Option Expr := do
  let gs ← mi.vars.mapM m.idx?
  -- conflicting vartypes / bounds are rejected before anything is changed
  if (gs.zip mi.info).any (fun (g, (vt, lb, ub)) =>
      m.vt.getD g .binary ≠ vt || m.lb.getD g 0 ≠ lb || m.ub.getD g 0 ≠ ub) then none
  let e := (gs.zip mi.lin).foldl (fun e p => e.addLinear p.1 p.2) ({} : Expr)
  let e := mi.quad.foldl (fun e t => e.addQuadratic m.vt (gs.getD t.1 0) (gs.getD t.2.1 0) t.2.2) e
  pure { e with qb := { e.qb with off := e.qb.off + mi.off } }

def setObjective (m : Cqm) (mi : ModelIn) : Option Cqm := do
  let e ← m.buildExpr mi
  pure { m with obj := e }

def addConstraint (m : Cqm) (mi : ModelIn) (sense : Sense) (rhs : Rat) (label : Label)
    (weight : Option Rat) (quadPenalty : Bool) : Option Cqm := do
  if m.clabels.contains label then none
  let e ← m.buildExpr mi
  pure { m with cons := m.cons ++ [{ e, sense, rhs, weight, quadPenalty }], clabels := m.clabels ++ [label] }

def mapExprs (m : Cqm) (f : Expr → Expr) : Cqm :=
  { m with obj := f m.obj, cons := m.cons.map fun c => { c with e := f c.e } }

/-- C++ `remove_variable(v)` + label removal (no discrete check here) -/
def removeVarAt (m : Cqm) (g : Nat) : Cqm :=
  let m := m.mapExprs (·.reindex g)
  { m with vt := Bqm.eraseIdx m.vt g, lb := Bqm.eraseIdx m.lb g, ub := Bqm.eraseIdx m.ub g,
           labels := Bqm.eraseIdx m.labels g }

def isOnehot (m : Cqm) (c : Cons) : Bool :=
  c.e.qb.adj.all (·.isEmpty) && c.e.vars.length ≥ 2 && c.sense = .eq && c.e.qb.off = 0 &&
  c.e.vars.all (fun g => m.vt.getD g .spin = .binary) && c.e.qb.lin.all (· = c.rhs)

def isDiscrete (m : Cqm) (c : Cons) : Bool := c.discrete && m.isOnehot c

/-- Python `remove_variable` (with the D10 repair applied: `.lhs.variables`) -/
def removeVariable (m : Cqm) (v : Label) : Option Cqm := do
  let g ← m.idx? v
  if m.cons.any (fun c => m.isDiscrete c && c.e.vars.contains g) then none
  pure (m.removeVarAt g)

/-- in-place `fix_variable`: marker update, `substitute(v,0,a)`, `remove_variable` -/
def fixVariable (m : Cqm) (v : Label) (a : Rat) : Option Cqm := do
  let g ← m.idx? v
  let m := if m.vt.getD g .spin = .binary && a ≠ 0 then
      { m with cons := m.cons.map fun c => if c.discrete && c.e.vars.contains g then { c with discrete := false } else c }
    else m
  let m := m.mapExprs (·.substitute g 0 a)
  pure (m.removeVarAt g)

def flipVariable (m : Cqm) (v : Label) : Option Cqm := do
  let g ← m.idx? v
  match m.vt.getD g .integer with
  | .spin => pure (m.mapExprs (·.substitute g (-1) 0))
  | .binary =>
    let m := m.mapExprs (·.substitute g (-1) 1)
    -- python: discrete constraints containing v lose their mark
    pure { m with cons := m.cons.map fun c => if m.isDiscrete c && c.e.vars.contains g then { c with discrete := false } else c }
  | _ => none

def setAt {α} (l : List α) (i : Nat) (a : α) : List α := Bqm.modifyAt l i (fun _ => a)

def changeVartype (m : Cqm) (vt : VT4) (v : Label) : Option Cqm := do
  let g ← m.idx? v
  let src := m.vt.getD g .integer
  if src = vt then pure m
  else if src = .spin && vt = .binary then
    let m := m.mapExprs (·.substitute g 2 (-1))
    pure { m with vt := setAt m.vt g .binary, lb := setAt m.lb g 0, ub := setAt m.ub g 1 }
  else if src = .binary && vt = .spin then
    let m := m.mapExprs (·.substitute g (1/2) (1/2))
    pure { m with vt := setAt m.vt g .spin, lb := setAt m.lb g (-1), ub := setAt m.ub g 1 }
  else if src = .binary && vt = .integer then pure { m with vt := setAt m.vt g .integer }
  else if src = .spin && vt = .integer then
    let m := m.mapExprs (·.substitute g 2 (-1))
    pure { m with vt := setAt m.vt g .integer, lb := setAt m.lb g 0, ub := setAt m.ub g 1 }
  else none

def removeConstraint (m : Cqm) (label : Label) : Option Cqm := do
  let c ← m.cidx? label
  pure { m with cons := Bqm.eraseIdx m.cons c, clabels := Bqm.eraseIdx m.clabels c }

end Cqm
