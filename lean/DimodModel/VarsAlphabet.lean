import Generated.VarsMethods

/-! The operation alphabet of the C13 model against the method set of the source: every method of
    `cyVariables` (`def` / `cpdef` / `cdef`), of `class Variables`, and every inherited mixin / pickle hook, as listed
    by `harness/translators/vars_methods.py`, is mapped to the model definition that mirrors it, or is listed as out
    of scope with the reason.  Core Lean only. -/

namespace VarsAlphabet

/-- source method ↦ model definition (object level `KState.*` in `DimodModel/VarsKeys.lean` / `VarsObj.lean`,
    label level `VState.*`) -/
def modelled : List (String × String) := [
  ("__init__", "KState.ofList / KState.ofRange / KState.copy (the three branches of the constructor)"),
  ("__init_cyvariables__", "KState.copy"),
  ("__contains__", "KState.count"),
  ("__copy__", "KState.copy"),
  ("__getitem__", "KState.at? / KState.getSlice"),
  ("__iter__", "KState.iterObjs"),
  ("__len__", "VState.len"),
  ("_append", "KState.appendP / VState.autoLabelG"),
  ("_clear", "KState.step .clear"),
  ("_is_range", "VState.isRange"),
  ("_extend", "KState.extend"),
  ("_pop", "KState.pop"),
  ("_relabel", "KState.relabel"),
  ("_relabel_as_integers", "KState.step .relabelInts / VState.restoreMap"),
  ("_remove", "KState.remove"),
  ("at", "KState.at?"),
  ("copy", "KState.copy"),
  ("_count_int", "KState.countInt"),
  ("count", "KState.count"),
  ("index", "KState.index?"),
  ("size", "KState.stop"),
  ("__eq__", "KState.eqOther"),
  ("__ne__", "KState.neOther"),
  ("is_range", "VState.isRange"),
  ("__and__", "KState.and"), ("__rand__", "KState.and"),
  ("__or__", "KState.or"), ("__ror__", "KState.ror (= KState.or)"),
  ("__sub__", "KState.sub"), ("__rsub__", "KState.rsub"),
  ("__xor__", "KState.xor"), ("__rxor__", "KState.xor"),
  ("__le__", "KState.le"), ("__lt__", "KState.lt"), ("__ge__", "KState.ge"), ("__gt__", "KState.gt"),
  ("__reversed__", "KState.reversedObjs"),
  ("_from_iterable", "KState.ofList"),
  ("isdisjoint", "KState.isdisjoint"),
  ("__reduce__", "VState.reduce"), ("__reduce_cython__", "VState.reduce"),
  ("__setstate__", "VState.setState"), ("__setstate_cython__", "VState.setState")]

/-- methods that are not behaviour of the label/index bijection -/
def outOfScope : List (String × String) := [
  ("__repr__", "text rendering of the labels"),
  ("to_serializable", "JSON-serialisable form of the labels (serialisation is property C09's)"),
  ("_hash", "abc.Set helper that nothing calls: Variables defines __eq__, so its __hash__ is None")]

def covers (m : String) : Bool := (modelled.map Prod.fst).contains m || (outOfScope.map Prod.fst).contains m

end VarsAlphabet
