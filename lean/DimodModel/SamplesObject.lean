import DimodModel.SampleSetMore

/-! r8f (C14): label-addressed reads on ONE sample-set object along a history of lookups and in-place calls.

`SamplesArray._getmultiindex(rows, cols)` (`dimod/views/samples.py`) resolves a list of labels as
`[variables.index(v) for v in col]` against the `Variables` object it SHARES with the sample set, at the time of the
call.  Neither `Variables` nor `SamplesArray` stores anything on the instance during a lookup (the translator
`samples_state.py` regenerates the list of attribute stores of these classes and the calls `_getmultiindex` makes on
`variables` → `Generated/SamplesState.lean`), so the object after a lookup is the object before it.  Core Lean only. -/

namespace SSM

/-- `samples(sorted_by=None)[rows, cols]` with a list of labels: the resolved row indices, the columns found by
    `variables.index` (an unknown label: `ValueError` → `KeyError` = `none`) -/
def SS.getMulti (s : SS) (rowIdx : List Nat) (cols : List Label) : Option (List (List Rat)) :=
  if cols.all (· ∈ s.labels) then
    some ((gather s.rows rowIdx).map fun r => gather r.sample (cols.map (s.labels.idxOf ·)))
  else none

/-- the calls made on one sample-set object -/
inductive ObjOp where
  | relabelIp (m : List (Label × Label))          -- `relabel_variables(m, inplace=True)`
  | changeVtIp (vt : VT) (off : Rat)              -- `change_vartype(vt, off, inplace=True)`
  | keep (vars : List Label) (sort : Bool)        -- `dimod.keep_variables(ss, vars)`: a new object
  | drop (vars : List Label)                      -- `dimod.drop_variables(ss, vars)`: a new object
  | getMulti (rows : List Nat) (cols : List Label)  -- `ss.samples(sorted_by=None)[rows, cols]`: an array

/-- is the call one of the in-place ones -/
def ObjOp.mutates : ObjOp → Bool
  | .relabelIp _ | .changeVtIp _ _ => true
  | _ => false

/-- the object after the call.  A refused relabel raises before anything is touched; `change_vartype` shifts the
    energies before it looks at the vartype (as coded: `SS.changeVartype` returns that state with `false`).
    Lookups leave the object as it is. -/
def ObjOp.next : ObjOp → SS → SS
  | .relabelIp m, s => (s.relabel m).getD s
  | .changeVtIp vt off, s => (s.changeVartype vt off).1
  | _, s => s

def runObj (ops : List ObjOp) (s : SS) : SS := ops.foldl (fun s o => o.next s) s

/-! ### the seeded variant (what a per-object label→index table with a length-only staleness check does) -/

/-- an object that keeps a label→index table, rebuilt only when its length differs from the number of labels -/
structure CachedSS where
  ss : SS
  table : Option (List (Label × Nat))

def CachedSS.fresh (c : CachedSS) : List (Label × Nat) :=
  match c.table with
  | some t => if t.length = c.ss.labels.length then t else c.ss.labels.zipIdx
  | none => c.ss.labels.zipIdx

/-- the lookup through the table (and the table it leaves behind) -/
def CachedSS.getMulti (c : CachedSS) (rowIdx : List Nat) (cols : List Label) : CachedSS × Option (List (List Rat)) :=
  let t := c.fresh
  let look (v : Label) : Option Nat := (t.find? (·.1 = v)).map (·.2)
  ({ c with table := some t },
   (allSome (cols.map look)).map fun idx => (gather c.ss.rows rowIdx).map fun r => gather r.sample idx)

def CachedSS.relabelIp (c : CachedSS) (m : List (Label × Label)) : CachedSS :=
  { c with ss := (c.ss.relabel m).getD c.ss }

end SSM
