import DimodModel.ZipEnd

/-! # The ZIP container at byte level, as `zipfile` writes and reads it  (C09 / C10, round 7)

`ConstrainedQuadraticModel.to_file` appends a ZIP archive to the dimod header with
`zipfile.ZipFile(file, mode='a')` — `ZIP_STORED` by default, `ZIP_DEFLATED` with `compress=True` —
and `np.savez` / `np.savez_compressed` do the same for the DQM arrays.  This file models the byte
layout of such an archive:

* per member a **local file header** (`PK\x03\x04`, 30 fixed bytes, name, extra field) followed by the
  member's stored bytes;
* the **central directory** (`PK\x01\x02`, 46 fixed bytes, name, extra, comment per member) with the
  absolute offset of each local header;
* the 22-byte **end record** (`eocdRecord`, `DimodModel/ZipEnd.lean`).

and the reader `zipfile` runs once `_EndRecData` has found an end record: `_RealGetContents` (walk the
central directory `while total < size_cd`, 46-byte records, signature test) and `ZipFile.open` /
`ZipExtFile.read` per member (local header signature, name in the local header = name in the
directory, `compress_size` bytes, decompression, CRC-32 test).

Opaque but CHECKED: `crc32 : Bytes → Nat` (a parameter; the reader compares the directory's CRC field
with `crc32` of the content it produced).  A CONTRACT: the deflate codec, `inflate (deflate b) = some b`
(parameters `inflate`; the writer's `stored` bytes of a deflated member are `deflate content`).
Fields the reader ignores (versions, time stamp, attributes, the local header's size fields — which
are `0xFFFFFFFF` + a zip64 extra field for members written with `force_zip64=True` — and the extra
fields) are carried as data and reproduced byte for byte in the correspondence run.
Not modelled: zip64 END records / directory entries whose sizes are `0xFFFFFFFF`, encryption,
data descriptors (flag bit 3: `zipfile` writes none to a seekable file).  The reader here reads every
member eagerly; `zipfile` reads lazily (the difference is visible only on corrupt archives). -/

namespace FileFmt

/-- `stringCentralDir = b"PK\001\002"` -/
def sigCD : Bytes := [80, 75, 1, 2]

/-- one member as written -/
structure ZEntry where
  name : Bytes           -- file name (ASCII for everything dimod / numpy write)
  content : Bytes        -- the member's bytes as handed to `writestr` / written through `zf.open(name, 'w')`
  stored : Bytes         -- what is in the file: `content` (method 0) or its deflate stream (method 8)
  method : Nat
  crc : Nat              -- the CRC-32 field
  lver : Nat             -- version needed to extract (20; 45 with `force_zip64`)
  cver : Nat             -- version made by
  flags : Nat
  time : Nat
  date : Nat
  lcsize : Nat           -- the LOCAL header's size fields (`0xFFFFFFFF` with `force_zip64`)
  lusize : Nat
  lextra : Bytes         -- the local header's extra field (zip64 sizes with `force_zip64`)
  cextra : Bytes         -- the directory entry's extra field
  iattr : Nat
  eattr : Nat
  deriving Repr, DecidableEq

/-- the 30 fixed bytes of a local file header (`structFileHeader = "<4s2B4HL2L2H"`) -/
def localFixed (z : ZEntry) : Bytes :=
  sigLocal ++ toLE 2 z.lver ++ toLE 2 z.flags ++ toLE 2 z.method ++ toLE 2 z.time ++ toLE 2 z.date ++ toLE 4 z.crc ++
    toLE 4 z.lcsize ++ toLE 4 z.lusize ++ toLE 2 z.name.length ++ toLE 2 z.lextra.length

/-- local header, name, extra field, stored bytes -/
def localEntry (z : ZEntry) : Bytes := localFixed z ++ (z.name ++ (z.lextra ++ z.stored))

/-- the 46 fixed bytes of a central directory record (`structCentralDir = "<4s4B4HL2L5H2L"`) -/
def cdFixed (z : ZEntry) (off : Nat) : Bytes :=
  sigCD ++ toLE 2 z.cver ++ toLE 2 z.lver ++ toLE 2 z.flags ++ toLE 2 z.method ++ toLE 2 z.time ++ toLE 2 z.date ++ toLE 4 z.crc ++
    toLE 4 z.stored.length ++ toLE 4 z.content.length ++ toLE 2 z.name.length ++ toLE 2 z.cextra.length ++ toLE 2 0 ++ toLE 2 0 ++
    toLE 2 z.iattr ++ toLE 4 z.eattr ++ toLE 4 off

def cdEntry (z : ZEntry) (off : Nat) : Bytes := cdFixed z off ++ (z.name ++ z.cextra)

/-- the local entries one after the other, the first at file offset `base` -/
def zipLocals : List ZEntry → Bytes
  | [] => []
  | z :: zs => localEntry z ++ zipLocals zs

/-- the central directory: one record per member with the absolute offset of its local header -/
def zipCD : Nat → List ZEntry → Bytes
  | _, [] => []
  | off, z :: zs => cdEntry z off ++ zipCD (off + (localEntry z).length) zs

/-- **what `ZipFile(file, mode='a')` appends to a file that holds `base` bytes** (`close()`: `_write_end_record`) -/
def zipBytes (base : Nat) (zs : List ZEntry) : Bytes :=
  zipLocals zs ++ (zipCD base zs ++ eocdRecord zs.length (zipCD base zs).length (base + (zipLocals zs).length))

/-! ## the reader -/

/-- what `_RealGetContents` keeps of one directory record -/
structure CDInfo where
  name : Bytes
  method : Nat
  flags : Nat
  crc : Nat
  csize : Nat
  usize : Nat
  offset : Nat
  deriving Repr, DecidableEq

/-- the loop of `_RealGetContents` over the `size_cd` bytes of the directory: `remaining = size_cd - total`;
    a short or unsigned record is `BadZipFile`.  Sizes of `0xFFFFFFFF` (zip64 extra) are outside the model. -/
def parseCD : Nat → Nat → Bytes → Option (List CDInfo)
  | 0, _, _ => none
  | fuel + 1, remaining, data =>
    if remaining = 0 then some []
    else
      let c := data.take 46
      if c.length ≠ 46 ∨ c.take 4 ≠ sigCD then none
      else
        let csize := leNat ((c.drop 20).take 4)
        let usize := leNat ((c.drop 24).take 4)
        let nlen := leNat ((c.drop 28).take 2)
        let elen := leNat ((c.drop 30).take 2)
        let clen := leNat ((c.drop 32).take 2)
        let off := leNat ((c.drop 42).take 4)
        if csize = 256 ^ 4 - 1 ∨ usize = 256 ^ 4 - 1 ∨ off = 256 ^ 4 - 1 then none
        else
          let info : CDInfo := { name := (data.drop 46).take nlen, method := leNat ((c.drop 10).take 2),
                                 flags := leNat ((c.drop 8).take 2), crc := leNat ((c.drop 16).take 4),
                                 csize := csize, usize := usize, offset := off }
          (parseCD fuel (remaining - (46 + nlen + elen + clen)) (data.drop (46 + nlen + elen + clen))).map (info :: ·)

/-- `ZipFile.open(name).read()`: the local header is looked for at `header_offset + concat` with
    `concat = start_dir - offset_cd` (an INTEGER: negative when the archive was written at a file position that is no
    longer in front of it, as for the `.npz` blob of a DQM file handed to `np.load` on its own; a negative position is
    an error).  Local header (30 bytes, signature), the name stored there must be the directory's, `compress_size`
    stored bytes, decompression by method, CRC-32 of the result. -/
def readMember (crc32 : Bytes → Nat) (inflate : Bytes → Option Bytes) (file : Bytes) (startDir offsetCd : Nat) (i : CDInfo) : Option Bytes :=
  if i.offset + startDir < offsetCd then none               -- seek to a negative position
  else
  let loc := file.drop (i.offset + startDir - offsetCd)
  let h := loc.take 30
  if h.length ≠ 30 ∨ h.take 4 ≠ sigLocal then none
  else if i.flags % 2 = 1 then none                       -- encrypted: a password is required
  else
    let nlen := leNat ((h.drop 26).take 2)
    let elen := leNat ((h.drop 28).take 2)
    if (loc.drop 30).take nlen ≠ i.name then none           -- "File name in directory and header differ"
    else
      let raw := (loc.drop (30 + nlen + elen)).take i.csize
      if raw.length ≠ i.csize then none                    -- EOFError
      else
        match (if i.method = 0 then some raw else if i.method = 8 then inflate raw else none) with
        | none => none
        | some content => if crc32 content = i.crc then some content else none   -- "Bad CRC-32"

def readMembers (crc32 : Bytes → Nat) (inflate : Bytes → Option Bytes) (file : Bytes) (startDir offsetCd : Nat) :
    List CDInfo → Option (List (Bytes × Bytes))
  | [] => some []
  | i :: is =>
    match readMember crc32 inflate file startDir offsetCd i with
    | none => none
    | some b => (readMembers crc32 inflate file startDir offsetCd is).map ((i.name, b) :: ·)

/-- **the directory reader**: `_RealGetContents` after `_EndRecData`, then every member.
    `start_dir = location - size_cd` (negative: `BadZipFile`, tested by `zipOpen`); every `header_offset` is shifted by
    `concat = start_dir - offset_cd`. -/
def readDirBytes (crc32 : Bytes → Nat) (inflate : Bytes → Option Bytes) (r : EndRec) (file : Bytes) : Option (List (Bytes × Bytes)) :=
  match r.startDir with
  | none => none
  | some sd =>
    match parseCD (r.sizeCd + 1) r.sizeCd ((file.drop sd).take r.sizeCd) with
    | none => none
    | some infos => readMembers crc32 inflate file sd r.offsetCd infos

/-- member names as the `Archive` of the CQM / npz models has them (`str`; ASCII) -/
def readDirChars (crc32 : Bytes → Nat) (inflate : Bytes → Option Bytes) (r : EndRec) (file : Bytes) : Option Archive :=
  (readDirBytes crc32 inflate r file).map fun ms => ms.map fun m => (asciiChars m.1, m.2)

/-- the entry `zipfile` writes for a member: the writer's choices that the reader checks are derived
    (`stored`, `crc`), the rest is data -/
def ZEntry.OK (crc32 : Bytes → Nat) (inflate : Bytes → Option Bytes) (z : ZEntry) : Prop :=
  z.crc = crc32 z.content ∧ z.crc < 256 ^ 4 ∧
  ((z.method = 0 ∧ z.stored = z.content) ∨ (z.method = 8 ∧ inflate z.stored = some z.content)) ∧
  z.flags % 2 = 0 ∧ z.flags < 256 ^ 2 ∧
  z.name.length < 256 ^ 2 ∧ z.lextra.length < 256 ^ 2 ∧ z.cextra.length < 256 ^ 2 ∧
  z.stored.length < 256 ^ 4 - 1 ∧ z.content.length < 256 ^ 4 - 1

/-! ## the archive must tile the file: `_open_archive` of `dimod/constrained/constrained.py` (round-7 repair)

`zipfile` locates an archive from the END of the file, so in a truncated file it finds an end record spelled by the
payload.  The repaired CQM loader therefore walks the members in the order of their (shifted) header offsets from the
position where the header ended: each must start where the previous one stopped (local header 30 bytes + the name and
extra lengths read from the LOCAL header + the directory's `compress_size`), and the last must stop at `start_dir`. -/

/-- `sorted(zf.infolist(), key=lambda info: info.header_offset)` (stable) -/
def insertByOffset (i : CDInfo) : List CDInfo → List CDInfo
  | [] => [i]
  | j :: t => if i.offset ≤ j.offset then i :: j :: t else j :: insertByOffset i t

def sortByOffset : List CDInfo → List CDInfo
  | [] => []
  | i :: t => insertByOffset i (sortByOffset t)

/-- the walk: `pos` after the last member, or `none` (→ `ValueError`) -/
def tilesFrom (file : Bytes) (startDir offsetCd : Nat) : Nat → List CDInfo → Option Nat
  | pos, [] => some pos
  | pos, i :: t =>
    if i.offset + startDir < offsetCd then none          -- seek to a negative position
    else
      let lengths := (file.drop (i.offset + startDir - offsetCd + 26)).take 4
      if i.offset + startDir - offsetCd ≠ pos ∨ lengths.length ≠ 4 then none
      else tilesFrom file startDir offsetCd (pos + 30 + leNat (lengths.take 2) + leNat (lengths.drop 2) + i.csize) t

/-- `_open_archive(file_like)` with `file_like.tell() = start`, then every member -/
def openTiled (crc32 : Bytes → Nat) (inflate : Bytes → Option Bytes) (start : Nat) (file : Bytes) : Option (List (Bytes × Bytes)) :=
  match endRecData file with
  | none => none
  | some r =>
    match r.startDir with
    | none => none
    | some sd =>
      match parseCD (r.sizeCd + 1) r.sizeCd ((file.drop sd).take r.sizeCd) with
      | none => none
      | some infos =>
        if tilesFrom file sd r.offsetCd start (sortByOffset infos) = some sd then readMembers crc32 inflate file sd r.offsetCd infos
        else none

/-! ## round 8: the directory must agree with the local headers  (`_open_archive` after `patches/cqm-archive-local-headers.diff`)

The round-7 walk trusts the `compress_size` of the directory — but in a truncated file the directory is the one the payload
spells: it can list a "cover" member at the header end whose size spans all real members up to the embedded ones, and the
walk is satisfied (`C10.tiling_walk_trusts_directory_size`; found on the real loader in round 8).  The repaired walk reads
the whole LOCAL header of each member — signature, name, extra field, and the size recorded in front of the data (the
4-byte field, or with `0xFFFFFFFF` there the last 8 bytes of the zip64 extra that `force_zip64=True` writes) — and
requires name and size to be the directory's. -/

/-- `int.from_bytes(extra[-8:] if local[18:22] == b'\xff\xff\xff\xff' else local[18:22], 'little')` -/
def localSize (h extra : Bytes) : Nat :=
  if (h.drop 18).take 4 = [255, 255, 255, 255] then leNat (extra.drop (extra.length - 8)) else leNat ((h.drop 18).take 4)

/-- the walk of the round-8 `_open_archive`: `pos` after the last member, or `none` (→ `ValueError`) -/
def tilesFromStrict (file : Bytes) (startDir offsetCd : Nat) : Nat → List CDInfo → Option Nat
  | pos, [] => some pos
  | pos, i :: t =>
    if i.offset + startDir < offsetCd then none          -- seek to a negative position
    else
      let loc := file.drop (i.offset + startDir - offsetCd)
      let h := loc.take 30
      let nlen := leNat ((h.drop 26).take 2)
      let elen := leNat ((h.drop 28).take 2)
      let name := (loc.drop 30).take nlen
      let extra := (loc.drop (30 + nlen)).take elen
      if i.offset + startDir - offsetCd ≠ pos ∨ h.length ≠ 30 ∨ h.take 4 ≠ sigLocal ∨ extra.length ≠ elen ∨
          localSize h extra ≠ i.csize ∨ name ≠ i.name then none
      else tilesFromStrict file startDir offsetCd (pos + 30 + nlen + elen + i.csize) t

/-- `_open_archive(file_like)` (round 8) with `file_like.tell() = start`, then every member -/
def openTiledStrict (crc32 : Bytes → Nat) (inflate : Bytes → Option Bytes) (start : Nat) (file : Bytes) : Option (List (Bytes × Bytes)) :=
  match endRecData file with
  | none => none
  | some r =>
    match r.startDir with
    | none => none
    | some sd =>
      match parseCD (r.sizeCd + 1) r.sizeCd ((file.drop sd).take r.sizeCd) with
      | none => none
      | some infos =>
        if tilesFromStrict file sd r.offsetCd start (sortByOffset infos) = some sd then readMembers crc32 inflate file sd r.offsetCd infos
        else none

/-! ## round 8: the CQM loader with the opener at the position where the header reader stopped -/

/-- `read_header`, the version test, then `_open_archive(file_like)` with `file_like.tell()` = what the header reader consumed
    (`BadZipFile` of `zipfile` and the `ValueError` of the walk are one error class here) -/
def containerLoadAt (pre : Bytes) (parse : Bytes → Option H) (verOk : List Nat → Bool) (openAt : Nat → Bytes → Option β)
    (bytes : Bytes) : Res (H × β) :=
  match (readHeader pre parse).run bytes with
  | .err e => .err e
  | .ub => .ub
  | .ok ((ver, h), rest) =>
    if !verOk ver then .err .value
    else match openAt (bytes.length - rest.length) bytes with
      | none => .err .zip
      | some a => .ok (h, a)

/-- member names as the `Archive` of the CQM model has them -/
def openTiledChars (crc32 : Bytes → Nat) (inflate : Bytes → Option Bytes) (start : Nat) (file : Bytes) : Option Archive :=
  (openTiledStrict crc32 inflate start file).map fun ms => ms.map fun m => (asciiChars m.1, m.2)

/-- **`ConstrainedQuadraticModel.from_file` (2.0 files) after the round-8 repair** -/
def cqmFileLoadTiled (guard : Bool) (dsz : Nat) (parseHdr : Bytes → Option CqmCounts) (crc32 : Bytes → Nat) (inflate : Bytes → Option Bytes)
    (parse : Bytes → Option (QHeader J)) (okLabel : List Char → Bool) (bytes : Bytes) : Res CqmContent :=
  (containerLoadAt cqmPrefix parseHdr cqmVerOk (openTiledChars crc32 inflate) bytes).bind fun ha =>
    cqmDecodeChecked guard dsz ha.1 parse okLabel ha.2

/-! ## round 8: the DQM loader with the section-length check INSIDE the program (`_from_file_numpy` after the round-7 repair) -/

/-- `BIAS` magic, length, `blob = file_like.read(length)`, `if len(blob) != length: raise ValueError`, then `np.load` on the blob -/
def dqmBodyLenChecked (parseVars : Bytes → Option (List J)) (npLoad : Bytes → Option D) (nvarsOf : D → Nat) (labelled : Bool) (h : H) :
    Prog (H × D × Option (List J)) :=
  (Prog.expect magBIAS).bind fun _ =>
  (Prog.readLen 4).bind fun n =>
  (Prog.readN n).bind fun blob =>
  if blob.length ≠ n then .fail .value else dqmFinish parseVars npLoad nvarsOf labelled h blob

def dqmDecodeLenChecked (parse : Bytes → Option (Bool × H)) (parseVars : Bytes → Option (List J))
    (npLoad : Bytes → Option D) (nvarsOf : D → Nat) : Prog (H × D × Option (List J)) :=
  (readHeader dqmPrefix parse).bind fun vh =>
  if !tupleLt vh.1 [2, 0] then .fail .value else
  dqmBodyLenChecked parseVars npLoad nvarsOf vh.2.1 vh.2.2

end FileFmt
