import DimodModel.Bqm

/-! Executable model of `QuadraticModel` (`cyqm_template.pyx.pxi` + `cyqmbase_template.pyx.pxi` over
    `quadratic_model.h` / `abc.h`, Python layer `quadratic/quadratic_model.py` and the mixin of
    `views/quadratic.py`): per-variable vartype and bounds next to the same adjacency as the BQM;
    true self-loops on INTEGER / REAL variables.  `imax`, `rmax` are the dtype's limits
    (`vartype_limits`: 2^digits − 1 and 1e30 as rounded by the dtype).  Core Lean only. -/

inductive QVT | spin | binary | integer | real
  deriving DecidableEq, Repr

structure Qm where
  imax : Rat
  rmax : Rat
  labels : List Label
  vt : List QVT
  lb : List Rat
  ub : List Rat
  lin : List Rat
  adj : List (List (Nat × Rat))
  off : Rat

namespace Qm
open Bqm (modifyAt eraseIdx nbhAdd nbhCoef nbhDrop nbhShift indexOfGo)

def empty (imax rmax : Rat) : Qm := { imax, rmax, labels := [], vt := [], lb := [], ub := [], lin := [], adj := [], off := 0 }

def n (m : Qm) : Nat := m.lin.length
def indexOf? (m : Qm) (v : Label) : Option Nat := indexOfGo v m.labels 0
def vtAt (m : Qm) (i : Nat) : QVT := m.vt.getD i .binary
def linAt (m : Qm) (i : Nat) : Rat := m.lin.getD i 0
def nbhAt (m : Qm) (i : Nat) : List (Nat × Rat) := m.adj.getD i []
def quadAt (m : Qm) (u v : Nat) : Option Rat := nbhCoef (m.nbhAt u) v

def vmax (m : Qm) : QVT → Rat | .spin => 1 | .binary => 1 | .integer => m.imax | .real => m.rmax
def vmin (m : Qm) : QVT → Rat | .spin => -1 | .binary => 0 | .integer => -m.imax | .real => -m.rmax
def dmax (m : Qm) (t : QVT) : Rat := m.vmax t
def dmin (_m : Qm) : QVT → Rat | .spin => -1 | _ => 0

def autoLabel (m : Qm) : Label := ({ vt := .spin, labels := m.labels, lin := [], adj := [], off := 0 } : Bqm).autoLabel

def isBin : QVT → Bool | .spin => true | .binary => true | _ => false

/-- `given` is present and satisfies `p` -/
def optAny (o : Option Rat) (p : Rat → Bool) : Bool := match o with | some x => p x | none => false

/-- `cyQM.add_variable(vartype, label, lower_bound, upper_bound)` -/
def addVariable (m : Qm) (t : QVT) (v : Option Label) (lb ub : Option Rat) : Qm × Option ErrC :=
  let present : Option Nat := match v with | some l => m.indexOf? l | none => none
  match present with
  | some vi =>
    if m.vtAt vi ≠ t then (m, some .type) else
    if isBin t then (m, none) else
    if optAny lb (fun x => x ≠ m.lb.getD vi 0) then (m, some .value) else
    if optAny ub (fun x => x ≠ m.ub.getD vi 0) then (m, some .value) else
    (m, none)
  | none =>
    let bounds : Option (Rat × Rat) :=
      if isBin t then some (m.dmin t, m.dmax t) else
      let l := lb.getD (m.dmin t)
      let u := ub.getD (m.dmax t)
      if optAny lb (fun x => x < m.vmin t) then none else
      if optAny ub (fun x => x > m.vmax t) then none else
      if l > u then none else
      if t = .integer ∧ l.ceil > u.floor then none else some (l, u)
    match bounds with
    | none => (m, some .value)
    | some (l, u) =>
      let lbl := match v with | some x => x | none => m.autoLabel
      ({ m with labels := m.labels ++ [lbl], vt := m.vt ++ [t], lb := m.lb ++ [l], ub := m.ub ++ [u],
                lin := m.lin ++ [0], adj := m.adj ++ [[]] }, none)

/-- `add_linear(v, bias, default_vartype=…, default_lower_bound=…, default_upper_bound=…)` -/
def addLinear (m : Qm) (v : Label) (b : Rat) (dflt : Option (QVT × Option Rat × Option Rat)) : Qm × Option ErrC :=
  match m.indexOf? v, dflt with
  | some i, _ => ({ m with lin := modifyAt m.lin i (· + b) }, none)
  | none, none => (m, some .value)
  | none, some (t, lb, ub) =>
    match m.addVariable t (some v) lb ub with
    | (m', none) => ({ m' with lin := modifyAt m'.lin m.n (· + b) }, none)
    | (m', some e) => (m', some e)

def setLinear (m : Qm) (v : Label) (b : Rat) : Qm × Option ErrC :=
  match m.indexOf? v with
  | some i => ({ m with lin := modifyAt m.lin i (fun _ => b) }, none)
  | none => (m, some .value)

/-- `abc::add_quadratic` / `set_quadratic` for a QM: symmetric pair, or one self-loop entry -/
def addQ (m : Qm) (u v : Nat) (b : Rat) (set : Bool) : Qm :=
  if u = v then { m with adj := modifyAt m.adj u (fun nb => nbhAdd nb u b set) }
  else { m with adj := modifyAt (modifyAt m.adj u (fun nb => nbhAdd nb v b set)) v (fun nb => nbhAdd nb u b set) }

/-- the checks of `_add_quadratic` / `set_quadratic` (REAL_INTERACTIONS is off) -/
def quadAllowed (m : Qm) (ui vi : Nat) : Bool :=
  !(ui = vi && isBin (m.vtAt ui)) && m.vtAt ui ≠ .real && m.vtAt vi ≠ .real

def quadOp (m : Qm) (u v : Label) (b : Rat) (set : Bool) : Qm × Option ErrC :=
  match m.indexOf? u, m.indexOf? v with
  | some ui, some vi => if m.quadAllowed ui vi then (m.addQ ui vi b set, none) else (m, some .value)
  | _, _ => (m, some .value)

def removeInteraction (m : Qm) (u v : Label) : Qm × Option ErrC :=
  match m.indexOf? u, m.indexOf? v with
  | some ui, some vi =>
    match m.quadAt ui vi with
    | none => (m, some .value)
    | some _ =>
      if ui = vi then ({ m with adj := modifyAt m.adj ui (nbhDrop · ui) }, none)
      else ({ m with adj := modifyAt (modifyAt m.adj ui (nbhDrop · vi)) vi (nbhDrop · ui) }, none)
  | _, _ => (m, some .value)

def removeAt (m : Qm) (vi : Nat) : Qm :=
  { m with labels := eraseIdx m.labels vi, vt := eraseIdx m.vt vi, lb := eraseIdx m.lb vi, ub := eraseIdx m.ub vi,
           lin := eraseIdx m.lin vi, adj := (eraseIdx m.adj vi).map (nbhShift vi) }

def removeVariable (m : Qm) (v : Option Label) : Qm × Option ErrC :=
  match v with
  | none => if m.n = 0 then (m, some .value) else (m.removeAt (m.n - 1), none)
  | some v => match m.indexOf? v with
    | none => (m, some .value)
    | some i => (m.removeAt i, none)

def scale (m : Qm) (s : Rat) : Qm :=
  { m with off := m.off * s, lin := m.lin.map (· * s), adj := m.adj.map (·.map fun p => (p.1, p.2 * s)) }

/-- one neighbour of the loop of `abc::substitute_variable(v, mult, c)`: a self-loop term `b·v·v` becomes
    `b·mult²·v·v + 2·b·mult·c·v + b·c²` (the branch added by the fix of D4), any other term is scaled on both sides -/
def substStep (v : Nat) (mult c : Rat) (acc : Qm) (p : Nat × Rat) : Qm :=
  if p.1 = v then
    { acc with off := acc.off + p.2 * c * c, lin := modifyAt acc.lin v (· + 2 * p.2 * mult * c),
               adj := modifyAt acc.adj v (fun nb => nb.map fun (e : Nat × Rat) => if e.1 = v then (e.1, e.2 * (mult * mult)) else e) }
  else
    let acc := { acc with lin := modifyAt acc.lin p.1 (· + p.2 * c) }
    let acc := { acc with adj := modifyAt acc.adj p.1 (fun nb => nb.map fun (e : Nat × Rat) => if e.1 = v then (e.1, e.2 * mult) else e) }
    { acc with adj := modifyAt acc.adj v (fun nb => nb.map fun (e : Nat × Rat) => if e.1 = p.1 then (e.1, e.2 * mult) else e) }

/-- `abc::substitute_variable(v, mult, c)` as coded -/
def substituteVariable (m : Qm) (v : Nat) (mult c : Rat) : Qm :=
  let m := { m with off := m.off + m.linAt v * c, lin := modifyAt m.lin v (· * mult) }
  (m.nbhAt v).foldl (substStep v mult c) m

def setInfo (m : Qm) (v : Nat) (t : QVT) (l u : Rat) : Qm :=
  { m with vt := modifyAt m.vt v (fun _ => t), lb := modifyAt m.lb v (fun _ => l), ub := modifyAt m.ub v (fun _ => u) }

/-- `QuadraticModel::change_vartype(vartype, v)`; unsupported pairs are `std::logic_error` → TypeError -/
def changeVartypeAt (m : Qm) (t : QVT) (v : Nat) : Qm × Option ErrC :=
  match m.vtAt v, t with
  | .spin, .spin | .binary, .binary | .integer, .integer | .real, .real => (m, none)
  | .spin, .binary => ((m.substituteVariable v 2 (-1)).setInfo v .binary 0 1, none)
  | .binary, .spin => ((m.substituteVariable v (1/2) (1/2)).setInfo v .spin (-1) 1, none)
  | .spin, .integer =>
    let m := (m.substituteVariable v 2 (-1)).setInfo v .binary 0 1
    ({ m with vt := modifyAt m.vt v (fun _ => .integer) }, none)
  | .binary, .integer => ({ m with vt := modifyAt m.vt v (fun _ => .integer) }, none)
  | _, _ => (m, some .type)

def changeVartype (m : Qm) (t : QVT) (v : Label) : Qm × Option ErrC :=
  match m.indexOf? v with
  | none => (m, some .value)
  | some vi => m.changeVartypeAt t vi

/-- mixin `fix_variable(v, value)`: neighbourhood (self-loop included) into the linear biases, then the offset -/
def fixVariable (m : Qm) (v : Label) (a : Rat) : Qm × Option ErrC :=
  match m.indexOf? v with
  | none => (m, some .value)
  | some vi =>
    let lin := (m.nbhAt vi).foldl (fun l p => modifyAt l p.1 (· + a * p.2)) m.lin
    let m := { m with lin := lin, off := m.off + a * lin.getD vi 0 }
    (m.removeAt vi, none)

/-- one iteration of `flip_variable`'s loop over the neighbourhood of `vi` -/
def flipStepSpin (vi : Nat) (acc : Qm) (p : Nat × Rat) : Qm := acc.addQ p.1 vi (-1 * p.2) true

def flipStepBinary (vi : Nat) (acc : Qm) (p : Nat × Rat) : Qm :=
  let a := acc.addQ p.1 vi (-1 * p.2) true
  { a with lin := modifyAt a.lin p.1 (· + p.2) }

def negLin (m : Qm) (vi : Nat) : Qm := { m with lin := modifyAt m.lin vi (fun _ => -1 * m.linAt vi) }

def addOff (m : Qm) (x : Rat) : Qm := { m with off := m.off + x }

/-- `flip_variable(v)` as coded; only SPIN / BINARY variables -/
def flip (m : Qm) (v : Label) : Qm × Option ErrC :=
  match m.indexOf? v with
  | none => (m, some .value)
  | some vi =>
    match m.vtAt vi with
    | .spin => (((m.nbhAt vi).foldl (flipStepSpin vi) m).negLin vi, none)
    | .binary =>
      let m1 := (m.nbhAt vi).foldl (flipStepBinary vi) m
      ((m1.addOff (m1.linAt vi)).negLin vi, none)
    | _ => (m, some .value)

def relabel (m : Qm) (mp : List (Label × Label)) : Qm × Option ErrC :=
  match LSpec.step m.labels (.relabel mp) with
  | (l, true) => ({ m with labels := l }, none)
  | (_, false) => (m, some .value)

def relabelInts (m : Qm) : Qm := { m with labels := (List.range m.labels.length).map fun (i : Nat) => Label.int (i : Int) }

def clear (m : Qm) : Qm := { m with labels := [], vt := [], lb := [], ub := [], lin := [], adj := [], off := 0 }

/-- `set_lower_bound(v, lb)` / `set_upper_bound(v, ub)` -/
def setBound (m : Qm) (v : Label) (x : Rat) (lower : Bool) : Qm × Option ErrC :=
  match m.indexOf? v with
  | none => (m, some .value)
  | some vi =>
    let t := m.vtAt vi
    if isBin t then (m, some .value) else
    if lower then
      if x < m.vmin t then (m, some .value) else
      if x > m.ub.getD vi 0 then (m, some .value) else
      if t = .integer ∧ x.ceil > (m.ub.getD vi 0).floor then (m, some .value) else
      ({ m with lb := modifyAt m.lb vi (fun _ => x) }, none)
    else
      if x > m.vmax t then (m, some .value) else
      if x < m.lb.getD vi 0 then (m, some .value) else
      if t = .integer ∧ (m.lb.getD vi 0).ceil > x.floor then (m, some .value) else
      ({ m with ub := modifyAt m.ub vi (fun _ => x) }, none)

def spinToBinary (m : Qm) : Qm :=
  (List.range m.n).foldl (fun acc i => if acc.vtAt i = .spin then (acc.changeVartypeAt .binary i).1 else acc) m

/-- triples `(u, v, bias)` with `v ≤ u` in `ConstQuadraticIterator` order -/
def lowerTriples (m : Qm) : List (Nat × Nat × Rat) :=
  (List.range m.adj.length).flatMap fun u => ((m.nbhAt u).filter (fun p => p.1 ≤ u)).map fun p => (u, p.1, p.2)

/-- `update`: position `i` of `other` carries a label the receiver knows with another vartype or other bounds -/
def clashAt (m o : Qm) (i : Nat) : Bool :=
  match o.labels[i]? with
  | some l => match m.indexOf? l with
    | some j => m.vtAt j ≠ o.vtAt i || m.lb.getD j 0 ≠ o.lb.getD i 0 || m.ub.getD j 0 ≠ o.ub.getD i 0
    | none => false
  | none => false

/-- `update`: add the variable at position `i` of `other` unless its label is known -/
def addMissing (o : Qm) (acc : Qm) (i : Nat) : Qm :=
  match o.labels[i]? with
  | some l => match acc.indexOf? l with
    | some _ => acc
    | none => (acc.addVariable (o.vtAt i) (some l) (some (o.lb.getD i 0)) (some (o.ub.getD i 0))).1
  | none => acc

/-- `update`: the receiver's index of the variable at position `i` of `other` -/
def mapIdx (o m1 : Qm) (i : Nat) : Nat :=
  match o.labels[i]? with
  | some l => (m1.indexOf? l).getD 0
  | none => 0

/-- `cyQM.update(other)`: the overlap is checked before anything is changed -/
def update (m : Qm) (o : Qm) : Qm × Option ErrC :=
  let idx := List.range o.n
  if idx.any (m.clashAt o) then (m, some .value) else
  let m1 := idx.foldl (addMissing o) m
  let mapping : List Nat := idx.map (o.mapIdx m1)
  let m2 := { m1 with lin := idx.foldl (fun l i => modifyAt l (mapping.getD i 0) (· + o.linAt i)) m1.lin }
  let m3 := o.lowerTriples.foldl (fun acc t => acc.addQ (mapping.getD t.1 0) (mapping.getD t.2.1 0) t.2.2 false) m2
  ({ m3 with off := m3.off + o.off }, none)

def addLinearFrom (m : Qm) (dflt : Option (QVT × Option Rat × Option Rat)) : List (Option Label × Rat) → Qm × Option ErrC
  | [] => (m, none)
  | (none, _) :: _ => (m, some .value)
  | (some v, b) :: t =>
    match m.addLinear v b dflt with
    | (m', none) => addLinearFrom m' dflt t
    | r => r

def addQuadraticFrom (m : Qm) : List (Option Label × Option Label × Rat) → Qm × Option ErrC
  | [] => (m, none)
  | (some u, some v, b) :: t =>
    match m.quadOp u v b false with
    | (m', none) => addQuadraticFrom m' t
    | r => r
  | _ :: _ => (m, some .value)

/-- `thenFail`: the iterable continues with an element that cannot be a label (the fold stops there) -/
def addVariablesFrom (m : Qm) (t : QVT) (thenFail : Bool) : List (Option Label) → Qm × Option ErrC
  | [] => if thenFail then (m, some .type) else (m, none)
  | v :: rest =>
    match m.addVariable t v none none with
    | (m', none) => addVariablesFrom m' t thenFail rest
    | r => r

inductive Op where
  | addVariable (t : QVT) (v : Option Label) (lb ub : Option Rat)
  | addLinear (v : Option Label) (b : Rat) (dflt : Option (QVT × Option Rat × Option Rat))
  | setLinear (v : Option Label) (b : Rat)
  | addQuadratic (u v : Option Label) (b : Rat)
  | setQuadratic (u v : Option Label) (b : Rat)
  | removeInteraction (u v : Label)
  | removeVariable (v : Option Label)
  | scale (s : Rat)
  | setOffset (b : Rat)
  | changeVartype (t : QVT) (v : Label)
  | fixVariable (v : Label) (a : Rat)
  | flip (v : Label)
  | relabel (mp : List (Label × Label))
  | relabelInts
  | clear
  | setLowerBound (v : Label) (x : Rat)
  | setUpperBound (v : Label) (x : Rat)
  | spinToBinary
  | update (o : Qm)
  | addLinearFrom (dflt : Option (QVT × Option Rat × Option Rat)) (l : List (Option Label × Rat))
  | addQuadraticFrom (l : List (Option Label × Option Label × Rat))
  | addVariablesFrom (t : QVT) (l : List (Option Label)) (thenFail : Bool)
  | malformed

def step (m : Qm) : Op → Qm × Option ErrC
  | .malformed => (m, some .type)
  | .addVariable t v lb ub => m.addVariable t v lb ub
  | .addLinear none _ _ | .setLinear none _ => (m, some .value)
  | .addLinear (some v) b d => m.addLinear v b d
  | .setLinear (some v) b => m.setLinear v b
  | .addQuadratic (some u) (some v) b => m.quadOp u v b false
  | .setQuadratic (some u) (some v) b => m.quadOp u v b true
  | .addQuadratic _ _ _ | .setQuadratic _ _ _ => (m, some .value)
  | .removeInteraction u v => m.removeInteraction u v
  | .removeVariable v => m.removeVariable v
  | .scale s => (m.scale s, none)
  | .setOffset b => ({ m with off := b }, none)
  | .changeVartype t v => m.changeVartype t v
  | .fixVariable v a => m.fixVariable v a
  | .flip v => m.flip v
  | .relabel mp => m.relabel mp
  | .relabelInts => (m.relabelInts, none)
  | .clear => (m.clear, none)
  | .setLowerBound v x => m.setBound v x true
  | .setUpperBound v x => m.setBound v x false
  | .spinToBinary => (m.spinToBinary, none)
  | .update o => m.update o
  | .addLinearFrom d l => m.addLinearFrom d l
  | .addQuadraticFrom l => m.addQuadraticFrom l
  | .addVariablesFrom t l f => m.addVariablesFrom t f l

end Qm
