import DimodModel.Generators

/-! # C17 — `anti_crossing_clique`, `anti_crossing_loops`, `frustrated_loop`, `chimera_anticluster`, `mimo` (core Lean only)

Anchors: `dimod/generators/anti_crossing.py`, `fcl.py`, `chimera.py`, `wireless.py`.

* the anti-crossing generators are deterministic: the sequence of `add_quadratic` / `set_quadratic` / `add_linear` /
  `set_linear` calls as a function of `num_variables` (`SetOp`, applied to the empty SPIN model);
* `frustrated_loop`: the NumPy generator and the random walk (`_random_cycle`, which iterates Python sets) are a
  contract: the model takes the *recorded* good cycles and the recorded `randint(len(cycle))` draws and builds
  `cycle_J` and the `add_interactions_from` calls as coded (both `plant_solution` branches, the `planted_solution`
  gauge);
* `chimera_anticluster`: the two edge iterators, the `choice((-1., 1.))` draws by position, the multiplier on the
  inter-tile part, `from_numpy_vectors`, the `subgraph` copy with its refusals;
* `mimo` (BPSK, real channel): `_quadratic_form` / `_real_quadratic_form` / `_amplitude_modulated_quadratic_form`
  (one amplitude) / `BQM(h, J, 'SPIN', offset)` from the dense `J`, for a given `(y, F)` and for the
  `('binary', 'real')` channel as a function of the recorded `integers(2)` / `choice(amps)` draws. -/

namespace Pen
namespace Bq
variable {α : Type} [DecidableEq α]

/-- `dict[k] = c` on an association list: overwrite the entry of `k`, append when absent -/
def setKey : List (α × Rat) → α → Rat → List (α × Rat)
  | [], k, c => [(k, c)]
  | (k', c') :: m, k, c => if k' = k then (k', c) :: m else (k', c') :: setKey m k c

/-- the same for an unordered pair -/
def setPair : List ((α × α) × Rat) → α → α → Rat → List ((α × α) × Rat)
  | [], u, v, c => [((u, v), c)]
  | ((a, b), c') :: m, u, v, c =>
    if (a = u ∧ b = v) ∨ (a = v ∧ b = u) then ((a, b), c) :: m else ((a, b), c') :: setPair m u v c

/-- `bqm.set_linear(v, c)` -/
def setLinear (b : Bq α) (v : α) (c : Rat) : Bq α := { b with lin := setKey b.lin v c }

/-- `bqm.set_quadratic(u, v, c)` for `u ≠ v` (both variables are created when new); `u = v` raises in dimod and is
    never reached by the generators below: the model leaves the state unchanged -/
def setQuadratic (b : Bq α) (u v : α) (c : Rat) : Bq α :=
  if u = v then b else { (b.addLinear u 0).addLinear v 0 with quad := setPair b.quad u v c }

/-- first entry of `k` (0 when absent): `bqm.get_linear` / `bqm.linear.get(k, 0)` -/
def lookupKey : List (α × Rat) → α → Rat
  | [], _ => 0
  | (k', c') :: m, k => if k' = k then c' else lookupKey m k

def lookupPair : List ((α × α) × Rat) → α → α → Rat
  | [], _, _ => 0
  | ((a, b), c') :: m, u, v => if (a = u ∧ b = v) ∨ (a = v ∧ b = u) then c' else lookupPair m u v

end Bq
end Pen

namespace Gen
open Pen

/-! ## anti-crossing -/

/-- one mutator call of the anti-crossing generators -/
inductive SetOp where
  | addQuad (u v : Label) (c : Rat)
  | setQuad (u v : Label) (c : Rat)
  | addLin (v : Label) (c : Rat)
  | setLin (v : Label) (c : Rat)

def SetOp.run (b : Bq Label) : SetOp → Bq Label
  | .addQuad u v c => b.addQuadratic u v c
  | .setQuad u v c => b.setQuadratic u v c
  | .addLin v c => b.addLinear v c
  | .setLin v c => b.setLinear v c

def runOps (b : Bq Label) : List SetOp → Bq Label
  | [] => b
  | o :: os => runOps (o.run b) os

def iv (n : Nat) : Label := .int (n : Int)

/-- the loop body of `anti_crossing_clique` for `n` (`hf = num_variables / 2`) -/
def acCliqueRow (hf n : Nat) : List (PTerm Label) :=
  ((List.range (hf - (n + 1))).map (fun k => PTerm.quad (iv n) (iv (n + 1 + k)) (-1)))
  ++ [PTerm.quad (iv n) (iv (n + hf)) (-1), PTerm.lin (iv n) 1, PTerm.lin (iv (n + hf)) (-1)]

/-- all `add_*` calls of `anti_crossing_clique`, in order -/
def acCliqueAdds (hf : Nat) : List (PTerm Label) := (List.range hf).flatMap (acCliqueRow hf)

/-- `anti_crossing_clique(num_variables)`: `none` = `ValueError`; the adds, then `bqm.set_linear(1, 0)` -/
def acClique (num : Nat) : Option (Bq Label) :=
  if num % 2 ≠ 0 ∨ num < 6 then none
  else some (((Bq.empty .spin : Bq Label).apply (acCliqueAdds (num / 2))).setLinear (iv 1) 0)

/-- the loop body of `anti_crossing_loops` for `n` (`hf = int(num_variables / 4)`) -/
def acLoopsRow (hf n : Nat) : List SetOp :=
  (if n % 2 = 1 then [SetOp.setQuad (iv n) (iv (n + hf)) (-1)] else [])
  ++ [SetOp.setQuad (iv n) (iv ((n + 1) % hf)) (-1),
      SetOp.setQuad (iv (n + hf)) (iv ((n + 1) % hf + hf)) (-1),
      SetOp.setQuad (iv n) (iv (n + 2 * hf)) (-1),
      SetOp.setQuad (iv (n + hf)) (iv (n + 3 * hf)) (-1),
      SetOp.addLin (iv n) 1, SetOp.addLin (iv (n + hf)) 1,
      SetOp.addLin (iv (n + 2 * hf)) (-1), SetOp.addLin (iv (n + 3 * hf)) (-1)]

def acLoopsOps (hf : Nat) : List SetOp :=
  (List.range hf).flatMap (acLoopsRow hf) ++ [SetOp.setLin (iv 0) 0, SetOp.setLin (iv hf) 0]

/-- `anti_crossing_loops(num_variables)`; `none` = `ValueError` (validation as repaired by
    patches/anti-crossing-loops-num-variables.diff: a multiple of 4, so that the result has `num_variables` variables) -/
def acLoops (num : Nat) : Option (Bq Label) :=
  if num % 4 ≠ 0 ∨ num < 8 then none
  else some (runOps (Bq.empty .spin) (acLoopsOps (num / 4)))

/-! ## frustrated loops, as a function of the recorded cycles -/

/-- the interactions `(cycle[i-1], cycle[i])` for `i = start, start+1, …` along the list, with coupling `sg i` -/
def walkBag (sg : Nat → Rat) : Label → List Label → Nat → List (PTerm Label)
  | _, [], _ => []
  | u, v :: r, i => PTerm.quad u v (sg i) :: walkBag sg v r (i + 1)

def lastOf : Label → List Label → Label
  | u, [] => u
  | _, v :: r => lastOf v r

/-- `plant_solution=True`: `cycle_J = {(cycle[i-1], cycle[i]): -1 for i in range(L)}; cycle_J[(cycle[idx-1], cycle[idx])] = 1`,
    then `add_interactions_from(cycle_J)`: in dict order `i = 0` (the pair `(cycle[-1], cycle[0])`), `1`, …, `L−1`
    (the keys are different ordered pairs: a cycle has ≥ 3 different nodes) -/
def flPlanted (c : List Label) (idx : Nat) : List (PTerm Label) :=
  match c with
  | [] => []
  | u :: r => PTerm.quad (lastOf u r) u (if 0 = idx then 1 else -1) :: walkBag (fun i => if i = idx then 1 else -1) u r 1

/-- the closing coupling of `plant_solution=False` as coded: `(1 − 2·(len(cycle_J) & 1)) · Π cycle_J.values()` with
    `len(cycle_J) = L − 1` entries, all `−1` -/
def flClosing (L : Nat) : Rat := (1 - 2 * (((L - 1) % 2 : Nat) : Rat)) * (if (L - 1) % 2 = 0 then 1 else -1)

/-- `plant_solution=False` as coded: `(cycle[i], cycle[i+1]): -1` for the first `L − 1` edges, then the closing edge
    `(cycle[-1], cycle[0])` -/
def flUnplanted (c : List Label) : List (PTerm Label) :=
  match c with
  | [] => []
  | u :: r => walkBag (fun _ => -1) u r 0 ++ [PTerm.quad (lastOf u r) u (flClosing (r.length + 1))]

/-- the model before the `planted_solution` gauge: the initial zero biases on the nodes and edges of the graph, then
    the interactions of every good cycle in order; a cycle comes with `some idx` (planted) or `none` -/
def frustratedLoop (nodes : List Label) (edges : List (Label × Label)) (cycles : List (List Label × Option Nat)) :
    List (PTerm Label) :=
  nodes.map (fun v => PTerm.lin v 0) ++ edges.map (fun e => PTerm.quad e.1 e.2 0)
  ++ cycles.flatMap (fun c => match c.2 with | some idx => flPlanted c.1 idx | none => flUnplanted c.1)

/-- the `planted_solution` gauge: `J_uv ← J_uv · p(u) · p(v)` on every interaction -/
def gaugeTerm (p : Label → Rat) : PTerm Label → PTerm Label
  | .quad u v c => .quad u v (c * p u * p v)
  | t => t

/-! ## chimera anticluster -/

/-- `range(a, b, s)` for `s > 0` -/
def rangeStep (a b s : Nat) : List Nat := (List.range ((b - a + s - 1) / s)).map (fun i => a + s * i)

/-- `_iter_chimera_tile_edges(m, n, t)` -/
def chimeraTileEdges (m n t : Nat) : List (Nat × Nat) :=
  let hoff := 2 * t; let voff := n * hoff; let mi := m * voff; let ni := n * hoff
  (rangeStep 0 ni hoff).flatMap fun i => (rangeStep i mi voff).flatMap fun j =>
    (rangeStep j (j + t) 1).flatMap fun k0 => (rangeStep (j + t) (j + 2 * t) 1).map fun k1 => (k0, k1)

/-- `_iter_chimera_intertile_edges(m, n, t)`: horizontal, then vertical -/
def chimeraInterEdges (m n t : Nat) : List (Nat × Nat) :=
  let hoff := 2 * t; let voff := n * hoff; let mi := m * voff; let ni := n * hoff
  ((rangeStep t (2 * t) 1).flatMap fun i => (rangeStep i (ni - hoff) hoff).flatMap fun j =>
      (rangeStep j mi voff).map fun k => (k, k + hoff))
  ++ ((rangeStep 0 t 1).flatMap fun i => (rangeStep i ni hoff).flatMap fun j =>
      (rangeStep j (mi - voff) voff).map fun k => (k, k + voff))

/-- value of the `i`-th `choice((-1., 1.))` draw (recorded as the index 0 / 1) -/
def pm (draws : List Nat) (i : Nat) : Rat := if draws.getD i 0 = 0 then -1 else 1

/-- the full lattice model: all `2·m·n·t` variables with bias 0, then one `add_quadratic` per edge in iterator order;
    draw `i` goes to edge `i`, the inter-tile part is multiplied by `multiplier` -/
def chimeraFull (m n t : Nat) (mult : Rat) (draws : List Nat) : List (PTerm Label) :=
  let tile := if m ≠ 0 ∧ n ≠ 0 ∧ t ≠ 0 then chimeraTileEdges m n t else []
  let inter := if m ≠ 0 ∧ n ≠ 0 ∧ t ≠ 0 ∧ (m > 1 ∨ n > 1) then chimeraInterEdges m n t else []
  (List.range (m * n * t * 2)).map (fun v => PTerm.lin (iv v) 0)
  ++ ((List.range tile.length).zip tile).map (fun p => PTerm.quad (iv p.2.1) (iv p.2.2) (pm draws p.1))
  ++ ((List.range inter.length).zip inter).map (fun p => PTerm.quad (iv p.2.1) (iv p.2.2) (pm draws (tile.length + p.1) * mult))

/-- `chimera_anticluster(m, n, t, multiplier, subgraph=…)`: without subgraph the full model; with `(nodes, edges)` the
    copy `add_variables_from((v, bqm.linear[v]) …)`, `add_interactions_from((u, v, bqm.adj[u][v]) …)`;
    `none` = `ValueError` (a node / an edge that is not in the lattice) -/
def chimeraAnticluster (m n t : Nat) (mult : Rat) (sub : Option (List Label × List (Label × Label))) (draws : List Nat) :
    Option (List (PTerm Label)) :=
  let full := (Bq.empty .spin : Bq Label).apply (chimeraFull m n t mult draws)
  match sub with
  | none => some (chimeraFull m n t mult draws)
  | some (nodes, edges) =>
    if nodes.any (fun v => !(full.lin.any (fun e => e.1 = v))) then none
    else if edges.any (fun e => !(full.quad.any (fun q => (q.1.1 = e.1 ∧ q.1.2 = e.2) ∨ (q.1.1 = e.2 ∧ q.1.2 = e.1)))) then none
    else some (nodes.map (fun v => PTerm.lin v (Bq.lookupKey full.lin v))
               ++ edges.map (fun e => PTerm.quad e.1 e.2 (Bq.lookupPair full.quad e.1 e.2)))

/-! ## MIMO, BPSK with a real channel -/

def dot : List Rat → List Rat → Rat
  | a :: as, b :: bs => a * b + dot as bs
  | _, _ => 0

/-- column `i` of a matrix given by rows -/
def col (F : List (List Rat)) (i : Nat) : List Rat := F.map (fun row => row.getD i 0)

/-- entry `(i, j)` of `J = FᵀF` -/
def gram (F : List (List Rat)) (i j : Nat) : Rat := dot (col F i) (col F j)

/-- C++ `add_quadratic_from_dense` for row `i` of the dense `J`: the diagonal entry (SPIN: it goes to the offset), then for
    every `j > i` the sum of the two triangle entries, skipped when it is 0 -/
def denseRow (nt : Nat) (J : Nat → Nat → Rat) (i : Nat) : List (PTerm Label) :=
  PTerm.quad (iv i) (iv i) (J i i)
  :: (List.range (nt - (i + 1))).flatMap (fun k =>
        if J i (i + 1 + k) + J (i + 1 + k) i = 0 then []
        else [PTerm.quad (iv i) (iv (i + 1 + k)) (J i (i + 1 + k) + J (i + 1 + k) i)])

/-- `mimo('BPSK', y, F)` for real `y` (length `Nr`) and real `F` (`Nr` rows of length `nt`):
    `offset = yᵀy`, `h = −2·Fᵀy`, `J = FᵀF`, `BQM(h, J, 'SPIN', offset)`; `none` = `ValueError` (shape mismatch) -/
def mimoBpsk (nt : Nat) (y : List Rat) (F : List (List Rat)) : Option (List (PTerm Label)) :=
  if F.length ≠ y.length ∨ F.any (fun row => row.length ≠ nt) then none
  else some (
    (List.range nt).map (fun i => PTerm.lin (iv i) (-2 * dot (col F i) y))
    ++ (List.range nt).flatMap (denseRow nt (gram F))
    ++ [PTerm.const (dot y y)])

/-- the `('binary', 'real')` channel of `create_channel`: `F = 1 − 2·integers(2, size=(nr, nt))`, row major -/
def binaryChannel (nr nt : Nat) (draws : List Nat) : List (List Rat) :=
  (List.range nr).map (fun r => (List.range nt).map (fun i => 1 - 2 * ((draws.getD (r * nt + i) 0 : Nat) : Rat)))

/-- `_constellation_properties('BPSK')`: `amps = 1 + 2·arange(1) = [1]` -/
def bpskAmps : List Rat := [1]

/-- `choice(amps, size=(nt, 1))`: the transmitted symbols from the recorded indices (an index outside `amps` cannot be
    drawn; the model maps it to 0) -/
def bpskSymbols (nt : Nat) (draws : List Nat) : List Rat := (List.range nt).map (fun i => bpskAmps.getD (draws.getD i 0) 0)

/-- `y = F · v` (no noise: `SNRb = inf`) -/
def matVec (F : List (List Rat)) (v : List Rat) : List Rat := F.map (fun row => dot row v)

/-- `mimo('BPSK', num_transmitters=nt, num_receivers=nr, F_distribution=('binary', 'real'), seed=…)` as a function of the
    recorded draws: `nr·nt` channel draws, then `nt` symbol draws -/
def mimoBinary (nr nt : Nat) (draws : List Nat) : Option (List (PTerm Label)) :=
  let F := binaryChannel nr nt draws
  mimoBpsk nt (matVec F (bpskSymbols nt (draws.drop (nr * nt)))) F

/-- `create_channel(…, attenuation_matrix=A)`: `F = F * A` entry by entry -/
def attenuate (F A : List (List Rat)) : List (List Rat) :=
  (F.zip A).map (fun p => (p.1.zip p.2).map (fun q => q.1 * q.2))

/-- `coordinated_multipoint(lattice, 'BPSK', F_distribution=('binary', 'real'), seed=…)` as a function of the attenuation
    matrix of the lattice (`_lattice_to_attenuation_matrix`: 1 for a base station's own transmitters, the neighbour
    attenuation for those of adjacent base stations, 0 elsewhere — computed by the caller) and of the recorded draws:
    `mimo` with the attenuated binary channel -/
def compBinary (nr nt : Nat) (A : List (List Rat)) (draws : List Nat) : Option (List (PTerm Label)) :=
  let F := attenuate (binaryChannel nr nt draws) A
  mimoBpsk nt (matVec F (bpskSymbols nt (draws.drop (nr * nt)))) F

/-- the stacked real system of a complex one: `F' = [[Fr, −Fi], [Fi, Fr]]` (the unknowns: real parts, then imaginary parts) -/
def stackF (Fr Fi : List (List Rat)) : List (List Rat) :=
  (Fr.zip Fi).map (fun p => p.1 ++ p.2.map (fun a => -a)) ++ (Fr.zip Fi).map (fun p => p.2 ++ p.1)

/-- `np.iscomplex(h).any() or np.iscomplex(J).any()` for `h = −2·F†y`, `J = F†F`:
    `Im h = −2·(Frᵀyi − Fiᵀyr)`, `Im J = FrᵀFi − FiᵀFr` -/
def qpskIsComplex (nt : Nat) (yr yi : List Rat) (Fr Fi : List (List Rat)) : Bool :=
  (List.range nt).any (fun i => decide (-2 * (dot (col Fr i) yi - dot (col Fi i) yr) ≠ 0))
  || (List.range nt).any (fun i => (List.range nt).any (fun j => decide (dot (col Fr i) (col Fi j) - dot (col Fi i) (col Fr j) ≠ 0)))

/-- `mimo('QPSK', y, F)` (one amplitude per quadrature) for complex `y = yr + i·yi`, `F = Fr + i·Fi`, as coded
    (`_real_quadratic_form`): when `h` or `J` has a non-zero imaginary part the variables are the real parts of the `nt`
    symbols followed by their imaginary parts, `hR = (Re h, Im h)`, `JR = [[Re J, (Im J)ᵀ], [Im J, Re J]]` — these are the `h`, `J`
    of the stacked real system `y' = (yr; yi)`, `F' = stackF`; otherwise only `Re h`, `Re J` on `nt` variables (the `h`, `J` of
    `y' = (yr; yi)`, `F'' = [Fr; Fi]`): the imaginary parts of the symbols are then absent from the model -/
def mimoQpsk (nt : Nat) (yr yi : List Rat) (Fr Fi : List (List Rat)) : Option (List (PTerm Label)) :=
  if Fr.length ≠ yr.length ∨ Fi.length ≠ yi.length ∨ yr.length ≠ yi.length
      ∨ Fr.any (fun row => row.length ≠ nt) ∨ Fi.any (fun row => row.length ≠ nt) then none
  else if qpskIsComplex nt yr yi Fr Fi then mimoBpsk (2 * nt) (yr ++ yi) (stackF Fr Fi)
  else mimoBpsk nt (yr ++ yi) (Fr ++ Fi)

/-- `_amplitude_modulated_quadratic_form`: `hA = kron(amps, h)`, `JA = kron(amps·ampsᵀ, J)` with `amps = 2**arange(na)` are the
    `h`, `J` of the system whose channel rows are `row, 2·row, 4·row, …` side by side (variables: all of amplitude 1, then all of
    amplitude 2, …) -/
def ampRows (na : Nat) (F : List (List Rat)) : List (List Rat) :=
  F.map (fun row => (List.range na).flatMap (fun a => row.map (fun c => (2 ^ a : Nat) * c)))

/-- `mimo(modulation, y, F)` for the quadrature amplitude modulations with `na = mod_config[modulation].number_of_amps` amplitude
    bits per quadrature (QPSK 1, 16QAM 2, 64QAM 3, 256QAM 4 — as repaired by patches/mimo-256qam-number-of-amps.diff), as coded:
    the quadrature form when `h` or `J` has an imaginary part, else the real form (see `mimoQpsk`) -/
def mimoQam (na nt : Nat) (yr yi : List Rat) (Fr Fi : List (List Rat)) : Option (List (PTerm Label)) :=
  if Fr.length ≠ yr.length ∨ Fi.length ≠ yi.length ∨ yr.length ≠ yi.length
      ∨ Fr.any (fun row => row.length ≠ nt) ∨ Fi.any (fun row => row.length ≠ nt) then none
  else if qpskIsComplex nt yr yi Fr Fi then mimoBpsk (na * (2 * nt)) (yr ++ yi) (ampRows na (stackF Fr Fi))
  else mimoBpsk (na * nt) (yr ++ yi) (ampRows na (Fr ++ Fi))

/-! ## `multiplication_circuit` with a one-bit argument (as repaired by patches/multiplication-circuit-one-bit.diff) -/

/-- the AND gates of the one-bit branch: `and_gate(a_i, b_j, p_{i+j})` in `product(range(n), range(m))` order -/
def mcOneBitGates (n m : Nat) : List (GateKind × List Label) :=
  (List.range n).flatMap fun i => (List.range m).map fun j =>
    (GateKind.and, [strLabel s!"a{i}", strLabel s!"b{j}", strLabel s!"p{i + j}"])

/-- `multiplication_circuit(n, m)` as a term bag: with a one-bit argument there are no adders — every product bit but the
    top one is one AND, the top product bit gets the linear bias 1; otherwise the adder circuit `mulCircuit` -/
def mulCircuitBag (n mArg : Nat) : Option (List (PTerm Label)) :=
  if n < 1 then none else
  let m := if mArg = 0 then n else mArg
  if n = 1 ∨ m = 1 then some (circuitBag (mcOneBitGates n m) ++ [PTerm.lin (strLabel s!"p{n + m - 1}") 1])
  else (mulCircuit n mArg).map circuitBag

end Gen
