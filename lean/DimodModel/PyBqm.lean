import DimodModel.Bqm

/-! Executable model of the dict back-end of `BinaryQuadraticModel` (`dimod/binary/pybqm.py`, `dtype=object`):
    `_adj : Dict[Variable, Dict[Variable, bias]]` with the linear bias of `v` stored as `_adj[v][v]`, insertion-ordered
    dicts as association lists.  Only the methods the class implements itself (the data-level primitives); the
    composite methods of `BinaryQuadraticModel` run the same Python code on both back-ends.  Core Lean only. -/

namespace PyB

/-- `d.get(k)` -/
def dget {α} (d : List (Label × α)) (k : Label) : Option α :=
  match d with
  | [] => none
  | (k', x) :: t => if k' = k then some x else dget t k

/-- `d[k] = x`: in place for a known key, appended otherwise -/
def dset {α} (d : List (Label × α)) (k : Label) (x : α) : List (Label × α) :=
  match d with
  | [] => [(k, x)]
  | (k', y) :: t => if k' = k then (k', x) :: t else (k', y) :: dset t k x

/-- `del d[k]` / `d.pop(k)` -/
def ddel {α} (d : List (Label × α)) (k : Label) : List (Label × α) := d.filter (fun p => p.1 ≠ k)

def keys {α} (d : List (Label × α)) : List Label := d.map (·.1)

end PyB

structure PyB where
  vt : VT
  adj : List (Label × List (Label × Rat))
  off : Rat

namespace PyB

def empty (vt : VT) : PyB := { vt, adj := [], off := 0 }

def row (p : PyB) (v : Label) : List (Label × Rat) := (dget p.adj v).getD []

/-- `_adj[a][b]` -/
def get2 (p : PyB) (a b : Label) : Option Rat := (dget p.adj a).bind (dget · b)

/-- `_adj[a][b] = x` for a known `a` -/
def set2 (p : PyB) (a b : Label) (x : Rat) : PyB := { p with adj := dset p.adj a (dset (p.row a) b x) }

/-- `_adj[a].pop(b)` for a known `a` -/
def del2 (p : PyB) (a b : Label) : PyB := { p with adj := dset p.adj a (ddel (p.row a) b) }

def has (p : PyB) (v : Label) : Bool := (dget p.adj v).isSome

/-- `add_linear(v, bias)` -/
def addLinear (p : PyB) (v : Label) (b : Rat) : PyB := p.set2 v v ((p.get2 v v).getD 0 + b)

/-- `set_linear(v, bias)` -/
def setLinear (p : PyB) (v : Label) (b : Rat) : PyB := p.set2 v v b

/-- the label `add_variable()` generates: `len(adj)` if free, else the least free natural -/
def autoLabel (p : PyB) : Label := ({ vt := .spin, labels := keys p.adj, lin := [], adj := [], off := 0 } : Bqm).autoLabel

def addVariable (p : PyB) (v : Option Label) (b : Rat) : PyB :=
  p.addLinear (match v with | some l => l | none => p.autoLabel) b

/-- `add_quadratic(u, v, bias)` -/
def addQuadratic (p : PyB) (u v : Label) (b : Rat) : PyB × Option ErrC :=
  if u = v then (p, some .value) else
  let new := (p.get2 v u).getD 0 + b
  let p := if p.has u then p else p.setLinear u 0
  let p := if p.has v then p else p.setLinear v 0
  ((p.set2 u v new).set2 v u new, none)

/-- `set_quadratic(u, v, bias)` -/
def setQuadratic (p : PyB) (u v : Label) (b : Rat) : PyB × Option ErrC :=
  if u = v then (p, some .value) else
  let p := p.addVariable (some u) 0
  let p := p.addVariable (some v) 0
  ((p.set2 u v b).set2 v u b, none)

/-- `remove_interaction(u, v)` -/
def removeInteraction (p : PyB) (u v : Label) : PyB × Option ErrC :=
  if u = v then (p, some .value) else
  match p.get2 u v with
  | none => (p, some .value)
  | some _ => ((p.del2 u v).del2 v u, none)

/-- the clean-up loop of `remove_variable`: `for u in Nv: if u != v: self._adj[u].pop(v)` -/
def dropFrom (v : Label) (acc : PyB) (e : Label × Rat) : PyB := if e.1 = v then acc else acc.del2 e.1 v

/-- `remove_variable(v)` / `remove_variable()` (`popitem`: the last key) -/
def removeVariable (p : PyB) (v : Option Label) : PyB × Option ErrC :=
  let v? : Option Label := match v with
    | some l => if p.has l then some l else none
    | none => (keys p.adj).getLast?
  match v? with
  | none => (p, some .value)
  | some l =>
    let nv := p.row l
    (nv.foldl (dropFrom l) { p with adj := ddel p.adj l }, none)

def growTo (k : Nat) : Nat → PyB → PyB
  | 0, p => p
  | f+1, p => if p.adj.length < k then growTo k f (p.addVariable none 0) else p

def shrinkTo (k : Nat) : Nat → PyB → PyB
  | 0, p => p
  | f+1, p => if p.adj.length > k then shrinkTo k f (p.removeVariable none).1 else p

/-- `resize(n)` -/
def resize (p : PyB) (k : Int) : PyB × Option ErrC :=
  if k < 0 then (p, some .value) else (shrinkTo k.toNat p.adj.length (growTo k.toNat k.toNat p), none)

def clear (p : PyB) : PyB := { p with adj := [], off := 0 }

/-- one neighbourhood of the loop of `change_vartype`; `(row, offset)` -/
def cvRow (linMp linOffMp quadMp linQuadMp quadOffMp : Rat) (u : Label) (nu : List (Label × Rat)) (off : Rat) :
    List (Label × Rat) × Rat :=
  let lbias := (dget nu u).getD 0
  let off := off + linOffMp * lbias
  let nu := dset nu u (linMp * lbias)
  nu.foldl (fun (acc : List (Label × Rat) × Rat) e =>
    if e.1 = u then acc else
    let r := dset acc.1 e.1 (quadMp * e.2)
    (dset r u ((dget r u).getD 0 + linQuadMp * e.2), acc.2 + quadOffMp * e.2)) (nu, off)

/-- `change_vartype(vartype)` as coded (one pass over the dict of dicts) -/
def changeVartype (p : PyB) (t : VT) : PyB :=
  if p.vt = t then p else
  let (a, b, c, d, e) : Rat × Rat × Rat × Rat × Rat := match t with
    | .binary => (2, -1, 4, -2, 1/2)
    | .spin => (1/2, 1/2, 1/4, 1/4, 1/8)
  let r := p.adj.foldl (fun (acc : List (Label × List (Label × Rat)) × Rat) ur =>
    let x := cvRow a b c d e ur.1 ur.2 acc.2
    (acc.1 ++ [(ur.1, x.1)], x.2)) ([], p.off)
  { vt := t, adj := r.1, off := r.2 }

/-- the data-level primitives of `Bqm.Op`, issued on the model itself; `none` = not a method of `pyBQM` (the call is a
    composite of the Python layer, or `relabel_variables`, which is not modelled) -/
def step (p : PyB) (op : Bqm.Op) : Option (PyB × Option ErrC) :=
  match op with
  | .malformed => some (p, some .type)
  | .addLinear none _ | .setLinear none _ => some (p, some .value)
  | .addLinear (some v) b => some (p.addLinear v b, none)
  | .setLinear (some v) b => some (p.setLinear v b, none)
  | .addQuadratic (some u) (some v) b => some (p.addQuadratic u v b)
  | .setQuadratic (some u) (some v) b => some (p.setQuadratic u v b)
  | .addQuadratic _ _ _ | .setQuadratic _ _ _ => some (p, some .value)
  | .removeInteraction u v => some (p.removeInteraction u v)
  | .removeVariable v => some (p.removeVariable v)
  | .addVariable v b => some (p.addVariable v b, none)
  | .resize k => some (p.resize k)
  | .setOffset b => some ({ p with off := b }, none)
  | .changeVartype t => some (p.changeVartype t, none)
  | .clear => some (p.clear, none)
  | _ => none

/-- lower-triangle view in `iter_quadratic` order: `(u, v, bias)` with `v` not seen before `u` -/
def iterQuadratic (p : PyB) : List (Label × Label × Rat) :=
  let rec go (seen : List Label) : List (Label × List (Label × Rat)) → List (Label × Label × Rat)
    | [] => []
    | (u, nu) :: t => ((nu.filter fun e => !(e.1 = u || seen.contains e.1)).map fun e => (u, e.1, e.2)) ++ go (u :: seen) t
  go [] p.adj

end PyB
