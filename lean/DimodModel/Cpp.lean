import DimodModel.Qm

/-! Index-level model of the header-only C++ API (`abc.h`, `binary_quadratic_model.h`, `quadratic_model.h`)
    for the op-sequence interpreter of C20: no labels, one `CppM` per interpreter slot.
    `bvt = some t` is a `BinaryQuadraticModel` of vartype `t`, `none` a `QuadraticModel` (per-variable
    vartype and bounds in `q`).  Core Lean only. -/

structure CppM where
  bvt : Option QVT
  q : Qm

namespace CppM
open Bqm (modifyAt eraseIdx nbhAdd nbhCoef nbhDrop nbhShift)

def imax : Rat := 9007199254740991
def rmax : Rat := 1000000000000000019884624838656

def emptyQ : Qm := Qm.empty imax rmax

def newBqm (t : QVT) (n : Nat) : CppM :=
  { bvt := some t, q := { emptyQ with lin := List.replicate n 0, adj := List.replicate n [] } }

def newQm : CppM := { bvt := none, q := emptyQ }

def n (m : CppM) : Nat := m.q.lin.length

def vtOf (m : CppM) (i : Nat) : QVT := match m.bvt with | some t => t | none => m.q.vtAt i

def withLin (m : CppM) (f : List Rat → List Rat) : CppM := { m with q := { m.q with lin := f m.q.lin } }
def withAdj (m : CppM) (f : List (List (Nat × Rat)) → List (List (Nat × Rat))) : CppM := { m with q := { m.q with adj := f m.q.adj } }
def withOff (m : CppM) (f : Rat → Rat) : CppM := { m with q := { m.q with off := f m.q.off } }

/-- `add_variable()` of a BQM / `add_variable(vartype, lb, ub)` of a QM -/
def addVar (m : CppM) (info : Option (QVT × Rat × Rat)) : CppM :=
  let q := { m.q with lin := m.q.lin ++ [0], adj := m.q.adj ++ [[]] }
  match info with
  | none => { m with q := q }
  | some (t, l, u) => { m with q := { q with vt := q.vt ++ [t], lb := q.lb ++ [l], ub := q.ub ++ [u] } }

def defaultBounds (t : QVT) : Rat × Rat :=
  match t with | .spin => (-1, 1) | .binary => (0, 1) | .integer => (0, imax) | .real => (0, rmax)

/-- `add_quadratic(u, v, b)` (set = false) / `set_quadratic(u, v, b)` (set = true); `true` = `std::domain_error` -/
def quad (m : CppM) (u v : Nat) (b : Rat) (set : Bool) : CppM × Bool :=
  if u = v then
    match m.vtOf u with
    | .binary => if set then (m, true) else (m.withLin (modifyAt · u (· + b)), false)
    | .spin => if set then (m, true) else (m.withOff (· + b), false)
    | _ => (m.withAdj (modifyAt · u (fun nb => nbhAdd nb u b set)), false)
  else
    (m.withAdj fun adj => modifyAt (modifyAt adj u (fun nb => nbhAdd nb v b set)) v (fun nb => nbhAdd nb u b set), false)

/-- `remove_interaction(u, v)`; the Boolean is the return value -/
def removeInteraction (m : CppM) (u v : Nat) : CppM × Bool :=
  match nbhCoef (m.q.adj.getD u []) v with
  | none => (m, false)
  | some _ =>
    if u = v then (m.withAdj (modifyAt · u (nbhDrop · u)), true)
    else (m.withAdj fun adj => modifyAt (modifyAt adj u (nbhDrop · v)) v (nbhDrop · u), true)

def absR (x : Rat) : Rat := if x < 0 then -x else x

/-- `remove_interactions(|bias| ≤ thr)` -/
def removeIf (m : CppM) (thr : Rat) : CppM :=
  m.withAdj (·.map fun nb => nb.filter fun p => !(decide (absR p.2 ≤ thr)))

def removeAt (m : CppM) (vi : Nat) : CppM :=
  let q := m.q
  match m.bvt with
  | some _ => { m with q := { q with lin := eraseIdx q.lin vi, adj := (eraseIdx q.adj vi).map (nbhShift vi) } }
  | none => { m with q := { q with vt := eraseIdx q.vt vi, lb := eraseIdx q.lb vi, ub := eraseIdx q.ub vi,
                                     lin := eraseIdx q.lin vi, adj := (eraseIdx q.adj vi).map (nbhShift vi) } }

def insertDesc (x : Nat) : List Nat → List Nat
  | [] => [x]
  | y :: t => if x ≥ y then x :: y :: t else y :: insertDesc x t

/-- `remove_variables(list)`: distinct valid indices; same result as removing them from the largest down -/
def removeMany (m : CppM) (vs : List Nat) : CppM :=
  (vs.foldl (fun acc x => insertDesc x acc) []).foldl (fun acc v => acc.removeAt v) m

/-- `QuadraticModelBase::resize(k)` -/
def baseResize (m : CppM) (k : Nat) : CppM :=
  let q := m.q
  let adj := (q.adj.map fun nb => nb.filter fun p => p.1 < k).take k
  let adj := adj ++ List.replicate (k - adj.length) []
  let lin := q.lin.take k ++ List.replicate (k - q.lin.length) 0
  { m with q := { q with lin := lin, adj := adj } }

def infoResize (m : CppM) (k : Nat) (t : QVT) (l u : Rat) : CppM :=
  let q := m.q
  { m with q := { q with vt := q.vt.take k ++ List.replicate (k - q.vt.length) t,
                         lb := q.lb.take k ++ List.replicate (k - q.lb.length) l,
                         ub := q.ub.take k ++ List.replicate (k - q.ub.length) u } }

/-- `resize(k)`: BQM any `k`; QM shrinking only (`true` = `std::logic_error`) -/
def resize (m : CppM) (k : Nat) : CppM × Bool :=
  match m.bvt with
  | some _ => (m.baseResize k, false)
  | none => if k > m.n then (m, true) else ((m.baseResize k).infoResize k .binary 0 1, false)

def scale (m : CppM) (s : Rat) : CppM := { m with q := m.q.scale s }

/-- `QuadraticModelBase::fix_variable(v, a)` (+ varinfo for a QM) -/
def fix (m : CppM) (v : Nat) (a : Rat) : CppM :=
  let lin := (m.q.adj.getD v []).foldl (fun l p => modifyAt l p.1 (· + p.2 * a)) m.q.lin
  let m1 := { m with q := { m.q with lin := lin, off := m.q.off + a * lin.getD v 0 } }
  m1.removeAt v

def substituteVariable (m : CppM) (v : Nat) (mult c : Rat) : CppM := { m with q := m.q.substituteVariable v mult c }

/-- `substitute_variables(mult, c)` exactly as coded -/
def substituteAll (m : CppM) (mult c : Rat) : CppM :=
  let q := m.q
  let off1 := q.lin.foldl (fun acc l => acc + l * c) q.off
  let lin1 := q.lin.map (· * mult)
  let quadOff := c * c / 2
  let off2 := q.adj.foldl (fun acc nb => nb.foldl (fun a p => a + quadOff * p.2) acc) off1
  let lin2 := (lin1.zip q.adj).map fun (l, nb) => nb.foldl (fun a p => a + mult * c * p.2) l
  { m with q := { q with off := off2, lin := lin2, adj := q.adj.map (·.map fun p => (p.1, p.2 * (mult * mult))) } }

/-- `change_vartype`: whole BQM, or one variable of a QM; `true` = `std::logic_error` -/
def changeVartype (m : CppM) (t : QVT) (v : Nat) : CppM × Bool :=
  match m.bvt with
  | some cur =>
    if cur = t then (m, false) else
    match t with
    | .spin => ({ (m.substituteAll (1/2) (1/2)) with bvt := some .spin }, false)
    | .binary => ({ (m.substituteAll 2 (-1)) with bvt := some .binary }, false)
    | _ => (m, true)
  | none =>
    match m.q.changeVartypeAt t v with
    | (q, none) => ({ m with q := q }, false)
    | (_, some _) => (m, true)

def clear (m : CppM) : CppM := { m with q := { m.q with vt := [], lb := [], ub := [], lin := [], adj := [], off := 0 } }

/-- `add_quadratic_from_dense(dense, k)` -/
def addDense (m : CppM) (k : Nat) (d : List Rat) : CppM :=
  (List.range k).foldl (fun acc u =>
    let acc := (acc.quad u u (d.getD (u * (k + 1)) 0) false).1
    ((List.range k).filter (u < ·)).foldl (fun acc v =>
      let qb := d.getD (u * k + v) 0 + d.getD (v * k + u) 0
      if qb ≠ 0 then (acc.quad u v qb false).1 else acc) acc) m

/-- the BQM overload of the iterator `add_quadratic` grows the model to the largest index first -/
def cooBase (m : CppM) (rows cols : List Nat) : CppM :=
  let mx := (rows ++ cols).foldl max 0
  match m.bvt with
  | some _ => if rows.length > 0 ∧ mx ≥ m.n then m.baseResize (mx + 1) else m
  | none => m

/-- iterator `add_quadratic(rows, cols, biases, len)`; the BQM overload grows the model first -/
def addCoo (m : CppM) (rows cols : List Nat) (vals : List Rat) : CppM :=
  (List.range rows.length).foldl (fun acc i => (acc.quad (rows.getD i 0) (cols.getD i 0) (vals.getD i 0) false).1)
    (m.cooBase rows cols)

/-- `QuadraticModel(bqm)` -/
def qmFromBqm (b : CppM) : CppM :=
  let t := b.bvt.getD .binary
  let (l, u) := defaultBounds t
  let k := b.n
  { bvt := none, q := { b.q with vt := List.replicate k t, lb := List.replicate k l, ub := List.replicate k u } }

/-! counts as the header computes them -/

/-- `num_interactions()`: (Σ sizes + number of self-loops) / 2 -/
def numInteractions (m : CppM) : Nat :=
  let sizes := m.q.adj.foldl (fun a nb => a + nb.length) 0
  let loops := (List.range m.q.adj.length).foldl (fun a u => if (nbhCoef (m.q.adj.getD u []) u).isSome then a + 1 else a) 0
  (sizes + loops) / 2

def degree (m : CppM) (v : Nat) : Nat := (m.q.adj.getD v []).length

def isLinear (m : CppM) : Bool := m.q.adj.all (·.isEmpty)

end CppM
