import DimodModel.Label

/-! # C07 — exact enumeration, energy plumbing and response post-processing (executable model)

Mirror of
* `reference/samplers/exact_solver.py`: `_graycode`, `_all_cases_dqm`, `_all_cases_cqm`,
  `_iterator_by_vartype`;
* `core/sampler.py`: the `sample` / `sample_ising` / `sample_qubo` mixins with the energy offset;
* `reference/composites/higherordercomposites.py`: `polymorph_response` (row filter, column
  selection, labels), `PolyScaleComposite.sample_poly` (energy rescaling),
  `PolyFixedVariableComposite` (`fix_variables` + `append_variables`);
* `TruncateComposite` as a row filter.
Core Lean only. -/

namespace Enum

/-! ## `_graycode` -/

/-- index of the least significant set bit (code: `(i & -i).bit_length() - 1`) -/
def ctz (i : Nat) : Nat :=
  if h : i = 0 then 0 else if i % 2 = 1 then 0 else ctz (i / 2) + 1
termination_by i
decreasing_by omega

/-- the loop on bit masks: row `i` = row `i-1` with bit `ctz i` flipped -/
def gray : Nat → Nat
  | 0 => 0
  | i+1 => gray i ^^^ (2 ^ ctz (i+1))

/-- `samples[i, v] = not samples[i-1, v]` -/
def flipAt : List Nat → Nat → List Nat
  | [], _ => []
  | b :: bs, 0 => (1 - b) :: bs
  | b :: bs, v+1 => b :: flipAt bs v

/-- rows `1 .. k` of the loop, given row `start-1 = prev` -/
def grayLoop (prev : List Nat) (start : Nat) : Nat → List (List Nat)
  | 0 => []
  | k+1 =>
    let row := flipAt prev (ctz start)
    row :: grayLoop row (start + 1) k

/-- `_graycode(bqm)` for `n = len(bqm.variables)`: `2^n` rows of `n` bits -/
def graycode (n : Nat) : List (List Nat) :=
  let zero := List.replicate n 0
  zero :: grayLoop zero 1 (2 ^ n - 1)

/-- the row a mask denotes (`samples[i, j]` = bit `j`) -/
def maskRow (n m : Nat) : List Nat := (List.range n).map fun j => if m.testBit j then 1 else 0

/-! ## meshgrid products -/

/-- lexicographic product, first domain slowest -/
def prodLex : List (List α) → List (List α)
  | [] => [[]]
  | d :: ds => d.flatMap fun a => (prodLex ds).map (a :: ·)

/-- axis order of `np.array(np.meshgrid(*cases)).T.reshape(-1, k)`: (k, …, 3, 1, 2), last fastest -/
def meshReorder : List α → List α
  | a :: b :: rest => rest.reverse ++ [a, b]
  | l => l

/-- back to the order (1, 2, 3, …, k) -/
def meshUnreorder (t : List α) : List α :=
  match t.reverse with
  | b :: a :: rest => a :: b :: rest
  | _ => t

/-- `np.array(np.meshgrid(*cases)).T.reshape(-1, len(cases))` for at least one domain -/
def meshRows (doms : List (List α)) : List (List α) := (prodLex (meshReorder doms)).map meshUnreorder

/-- `_all_cases_dqm`: `cases = [range(num_cases(v)) for v in variables]` -/
def allCasesDqm (numCases : List Nat) : List (List Nat) := meshRows (numCases.map List.range)

/-- Python `int(x)`: truncation toward zero -/
def pyInt (q : Rat) : Int := if q < 0 then -((-q).floor) else q.floor

def intsFrom (lo : Int) : Nat → List Int
  | 0 => []
  | k+1 => lo :: intsFrom (lo + 1) k

/-- Python `range(a, b)` -/
def pyRange (a b : Int) : List Int := intsFrom a (b - a).toNat

def rceil (q : Rat) : Int := -((-q).floor)

/-- `_iterator_by_vartype` for INTEGER before the D19 repair: `range(int(lb), int(ub + 1))` -/
def intDomainTrunc (lb ub : Rat) : List Int := pyRange (pyInt lb) (pyInt (ub + 1))

/-- `_iterator_by_vartype` for INTEGER: `range(ceil(lb), floor(ub) + 1)` -/
def intDomain (lb ub : Rat) : List Int := pyRange (rceil lb) (ub.floor + 1)

/-- one-hot vectors of a discrete constraint over `d` variables, in `product(range(d))` order -/
def oneHot (d : Nat) : List (List Int) := (List.range d).map fun i => (List.range d).map fun j => if i = j then 1 else 0

/-- `_all_cases_cqm`: `dsizes` = sizes of the discrete constraints (their variables come first, in
    constraint order), `doms` = domains of the remaining variables in model order.
    Branches as coded: `c1` is empty when there are no other variables; each one-hot combination is
    then appended alone; with no discrete constraint the result is `c1`. -/
def allCasesCqm (dsizes : List Nat) (doms : List (List Int)) : List (List Int) :=
  let c1 : List (List Int) := if doms.isEmpty then [] else meshRows doms
  let ls : List (List Int) := (prodLex (dsizes.map oneHot)).map List.flatten
  if dsizes.isEmpty then c1
  else if c1.isEmpty then ls
  else ls.flatMap fun l => c1.map fun row => l ++ row

/-! ## binary quadratic problems as term lists, energies, SPIN/BINARY conversion with offsets -/

structure Bqm where
  spin : Bool
  lin : List (Label × Rat)
  quad : List (Label × Label × Rat)
  off : Rat

def linE (x : Label → Rat) : List (Label × Rat) → Rat
  | [] => 0
  | (v, b) :: t => b * x v + linE x t

def quadE (x : Label → Rat) : List (Label × Label × Rat) → Rat
  | [] => 0
  | (u, v, b) :: t => b * x u * x v + quadE x t

def Bqm.energy (m : Bqm) (x : Label → Rat) : Rat := m.off + linE x m.lin + quadE x m.quad

def sumLin : List (Label × Rat) → Rat
  | [] => 0
  | (_, b) :: t => b + sumLin t
def sumQuad : List (Label × Label × Rat) → Rat
  | [] => 0
  | (_, _, b) :: t => b + sumQuad t

/-- SPIN → BINARY (`s = 2x - 1`), what `bqm.binary` / `to_qubo` report (terms not merged) -/
def Bqm.toBinary (m : Bqm) : Bqm :=
  if ¬ m.spin then m else
  { spin := false,
    lin := m.lin.map (fun (v, b) => (v, 2 * b)) ++ m.quad.flatMap (fun (u, v, b) => [(u, -2 * b), (v, -2 * b)]),
    quad := m.quad.map (fun (u, v, b) => (u, v, 4 * b)),
    off := m.off - sumLin m.lin + sumQuad m.quad }

/-- BINARY → SPIN (`x = (s + 1) / 2`), what `bqm.spin` / `to_ising` report -/
def Bqm.toSpin (m : Bqm) : Bqm :=
  if m.spin then m else
  { spin := true,
    lin := m.lin.map (fun (v, b) => (v, b / 2)) ++ m.quad.flatMap (fun (u, v, b) => [(u, b / 4), (v, b / 4)]),
    quad := m.quad.map (fun (u, v, b) => (u, v, b / 4)),
    off := m.off + sumLin m.lin / 2 + sumQuad m.quad / 4 }

/-- a returned row: values by label, reported energy -/
structure Row where
  x : List (Label × Rat)
  energy : Rat

def Row.val (r : Row) (l : Label) : Rat := ((r.x.find? (fun p => p.1 = l)).map (·.2)).getD 0

/-- `SampleSet.change_vartype(vartype, energy_offset)` on one row -/
def Row.toSpin (r : Row) (off : Rat) : Row := ⟨r.x.map (fun (l, v) => (l, 2 * v - 1)), r.energy + off⟩
def Row.toBinary (r : Row) (off : Rat) : Row := ⟨r.x.map (fun (l, v) => (l, (v + 1) / 2)), r.energy + off⟩

/-- which of the three methods a sampler class implements itself -/
inductive Impl where
  | sample | ising | qubo
deriving DecidableEq

/-- `Sampler.sample(bqm)` when the class implements only `sample_ising` or only `sample_qubo`.
    `child` stands for that implemented method: it takes the (h, J) resp. Q problem as a `Bqm` with
    offset 0 and returns rows with energies of that problem. -/
def mixinSample (impl : Impl) (child : Bqm → List Row) (m : Bqm) : List Row :=
  match impl with
  | .sample => child m
  | .ising =>    -- both vartypes: h, J, offset = bqm.to_ising(); sample_ising(h, J); change_vartype(bqm.vartype, offset)
    let s := m.toSpin
    let rows := child { s with off := 0 }
    if m.spin then rows.map (fun r => { r with energy := r.energy + s.off }) else rows.map (·.toBinary s.off)
  | .qubo =>
    let b := m.toBinary
    let rows := child { b with off := 0 }
    if m.spin then rows.map (·.toSpin b.off) else rows.map (fun r => { r with energy := r.energy + b.off })

/-- `Sampler.sample_ising(h, J)` = `sample(BinaryQuadraticModel.from_ising(h, J))` -/
def mixinIsing (impl : Impl) (child : Bqm → List Row) (h : List (Label × Rat)) (J : List (Label × Label × Rat)) : List Row :=
  mixinSample impl child ⟨true, h, J, 0⟩

/-- `Sampler.sample_qubo(Q)` = `sample(BinaryQuadraticModel.from_qubo(Q))`; `Q[(v, v)]` are the linear terms -/
def mixinQubo (impl : Impl) (child : Bqm → List Row) (lin : List (Label × Rat)) (quad : List (Label × Label × Rat)) : List Row :=
  mixinSample impl child ⟨false, lin, quad, 0⟩

/-! ## binary polynomials -/

/-- a term: duplicate-free labels (a `frozenset`) and its bias -/
abbrev Poly := List (List Label × Rat)

def termProd (x : Label → Rat) : List Label → Rat
  | [] => 1
  | l :: ls => x l * termProd x ls

def polyEnergy (x : Label → Rat) : Poly → Rat
  | [] => 0
  | (t, b) :: p => b * termProd x t + polyEnergy x p

/-- `poly_copy[k] += v` on a dict keyed by frozensets -/
def sameSet (a b : List Label) : Bool := a.all (b.contains ·) && b.all (a.contains ·)

def polyAdd (p : Poly) (k : List Label) (v : Rat) : Poly :=
  match p with
  | [] => [(k, v)]
  | (k', v') :: rest => if sameSet k' k then (k', v' + v) :: rest else (k', v') :: polyAdd rest k v

/-- inner loop of `fix_variables`: `for var, value in fixed.items(): if var in k: k -= {var}; v *= value` -/
def fixTerm (fixed : List (Label × Rat)) (k : List Label) (v : Rat) : List Label × Rat :=
  match fixed with
  | [] => (k, v)
  | (var, value) :: rest =>
    if k.contains var then fixTerm rest (k.filter (· ≠ var)) (v * value) else fixTerm rest k v

/-- `higherordercomposites.fix_variables(poly, fixed_variables)`.
    `skipConst = true` is the repaired code (the constant term is already in `offset`);
    `skipConst = false` is the code before the D5 repair, which adds `poly[()]` a second time. -/
def fixVariablesLoop (skipConst : Bool) (fixed : List (Label × Rat)) : Poly → Poly → Rat → Poly × Rat
  | [], acc, off => (acc, off)
  | (k, v) :: rest, acc, off =>
    if skipConst && k.isEmpty then fixVariablesLoop skipConst fixed rest acc off
    else
      let (k', v') := fixTerm fixed k v
      if k'.isEmpty then fixVariablesLoop skipConst fixed rest acc (off + v')
      else fixVariablesLoop skipConst fixed rest (polyAdd acc k' v') off

def constTerm : Poly → Rat
  | [] => 0
  | (k, v) :: rest => if k.isEmpty then v else constTerm rest

def fixVariables (skipConst : Bool) (p : Poly) (fixed : List (Label × Rat)) : Poly :=
  let (acc, off) := fixVariablesLoop skipConst fixed p [] (constTerm p)
  acc ++ [([], off)]

/-- `append_variables(sampleset, fixed_variables)`: the fixed values become extra columns; energies are kept -/
def Row.append (r : Row) (fixed : List (Label × Rat)) : Row := ⟨r.x ++ fixed, r.energy⟩

/-- `PolyFixedVariableComposite.sample_poly` with a non-empty child response -/
def polyFixedSample (skipConst : Bool) (child : Poly → List Row) (p : Poly) (fixed : List (Label × Rat)) : List Row :=
  (child (fixVariables skipConst p fixed)).map (·.append fixed)

/-- `BinaryPolynomial.scale(scalar, ignored_terms)` -/
def polyScale (s : Rat) (ignored : List (List Label)) (p : Poly) : Poly :=
  p.map fun (k, v) => if ignored.any (sameSet k) then (k, v) else (k, s * v)

/-- `PolyScaleComposite.sample_poly(poly, scalar=s, ignored_terms=…)`: energies are recomputed from
    the original when terms were ignored, otherwise divided by the scalar -/
def polyScaleSample (child : Poly → List Row) (p : Poly) (s : Rat) (ignored : List (List Label)) : List Row :=
  let rows := child (polyScale s ignored p)
  if ignored.isEmpty then rows.map fun r => { r with energy := r.energy / s }
  else rows.map fun r => { r with energy := polyEnergy r.val p }

/-! ## `polymorph_response` -/

/-- one introduced product variable: `reduction[(u, v)] = {'product': p, …}` -/
structure Red where
  u : Label
  v : Label
  p : Label

/-- `penalty_satisfaction`: every product variable equals the product of its factors -/
def penaltyOK (reds : List Red) (r : Row) : Bool := reds.all fun d => r.val d.u * r.val d.v == r.val d.p

/-- `polymorph_response(response, poly, bqm, keep_penalty_variables, discard_unsatisfied)`.
    `respVars` = `response.variables` (the order of the child's columns), `polyVars` =
    `poly.variables`.  Returns the labels of the new sample set and, per kept row, the column values
    in that label order, the energy and the penalty_satisfaction flag.
    `labelsFromBqm = some bqmVars` models the code before the D6 repair: with
    `keep_penalty_variables=True` the columns (still in `respVars` order) are labelled `bqm.variables`. -/
def polymorph (labelsFromBqm : Option (List Label)) (keep discard : Bool) (respVars polyVars : List Label)
    (reds : List Red) (p : Poly) (rows : List (List Rat)) : List Label × List (List Rat × Rat × Bool) :=
  let asRow (vals : List Rat) : Row := ⟨respVars.zip vals, 0⟩
  let kept := if discard then rows.filter (fun vals => penaltyOK reds (asRow vals)) else rows
  let labels := if keep then labelsFromBqm.getD respVars else polyVars
  let out := kept.map fun vals =>
    let r := asRow vals
    let cols := if keep then vals else polyVars.map r.val
    (cols, polyEnergy r.val p, if discard then true else penaltyOK reds r)
  (labels, out)

/-! ## `expand_initial_state` -/

/-- one entry of `bqm.info['reduction']` with what `expand_initial_state` reads of the BQM: the product
    label and, for SPIN reductions, the auxiliary label with `bqm.adj[aux][u]`, `[v]`, `[product]` -/
structure RedX where
  u : Label
  v : Label
  p : Label
  aux : Option (Label × Rat × Rat × Rat)

def stVal (st : List (Label × Rat)) (l : Label) : Rat := ((st.find? (fun q => q.1 = l)).map (·.2)).getD 0

/-- `initial_state[l] = x` on a dict -/
def stSet (st : List (Label × Rat)) (l : Label) (x : Rat) : List (Label × Rat) := st.filter (fun q => q.1 ≠ l) ++ [(l, x)]

/-- one iteration of the loop: the product variable gets the product of its factors; the auxiliary spin
    gets `min({1, -1}, key=lambda val: en*val)` (iteration order of the frozenset: 1 first, so a tie gives 1) -/
def expandStep (st : List (Label × Rat)) (d : RedX) : List (Label × Rat) :=
  let uv := stVal st d.u * stVal st d.v
  let st1 := stSet st d.p uv
  match d.aux with
  | none => st1
  | some (a, cu, cv, cp) =>
    let en := stVal st1 d.u * cu + stVal st1 d.v * cv + stVal st1 d.p * cp
    stSet st1 a (if en > 0 then -1 else 1)

/-- `expand_initial_state(bqm, initial_state)` -/
def expandInitialState (reds : List RedX) (init : List (Label × Rat)) : List (Label × Rat) := reds.foldl expandStep init

/-! ## row filters -/

/-- `SampleSet.truncate(n, sorted_by=None)` keeps the first `n` rows -/
def truncateRows (n : Nat) (rows : List Row) : List Row := rows.take n

end Enum
