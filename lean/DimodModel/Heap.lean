/-! # C19 — BQM / QM / CQM objects as records of references into a heap

`Store.MSt` treats a model as two abstract cells.  Here the objects are what the Cython layer really builds:

* a **cy object** (`cyBQM_template` / `cyQM_template`) owns a C++ model (`cppbqm` / `cppqm`, a pointer whose *target* is
  assigned with `new.cppbqm[0] = self.cppbqm[0]`) and refers to a `Variables` object (an attribute that is *re-bound*:
  `new.variables = self.variables.copy()`);
* a Python `BinaryQuadraticModel` / `QuadraticModel` is a reference `.data` to a cy object; the `.spin` / `.binary` view is a
  further Python object whose `.data` is a `VartypeView` wrapped around **the same** cy object;
* a **cy CQM** (`cyConstrainedQuadraticModel`) embeds a C++ CQM — the objective expression and a
  `vector<shared_ptr<Constraint>>` — and refers to two `Variables` objects (`variables`, `constraint_labels`);
  `ObjectiveView(parent)` reads `&parent.cppcqm.objective` at every access, `ConstraintView(parent, label)` holds a
  `weak_ptr` to one constraint.

Every copy-producing call of the property's list is written below as the sequence of allocations (`alloc`) and writes
(`store`) its source performs, in the source's order.  What a C++ model / expression *contains* is abstract
(`List Rat`), what a `Variables` holds is abstract (`List Nat`): only *which cell is read and which is written* matters
for aliasing.  Core Lean only. -/

namespace MHeap

inductive Cell where
  | free
  | coeffs (c : List Rat)                            -- contents of a C++ quadratic model / expression / constraint
  | labels (l : List Nat)                            -- contents of a `Variables` object
  | cy (cpp vars : Nat)                              -- cyBQM / cyQM: the owned C++ model, the `Variables` attribute
  | cqm (objective : Nat) (constraints : List Nat)   -- C++ CQM: embedded objective, the shared_ptr vector
  | cycqm (cpp vars clabels : Nat)                   -- cyConstrainedQuadraticModel

structure Heap where
  cell : Nat → Cell
  next : Nat

def alloc (h : Heap) (c : Cell) : Heap × Nat :=
  ({ cell := fun a => if a = h.next then c else h.cell a, next := h.next + 1 }, h.next)

def store (h : Heap) (a : Nat) (c : Cell) : Heap :=
  { h with cell := fun b => if b = a then c else h.cell b }

def coeffsAt (h : Heap) (a : Nat) : List Rat := match h.cell a with | .coeffs c => c | _ => []
def labelsAt (h : Heap) (a : Nat) : List Nat := match h.cell a with | .labels l => l | _ => []
def cppOf (h : Heap) (d : Nat) : Nat := match h.cell d with | .cy c _ => c | .cycqm c _ _ => c | _ => 0
def varsOf (h : Heap) (d : Nat) : Nat := match h.cell d with | .cy _ v => v | .cycqm _ v _ => v | _ => 0
def clabelsOf (h : Heap) (d : Nat) : Nat := match h.cell d with | .cycqm _ _ l => l | _ => 0
def objectiveOf (h : Heap) (q : Nat) : Nat := match h.cell q with | .cqm o _ => o | _ => 0
def constraintsOf (h : Heap) (q : Nat) : List Nat := match h.cell q with | .cqm _ cs => cs | _ => []

/-! ## BQM / QM -/

/-- `cyBQM(vartype)` / `cyQM()`: `__cinit__` allocates the C++ model and a `Variables` -/
def cyNew (h : Heap) : Heap × Nat :=
  let a := alloc h (.coeffs [])
  let b := alloc a.1 (.labels [])
  alloc b.1 (.cy a.2 b.2)

/-- `cyBQM.__copy__`, `cyBQM.__deepcopy__`, `cyQM.__deepcopy__` as coded:
    `new = type(self)(…)`; `new.cppbqm[0] = self.cppbqm[0]`; `new.variables = self.variables.copy()` -/
def cyCopy (h : Heap) (d : Nat) : Heap × Nat :=
  let a := cyNew h
  let h2 := store a.1 (cppOf a.1 a.2) (.coeffs (coeffsAt a.1 (cppOf a.1 d)))
  let b := alloc h2 (.labels (labelsAt h2 (varsOf h2 d)))
  (store b.1 a.2 (.cy (cppOf b.1 a.2) b.2), a.2)

/-- an in-place method called on the cy object `d`: the C++ model becomes `f` of itself, the `Variables` `g` of itself
    (`scale`, `offset +=`, `relabel_variables`, `change_vartype`, `fix_variable`, `add_variable`, `remove_variable`, …) -/
def mutate (h : Heap) (d : Nat) (f : List Rat → List Rat) (g : List Nat → List Nat) : Heap :=
  let h1 := store h (cppOf h d) (.coeffs (f (coeffsAt h (cppOf h d))))
  store h1 (varsOf h1 d) (.labels (g (labelsAt h1 (varsOf h1 d))))

/-- `dst.update(src)`: reads `src`, writes `dst` -/
def update (h : Heap) (dst src : Nat) (u : List Rat → List Rat → List Rat) (w : List Nat → List Nat → List Nat) : Heap :=
  mutate h dst (fun c => u c (coeffsAt h (cppOf h src))) (fun l => w l (labelsAt h (varsOf h src)))

/-- `cyQM.clear` / `cyBQM.clear`: `cppqm.clear(); variables._clear()` -/
def clear (h : Heap) (d : Nat) : Heap := mutate h d (fun _ => []) (fun _ => [])

/-- what a call may do to the object it has just made (`…copy().<method>(inplace=True)`, `new.scale(-1)`, `new.offset += x`) -/
structure Post where
  f : List Rat → List Rat
  g : List Nat → List Nat

/-- how `update` merges (the polynomial sum and the label union — abstract) -/
structure Merge where
  u : List Rat → List Rat → List Rat
  w : List Nat → List Nat → List Nat

/-- the copy-producing calls of a BQM / QM, each as coded (receiver `d`, second operand `o` where there is one) -/
inductive Call where
  | copy                     -- `BQM.__copy__` → `copy.copy(self.data)`; `BQM.copy()`; `+m`
  | deepcopy                 -- `BQM.__deepcopy__`, `QM.__deepcopy__` = `QM.copy()` → `deepcopy(self.data)`
  | construct (m : Merge)    -- `BQM(bqm)` = `_init_bqm`: `self.data = cyBQM(vartype)`; `self.update(bqm)`.  Also `DictBQM(bqm)`, `as_bqm(copy=True)`
  | fromBqm (m : Merge)      -- `QM.from_bqm` → `from_cybqm`: `qm = cls()`, then filled from the BQM
  | pickle (m : Merge)       -- `__reduce__`: `from_numpy_vectors(*to_numpy_vectors())`: a new object filled from *values*
  | inplaceFalse (p : Post)  -- `relabel_variables`, `relabel_variables_as_integers`, `change_vartype`, `spin_to_binary` with `inplace=False`: `self.copy().<method>(inplace=True)`
  | arithNum (p : Post)      -- `m + x`, `x + m` (= `self + other`, also for `x = 0`), `m - x`, `m * x`, `m / x`, `-m`: `new = self.copy(); new.offset += x` / `new.scale(x)`
  | addModel (m : Merge)     -- `m + other` (same class / vartype): `new = self.copy(); new.update(other)`
  | subModel (m : Merge) (neg : Post)   -- `m - other`: `new = self.copy(); new.scale(-1); new.update(other); new.scale(-1)`
  | addPromote (m1 m2 m : Merge)        -- BQMs of different vartype: `qm = from_bqm(self); qm += from_bqm(other)`
  | mulModel (m : Merge)     -- `m * other`: a new model filled by the double loop over both operands' linear terms
  | view                     -- `.spin` / `.binary`: a Python object around the receiver's own cy object (documented alias)
  | iadd (m : Merge)         -- `m += other`: `self.update(other)` (documented in-place)

/-- `(heap after the call, cy object of the result)` -/
def Call.run (h : Heap) (d o : Nat) : Call → Heap × Nat
  | .copy => cyCopy h d
  | .deepcopy => cyCopy h d
  | .construct m => let a := cyNew h; (update a.1 a.2 d m.u m.w, a.2)
  | .fromBqm m => let a := cyNew h; (update a.1 a.2 d m.u m.w, a.2)
  | .pickle m => let a := cyNew h; (update a.1 a.2 d m.u m.w, a.2)
  | .inplaceFalse p => let a := cyCopy h d; (mutate a.1 a.2 p.f p.g, a.2)
  | .arithNum p => let a := cyCopy h d; (mutate a.1 a.2 p.f p.g, a.2)
  | .addModel m => let a := cyCopy h d; (update a.1 a.2 o m.u m.w, a.2)
  | .subModel m neg =>
    let a := cyCopy h d
    let h1 := mutate a.1 a.2 neg.f neg.g
    let h2 := update h1 a.2 o m.u m.w
    (mutate h2 a.2 neg.f neg.g, a.2)
  | .addPromote m1 m2 m =>
    let a := cyNew h
    let h1 := update a.1 a.2 d m1.u m1.w
    let b := cyNew h1
    let h2 := update b.1 b.2 o m2.u m2.w
    (update h2 a.2 b.2 m.u m.w, a.2)
  | .mulModel m =>
    let a := cyNew h
    let h1 := update a.1 a.2 d m.u m.w
    (update h1 a.2 o m.u m.w, a.2)
  | .view => (h, d)
  | .iadd m => (update h d o m.u m.w, d)

/-- the calls that the property lists as returning an *independent* object -/
def Call.producesCopy : Call → Bool
  | .view => false
  | .iadd _ => false
  | _ => true

/-- observing a model through its cy object: coefficients and labels -/
def obs (h : Heap) (d : Nat) : List Rat × List Nat := (coeffsAt h (cppOf h d), labelsAt h (varsOf h d))

/-- reading through a `VartypeView` around `d` (`tr` = the SPIN↔BINARY conversion of C02) -/
def viewRead (h : Heap) (d : Nat) (tr : List Rat → List Rat) : List Rat × List Nat := (tr (obs h d).1, (obs h d).2)

/-- writing through the view: the parent's own C++ model is written (with the inverse conversion) -/
def viewWrite (h : Heap) (d : Nat) (inv : List Rat → List Rat) (c : List Rat) : Heap := mutate h d (fun _ => inv c) id

/-- in-place edits of a model, for whole edit histories (`m.update(x)`, `m += x` with an operand held elsewhere are `both`
    with the operand's contents fixed) -/
inductive Edit where
  | coeffs (f : List Rat → List Rat)
  | labels (g : List Nat → List Nat)
  | both (f : List Rat → List Rat) (g : List Nat → List Nat)
  | clear

def Edit.fg : Edit → Post
  | .coeffs f => ⟨f, id⟩
  | .labels g => ⟨id, g⟩
  | .both f g => ⟨f, g⟩
  | .clear => ⟨fun _ => [], fun _ => []⟩

def Edit.run (h : Heap) (d : Nat) (e : Edit) : Heap := mutate h d e.fg.f e.fg.g

/-- what a history of edits does to an observation -/
def applyEdits (o : List Rat × List Nat) : List Edit → List Rat × List Nat
  | [] => o
  | e :: t => applyEdits (e.fg.f o.1, e.fg.g o.2) t

/-- a history of edits, each on one of two objects (`false` = the first) -/
def runEdits (h : Heap) (a b : Nat) : List (Bool × Edit) → Heap
  | [] => h
  | (side, e) :: t => runEdits (e.run h (if side then b else a)) a b t

/-! ## CQM -/

/-- C++ copy of a vector of `shared_ptr<Constraint>`: `make_shared<Constraint>(*c_ptr)` for each, contents through `k`
    (`k = id` for the copy constructor; the substitution for `fix_variables`) -/
def copyCells (k : List Rat → List Rat) (h : Heap) : List Nat → Heap × List Nat
  | [] => (h, [])
  | a :: t =>
    let x := alloc h (.coeffs (k (coeffsAt h a)))
    let r := copyCells k x.1 t
    (r.1, x.2 :: r.2)

/-- `cyConstrainedQuadraticModel()`: `__cinit__` makes two `Variables`; the C++ CQM is a member -/
def cqmNew (h : Heap) : Heap × Nat :=
  let o := alloc h (.coeffs [])
  let q := alloc o.1 (.cqm o.2 [])
  let l := alloc q.1 (.labels [])
  let v := alloc l.1 (.labels [])
  alloc v.1 (.cycqm q.2 v.2 l.2)

/-- a new CQM built from an old one: `cyCQM.__deepcopy__` as coded (`new = type(self)()`; `new.cppcqm = self.cppcqm` — the C++
    copy constructor + swap; `new.constraint_labels = deepcopy(…)`; `new.variables = deepcopy(…)`) with `ko = kc = id`,
    `gv = gl = id`; `fix_variables(inplace=False)` (`make_cqm(self.cppcqm.fix_variables(…))`, then relabelling of the NEW
    object) with the substitution as `ko`, `kc` and the removal of the fixed labels as `gv` -/
def cqmRebuild (h : Heap) (d : Nat) (ko kc : List Rat → List Rat) (gv gl : List Nat → List Nat) : Heap × Nat :=
  let a := cqmNew h
  let o := alloc a.1 (.coeffs (ko (coeffsAt a.1 (objectiveOf a.1 (cppOf a.1 d)))))
  let cs := copyCells kc o.1 (constraintsOf o.1 (cppOf o.1 d))
  let h1 := store cs.1 (cppOf cs.1 a.2) (.cqm o.2 cs.2)
  let l := alloc h1 (.labels (gl (labelsAt h1 (clabelsOf h1 d))))
  let v := alloc l.1 (.labels (gv (labelsAt l.1 (varsOf l.1 d))))
  (store v.1 a.2 (.cycqm (cppOf v.1 a.2) v.2 l.2), a.2)

def cqmDeepcopy (h : Heap) (d : Nat) : Heap × Nat := cqmRebuild h d id id id id

/-- in-place edits of a CQM -/
inductive CEdit where
  | objective (f : List Rat → List Rat)              -- through `cqm.objective` (an `ObjectiveView`)
  | constraint (k : Nat) (f : List Rat → List Rat)   -- through `cqm.constraints[label].lhs` (a `ConstraintView`), also `mark_discrete`, `set_weight`
  | vars (g : List Nat → List Nat)                   -- `add_variable`, `relabel_variables`, bounds …
  | clabels (g : List Nat → List Nat)                -- `relabel_constraints`
  | addConstraint (c : List Rat) (g : List Nat → List Nat)   -- `add_constraint_from_iterable`: a new `Constraint`, a new label
  | removeConstraint (k : Nat)                       -- `remove_constraint`: the shared_ptr leaves the vector

def setConstraints (h : Heap) (d : Nat) (cs : List Nat) : Heap :=
  store h (cppOf h d) (.cqm (objectiveOf h (cppOf h d)) cs)

def CEdit.run (h : Heap) (d : Nat) : CEdit → Heap
  | .objective f => store h (objectiveOf h (cppOf h d)) (.coeffs (f (coeffsAt h (objectiveOf h (cppOf h d)))))
  | .constraint k f => match (constraintsOf h (cppOf h d))[k]? with
    | some c => store h c (.coeffs (f (coeffsAt h c)))
    | none => h
  | .vars g => store h (varsOf h d) (.labels (g (labelsAt h (varsOf h d))))
  | .clabels g => store h (clabelsOf h d) (.labels (g (labelsAt h (clabelsOf h d))))
  | .addConstraint c g =>
    let x := alloc h (.coeffs c)
    let h1 := setConstraints x.1 d (constraintsOf x.1 (cppOf x.1 d) ++ [x.2])
    store h1 (clabelsOf h1 d) (.labels (g (labelsAt h1 (clabelsOf h1 d))))
  | .removeConstraint k => setConstraints h d ((constraintsOf h (cppOf h d)).eraseIdx k)

def runCEdits (h : Heap) (a b : Nat) : List (Bool × CEdit) → Heap
  | [] => h
  | (side, e) :: t => runCEdits (e.run h (if side then b else a)) a b t

/-- observing a CQM: objective, every constraint in order, variables, constraint labels -/
def cobs (h : Heap) (d : Nat) : List Rat × List (List Rat) × List Nat × List Nat :=
  (coeffsAt h (objectiveOf h (cppOf h d)), (constraintsOf h (cppOf h d)).map (coeffsAt h), labelsAt h (varsOf h d), labelsAt h (clabelsOf h d))

/-- `cyCQM.add_constraint_from_model(model, sense, rhs, label, copy, …)` as coded: missing variables are added to the CQM's
    `Variables`; `cppcqm.add_constraint(deref(model.base) | move(deref(model.base)), …, mapping)` makes a new `Constraint` holding
    the (re-indexed) contents; only without `copy`: `model.clear()`; the label is appended -/
def cyAddConstraintFromModel (h : Heap) (d m : Nat) (copy : Bool) (remap : List Rat → List Rat) (m' : Merge) (lab : List Nat → List Nat) : Heap × Nat :=
  let h1 := store h (varsOf h d) (.labels (m'.w (labelsAt h (varsOf h d)) (labelsAt h (varsOf h m))))
  let c := alloc h1 (.coeffs (remap (coeffsAt h1 (cppOf h1 m))))
  let h2 := if copy then c.1 else clear c.1 m
  let h3 := setConstraints h2 d (constraintsOf h2 (cppOf h2 d) ++ [c.2])
  (store h3 (clabelsOf h3 d) (.labels (lab (labelsAt h3 (clabelsOf h3 d)))), c.2)

/-- `CQM.add_constraint_from_model(qm, sense, rhs, label, copy=…)`: the Cython method gets `qm.data` and `bool(copy)`.  (An object-dtype
    BQM is first converted with `BinaryQuadraticModel(qm)`, which keeps the object dtype, and the fused-type dispatch of the Cython method
    then raises `TypeError` before anything is written: such models cannot be added and are outside this function.) -/
def addConstraintFromModel (h : Heap) (d m : Nat) (copy : Bool) (remap : List Rat → List Rat) (m' : Merge) (lab : List Nat → List Nat) : Heap × Nat :=
  cyAddConstraintFromModel h d m copy remap m' lab

/-- `add_constraint(data, *args, **kwargs)` with a model, `add_constraint_from_comparison(comp, label, copy, …)` with `comp.lhs`:
    `copy` is handed on by keyword -/
def addConstraint (h : Heap) (d m : Nat) (copy : Bool) (remap : List Rat → List Rat) (m' : Merge) (lab : List Nat → List Nat) : Heap × Nat :=
  addConstraintFromModel h d m copy remap m' lab

/-- `add_discrete_from_model(qm, label, copy, check_overlaps)` as coded: the checks only read (`check_overlaps` selects whether the
    overlap test runs); `add_constraint_from_model(qm, '==', 1, label=label, copy=copy)`; `self.discrete.add(label)` marks the NEW
    constraint -/
def addDiscreteFromModel (h : Heap) (d m : Nat) (copy _checkOverlaps : Bool) (remap mark : List Rat → List Rat) (m' : Merge) (lab : List Nat → List Nat) : Heap × Nat :=
  let r := addConstraintFromModel h d m copy remap m' lab
  (store r.1 r.2 (.coeffs (mark (coeffsAt r.1 r.2))), r.2)

/-- `add_discrete_from_comparison(comp, label, copy, check_overlaps)` as coded:
    `self.add_discrete_from_model(comp.lhs, label=label, copy=copy, check_overlaps=check_overlaps)` -/
def addDiscreteFromComparison (h : Heap) (d lhs : Nat) (copy checkOverlaps : Bool) (remap mark : List Rat → List Rat) (m' : Merge) (lab : List Nat → List Nat) : Heap × Nat :=
  addDiscreteFromModel h d lhs copy checkOverlaps remap mark m' lab

/-- `add_discrete_from_iterable(variables, label, check_overlaps)` as coded: a NEW float32 BQM is filled from the labels, then
    `add_constraint_from_comparison(bqm == 1, label=label, copy=False)` moves that temporary -/
def addDiscreteFromIterable (h : Heap) (d : Nat) (_checkOverlaps : Bool) (fill : Post) (remap mark : List Rat → List Rat) (m' : Merge) (lab : List Nat → List Nat) : Heap × Nat :=
  let t := cyNew h
  let h1 := mutate t.1 t.2 fill.f fill.g
  let r := addConstraint h1 d t.2 false remap m' lab
  (store r.1 r.2 (.coeffs (mark (coeffsAt r.1 r.2))), r.2)

/-- `set_objective(model)` as coded: an object-dtype BQM is converted first; `_set_objective_from_cyqm(objective.data)` adds the
    missing variables and `cppcqm.set_objective(deref(objective.base), mapping)` *copies into* the CQM's own objective -/
def setObjective (h : Heap) (d m : Nat) (objectDtype : Bool) (remap : List Rat → List Rat) (m' : Merge) : Heap :=
  let t := if objectDtype then Call.run h m m (.construct m') else (h, m)
  let h1 := store t.1 (varsOf t.1 d) (.labels (m'.w (labelsAt t.1 (varsOf t.1 d)) (labelsAt t.1 (varsOf t.1 t.2))))
  store h1 (objectiveOf h1 (cppOf h1 d)) (.coeffs (remap (coeffsAt h1 (cppOf h1 t.2))))

/-- `CQM.from_quadratic_model(qm)` / `from_bqm` / `from_qm`: `cqm = cls(); cqm.set_objective(qm)` -/
def fromQuadraticModel (h : Heap) (m : Nat) (objectDtype : Bool) (remap : List Rat → List Rat) (m' : Merge) : Heap × Nat :=
  let a := cqmNew h
  (setObjective a.1 a.2 m objectDtype remap m', a.2)

/-- the copy-producing calls of a CQM -/
inductive CCall where
  | deepcopy                                                  -- `copy.deepcopy(cqm)`
  | fixVariablesCopy (ko kc : List Rat → List Rat) (gv : List Nat → List Nat)    -- `fix_variables(…, inplace=False)`
  | inplaceFalse (es : List CEdit)                            -- `relabel_variables` / `spin_to_binary` with `inplace=False`:
                                                              -- `copy.deepcopy(self).<method>(inplace=True)`

def CCall.run (h : Heap) (d : Nat) : CCall → Heap × Nat
  | .deepcopy => cqmDeepcopy h d
  | .fixVariablesCopy ko kc gv => cqmRebuild h d ko kc gv id
  | .inplaceFalse es =>
    let a := cqmDeepcopy h d
    (es.foldl (fun acc e => e.run acc a.2) a.1, a.2)

/-! ### expression views (documented aliases) -/

/-- `cqm.objective` is an `ObjectiveView(parent)`: every access evaluates `&(self.parent.cppcqm.objective)` -/
def objectiveViewRead (h : Heap) (parent : Nat) : List Rat := coeffsAt h (objectiveOf h (cppOf h parent))
def objectiveViewWrite (h : Heap) (parent : Nat) (c : List Rat) : Heap := store h (objectiveOf h (cppOf h parent)) (.coeffs c)

/-- `ConstraintView(parent, label)`: `constraint_weak_ptr(index of label)` taken at construction -/
def constraintViewNew (h : Heap) (parent k : Nat) : Option Nat := (constraintsOf h (cppOf h parent))[k]?
/-- access through the view: `expired()` ⇒ `RuntimeError` (`none`) -/
def constraintViewRead (h : Heap) (parent ptr : Nat) : Option (List Rat) :=
  if ptr ∈ constraintsOf h (cppOf h parent) then some (coeffsAt h ptr) else none
def constraintViewWrite (h : Heap) (ptr : Nat) (c : List Rat) : Heap := store h ptr (.coeffs c)

end MHeap
