import DimodModel.Vars

/-! Executable model of the array-backed BQM (`cybqm_template.pyx.pxi` + `cyqmbase_template.pyx.pxi`
    over `abc.h`), of the Python layer on top of it (`binary_quadratic_model.py`: contract, flip, fix,
    update fall-back, bulk adders) and of `VartypeView` (`vartypeview.py`, every method as coded).
    Labels are kept as a plain list: that `cyVariables` *is* such a list is property C13.
    The adjacency is always allocated here (`adj_ptr_ == nullptr` is observationally a list of empty
    neighbourhoods).  Core Lean only. -/

inductive VT | spin | binary
  deriving DecidableEq, Repr

inductive ErrC | value | type | index | runtime
  deriving DecidableEq, Repr

structure Bqm where
  vt : VT
  labels : List Label
  lin : List Rat
  adj : List (List (Nat × Rat))
  off : Rat

namespace Bqm

def empty (vt : VT) : Bqm := { vt, labels := [], lin := [], adj := [], off := 0 }

def n (m : Bqm) : Nat := m.lin.length

def indexOfGo (v : Label) : List Label → Nat → Option Nat
  | [], _ => none
  | l :: ls, i => if l = v then some i else indexOfGo v ls (i+1)

def indexOf? (m : Bqm) (v : Label) : Option Nat := indexOfGo v m.labels 0

/-- the label `_append(None)` generates: the length if free, else the least free natural -/
def autoLabel (m : Bqm) : Label :=
  let k := m.labels.length
  if (Label.int k) ∈ m.labels then
    let rec least (fuel i : Nat) : Nat :=
      match fuel with
      | 0 => i
      | f+1 => if (Label.int i) ∈ m.labels then least f (i+1) else i
    Label.int (least (k+1) 0)
  else Label.int k

def pushVar (m : Bqm) (v : Label) : Bqm :=
  { m with labels := m.labels ++ [v], lin := m.lin ++ [0], adj := m.adj ++ [[]] }

/-- `_index(v, permissive=True)` -/
def indexP (m : Bqm) (v : Label) : Bqm × Nat :=
  match m.indexOf? v with
  | some i => (m, i)
  | none => (m.pushVar v, m.n)

/-- `asymmetric_quadratic_ref(u, v) += b` (or `= b`) on the neighbourhood of `u`:
    first entry with index ≥ v; modify if equal, insert before it otherwise -/
def nbhAdd (nb : List (Nat × Rat)) (v : Nat) (b : Rat) (set : Bool) : List (Nat × Rat) :=
  match nb with
  | [] => [(v, b)]
  | (w, c) :: t =>
    if w < v then (w, c) :: nbhAdd t v b set
    else if w = v then (w, if set then b else c + b) :: t
    else (v, b) :: (w, c) :: t

def modifyAt {α} (l : List α) (i : Nat) (f : α → α) : List α :=
  match l, i with
  | [], _ => []
  | a :: t, 0 => f a :: t
  | a :: t, i+1 => a :: modifyAt t i f

def asym (m : Bqm) (u v : Nat) (b : Rat) (set : Bool) : Bqm :=
  { m with adj := modifyAt m.adj u (fun nb => nbhAdd nb v b set) }

def addLinear (m : Bqm) (v : Label) (b : Rat) : Bqm :=
  let (m, i) := m.indexP v
  { m with lin := modifyAt m.lin i (· + b) }

def setLinear (m : Bqm) (v : Label) (b : Rat) : Bqm :=
  let (m, i) := m.indexP v
  { m with lin := modifyAt m.lin i (fun _ => b) }

def quadOp (m : Bqm) (u v : Label) (b : Rat) (set : Bool) : Bqm × Option ErrC :=
  if u = v then (m, some .value) else
  let (m, ui) := m.indexP u
  let (m, vi) := m.indexP v
  ((m.asym ui vi b set).asym vi ui b set, none)

def nbhCoef (nb : List (Nat × Rat)) (v : Nat) : Option Rat :=
  match nb with
  | [] => none
  | (w, c) :: t => if w = v then some c else nbhCoef t v

/-- erase the entry of neighbour `w` -/
def nbhDrop (nb : List (Nat × Rat)) (w : Nat) : List (Nat × Rat) := nb.filter (fun p => p.1 ≠ w)

def removeInteraction (m : Bqm) (u v : Label) : Bqm × Option ErrC :=
  match m.indexOf? u, m.indexOf? v with
  | some ui, some vi =>
    match nbhCoef (m.adj.getD ui []) vi with
    | none => (m, some .value)
    | some _ =>
      ({ m with adj := modifyAt (modifyAt m.adj ui (nbhDrop · vi)) vi (nbhDrop · ui) }, none)
  | _, _ => (m, some .value)

def eraseIdx {α} (l : List α) (i : Nat) : List α :=
  match l, i with
  | [], _ => []
  | _ :: t, 0 => t
  | a :: t, i+1 => a :: eraseIdx t i

/-- what `remove_variable(vi)` does to one remaining neighbourhood: the entry of `vi` goes, larger
    indices are decremented -/
def shiftEntry (vi : Nat) (p : Nat × Rat) : Nat × Rat := (if p.1 > vi then p.1 - 1 else p.1, p.2)

def nbhShift (vi : Nat) (nb : List (Nat × Rat)) : List (Nat × Rat) :=
  (nb.filter (fun p => p.1 ≠ vi)).map (shiftEntry vi)

/-- `abc::remove_variable(vi)` + label removal -/
def removeAt (m : Bqm) (vi : Nat) : Bqm :=
  { m with labels := eraseIdx m.labels vi, lin := eraseIdx m.lin vi,
           adj := (eraseIdx m.adj vi).map (nbhShift vi) }

def removeVariable (m : Bqm) (v : Option Label) : Bqm × Option ErrC :=
  match v with
  | none => if m.n = 0 then (m, some .value) else (m.removeAt (m.n - 1), none)
  | some v => match m.indexOf? v with
    | none => (m, some .value)
    | some i => (m.removeAt i, none)

def addVariable (m : Bqm) (v : Option Label) (b : Rat) : Bqm :=
  let lbl := match v with | some l => l | none => m.autoLabel
  m.addLinear lbl b

def growTo (k : Nat) : Nat → Bqm → Bqm
  | 0, m => m
  | f+1, m => if m.n < k then growTo k f (m.pushVar m.autoLabel) else m

def shrinkTo (k : Nat) : Nat → Bqm → Bqm
  | 0, m => m
  | f+1, m => if m.n > k then shrinkTo k f (m.removeAt (m.n - 1)) else m

def resize (m : Bqm) (k : Int) : Bqm × Option ErrC :=
  if k < 0 then (m, some .value) else
  (shrinkTo k.toNat m.n (growTo k.toNat k.toNat m), none)

def scale (m : Bqm) (s : Rat) : Bqm :=
  { m with off := m.off * s, lin := m.lin.map (· * s), adj := m.adj.map (·.map fun p => (p.1, p.2 * s)) }

/-- `substitute_variables(mult, c)` exactly as coded (every directed entry visited once) -/
def substituteAll (m : Bqm) (mult c : Rat) : Bqm :=
  let off1 := m.lin.foldl (fun acc l => acc + l * c) m.off
  let lin1 := m.lin.map (· * mult)
  let quadOff := c * c / 2
  let off2 := m.adj.foldl (fun acc nb => nb.foldl (fun a p => a + quadOff * p.2) acc) off1
  let lin2 := (lin1.zip m.adj).map fun (l, nb) => nb.foldl (fun a p => a + mult * c * p.2) l
  { m with off := off2, lin := lin2, adj := m.adj.map (·.map fun p => (p.1, p.2 * (mult * mult))) }

def changeVartype (m : Bqm) (vt : VT) : Bqm :=
  if m.vt = vt then m else
  match vt with
  | .spin => { m.substituteAll (1/2) (1/2) with vt := .spin }
  | .binary => { m.substituteAll 2 (-1) with vt := .binary }

def fixVariable (m : Bqm) (v : Label) (a : Rat) : Bqm × Option ErrC :=
  match m.indexOf? v with
  | none => (m, some .value)
  | some vi =>
    let nb := m.adj.getD vi []
    let lin := nb.foldl (fun l p => modifyAt l p.1 (· + a * p.2)) m.lin
    let m := { m with lin := lin, off := m.off + a * (lin.getD vi 0) }
    (m.removeAt vi, none)

/-- lower-triangle energy loop -/
def energy (m : Bqm) (x : List Rat) : Rat :=
  let rec rows (u : Nat) (ls : List Rat) (as : List (List (Nat × Rat))) (acc : Rat) : Rat :=
    match ls, as with
    | l :: ls, nb :: as =>
      let xu := x.getD u 0
      let acc := acc + l * xu
      let acc := nb.foldl (fun a p => if p.1 ≤ u then a + p.2 * xu * x.getD p.1 0 else a) acc
      rows (u+1) ls as acc
    | _, _ => acc
  rows 0 m.lin m.adj m.off

/-! ### further operations of the public BQM interface -/

/-- `clear()`: `abc::clear` keeps `vartype_` -/
def clear (m : Bqm) : Bqm := { m with labels := [], lin := [], adj := [], off := 0 }

/-- `relabel_variables(mapping)` = `Variables._relabel` (list semantics: `LSpec`, tied to the sparse maps by C13) -/
def relabel (m : Bqm) (mp : List (Label × Label)) : Bqm × Option ErrC :=
  match LSpec.step m.labels (.relabel mp) with
  | (l, true) => ({ m with labels := l }, none)
  | (_, false) => (m, some .value)

def relabelInts (m : Bqm) : Bqm := { m with labels := (List.range m.labels.length).map fun (i : Nat) => Label.int (i : Int) }

def linAt (m : Bqm) (i : Nat) : Rat := m.lin.getD i 0
def quadAt (m : Bqm) (u v : Nat) : Option Rat := nbhCoef (m.adj.getD u []) v
def nbhAt (m : Bqm) (i : Nat) : List (Nat × Rat) := m.adj.getD i []

/-- symmetric add at index level (`abc::add_quadratic`, u ≠ v) -/
def addQ (m : Bqm) (u v : Nat) (b : Rat) : Bqm := (m.asym u v b false).asym v u b false
def setQ (m : Bqm) (u v : Nat) (b : Rat) : Bqm := (m.asym u v b true).asym v u b true

/-- lower-triangle triples in `ConstQuadraticIterator` order -/
def lowerTriples (m : Bqm) : List (Nat × Nat × Rat) :=
  (List.range m.adj.length).flatMap fun u => ((m.nbhAt u).filter (fun p => p.1 < u)).map fun p => (u, p.1, p.2)

def sumLin (m : Bqm) : Rat := m.lin.foldl (· + ·) 0
def sumNbh (m : Bqm) (i : Nat) : Rat := (m.nbhAt i).foldl (fun a p => a + p.2) 0
def sumQuad (m : Bqm) : Rat := m.lowerTriples.foldl (fun a t => a + t.2.2) 0

/-! ### `VartypeView` — reads and writes as coded.  `tv` is the view's vartype. -/

def vOffset (m : Bqm) (tv : VT) : Rat :=
  if tv = m.vt then m.off else
  match tv with
  | .binary => m.off - m.sumLin + m.sumQuad
  | .spin => m.off + m.sumLin / 2 + m.sumQuad / 4

def vGetLinear (m : Bqm) (tv : VT) (i : Nat) : Rat :=
  if tv = m.vt then m.linAt i else
  match tv with
  | .binary => 2 * m.linAt i - 2 * m.sumNbh i
  | .spin => m.linAt i / 2 + m.sumNbh i / 4

def vQuadFactor (m : Bqm) (tv : VT) : Rat :=
  if tv = m.vt then 1 else match tv with | .binary => 4 | .spin => 1/4

def vGetQuadratic (m : Bqm) (tv : VT) (u v : Nat) : Option Rat :=
  (m.quadAt u v).map (m.vQuadFactor tv * ·)

def vSetOffset (m : Bqm) (tv : VT) (b : Rat) : Bqm :=
  if tv = m.vt then { m with off := b } else { m with off := m.off + (b - m.vOffset tv) }

def vAddLinear (m : Bqm) (tv : VT) (v : Label) (b : Rat) : Bqm :=
  if tv = m.vt then m.addLinear v b else
  match tv with
  | .binary => let m := m.addLinear v (b / 2); { m with off := m.off + b / 2 }
  | .spin => let m := m.addLinear v (2 * b); { m with off := m.off - b }

/-- view `add_quadratic` for `u ≠ v` -/
def vAddQuadratic (m : Bqm) (tv : VT) (u v : Label) (b : Rat) : Bqm :=
  if tv = m.vt then (m.quadOp u v b false).1 else
  match tv with
  | .binary =>
    let m := (m.quadOp u v (b / 4) false).1
    let m := m.addLinear u (b / 4)
    let m := m.addLinear v (b / 4)
    { m with off := m.off + b / 4 }
  | .spin =>
    let m := (m.quadOp u v (4 * b) false).1
    let m := m.addLinear u (-2 * b)
    let m := m.addLinear v (-2 * b)
    { m with off := m.off + b }

/-- view `add_variable(v, bias)`: `data.add_variable(v)` then the view's `add_linear` -/
def vAddVariable (m : Bqm) (tv : VT) (v : Option Label) (b : Rat) : Bqm :=
  let lbl := match v with | some l => l | none => m.autoLabel
  let m := m.addLinear lbl 0
  m.vAddLinear tv lbl b

def vSetLinear (m : Bqm) (tv : VT) (v : Label) (b : Rat) : Bqm :=
  if tv = m.vt then m.setLinear v b else
  let m := m.vAddLinear tv v 0
  match m.indexOf? v with
  | none => m
  | some i => m.vAddLinear tv v (b - m.vGetLinear tv i)

/-- view `set_quadratic` (not a `view_method`: the same code runs whatever the data's vartype) -/
def vSetQuadratic (m : Bqm) (tv : VT) (u v : Label) (b : Rat) : Bqm × Option ErrC :=
  if u = v then (m, some .value) else
  let m := m.vAddVariable tv (some u) 0
  let m := m.vAddVariable tv (some v) 0
  let m := m.vAddQuadratic tv u v 0
  match m.indexOf? u, m.indexOf? v with
  | some ui, some vi =>
    (m.vAddQuadratic tv u v (b - ((m.vGetQuadratic tv ui vi).getD 0)), none)
  | _, _ => (m, none)

def vRemoveInteraction (m : Bqm) (tv : VT) (u v : Label) : Bqm × Option ErrC :=
  if tv = m.vt then m.removeInteraction u v else
  if u = v then (m, some .value) else
  match m.indexOf? u, m.indexOf? v with
  | some ui, some vi =>
    match m.quadAt ui vi with
    | none => (m, some .value)
    | some _ =>
      let m := (m.vSetQuadratic tv u v 0).1
      m.removeInteraction u v
  | _, _ => (m, some .value)

/-- body of a Python loop over a neighbourhood `for u, bias in self.iter_neighborhood(v): …`: the neighbour's label is
    looked up in the current label list, then `stepM model label bias` runs -/
def loopBody (stepM : Bqm → Label → Rat → Bqm) (acc : Bqm) (p : Nat × Rat) : Bqm :=
  match acc.labels[p.1]? with
  | some ul => stepM acc ul p.2
  | none => acc

def vRemoveVariable (m : Bqm) (tv : VT) (v : Option Label) : Bqm × Option ErrC :=
  if tv = m.vt then m.removeVariable v else
  let v? : Option Label := match v with
    | some l => some l
    | none => m.labels.getLast?
  match v? with
  | none => (m, some .value)
  | some l =>
    match m.indexOf? l with
    | none => (m, some .value)
    | some vi =>
      let m1 := (m.nbhAt vi).foldl (loopBody fun acc ul _ => (acc.vSetQuadratic tv ul l 0).1) m
      let m2 := m1.vSetLinear tv l 0
      m2.removeVariable (some l)

/-! ### Python-level operations written against the method interface (`QuadraticViewsMixin`,
    `BinaryQuadraticModel`): the same code runs on a plain BQM (`tv = m.vt`) and through a view. -/

/-- loop body of the mixin's `fix_variable`: `add_linear(u, value * bias)` for one neighbour (`f` = the factor a
    view applies to the biases it reads) -/
def fixStep (tv : VT) (a f : Rat) (acc : Bqm) (p : Nat × Rat) : Bqm :=
  match acc.labels[p.1]? with
  | some ul => acc.vAddLinear tv ul (a * (f * p.2))
  | none => acc

/-- `fix_variable(v, value)` of the mixin -/
def vFixVariable (m : Bqm) (tv : VT) (v : Label) (a : Rat) : Bqm × Option ErrC :=
  match m.indexOf? v with
  | none => (m, some .value)
  | some vi =>
    let m1 := (m.nbhAt vi).foldl (fixStep tv a (m.vQuadFactor tv)) m
    let m2 := m1.vSetOffset tv (m1.vOffset tv + a * m1.vGetLinear tv vi)
    m2.vRemoveVariable tv (some v)

/-- body of the generic `scale` loop over the variables: `set_linear(v, scalar * get_linear(v))` -/
def scaleLinStep (tv : VT) (s : Rat) (acc : Bqm) (i : Nat) : Bqm :=
  match acc.labels[i]? with
  | some l => acc.vSetLinear tv l (s * acc.vGetLinear tv i)
  | none => acc

/-- body of the generic `scale` loop over the interactions: `set_quadratic(u, v, scalar * get_quadratic(u, v))` -/
def scaleQuadStep (tv : VT) (s : Rat) (acc : Bqm) (t : Nat × Nat × Rat) : Bqm :=
  match acc.labels[t.1]?, acc.labels[t.2.1]? with
  | some ul, some vl => (acc.vSetQuadratic tv ul vl (s * ((acc.vGetQuadratic tv t.1 t.2.1).getD 0))).1
  | _, _ => acc

/-- `BinaryQuadraticModel.scale(s)`: `data.scale` when the data has one, else the generic loop -/
def vScale (m : Bqm) (tv : VT) (viaView : Bool) (s : Rat) : Bqm :=
  if !viaView then m.scale s else
  let m1 := (List.range m.labels.length).foldl (scaleLinStep tv s) m
  let m2 := m1.lowerTriples.foldl (scaleQuadStep tv s) m1
  m2.vSetOffset tv (m2.vOffset tv * s)

/-- `BinaryQuadraticModel.contract_variables(u, v)` as coded (with the `u == v` rejection of D21);
    written against the method interface, so the same code runs on the model and through a view -/
def vContract (m : Bqm) (tv : VT) (u v : Label) : Bqm × Option ErrC :=
  match m.indexOf? u, m.indexOf? v with
  | some ui, some vi =>
    if ui = vi then (m, some .value) else
    let m1 := m.vAddLinear tv u (m.vGetLinear tv vi)
    let q := (m1.vGetQuadratic tv ui vi).getD 0
    let m2 := match tv with
      | .binary => m1.vAddLinear tv u q
      | .spin => m1.vSetOffset tv (m1.vOffset tv + q)
    let m3 := (m2.vRemoveInteraction tv u v).1
    let f := m3.vQuadFactor tv
    let m4 := (m3.nbhAt vi).foldl (loopBody fun acc wl c => acc.vAddQuadratic tv u wl (f * c)) m3
    m4.vRemoveVariable tv (some v)
  | _, _ => (m, some .value)

/-- `set_quadratic` as the receiver implements it: the array back-end directly, a view object by the
    delta code of `VartypeView.set_quadratic` -/
def setQuadVia (m : Bqm) (tv : VT) (viaView : Bool) (u v : Label) (b : Rat) : Bqm :=
  if viaView then (m.vSetQuadratic tv u v b).1 else (m.quadOp u v b true).1

/-- `flip_variable(v)` as coded -/
def vFlip (m : Bqm) (tv : VT) (viaView : Bool) (v : Label) : Bqm × Option ErrC :=
  match m.indexOf? v with
  | none => (m, some .value)
  | some vi =>
    let f := m.vQuadFactor tv
    match tv with
    | .spin =>
      let m1 := (m.nbhAt vi).foldl (loopBody fun acc ul c => acc.setQuadVia tv viaView ul v (-1 * (f * c))) m
      (m1.vSetLinear tv v (-1 * m1.vGetLinear tv vi), none)
    | .binary =>
      let m1 := (m.nbhAt vi).foldl
        (loopBody fun acc ul c => (acc.setQuadVia tv viaView ul v (-1 * (f * c))).vAddLinear tv ul (f * c)) m
      let m2 := m1.vSetOffset tv (m1.vOffset tv + m1.vGetLinear tv vi)
      (m2.vSetLinear tv v (-1 * m2.vGetLinear tv vi), none)

/-- bulk adders: a left fold of the single-term step that stops at the first element that raises
    and keeps what was applied so far (D34) -/
def vAddLinearFrom (m : Bqm) (tv : VT) : List (Option Label × Rat) → Bqm × Option ErrC
  | [] => (m, none)
  | (none, _) :: _ => (m, some .value)
  | (some v, b) :: t => vAddLinearFrom (m.vAddLinear tv v b) tv t

def vAddQuadraticFrom (m : Bqm) (tv : VT) : List (Option Label × Option Label × Rat) → Bqm × Option ErrC
  | [] => (m, none)
  | (some u, some v, b) :: t =>
    if u = v then (m, some .value) else vAddQuadraticFrom (m.vAddQuadratic tv u v b) tv t
  | _ :: _ => (m, some .value)

/-- an index triple of `o` as the labelled term a view with bias factor `f` yields -/
def labelTriple (o : Bqm) (f : Rat) (t : Nat × Nat × Rat) : Option (Label × Label × Rat) :=
  match o.labels[t.1]?, o.labels[t.2.1]? with
  | some ul, some vl => some (ul, vl, f * t.2.2)
  | _, _ => none

/-- `update(other)` : `data.update` defers, then `add_linear_from`, `add_quadratic_from`, offset,
    reading `other` through its view of `self`'s vartype (`tvSelf` is the vartype the receiver shows) -/
def vUpdate (m : Bqm) (tv : VT) (o : Bqm) : Bqm :=
  let lins := (List.range o.labels.length).filterMap fun i => (o.labels[i]?).map fun l => (l, o.vGetLinear tv i)
  let m1 := lins.foldl (fun acc p => acc.vAddLinear tv p.1 p.2) m
  let quads := o.lowerTriples.filterMap (o.labelTriple (o.vQuadFactor tv))
  let m2 := quads.foldl (fun acc t => acc.vAddQuadratic tv t.1 t.2.1 t.2.2) m1
  m2.vSetOffset tv (m2.vOffset tv + o.vOffset tv)

def isRange (m : Bqm) : Bool := m.labels == (List.range m.labels.length).map fun (i : Nat) => Label.int (i : Int)

/-- `add_linear_from_array` (cyBQM) -/
def addLinearFromArray (m : Bqm) (xs : List Rat) : Bqm :=
  if m.isRange then
    let m := if xs.length > m.n then (m.resize xs.length).1 else m
    { m with lin := (List.range xs.length).foldl (fun l i => modifyAt l i (· + xs.getD i 0)) m.lin }
  else
    (List.range xs.length).foldl (fun acc (i : Nat) => acc.addLinear (.int (i : Int)) (xs.getD i 0)) m

/-- `add_quadratic_from_dense` (cyBQM): `dense` row-major, `k × k`.  Non-zero diagonal ⇒ ValueError;
    labels not a range ⇒ NotImplementedError. -/
def addQuadraticFromDense (m : Bqm) (k : Nat) (dense : List Rat) : Bqm × Option ErrC :=
  if (List.range k).any (fun u => dense.getD (u * (k + 1)) 0 ≠ 0) then (m, some .value) else
  if !m.isRange then (m, some .runtime) else
  let m := if k > m.n then (m.resize k).1 else m
  let pairs := (List.range k).flatMap fun u => ((List.range k).filter (u < ·)).map fun v => (u, v)
  (pairs.foldl (fun acc p =>
    let q := dense.getD (p.1 * k + p.2) 0 + dense.getD (p.2 * k + p.1) 0
    if q ≠ 0 then acc.addQ p.1 p.2 q else acc) m, none)

/-! ### read paths, as coded (index level).  `none` = the call raises (unknown label / no such interaction). -/

/-- `get_linear(v)`, `linear[v]` -/
def getLinear (m : Bqm) (v : Label) : Option Rat := (m.indexOf? v).map m.linAt

/-- `get_quadratic(u, v)` without default, `quadratic[u, v]`, `adj[u][v]` -/
def getQuadratic (m : Bqm) (u v : Label) : Option Rat :=
  match m.indexOf? u, m.indexOf? v with
  | some ui, some vi => m.quadAt ui vi
  | _, _ => none

/-- `iter_neighborhood(v)`, `adj[v].items()` -/
def iterNeighborhood (m : Bqm) (v : Label) : Option (List (Label × Rat)) :=
  (m.indexOf? v).map fun vi => (m.nbhAt vi).map fun p => (m.labels.getD p.1 (.int 0), p.2)

/-- `iter_quadratic()`, `quadratic.items()` -/
def iterQuadratic (m : Bqm) : List (Label × Label × Rat) :=
  m.lowerTriples.map fun t => (m.labels.getD t.1 (.int 0), m.labels.getD t.2.1 (.int 0), t.2.2)

/-- `iter_linear()`, `linear.items()` -/
def iterLinear (m : Bqm) : List (Label × Rat) := m.labels.zip m.lin

/-- `degree(v)` -/
def degree (m : Bqm) (v : Label) : Option Nat := (m.indexOf? v).map fun vi => (m.nbhAt vi).length

/-- `num_interactions()` as `abc.h` computes it: (Σ sizes + number of self-loops) / 2 -/
def numInteractions (m : Bqm) : Nat :=
  let sizes := m.adj.foldl (fun a nb => a + nb.length) 0
  let loops := (List.range m.adj.length).foldl (fun a u => if (nbhCoef (m.adj.getD u []) u).isSome then a + 1 else a) 0
  (sizes + loops) / 2

/-- `shape` -/
def shape (m : Bqm) : Nat × Nat := (m.lin.length, m.numInteractions)

/-- `is_linear()` -/
def isLinear (m : Bqm) : Bool := m.adj.all (·.isEmpty)

/-- `to_numpy_vectors(variable_order=list(self.variables))`: `ldata, (irow, icol, qdata), offset` -/
def toNumpyVectors (m : Bqm) : List Rat × List (Nat × Nat × Rat) × Rat := (m.lin, m.lowerTriples, m.off)

/-! ### one step of a history -/

inductive Op where
  | addLinear (v : Option Label) (b : Rat)
  | setLinear (v : Option Label) (b : Rat)
  | addQuadratic (u v : Option Label) (b : Rat)
  | setQuadratic (u v : Option Label) (b : Rat)
  | removeInteraction (u v : Label)
  | removeVariable (v : Option Label)
  | addVariable (v : Option Label) (b : Rat)
  | resize (k : Int)
  | scale (s : Rat)
  | setOffset (b : Rat)
  | changeVartype (vt : VT)
  | fixVariable (v : Label) (a : Rat)
  | contract (u v : Label)
  | flip (v : Label)
  | relabel (mp : List (Label × Label))
  | relabelInts
  | clear
  | update (o : Bqm)
  | addLinearFrom (l : List (Option Label × Rat))
  | addQuadraticFrom (l : List (Option Label × Option Label × Rat))
  | addLinearFromArray (xs : List Rat)
  | addQuadraticFromDense (k : Nat) (d : List Rat)
  | malformed      -- a call with an argument outside the model's alphabet (wrong type, unhashable, NaN text …)

/-- how the call is issued: on the model itself, or through a `VartypeView` object of vartype `tv`
    (which may be stale, i.e. equal to the data's vartype) -/
inductive Via where
  | direct
  | view (tv : VT)

def Via.tv (m : Bqm) : Via → VT
  | .direct => m.vt
  | .view tv => tv

def Via.isView : Via → Bool
  | .direct => false
  | .view _ => true

def lift (m : Bqm) : Bqm × Option ErrC := (m, none)

/-- `(state after, none | some class)`; the state after a raising call is what the code leaves behind -/
def step (m : Bqm) (via : Via) (op : Op) : Bqm × Option ErrC :=
  let tv := via.tv m
  match op with
  | .malformed => (m, some .type)
  | .addLinear none _ | .setLinear none _ => (m, some .value)
  | .addLinear (some v) b => lift (m.vAddLinear tv v b)
  | .setLinear (some v) b => lift (m.vSetLinear tv v b)
  | .addQuadratic (some u) (some v) b =>
    if u = v then (m, some .value) else lift (m.vAddQuadratic tv u v b)
  | .addQuadratic _ _ _ => (m, some .value)
  | .setQuadratic (some u) (some v) b =>
    match via with
    | .direct => m.quadOp u v b true
    | .view _ => m.vSetQuadratic tv u v b
  | .setQuadratic _ _ _ => (m, some .value)
  | .removeInteraction u v => m.vRemoveInteraction tv u v
  | .removeVariable v => m.vRemoveVariable tv v
  | .addVariable v b =>
    match via with
    | .direct => lift (m.addVariable v b)
    | .view _ => lift (m.vAddVariable tv v b)
  | .resize k =>
    match via with
    | .direct => m.resize k
    | .view _ => (m, some .type)          -- VartypeView has no `resize`: AttributeError
  | .scale s => lift (m.vScale tv via.isView s)
  | .setOffset b => lift (m.vSetOffset tv b)
  | .changeVartype vt =>
    match via with
    | .direct => lift (m.changeVartype vt)
    | .view _ => lift m                    -- only the view object's own tag changes
  | .fixVariable v a => m.vFixVariable tv v a
  | .contract u v => m.vContract tv u v
  | .flip v => m.vFlip tv via.isView v
  | .relabel mp => m.relabel mp
  | .relabelInts => lift m.relabelInts
  | .clear => lift m.clear
  | .update o => lift (m.vUpdate tv o)
  | .addLinearFrom l => m.vAddLinearFrom tv l
  | .addQuadraticFrom l => m.vAddQuadraticFrom tv l
  | .addLinearFromArray xs =>
    match via with
    | .direct => lift (m.addLinearFromArray xs)
    | .view _ => (m, some .type)
  | .addQuadraticFromDense k d =>
    match via with
    | .direct => m.addQuadraticFromDense k d
    | .view _ => (m, some .type)

def run (m : Bqm) : List (Via × Op) → Bqm
  | [] => m
  | (via, op) :: t => run (m.step via op).1 t

end Bqm
