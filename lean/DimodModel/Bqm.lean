import DimodModel.Vars

/-! Feasibility prototype (scratch): executable model of the array-backed BQM
    (`cybqm_template.pyx.pxi` over `abc.h`), labels kept as a plain list here. -/

inductive VT | spin | binary
  deriving DecidableEq, Repr

inductive ErrC | value | type | index | runtime
  deriving DecidableEq, Repr

structure Bqm where
  vt : VT
  labels : List Label
  lin : List Rat
  adj : List (List (Nat × Rat))
  off : Rat

namespace Bqm

def empty (vt : VT) : Bqm := { vt, labels := [], lin := [], adj := [], off := 0 }

def n (m : Bqm) : Nat := m.lin.length

def indexOf? (m : Bqm) (v : Label) : Option Nat :=
  let rec go : List Label → Nat → Option Nat
    | [], _ => none
    | l :: ls, i => if l = v then some i else go ls (i+1)
  go m.labels 0

/-- the label `_append(None)` generates: the length if free, else the least free natural -/
def autoLabel (m : Bqm) : Label :=
  let k := m.labels.length
  if (Label.int k) ∈ m.labels then
    let rec least (fuel i : Nat) : Nat :=
      match fuel with
      | 0 => i
      | f+1 => if (Label.int i) ∈ m.labels then least f (i+1) else i
    Label.int (least (k+1) 0)
  else Label.int k

def pushVar (m : Bqm) (v : Label) : Bqm :=
  { m with labels := m.labels ++ [v], lin := m.lin ++ [0], adj := m.adj ++ [[]] }

/-- `_index(v, permissive=True)` -/
def indexP (m : Bqm) (v : Label) : Bqm × Nat :=
  match m.indexOf? v with
  | some i => (m, i)
  | none => (m.pushVar v, m.n)

def nbhAdd (nb : List (Nat × Rat)) (v : Nat) (b : Rat) (set : Bool) : List (Nat × Rat) :=
  match nb with
  | [] => [(v, b)]
  | (w, c) :: t =>
    if w < v then (w, c) :: nbhAdd t v b set
    else if w = v then (w, if set then b else c + b) :: t
    else (v, b) :: (w, c) :: t

def modifyAt {α} (l : List α) (i : Nat) (f : α → α) : List α :=
  match l, i with
  | [], _ => []
  | a :: t, 0 => f a :: t
  | a :: t, i+1 => a :: modifyAt t i f

def asym (m : Bqm) (u v : Nat) (b : Rat) (set : Bool) : Bqm :=
  { m with adj := modifyAt m.adj u (fun nb => nbhAdd nb v b set) }

def addLinear (m : Bqm) (v : Label) (b : Rat) : Bqm :=
  let (m, i) := m.indexP v
  { m with lin := modifyAt m.lin i (· + b) }

def setLinear (m : Bqm) (v : Label) (b : Rat) : Bqm :=
  let (m, i) := m.indexP v
  { m with lin := modifyAt m.lin i (fun _ => b) }

def quadOp (m : Bqm) (u v : Label) (b : Rat) (set : Bool) : Bqm × Option ErrC :=
  if u = v then (m, some .value) else
  let (m, ui) := m.indexP u
  let (m, vi) := m.indexP v
  ((m.asym ui vi b set).asym vi ui b set, none)

def nbhCoef (nb : List (Nat × Rat)) (v : Nat) : Option Rat :=
  match nb with
  | [] => none
  | (w, c) :: t => if w = v then some c else nbhCoef t v

def removeInteraction (m : Bqm) (u v : Label) : Bqm × Option ErrC :=
  match m.indexOf? u, m.indexOf? v with
  | some ui, some vi =>
    match nbhCoef (m.adj.getD ui []) vi with
    | none => (m, some .value)
    | some _ =>
      let drop (nb : List (Nat × Rat)) (w : Nat) := nb.filter (fun p => p.1 ≠ w)
      ({ m with adj := modifyAt (modifyAt m.adj ui (drop · vi)) vi (drop · ui) }, none)
  | _, _ => (m, some .value)

def eraseIdx {α} (l : List α) (i : Nat) : List α :=
  match l, i with
  | [], _ => []
  | _ :: t, 0 => t
  | a :: t, i+1 => a :: eraseIdx t i

/-- `abc::remove_variable(vi)` + label removal -/
def removeAt (m : Bqm) (vi : Nat) : Bqm :=
  let fix (nb : List (Nat × Rat)) : List (Nat × Rat) :=
    (nb.filter (fun p => p.1 ≠ vi)).map (fun p => if p.1 > vi then (p.1 - 1, p.2) else p)
  { m with labels := eraseIdx m.labels vi, lin := eraseIdx m.lin vi,
           adj := (eraseIdx m.adj vi).map fix }

def removeVariable (m : Bqm) (v : Option Label) : Bqm × Option ErrC :=
  match v with
  | none => if m.n = 0 then (m, some .value) else (m.removeAt (m.n - 1), none)
  | some v => match m.indexOf? v with
    | none => (m, some .value)
    | some i => (m.removeAt i, none)

def addVariable (m : Bqm) (v : Option Label) (b : Rat) : Bqm :=
  let lbl := match v with | some l => l | none => m.autoLabel
  m.addLinear lbl b

def resize (m : Bqm) (k : Int) : Bqm × Option ErrC :=
  if k < 0 then (m, some .value) else
  let k := k.toNat
  let rec grow (fuel : Nat) (m : Bqm) : Bqm :=
    match fuel with
    | 0 => m
    | f+1 => if m.n < k then grow f (m.pushVar m.autoLabel) else m
  let rec shrink (fuel : Nat) (m : Bqm) : Bqm :=
    match fuel with
    | 0 => m
    | f+1 => if m.n > k then shrink f (m.removeAt (m.n - 1)) else m
  (shrink m.n (grow k m), none)

def scale (m : Bqm) (s : Rat) : Bqm :=
  { m with off := m.off * s, lin := m.lin.map (· * s), adj := m.adj.map (·.map fun p => (p.1, p.2 * s)) }

/-- `substitute_variables(mult, c)` exactly as coded (every directed entry visited once) -/
def substituteAll (m : Bqm) (mult c : Rat) : Bqm :=
  let off1 := m.lin.foldl (fun acc l => acc + l * c) m.off
  let lin1 := m.lin.map (· * mult)
  let quadOff := c * c / 2
  let off2 := m.adj.foldl (fun acc nb => nb.foldl (fun a p => a + quadOff * p.2) acc) off1
  let lin2 := (lin1.zip m.adj).map fun (l, nb) => nb.foldl (fun a p => a + mult * c * p.2) l
  { m with off := off2, lin := lin2, adj := m.adj.map (·.map fun p => (p.1, p.2 * (mult * mult))) }

def changeVartype (m : Bqm) (vt : VT) : Bqm :=
  if m.vt = vt then m else
  match vt with
  | .spin => { m.substituteAll (1/2) (1/2) with vt := .spin }
  | .binary => { m.substituteAll 2 (-1) with vt := .binary }

def fixVariable (m : Bqm) (v : Label) (a : Rat) : Bqm × Option ErrC :=
  match m.indexOf? v with
  | none => (m, some .value)
  | some vi =>
    let nb := m.adj.getD vi []
    let lin := nb.foldl (fun l p => modifyAt l p.1 (· + a * p.2)) m.lin
    let m := { m with lin := lin, off := m.off + a * (lin.getD vi 0) }
    (m.removeAt vi, none)

/-- lower-triangle energy loop -/
def energy (m : Bqm) (x : List Rat) : Rat :=
  let rec rows (u : Nat) (ls : List Rat) (as : List (List (Nat × Rat))) (acc : Rat) : Rat :=
    match ls, as with
    | l :: ls, nb :: as =>
      let xu := x.getD u 0
      let acc := acc + l * xu
      let acc := nb.foldl (fun a p => if p.1 ≤ u then a + p.2 * xu * x.getD p.1 0 else a) acc
      rows (u+1) ls as acc
    | _, _ => acc
  rows 0 m.lin m.adj m.off

end Bqm
