import DimodModel.Convert

/-! # C02 — `BinaryPolynomial.to_hubo / to_hising / from_hubo / from_hising` (`higherorder/polynomial.py`)

A polynomial is the item list of the `dict` (distinct terms).  `to_hubo` of a BINARY polynomial takes the constant term out
(`H = {term: bias for … if term}`, `offset = self[()]`), `to_hising` of a SPIN polynomial sorts the items by `len(term)`
(`offset += bias`, `h[v] = bias`, `J[term] = bias`: distinct terms, so every assignment creates its entry); a polynomial of
the other vartype is converted first (`to_binary()` / `to_spin()`, `polyToBinary` / `polyToSpin`).  Core Lean only. -/

namespace En

variable {R : Type}

/-- `to_hubo()` of a BINARY polynomial: `(H, offset)`; a dict has at most one `()` item, the sum runs over it -/
def polyToHubo [Add R] [Zero R] (p : Poly R) : Poly R × R :=
  (p.filter fun tb => !tb.1.isEmpty, ((p.filter fun tb => tb.1.isEmpty).map (·.2)).sum)

/-- `to_hising()` of a SPIN polynomial: `(h, J, offset)` -/
def polyToHising [Add R] [Zero R] (p : Poly R) : ODict Nat R × Poly R × R :=
  ((p.filter fun tb => tb.1.length = 1).map fun tb => (tb.1.headD 0, tb.2),
   p.filter fun tb => 2 ≤ tb.1.length,
   ((p.filter fun tb => tb.1.length = 0).map (·.2)).sum)

/-- `from_hubo(H, offset)`: `poly[()] = poly.get((), 0) + offset` -/
def polyFromHubo [Add R] [Zero R] (H : Poly R) (offset : Option R) : Poly R :=
  match offset with
  | none => H
  | some o => H.set [] ((H.get? []).getD 0 + o)

/-- `from_hising(h, J, offset)`: `{(k,): v}`, then `update(J)`, then `poly[frozenset()] = offset` (an assignment) -/
def polyFromHising (h : ODict Nat R) (J : Poly R) (offset : Option R) : Poly R :=
  let p : Poly R := h.map fun e => ([e.1], e.2)
  let p := J.foldl (fun p tb => p.set tb.1 tb.2) p
  match offset with
  | none => p
  | some o => p.set [] o

/-- `to_hubo()` of either vartype -/
def polyToHuboOf [Add R] [Mul R] [Neg R] [Zero R] [One R] (spin : Bool) (p : Poly R) : Poly R × R :=
  polyToHubo (if spin then polyToBinary p else p)

/-- `to_hising()` of either vartype -/
def polyToHisingOf [Add R] [Mul R] [Div R] [Zero R] [One R] (binary : Bool) (p : Poly R) : ODict Nat R × Poly R × R :=
  polyToHising (if binary then polyToSpin p else p)

end En
