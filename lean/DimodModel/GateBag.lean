import DimodModel.Penalty
import DimodModel.GateTable

/-! Instantiating a coefficient table (`GateTable`) at labels: the calls a gate generator /
    `make_quadratic` makes for one penalty model. -/

namespace Pen

/-- `add_variable(label_i, bias_i)` for the table's variables in order -/
def linBag (lab : Nat → Label) (s : Rat) : Nat → List Rat → List (PTerm Label)
  | _, [] => []
  | i, c :: t => PTerm.lin (lab i) (s * c) :: linBag lab s (i + 1) t

/-- the calls of a gate generator: `add_variable` per label (in order, with its linear bias),
    `add_quadratic` per table entry, the offset; everything scaled by `strength`
    (`bqm.scale(strength)` resp. `constraint.scale(strength)` before the term-wise adds) -/
def tableBag (t : GateTable) (labels : List Label) (s : Rat) : List (PTerm Label) :=
  let lab (i : Nat) : Label := labels.getD i (.int 0)
  linBag lab s 0 t.lin
  ++ t.quad.map (fun q => PTerm.quad (lab q.1) (lab q.2.1) (s * q.2.2))
  ++ [PTerm.const (s * t.off)]

end Pen

namespace GateTable

/-- well-formed: one linear bias per variable, interactions between variables of the table -/
def WF (t : GateTable) : Bool := t.lin.length == t.n && t.quad.all (fun q => q.1 < t.n && q.2.1 < t.n)

end GateTable
