import DimodModel.Generators

/-! # More generator models (C17): quadratic knapsacks, kMC-SAT clause models, magic square

As in `Generators.lean` a generator is the *bag* of mutator calls it makes.  Where the code uses `set_linear` /
`set_quadratic` each key is written exactly once on a fresh model, so the call is the `add_*` call of the bag.

* `quadratic_knapsack`, `quadratic_multi_knapsack` (`dimod/generators/knapsack.py`, `multi_knapsack.py`)
* `random_kmcsat` / `random_nae3sat` / `random_2in4sat` (`dimod/generators/satisfiability.py`): the model is a
  function of the *drawn clauses* (variable indices and signs, as the NumPy generator returned them)
* `magic_square` (`dimod/generators/magic_square.py`): integer variables, quadratic constraints — the
  constraint expressions are kept as term bags (no self-loop folding: the variables are INTEGER).
-/

namespace Gen
open Pen

/-! ## quadratic knapsacks -/

/-- the index pairs `i < j < n` in `np.ndenumerate` (row-major) order -/
def upperPairs (n : Nat) : List (Nat × Nat) :=
  (List.range n).flatMap (fun i => ((List.range n).filter (fun j => i < j)).map (fun j => (i, j)))

def matGet (P : List (List Rat)) (i j : Nat) : Rat := (P.getD i []).getD j 0

/-- `np.array_equal(profits, profits.T)` for a list of rows: square and symmetric -/
def isSymmetric (P : List (List Rat)) : Bool :=
  P.all (fun row => row.length = P.length)
  && (List.range P.length).all (fun i => (List.range P.length).all (fun j => matGet P i j = matGet P j i))

/-- `quadratic_knapsack(values, weights, profits, capacity)`; `none` = `ValueError` -/
def quadraticKnapsack (values weights : List Rat) (profits : List (List Rat)) (capacity : Rat) : Option GCqm :=
  if values.length ≠ weights.length then none
  else if !isSymmetric profits then none
  else if values.length ≠ profits.length then none
  else
  let n := profits.length
  some { vars := (List.range n).map xI,
         obj := (List.range n).map (fun i => PTerm.lin (xI i) 0)
                ++ (enumFrom values).map (fun p => PTerm.lin (xI p.1) (-p.2))
                ++ (upperPairs n).map (fun p => PTerm.quad (xI p.1) (xI p.2) (-(matGet profits p.1 p.2))),
         cons := [{ label := "capacity",
                    lhs := (enumFrom weights).map (fun p => PTerm.lin (xI p.1) p.2) ++ [PTerm.const (-capacity)],
                    sense := .le, rhs := 0 }] }

/-- `quadratic_multi_knapsack(values, weights, profits, capacities)` -/
def quadraticMultiKnapsack (values weights : List Rat) (profits : List (List Rat)) (capacities : List Rat) : Option GCqm :=
  if values.length ≠ weights.length then none
  else if !isSymmetric profits then none
  else if values.length ≠ profits.length then none
  else
  let n := values.length
  let m := capacities.length
  some { vars := (List.range n).flatMap (fun i => (List.range m).map (fun j => xIJ i j)),
         obj := (List.range n).flatMap (fun i => (List.range m).map (fun j => PTerm.lin (xIJ i j) 0))
                ++ (enumFrom values).flatMap (fun p => (List.range m).map (fun j => PTerm.lin (xIJ p.1 j) (-p.2)))
                ++ (upperPairs n).flatMap (fun p => (List.range m).map (fun j =>
                      PTerm.quad (xIJ p.1 j) (xIJ p.2 j) (-(matGet profits p.1 p.2)))),
         cons := (List.range n).map (fun i =>
                   ({ label := s!"item_placing_{i}",
                      lhs := (List.range m).map (fun j => PTerm.lin (xIJ i j) 1) ++ [PTerm.const (-1)],
                      sense := .le, rhs := 0 } : GCons))
                 ++ (enumFrom capacities).map (fun c =>
                   ({ label := s!"capacity_bin_{c.1}",
                      lhs := (enumFrom weights).map (fun p => PTerm.lin (xIJ p.1 c.1) p.2) ++ [PTerm.const (-c.2)],
                      sense := .le, rhs := 0 } : GCons)) }

/-! ## kMC-SAT: `random_kmcsat`, `random_nae3sat` (k = 3), `random_2in4sat` (k = 4) -/

/-- a drawn clause: `(variable index, sign)` per literal, signs `±1`, in the order drawn -/
abbrev Clause := List (Nat × Int)

/-- the interactions `_kmcsat_interactions` yields for one clause: `itertools.combinations(zip(variables, signs), 2)` -/
def clauseBag (lab : Nat → Label) (c : Clause) : List (PTerm Label) :=
  (pairsLt c).map (fun p => PTerm.quad (lab p.1.1) (lab p.2.1) (((p.1.2 * p.2.2 : Int)) : Rat))

/-- `random_kmcsat(variables, k, num_clauses)` given the drawn clauses: `BinaryQuadraticModel(num_variables, SPIN)`,
    `add_quadratic_from(interactions)`, relabelling to the given labels.  `none` = `ValueError`
    (`num_variables < 1`, `k < 1`, `num_variables < k`). -/
def kmcsat (labels : List Label) (k : Nat) (clauses : List Clause) : Option (List (PTerm Label)) :=
  if labels.length < 1 ∨ k < 1 ∨ labels.length < k then none
  else some (labels.map (fun v => PTerm.lin v 0) ++ clauses.flatMap (clauseBag (fun i => labels.getD i (.int 0))))

/-! ## magic square -/

def msVar (i j : Nat) : Label := strLabel s!"var_{i}_{j}"
def msSum : Label := strLabel "sum"

/-- `Σ cell^power − sum` for a list of cells -/
def msLine (power : Nat) (cells : List (Nat × Nat)) : List (PTerm Label) :=
  cells.map (fun c => if power = 1 then PTerm.lin (msVar c.1 c.2) 1 else PTerm.quad (msVar c.1 c.2) (msVar c.1 c.2) 1)
  ++ [PTerm.lin msSum (-1)]

/-- the cell pairs of the "uniqueness" constraint: `product(range(size), repeat=4)` filtered by
    `(k > i and l == j) or (l > j)` -/
def msPairs (n : Nat) : List ((Nat × Nat) × (Nat × Nat)) :=
  (List.range n).flatMap fun i => (List.range n).flatMap fun j => (List.range n).flatMap fun k =>
    ((List.range n).filter (fun l => (k > i ∧ l = j) ∨ l > j)).map (fun l => ((i, j), (k, l)))

/-- `magic_square(size, power)`; `none` = `ValueError` (power not 1 or 2).  Constraints in the order the code adds
    them: `row_i`, `col_i` alternating, `diagonal`, `antidiagonal`, `uniqueness`. -/
def magicSquare (n : Nat) (power : Nat) : Option GCqm :=
  if power ≠ 1 ∧ power ≠ 2 then none else
  some { vars := [],      -- (variable order is that of first use; compared as a set by the harness)
         obj := [],
         cons := (List.range n).flatMap (fun i =>
                   [({ label := s!"row_{i}", lhs := msLine power ((List.range n).map (fun j => (i, j))), sense := .eq, rhs := 0 } : GCons),
                    ({ label := s!"col_{i}", lhs := msLine power ((List.range n).map (fun j => (j, i))), sense := .eq, rhs := 0 } : GCons)])
                 ++ [({ label := "diagonal", lhs := msLine power ((List.range n).map (fun i => (i, i))), sense := .eq, rhs := 0 } : GCons),
                     ({ label := "antidiagonal", lhs := msLine power ((List.range n).map (fun i => (i, n - 1 - i))), sense := .eq, rhs := 0 } : GCons),
                     ({ label := "uniqueness",
                        lhs := (msPairs n).flatMap (fun p =>
                                 [PTerm.quad (msVar p.1.1 p.1.2) (msVar p.1.1 p.1.2) 1,
                                  PTerm.quad (msVar p.2.1 p.2.2) (msVar p.2.1 p.2.2) 1,
                                  PTerm.quad (msVar p.1.1 p.1.2) (msVar p.2.1 p.2.2) (-2)]),
                        sense := .ge, rhs := (((n * n * n * n - n * n : Nat)) : Rat) / 2 } : GCons)] }

end Gen

namespace Gen
open Pen

/-! ## `quadratic_assignment(distance_matrix, flow_matrix)` (as repaired: patches/qap-asymmetric-distance.diff)

`x_{i}_{j} = 1`: facility `i` at location `j`.  The code visits every ordered pair of different cells
`((i,j),(k,l))` and *sets* the interaction to `F[i][k]·D[j][l] + F[k][i]·D[l][j]` — the same value on both visits of an
unordered pair, so the final state is one interaction per unordered pair of cells. -/

def qapCoef (D F : List (List Rat)) (i j k l : Nat) : Rat := matGet F i k * matGet D j l + matGet F k i * matGet D l j

/-- the terms for the cells `(k, l)` lexicographically after `(i, j)` -/
def qapRow (n : Nat) (D F : List (List Rat)) (i j : Nat) : List (PTerm Label) :=
  (List.range n).flatMap fun k => ((List.range n).filter (fun l => i < k ∨ (i = k ∧ j < l))).map fun l =>
    PTerm.quad (xIJ i j) (xIJ k l) (qapCoef D F i j k l)

def isSquare (n : Nat) (M : List (List Rat)) : Bool := M.length = n && M.all (fun row => row.length = n)

/-- `none` = `ValueError` (shapes differ / not square); matrices are lists of rows -/
def quadraticAssignment (D F : List (List Rat)) : Option GCqm :=
  let n := D.length
  if !(isSquare n D && isSquare n F) then none else
  some { vars := (List.range n).flatMap (fun i => (List.range n).map (fun j => xIJ i j)),
         obj := (List.range n).flatMap (fun i => (List.range n).map (fun j => PTerm.lin (xIJ i j) 0))
                ++ (List.range n).flatMap (fun i => (List.range n).flatMap (fun j => qapRow n D F i j)),
         cons := (List.range n).map (fun i =>
                   ({ label := s!"discrete_constraint_{i}",
                      lhs := (List.range n).map (fun j => PTerm.lin (xIJ i j) 1), sense := .eq, rhs := 1 } : GCons))
                 ++ (List.range n).map (fun j =>
                   ({ label := s!"facility_constraint_{j}",
                      lhs := (List.range n).map (fun i => PTerm.lin (xIJ i j) 1) ++ [PTerm.const (-1)], sense := .eq, rhs := 0 } : GCons)) }

end Gen

namespace Gen
open Pen

/-! ## `binary_paint_shop_problem(car_sequence)` -/

def countL (c : Label) (l : List Label) : Nat := (l.filter (fun d => d = c)).length

/-- the loop over `zip(car_sequence, car_sequence[1:])`; `seen` = the cars before the current position
    (`car_counter[car]` = number of occurrences of `car` in `seen`) -/
def bpspGo (seen : List Label) : List Label → List (PTerm Label)
  | c1 :: c2 :: rest =>
    (if c1 ≠ c2 then [PTerm.quad c1 c2 (if (countL c1 seen + countL c2 seen + 1) % 2 = 0 then 1 else -1)] else [])
    ++ bpspGo (c1 :: seen) (c2 :: rest)
  | _ => []

/-- `none` = `ValueError`: some car does not appear exactly twice
    (`any(count != 2 for count in Counter(car_sequence).values())`, as repaired by patches/bpsp-car-multiplicity.diff) -/
def bpsp (seq : List Label) : Option (List (PTerm Label)) :=
  if seq.any (fun c => countL c seq ≠ 2) then none else some (bpspGo [] seq)

end Gen
