import DimodModel.DqmFile

/-! # The header dictionaries `to_file` builds, as functions of the model content  (C09)

`dict(shape=…, dtype=…, itype=…, ntype=…, vartype=…, type=…, variables=…)` of BQM / QM / expression
files, and the `variables` flag of DQM files; the CQM and DQM count dictionaries are `cqmCounts`
and `dqmCounts`.  The harness compares these *values* with `json.loads` of the header text the real
`to_file` wrote. -/

namespace FileFmt

/-- `variables._is_range()`: every label is its own position -/
def isRangeFrom : Nat → List FLabel → Bool
  | _, [] => true
  | i, .int z :: t => z = (i : Int) && isRangeFrom (i + 1) t
  | _, _ :: _ => false

def dtypeName (dsz : Nat) : String := if dsz = 4 then "float32" else "float64"
def itypeName (isz : Nat) : String := if isz = 8 then "int64" else "int32"
def vartypeName (vt : Nat) : String := if vt = 0 then "SPIN" else "BINARY"

structure HeaderDict where
  shape : Nat × Nat
  dtype : String
  itype : String
  ntype : Option String
  vartype : Option String
  type : String
  variables : VarsField JVal

def rowsCount : List (List (Nat × Bytes)) → Nat
  | [] => 0
  | r :: t => r.length + rowsCount t

/-- the dictionary of `BinaryQuadraticModel.to_file(version=ver, ignore_labels=ignore)` -/
def bqmHeaderDict (ver : Nat) (ignore : Bool) (vartype dsz isz : Nat) (c : QContent) (labels : List FLabel) : HeaderDict :=
  { shape := (c.linear.length, rowsCount c.lower), dtype := dtypeName dsz, itype := itypeName isz, ntype := some (itypeName isz),
    vartype := some (vartypeName vartype), type := "BinaryQuadraticModel",
    variables :=
      if ver < 2 then
        .labels (if ignore then (List.range c.linear.length).map (fun (i : Nat) => JVal.int (i : Int)) else serializeLabels labels)
      else .flag (!ignore && !isRangeFrom 0 labels) }

/-- the dictionary of `QuadraticModel.to_file()` -/
def qmHeaderDict (dsz isz : Nat) (c : QContent) (labels : List FLabel) : HeaderDict :=
  { shape := (c.linear.length, rowsCount c.lower), dtype := dtypeName dsz, itype := itypeName isz, ntype := none, vartype := none,
    type := "QuadraticModel", variables := .flag (!isRangeFrom 0 labels) }

/-- the dictionary of `_cyExpression._into_file` (no `variables` entry) -/
def exprHeaderDict (typeName : String) (dsz isz : Nat) (e : ExprContent) : HeaderDict :=
  { shape := (e.indices.length, e.quad.length), dtype := dtypeName dsz, itype := itypeName isz, ntype := none, vartype := none,
    type := typeName, variables := .flag false }

/-- the loader's view of a header dictionary -/
def HeaderDict.toQHeader (d : HeaderDict) (dsz isz vartype : Nat) : QHeader JVal :=
  { nvars := d.shape.1, ninter := d.shape.2, dsize := dsz, isize := isz, nsize := isz, vartype := vartype, vars := d.variables }

/-- `variables=not (ignore_labels or dqm.variables.is_range)` -/
def dqmVariablesFlag (ignore : Bool) (labels : List FLabel) : Bool := !(ignore || isRangeFrom 0 labels)

end FileFmt
