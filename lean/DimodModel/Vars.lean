import DimodModel.Label

/-! Executable model of `dimod/cyvariables.pyx` (`cyVariables`): sparse identity-compressed maps
    `_index_to_label`, `_label_to_index`, `_stop`.  Core Lean only. -/

structure VState where
  i2l : AMap Nat Label
  l2i : AMap Label Nat
  stop : Nat

def VState.labelAt (s : VState) (i : Nat) : Label := (s.i2l.get? i).getD (.int i)

def VState.abs (s : VState) : List Label := (List.range s.stop).map s.labelAt

structure VState.Inv (s : VState) : Prop where
  i2l_ok : ∀ i l, s.i2l.get? i = some l → i < s.stop ∧ l ≠ .int i ∧ s.l2i.get? l = some i
  l2i_ok : ∀ l i, s.l2i.get? l = some i → s.i2l.get? i = some l
  ident_ok : ∀ i, i < s.stop → s.i2l.get? i = none → s.l2i.get? (.int i) = none

/-- `count` as coded in cyvariables.pyx (non-range branch subsumes the range branch under Inv) -/
def VState.count (s : VState) (v : Label) : Bool :=
  match v with
  | .int z => (decide (0 ≤ z) && decide (z.toNat < s.stop) && (s.i2l.get? z.toNat).isNone) || (s.l2i.get? v).isSome
  | _ => (s.l2i.get? v).isSome

/-- `_append(v)` for a label not yet present -/
def VState.append (s : VState) (v : Label) : VState :=
  if v = .int s.stop then { s with stop := s.stop + 1 }
  else { i2l := s.i2l.set s.stop v, l2i := s.l2i.set v s.stop, stop := s.stop + 1 }

/-- position of a present label, as `index()` computes it -/
def VState.idxOf (s : VState) (v : Label) : Nat :=
  match s.l2i.get? v with
  | some i => i
  | none => match v with
    | .int z => z.toNat
    | _ => 0

def VState.relabelOne (s : VState) (old new : Label) : VState :=
  if new = .int (s.idxOf old) then
    { s with l2i := s.l2i.erase old, i2l := s.i2l.erase (s.idxOf old) }
  else
    { s with l2i := (s.l2i.erase old).set new (s.idxOf old), i2l := s.i2l.set (s.idxOf old) new }

namespace VState

def empty : VState := { i2l := [], l2i := [], stop := 0 }

def isRange (s : VState) : Bool := s.l2i.isEmpty

/-- `_append(v=None)` label generation -/
def autoLabel (s : VState) : Label :=
  if s.isRange || !(s.count (.int s.stop)) then .int s.stop
  else
    let rec least (fuel i : Nat) : Nat :=
      match fuel with
      | 0 => i
      | f+1 => if s.count (.int i) then least f (i+1) else i
    .int (least (s.stop + 1) 0)

/-- `_append(v, permissive)`; returns the state and `none` on the duplicate error -/
def appendP (s : VState) (v : Option Label) (permissive : Bool) : Option VState :=
  match v with
  | none => some (s.append s.autoLabel)
  | some v => if s.count v then (if permissive then some s else none) else some (s.append v)

def pop (s : VState) : Option (VState × Label) :=
  if s.stop = 0 then none else
  let idx := s.stop - 1
  let lbl := (s.i2l.get? idx).getD (.int idx)
  some ({ i2l := s.i2l.erase idx, l2i := s.l2i.erase lbl, stop := idx }, lbl)

/-- Python dict as an insertion-ordered association list: `d[k] = v` keeps the position of an
    existing key -/
def dictSet (d : List (Label × Label)) (k v : Label) : List (Label × Label) :=
  match d with
  | [] => [(k, v)]
  | (k', v') :: t => if k' = k then (k, v) :: t else (k', v') :: dictSet t k v

def dictHas (d : List (Label × Label)) (k : Label) : Bool := d.any (·.1 = k)

/-- `iter_safe_relabels(mapping, existing)`; `none` = ValueError -/
def safeRelabels (s : VState) (mapping : List (Label × Label)) : Option (List (List (Label × Label))) :=
  -- new_labels = {new: old}
  let newLabels := mapping.foldl (fun d p => dictSet d p.2 p.1) []
  if newLabels.length < mapping.length then none else
  let oldHas (k : Label) : Bool := dictHas mapping k
  if newLabels.any (fun p => s.count p.1 && !(oldHas p.1)) then none else
  if mapping.any (fun p => dictHas newLabels p.1) then
    -- resolve_label_conflict
    let step (acc : Nat × List (Label × Label) × List (Label × Label)) (p : Label × Label) :=
      let (ctr, o2i, i2n) := acc
      if p.1 = p.2 then acc
      else if dictHas newLabels p.1 || oldHas p.2 then
        let rec fresh (fuel c : Nat) : Nat :=
          match fuel with
          | 0 => c
          | f+1 =>
            let l := Label.int c
            if dictHas newLabels l || oldHas l || s.count l then fresh f (c+1) else c
        let c := fresh (s.stop + 2 * mapping.length + 2) ctr
        (c + 1, dictSet o2i p.1 (.int c), dictSet i2n (.int c) p.2)
      else (ctr, dictSet o2i p.1 p.2, i2n)
    let (_, o2i, i2n) := mapping.foldl step (2 * mapping.length, [], [])
    some [o2i, i2n]
  else some [mapping]

/-- `_relabel(mapping)` with absent keys skipped (the repaired behaviour, see D8) -/
def relabel (s : VState) (mapping : List (Label × Label)) : Option VState :=
  match s.safeRelabels mapping with
  | none => none
  | some subs =>
    some <| subs.foldl (fun s sub =>
      sub.foldl (fun s p => if p.1 = p.2 || !(s.count p.1) then s else s.relabelOne p.1 p.2) s) s

def relabelAsIntegers (s : VState) : VState × List (Nat × Label) :=
  ({ s with i2l := [], l2i := [] }, s.i2l)

/-- `_remove(v)` = pop + chain relabel -/
def remove (s : VState) (v : Label) : Option VState :=
  if !(s.count v) then none else
  let vi := s.idxOf v
  let mapping := (List.range (s.stop - 1 - vi)).map fun k => (s.labelAt (vi + k), s.labelAt (vi + k + 1))
  match s.pop with
  | none => none
  | some (s', _) => s'.relabel mapping

/-- `at(idx)`: negative indices count from the end; `none` = IndexError -/
def at? (s : VState) (idx : Int) : Option Label :=
  let i := if idx < 0 then (s.stop : Int) + idx else idx
  if 0 ≤ i ∧ i < s.stop then some (s.labelAt i.toNat) else none

/-- `index(v)`; `none` = ValueError -/
def index? (s : VState) (v : Label) : Option Nat :=
  if s.count v then some (s.idxOf v) else none

/-- operations of the semi-public mutator interface -/
inductive Op where
  | append (v : Option Label) (permissive : Bool)
  | pop
  | clear
  | relabel (m : List (Label × Label))
  | relabelInts
  | remove (v : Label)

/-- one step; the Boolean is `true` when the call returns normally, `false` when it raises.
    A call that raises leaves the state as the code leaves it (here: unchanged). -/
def step (s : VState) : Op → VState × Bool
  | .append v p => match s.appendP v p with
    | some s' => (s', true)
    | none => (s, false)
  | .pop => match s.pop with
    | some (s', _) => (s', true)
    | none => (s, false)
  | .clear => (empty, true)
  | .relabel m => match s.relabel m with
    | some s' => (s', true)
    | none => (s, false)
  | .relabelInts => (s.relabelAsIntegers.1, true)
  | .remove v => match s.remove v with
    | some s' => (s', true)
    | none => (s, false)

end VState

/-! ### Specification: a duplicate-free Python list of labels -/

namespace LSpec

/-- documented auto label: the index if free, else the least free natural -/
def autoLabel (l : List Label) : Label :=
  if Label.int l.length ∈ l then
    let rec least (fuel i : Nat) : Nat :=
      match fuel with
      | 0 => i
      | f+1 => if Label.int i ∈ l then least f (i+1) else i
    .int (least (l.length + 1) 0)
  else .int l.length

def lookup (m : List (Label × Label)) (k : Label) : Option Label :=
  match m with
  | [] => none
  | (a, b) :: t => if a = k then some b else lookup t k

/-- Python dict semantics of a literal key/value list: later pairs win, first position kept -/
def dictOf (m : List (Label × Label)) : List (Label × Label) :=
  m.foldl (fun d p => VState.dictSet d p.1 p.2) []

/-- simultaneous substitution -/
def subst (m : List (Label × Label)) (l : List Label) : List Label :=
  l.map fun x => (lookup m x).getD x

/-- a relabel is accepted iff the substituted list is still duplicate-free *and* no new label
    (of a key that is … any key) is an existing label that is not itself relabelled, and no two keys
    share a target -/
def relabelOk (m : List (Label × Label)) (l : List Label) : Bool :=
  let d := dictOf m
  let news : List Label := d.map (·.2)
  decide (news.Nodup) && d.all (fun p => !(decide (p.2 ∈ l) && !(VState.dictHas d p.2)))

def step (l : List Label) : VState.Op → List Label × Bool
  | .append (some v) p => if v ∈ l then (l, p) else (l ++ [v], true)
  | .append none _ => (l ++ [autoLabel l], true)
  | .pop => if l = [] then (l, false) else (l.dropLast, true)
  | .clear => ([], true)
  | .relabel m => if relabelOk m l then (subst (dictOf m) l, true) else (l, false)
  | .relabelInts => ((List.range l.length).map fun i => Label.int (i : Nat), true)
  | .remove v => if v ∈ l then (l.erase v, true) else (l, false)

end LSpec
