import DimodModel.SampleSet

/-! Executable model of the serialisation layer (C11): `dimod/serialization/utils.py`
    (`pack_samples`, `unpack_samples`, `serialize_ndarray`, `deserialize_ndarray`), the sample part of
    `SampleSet.to_serializable/from_serializable`, label (de)serialisation (`variables.py`), the vectors
    form of a BQM and the COO writer/reader.  Core Lean only. -/

namespace Pack
open SSM

/-! ### bit level -/

/-- `reshape(-1, k)` of a flat list that holds `m` chunks -/
def chunksN (k : Nat) : Nat → List α → List (List α)
  | 0, _ => []
  | m + 1, l => l.take k :: chunksN k m (l.drop k)

/-- `np.packbits` of one group of 8 bits: the first bit is the most significant -/
def packbits8 (b : List Bool) : Nat := b.foldl (fun acc x => 2 * acc + x.toNat) 0

/-- `np.unpackbits` of one byte -/
def unpackbits8 (n : Nat) : List Bool := [7, 6, 5, 4, 3, 2, 1, 0].map fun i => n.testBit i

/-- `.view(np.uint32)` of 4 bytes on a little-endian machine -/
def wordLE (bytes : List Nat) : Nat := bytes.foldr (fun b acc => b + 256 * acc) 0

/-- `.view(np.uint8)` of one uint32 -/
def bytesLE (w : Nat) : List Nat := [w % 256, w / 256 % 256, w / 65536 % 256, w / 16777216 % 256]

/-- `pad_len = 31 - (n + 31) % 32` -/
def padLen (n : Nat) : Nat := 31 - (n + 31) % 32

/-- one row of `pack_samples`: pad to a multiple of 32, `(…, 4, 8)` reshape, every group of 8
    reversed, `packbits`, little-endian `uint32` view -/
def packRow (bits : List Bool) : List Nat :=
  (chunksN 32 ((bits.length + padLen bits.length) / 32) (bits ++ List.replicate (padLen bits.length) false)).map
    fun w => wordLE ((chunksN 8 4 w).map fun byte => packbits8 byte.reverse)

/-- one row of `unpack_samples`: bytes of every word, `unpackbits`, every group of 8 reversed, cut to `n` -/
def unpackRow (words : List Nat) (n : Nat) : List Bool :=
  (words.flatMap fun w => (bytesLE w).flatMap fun b => (unpackbits8 b).reverse).take n

structure Packed where
  shape : Nat × Nat
  rows : List (List Nat)

/-- `pack_samples(states)` for a 2-d array with `n` columns -/
def packSamples (rows : List (List Bool)) (n : Nat) : Packed :=
  if rows.isEmpty || n = 0 then ⟨(rows.length, n), rows.map fun _ => []⟩     -- `np.empty(states.shape)`
  else ⟨(rows.length, (n + padLen n) / 32), rows.map packRow⟩

/-- `unpack_samples(packed, n)`; an empty `packed` gives `np.empty((rows, n))`, which holds data only
    when it is empty as well -/
def unpackSamples (p : Packed) (n : Nat) : List (List Bool) :=
  if p.shape.1 = 0 || p.shape.2 = 0 then List.replicate p.shape.1 (List.replicate n false)
  else p.rows.map fun r => unpackRow r n

/-! ### value trees (what `tolist()`, `json` and the label helpers work on) -/

inductive PV where
  | none
  | bool (b : Bool)
  | int (z : Int)
  | float (q : Rat)
  | str (s : String)
  | tup (l : List PV)
  | list (l : List PV)

mutual
/-- `json.loads(json.dumps(v))`: tuples come back as lists, everything else unchanged -/
def jsonRT : PV → PV
  | .tup l => .list (jsonRTList l)
  | .list l => .list (jsonRTList l)
  | v => v
def jsonRTList : List PV → List PV
  | [] => []
  | v :: t => jsonRT v :: jsonRTList t
end

mutual
/-- `serialize_variable`: Integral → int, Number → float, str, Collection → tuple -/
def serVar : PV → PV
  | .bool b => .int (if b then 1 else 0)
  | .tup l => .tup (serVarList l)
  | .list l => .tup (serVarList l)
  | v => v
def serVarList : List PV → List PV
  | [] => []
  | v :: t => serVar v :: serVarList t
end

mutual
/-- `deserialize_variable`: every non-string Collection becomes a tuple, recursively -/
def deserVar : PV → PV
  | .tup l => .tup (deserVarList l)
  | .list l => .tup (deserVarList l)
  | v => v
def deserVarList : List PV → List PV
  | [] => []
  | v :: t => deserVar v :: deserVarList t
end

/-- `BQM.from_serializable` before the repair of D13: only the outermost list becomes a tuple -/
def deserVarTopOnly : PV → PV
  | .list l => .tup l
  | v => v

mutual
/-- a label in the sense of the property: int, float, string, or a tuple of labels -/
def isLabel : PV → Bool
  | .int _ => true
  | .float _ => true
  | .str _ => true
  | .tup l => isLabelList l
  | _ => false
def isLabelList : List PV → Bool
  | [] => true
  | v :: t => isLabel v && isLabelList t
end

/-! ### arrays -/

inductive DKind where
  | bool | int | float
deriving DecidableEq

structure NDArr where
  kind : DKind
  shape : List Nat
  data : List Rat

/-- one element of `arr.tolist()` after `_replace_float_with_int` -/
def elemOut : DKind → Rat → PV
  | .bool, q => .bool (q ≠ 0)
  | .int, q => .int q.floor
  | .float, q => if q = (q.floor : Rat) then .int q.floor else .float q      -- `a.is_integer()` → `int(a)`

def prod : List Nat → Nat
  | [] => 1
  | d :: t => d * prod t

/-- `tolist()`: nest the flat C-order data according to the shape (a 0-d array gives the bare scalar) -/
def nest : List Nat → List PV → PV
  | [], xs => xs.headD .none
  | d :: rest, xs => .list ((chunksN (prod rest) d xs).map (nest rest))

def serializeData (a : NDArr) : PV := nest a.shape (a.data.map (elemOut a.kind))

mutual
/-- `np.asarray(nested_list).ravel()` -/
def flat : PV → List PV
  | .list l => flatList l
  | .tup l => flatList l
  | v => [v]
def flatList : List PV → List PV
  | [] => []
  | v :: t => flat v ++ flatList t
end

/-- conversion of one parsed JSON scalar by `np.asarray(…, dtype=…)` -/
def elemIn : PV → Rat
  | .bool b => if b then 1 else 0
  | .int z => (z : Rat)
  | .float q => q
  | _ => 0

def deserializeNd (kind : DKind) (shape : List Nat) (data : PV) : NDArr :=
  { kind := kind, shape := shape, data := (flat data).map elemIn }

/-! ### the sample part of `SampleSet.to_serializable` / `from_serializable` -/

/-- the packing decision; `fixed = false` is the code before the repair of D14
    (`pack_samples and self.vartype is not DISCRETE`, where `DISCRETE` is `INTEGER`) -/
def packs (fixed : Bool) (vt : VT) (packFlag : Bool) : Bool :=
  packFlag && (if fixed then (vt == .spin || vt == .binary) else vt != .integer)

structure SampleDoc where
  packed : Bool
  shape : List Nat
  data : PV

def wordsPV (rows : List (List Nat)) : List PV := rows.flatMap fun r => r.map fun (w : Nat) => PV.int (w : Int)

/-- `sample_data`, `sample_packed` as `to_serializable` computes them from the record's sample array
    (`kind`: the dtype class of the array) -/
def encodeSamples (fixed : Bool) (vt : VT) (kind : DKind) (packFlag : Bool) (rows : List (List Rat)) (n : Nat) : SampleDoc :=
  if packs fixed vt packFlag then
    let bits : List (List Bool) :=
      if vt = .binary ∧ kind ≠ .float then rows.map (·.map fun x => decide (x ≠ 0))   -- packbits: non-zero is 1
      else rows.map (·.map fun x => decide (0 < x))                            -- `samples > 0`
    let p := packSamples bits n
    { packed := true, shape := [p.shape.1, p.shape.2], data := nest [p.shape.1, p.shape.2] (wordsPV p.rows) }
  else
    { packed := false, shape := [rows.length, n],
      data := nest [rows.length, n] (rows.flatten.map (elemOut kind)) }

/-- `json.loads(json.dumps(…))` of the sample part -/
def SampleDoc.json (d : SampleDoc) : SampleDoc := { d with data := jsonRT d.data }

/-- the sample array `from_serializable` rebuilds -/
def decodeSamples (vt : VT) (n : Nat) (d : SampleDoc) : List (List Rat) :=
  let arr := (flat d.data).map elemIn
  let r := d.shape.headD 0
  let c := (d.shape.drop 1).headD 0
  if d.packed then
    let words := (chunksN c r arr).map (·.map fun q => q.floor.toNat)
    let bits := unpackSamples ⟨(r, c), words⟩ n
    bits.map (·.map fun b => if vt = .spin then (if b then (1 : Rat) else -1) else (if b then 1 else 0))
  else chunksN c r arr

/-! ### vectors form of a BQM -/

/-- a BQM in index space, as the C++ object holds it: linear biases by index and the lower-triangle
    interactions `(u, v, bias)` with `v < u` in neighbourhood order -/
structure BQMIdx where
  lin : List Rat
  quad : List (Nat × Nat × Rat)
  offset : Rat

structure Vectors where
  ldata : List Rat
  quad : List (Nat × Nat × Rat)       -- (row, col, bias), row < col, sorted by (row, col)
  offset : Rat
  order : List Nat                    -- `labels[ri] = variables[order[ri]]`

def cooNormalise (q : List (Nat × Nat × Rat)) : List (Nat × Nat × Rat) :=
  q.map fun t => if t.1 > t.2.1 then (t.2.1, t.1, t.2.2) else t

/-- `coo_sort` (Cython back-ends): make `row < col`, then sort by `(row, col)` -/
def cooSort (q : List (Nat × Nat × Rat)) : List (Nat × Nat × Rat) :=
  (cooNormalise q).mergeSort fun a b => decide (a.1 < b.1) || (decide (a.1 = b.1) && decide (a.2.1 ≤ b.2.1))

/-- the Python fallback (object dtype): `np.lexsort((col, row))` — NumPy takes the primary key LAST — i.e. by row, then by
    column, as the Cython back-ends do (repair 5e62c39; before it the keys were given in the other order) -/
def cooSortPy (q : List (Nat × Nat × Rat)) : List (Nat × Nat × Rat) :=
  (cooNormalise q).mergeSort fun a b => decide (a.1 < b.1) || (decide (a.1 = b.1) && decide (a.2.1 ≤ b.2.1))

/-- the three parallel COO arrays of `to_numpy_vectors` -/
structure QVec where
  rows : List Nat
  cols : List Nat
  biases : List Rat

def QVec.triples (q : QVec) : List (Nat × Nat × Rat) := q.rows.zip (q.cols.zip q.biases)

/-- `np.lexsort((col, row))`: the stable permutation that sorts by row, then by column (repair 5e62c39) -/
def lexsortPerm (rows cols : List Nat) : List Nat :=
  argsortBy (fun (a b : Nat × Nat) => decide (a.1 < b.1) || (decide (a.1 = b.1) && decide (a.2 ≤ b.2))) (rows.zip cols)

/-- the `sort_indices` block of the Python fallback as coded: swap where `row > col` (in both index arrays), then
    apply ONE permutation `order` to the rows, to the columns **and to the biases** -/
def sortIndicesPy (q : QVec) : QVec :=
  let r := List.zipWith min q.rows q.cols
  let c := List.zipWith max q.rows q.cols
  let order := lexsortPerm r c
  { rows := gather r order, cols := gather c order, biases := gather q.biases order }

/-- the same on a list of triples (split into the three arrays, sort, zip again) -/
def cooSortPyArrays (q : List (Nat × Nat × Rat)) : List (Nat × Nat × Rat) :=
  (sortIndicesPy ⟨q.map (·.1), q.map (·.2.1), q.map (·.2.2)⟩).triples

/-- `to_numpy_vectors(sort_indices=True, sort_labels=True, return_labels=True)` for the label order
    `order` (a permutation of the indices; the identity in the `is_range` fast path); `py` selects the
    Python fallback used by object-dtype models -/
def toVectors (b : BQMIdx) (order : List Nat) (py : Bool := false) : Vectors :=
  let reindex (vi : Nat) : Nat := order.idxOf vi
  let q := b.quad.map fun t => (reindex t.1, reindex t.2.1, t.2.2)
  { ldata := order.map fun vi => b.lin.getD vi 0,
    quad := if py then cooSortPyArrays q else cooSort q,
    offset := b.offset, order := order }

/-- `from_numpy_vectors` in the index space of the document: biases are accumulated -/
def fromVectors (v : Vectors) : BQMIdx :=
  { lin := v.ldata, quad := v.quad.map fun t => (max t.1 t.2.1, min t.1 t.2.1, t.2.2), offset := v.offset }

/-! ### COO text format (numbers in millionths: the printed precision of `%f`) -/

/-- one line of `_iter_triplets` for the pair `(u, v)`, `v` at or after `u` in sorted order: the linear
    bias when it is non-zero (`nz u`: the bias is truthy; `lin u` is what `%f` prints of it, in
    millionths), else the interaction if there is one -/
def cooEntry (lin : Nat → Int) (nz : Nat → Bool) (quad : Nat → Nat → Option Int) (u v : Nat) : Option (Nat × Nat × Int) :=
  if u = v then (if nz u then some (u, u, lin u) else none)
  else (quad u v).map fun b => (u, v, b)

/-- `for idx, u in enumerate(variables): for v in variables[idx:]: …` as a recursion over the suffixes -/
def cooRows (lin : Nat → Int) (nz : Nat → Bool) (quad : Nat → Nat → Option Int) : List Nat → List (Nat × Nat × Int)
  | [] => []
  | u :: rest => (u :: rest).filterMap (cooEntry lin nz quad u) ++ cooRows lin nz quad rest

/-- `_iter_triplets` over `sorted(bqm.variables)` -/
def cooDump (labels : List Nat) (lin : Nat → Int) (nz : Nat → Bool) (quad : Nat → Nat → Option Int) : List (Nat × Nat × Int) :=
  cooRows lin nz quad (labels.mergeSort (fun a b => decide (a ≤ b)))

/-- `load`: `add_variable(u, bias)` / `add_interaction(u, v, bias)` accumulate -/
def cooLoad (t : List (Nat × Nat × Int)) : (Nat → Int) × (Nat → Nat → Int) :=
  (fun u => ((t.filter fun x => x.1 = u ∧ x.2.1 = u).map (·.2.2)).sum,
   fun u v => ((t.filter fun x => x.1 ≠ x.2.1 ∧ ((x.1 = u ∧ x.2.1 = v) ∨ (x.1 = v ∧ x.2.1 = u))).map (·.2.2)).sum)

end Pack

namespace Pack

/-! ### `info`: `serialize_ndarrays` / `deserialize_ndarrays` -/

/-- the `info` of a sample set as far as serialisation distinguishes: scalars, arrays, lists, dicts with
    string keys -/
inductive Info where
  | leaf (v : PV)
  | arr (a : NDArr)
  | list (l : List Info)
  | dict (kv : List (String × Info))

/-- the serialisable document: arrays have become `{type: 'array', data, data_type, shape, use_bytes}` -/
inductive Doc where
  | leaf (v : PV)
  | arr (kind : DKind) (shape : List Nat) (data : PV)
  | list (l : List Doc)
  | dict (kv : List (String × Doc))

/-- scalars: `Integral → int(obj)`, `Number → float(obj)`, everything else unchanged -/
def serLeaf : PV → PV
  | .bool b => .int (if b then 1 else 0)
  | v => v

mutual
def serInfo : Info → Doc
  | .leaf v => .leaf (serLeaf v)
  | .arr a => .arr a.kind a.shape (serializeData a)
  | .list l => .list (serInfoList l)
  | .dict kv => .dict (serInfoKV kv)
def serInfoList : List Info → List Doc
  | [] => []
  | i :: t => serInfo i :: serInfoList t
def serInfoKV : List (String × Info) → List (String × Doc)
  | [] => []
  | (k, i) :: t => (k, serInfo i) :: serInfoKV t
end

mutual
/-- `json.loads(json.dumps(doc))` -/
def jsonDoc : Doc → Doc
  | .leaf v => .leaf (jsonRT v)
  | .arr k s d => .arr k s (jsonRT d)
  | .list l => .list (jsonDocList l)
  | .dict kv => .dict (jsonDocKV kv)
def jsonDocList : List Doc → List Doc
  | [] => []
  | i :: t => jsonDoc i :: jsonDocList t
def jsonDocKV : List (String × Doc) → List (String × Doc)
  | [] => []
  | (k, i) :: t => (k, jsonDoc i) :: jsonDocKV t
end

mutual
def deserInfo : Doc → Info
  | .leaf v => .leaf v
  | .arr k s d => .arr (deserializeNd k s d)
  | .list l => .list (deserInfoList l)
  | .dict kv => .dict (deserInfoKV kv)
def deserInfoList : List Doc → List Info
  | [] => []
  | i :: t => deserInfo i :: deserInfoList t
def deserInfoKV : List (String × Doc) → List (String × Info)
  | [] => []
  | (k, i) :: t => (k, deserInfo i) :: deserInfoKV t
end

mutual
/-- info that JSON can carry: scalar leaves that are `None`, int, float or str; well-formed arrays -/
def goodInfo : Info → Prop
  | .leaf v => v = .none ∨ (∃ z, v = .int z) ∨ (∃ q, v = .float q) ∨ (∃ s, v = .str s)
  | .arr a => a.data.length = prod a.shape ∧ ∀ q ∈ a.data, (match a.kind with
      | .bool => q = 0 ∨ q = 1 | .int => q = (q.floor : Rat) | .float => True)
  | .list l => goodInfoList l
  | .dict kv => goodInfoKV kv
def goodInfoList : List Info → Prop
  | [] => True
  | i :: t => goodInfo i ∧ goodInfoList t
def goodInfoKV : List (String × Info) → Prop
  | [] => True
  | (_, i) :: t => goodInfo i ∧ goodInfoKV t
end

end Pack

namespace Pack
open SSM

/-! ### the whole sample-set document -/

/-- a sample set as `to_serializable` sees it -/
structure SSFull where
  labels : List PV
  vt : VT
  kind : DKind                       -- dtype class of `record.sample`
  samples : List (List Rat)
  vectors : List (String × NDArr)    -- energy, num_occurrences and every other data vector
  info : Info

/-- the serialisable document (`sample_type`, `variable_type`, shapes, … included) -/
structure SSDoc where
  numVariables : Nat
  sample : SampleDoc
  sampleKind : DKind
  vectors : List (String × DKind × List Nat × PV)
  labels : PV
  vt : VT
  info : Doc

def toSer (s : SSFull) (packFlag : Bool) : SSDoc :=
  { numVariables := s.labels.length,
    sample := encodeSamples true s.vt s.kind packFlag s.samples s.labels.length,
    sampleKind := s.kind,
    vectors := s.vectors.map fun p => (p.1, p.2.kind, p.2.shape, serializeData p.2),
    labels := .list (serVarList s.labels),
    vt := s.vt,
    info := serInfo s.info }

/-- `json.loads(json.dumps(doc))` -/
def SSDoc.json (d : SSDoc) : SSDoc :=
  { d with sample := d.sample.json,
           vectors := d.vectors.map fun p => (p.1, p.2.1, p.2.2.1, jsonRT p.2.2.2),
           labels := jsonRT d.labels,
           info := jsonDoc d.info }

/-- `from_serializable` up to the final `from_samples` call (which sorts the labels, see C14) -/
def fromSer (d : SSDoc) : SSFull :=
  { labels := match d.labels with | .list l => deserVarList l | .tup l => deserVarList l | _ => [],
    vt := d.vt,
    kind := d.sampleKind,
    samples := decodeSamples d.vt d.numVariables d.sample,
    vectors := d.vectors.map fun p => (p.1, deserializeNd p.2.1 p.2.2.1 p.2.2.2),
    info := deserInfo d.info }

/-- the BQM document: labels in the sorted order, vectors in that index space -/
structure BQMDoc where
  labels : PV
  vectors : Vectors

def bqmToSer (labels : List PV) (b : BQMIdx) (order : List Nat) (py : Bool) : BQMDoc :=
  { labels := .list (serVarList (order.map fun i => labels.getD i .none)), vectors := toVectors b order py }

def bqmFromSer (d : BQMDoc) : List PV × BQMIdx :=
  ((match jsonRT d.labels with | .list l => deserVarList l | _ => []), fromVectors d.vectors)

end Pack

namespace Pack

/-! ### the bytes payload (`use_bytes=True`): `arr.tobytes(order='C')` and `np.frombuffer` -/

/-- an integer-like dtype: item size in bytes and signedness (`bool`, `int8…int64`, `uint8…uint64`) -/
structure IntType where
  size : Nat
  signed : Bool

/-- little-endian bytes of a natural number, `n` of them -/
def toBytesLE : Nat → Nat → List Nat
  | 0, _ => []
  | n + 1, v => v % 256 :: toBytesLE n (v / 256)

def fromBytesLE (bs : List Nat) : Nat := bs.foldr (fun b acc => b + 256 * acc) 0

/-- one item as stored: two's complement, little endian -/
def encodeInt (t : IntType) (z : Int) : List Nat := toBytesLE t.size (z % (2 : Int) ^ (8 * t.size)).toNat

/-- one item as read back -/
def decodeInt (t : IntType) (bs : List Nat) : Int :=
  let u : Int := fromBytesLE bs
  if t.signed ∧ (2 : Int) ^ (8 * t.size) ≤ 2 * u then u - (2 : Int) ^ (8 * t.size) else u

/-- `arr.tobytes()` of the flat C-order data -/
def tobytesInt (t : IntType) (data : List Int) : List Nat := data.flatMap (encodeInt t)

/-- `np.frombuffer(buf, dtype)` for `count` items -/
def frombufferInt (t : IntType) (bytes : List Nat) (count : Nat) : List Int := (chunksN t.size count bytes).map (decodeInt t)

/-- the values the dtype can hold -/
def IntType.holds (t : IntType) (z : Int) : Prop :=
  if t.signed then -((2 : Int) ^ (8 * t.size)) ≤ 2 * z ∧ 2 * z < (2 : Int) ^ (8 * t.size) else 0 ≤ z ∧ z < (2 : Int) ^ (8 * t.size)

/-- floating-point items are opaque 4/8-byte payloads: IEEE encoding and decoding are parameters of the
    model with the stated contract (`rt`) -/
structure FloatCodec where
  size : Nat
  enc : Rat → List Nat
  dec : List Nat → Rat
  representable : Rat → Prop
  len : ∀ q, (enc q).length = size
  rt : ∀ q, representable q → dec (enc q) = q

def tobytesFloat (c : FloatCodec) (data : List Rat) : List Nat := data.flatMap c.enc
def frombufferFloat (c : FloatCodec) (bytes : List Nat) (count : Nat) : List Rat := (chunksN c.size count bytes).map c.dec

end Pack

namespace Pack
open SSM

/-! ### COO: the vartype header -/

/-- `coo.load`: the vartype is the `vartype` argument and / or the `# vartype=…` header lines; they must agree, and
    one of them must be there (`none` = `ValueError`) -/
def cooLoadVartype : Option VT → List VT → Option VT
  | arg, [] => arg
  | none, h :: t => cooLoadVartype (some h) t
  | some a, h :: t => if h = a then cooLoadVartype (some a) t else none

/-- `coo.dumps(bqm, vartype_header)`: the header lines written -/
def cooHeader (vartypeHeader : Bool) (vt : VT) : List VT := if vartypeHeader then [vt] else []

end Pack
