import Generated.AbcMutators

/-! Coverage of the op alphabet of `dimod::abc::QuadraticModelBase` (properties C20 / C04).

`Generated.AbcMutators.mutators` is extracted from dimod/include/dimod/abc.h on every run.  `driverOps` is the list of op
tokens that the model driver (`Drivers/CppMain.lean`) executes — the driver refuses every other token, so a token in this
list without a case in the driver shows up as a correspondence failure of the run.  `cover` names, for every public
mutator of the header, the op tokens of the C++ op-sequence interpreter (harness/cpp/interp.cc) that call it; the harness
checks on every run that interp.cc really contains these calls (name and arity) and that the generator emitted the ops.
Core Lean only. -/

namespace Cpp

/-- op tokens executed by the model driver (besides `load`) -/
def driverOps : List String :=
  ["new", "q", "clear", "copy", "cctor", "move", "mctor", "swap", "dense", "adddense", "coo", "aqil", "addvar", "addvars",
   "al", "sl", "sll", "ao", "so", "aq", "sq", "aqb", "ri", "rif", "rv", "rvs", "rs", "rsv", "sc", "fx", "sv", "svs", "cv",
   "slb", "sup", "svt", "energy", "eq", "qmfrombqm", "qmfrombqmf"]

/-- public mutator of `QuadraticModelBase` (name, arity, takes an initializer list) ↦ the ops that call it -/
def cover : List ((String × Nat × Bool) × List String) :=
  [(("add_linear", 2, false), ["al"]),
   (("add_offset", 1, false), ["ao"]),
   (("add_quadratic", 3, false), ["aq"]),
   (("add_quadratic", 3, true), ["aqil"]),
   (("add_quadratic", 4, false), ["coo"]),
   (("add_quadratic_back", 3, false), ["aqb"]),
   (("add_quadratic_from_dense", 2, false), ["adddense"]),
   (("clear", 0, false), ["clear"]),
   (("fix_variable", 2, false), ["fx"]),
   (("remove_interaction", 2, false), ["ri"]),
   (("remove_interactions", 1, false), ["rif"]),
   (("remove_variable", 1, false), ["rv"]),
   (("remove_variables", 1, false), ["rvs"]),
   (("scale", 1, false), ["sc"]),
   (("set_linear", 2, false), ["sl"]),
   (("set_linear", 2, true), ["sll"]),
   (("set_offset", 1, false), ["so"]),
   (("set_quadratic", 3, false), ["sq"]),
   (("substitute_variable", 3, false), ["sv"]),
   (("substitute_variables", 2, false), ["svs"])]

/-- the mutator has an entry, the entry is not empty and names driver ops only -/
def covered (s : String × Nat × Bool) : Bool :=
  match cover.lookup s with
  | some ops => !ops.isEmpty && ops.all (fun o => driverOps.contains o)
  | none => false

end Cpp
