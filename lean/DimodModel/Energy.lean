import DimodModel.Label

/-! # C01 — the evaluation loops, as coded

Executable models (core Lean only, polymorphic in the number type `R`; drivers run them at `Rat`,
theorems are stated for any commutative ring) of

* `abc.h: QuadraticModelBase::energy`           → `QMB.energy`   (both branches of `has_adj()`)
* `abc.h: ConstQuadraticIterator` (`iter_quadratic`) → `QMB.iterQuadratic`
* `cyqmbase_template.pyx.pxi: _energies`        → `QMB.cyEnergy`, `cyEnergies`
* `expression.h: Expression::energy`, `cyexpression.pyx: _energies` → `Expr.energyCpp`, `exprEnergies`
* `pybqm.py: pyBQM.energies`, `iter_quadratic`  → `PyBqm.energies`
* `cydiscrete_quadratic_model.pyx: energies` + `discrete_quadratic_model.py: energies` → `Dqm.*`
* `polynomial.py: BinaryPolynomial.energies`    → `polyEnergies`
* `sampleset.py: as_samples` and its overloads  → `asSamples`

The specification layer (`polyEval`, `SL.value`) is at the end of each section; it does not look at
the loops.  Repairs D1 (`_as_samples_iterator`), D2 (`_energies` of a variable-free expression) and
D3 (negative DQM case) are in the tree this file mirrors; the pre-repair functions are kept under the
suffix `Old` because the witness theorems of `DimodProofs/C01Witness.lean` are stated about them. -/

namespace En

/-- exception classes that the harness distinguishes -/
inductive Err | value | type | runtime | key | index
  deriving DecidableEq, Repr

abbrev Nbh (R : Type) := List (Nat × R)

/-- `QuadraticModelBase`: `linear_biases_`, `adj_ptr_` (null until the first interaction), `offset_` -/
structure QMB (R : Type) where
  lin : List R
  adj : Option (List (Nbh R))
  off : R

variable {R : Type}

/-! ## the specification: a plain polynomial given by reported coefficients -/

/-- `Σ_i lin[i] * x (u+i)` -/
def linSum [Add R] [Mul R] [Zero R] (x : Nat → R) : Nat → List R → R
  | _, [] => 0
  | u, l :: ls => l * x u + linSum x (u+1) ls

/-- `Σ b * x u * x v` over reported interactions `(u, v, b)` -/
def quadSum [Add R] [Mul R] [Zero R] (x : Nat → R) : List (Nat × Nat × R) → R
  | [] => 0
  | (u, v, b) :: t => b * x u * x v + quadSum x t

/-- offset + Σ linear·value + Σ interaction·value·value -/
def polyEval [Add R] [Mul R] [Zero R] (off : R) (lin : List R) (quad : List (Nat × Nat × R)) (x : Nat → R) : R :=
  off + linSum x 0 lin + quadSum x quad

namespace QMB

def n (m : QMB R) : Nat := m.lin.length

/-- `(*adj_ptr_)[u]`; the shared empty neighbourhood when the adjacency is not allocated -/
def nbh (m : QMB R) (u : Nat) : Nbh R :=
  match m.adj with
  | some a => a.getD u []
  | none => []

/-- `for (auto& term : adj[u]) { if (term.v > u) break; en += term.bias * u_val * sample[term.v]; }` -/
def lowerLoop [Add R] [Mul R] (x : Nat → R) (u : Nat) : Nbh R → R → R
  | [], en => en
  | (v, b) :: t, en => if v > u then en else lowerLoop x u t (en + b * x u * x v)

/-- the `has_adj()` branch: `for u < num_variables(): en += u_val * linear(u); <lowerLoop>` -/
def adjLoop [Add R] [Mul R] (x : Nat → R) (a : List (Nbh R)) : Nat → List R → R → R
  | _, [], en => en
  | u, l :: ls, en => adjLoop x a (u+1) ls (lowerLoop x u (a.getD u []) (en + x u * l))

/-- the other branch: `for it in linear_biases_ (++sample_start): en += *sample_start * *it` -/
def linLoop [Add R] [Mul R] (x : Nat → R) : Nat → List R → R → R
  | _, [], en => en
  | u, l :: ls, en => linLoop x (u+1) ls (en + x u * l)

/-- `QuadraticModelBase::energy(sample_start)` -/
def energy [Add R] [Mul R] (m : QMB R) (x : Nat → R) : R :=
  match m.adj with
  | some a => adjLoop x a 0 m.lin m.off
  | none => linLoop x 0 m.lin m.off

/-- `cyQMBase._energies`, one row: always walks `cbegin_neighborhood(ui)` while `v <= ui` -/
def cyEnergy [Add R] [Mul R] (m : QMB R) (x : Nat → R) : R :=
  adjLoop x (m.adj.getD []) 0 m.lin m.off

/-- one neighbourhood as `ConstQuadraticIterator` walks it: entries while `it->v <= u` -/
def lowerTerms (u : Nat) : Nbh R → List (Nat × Nat × R)
  | [] => []
  | (v, b) :: t => if v ≤ u then (u, v, b) :: lowerTerms u t else []

def iterQuadraticFrom : Nat → List (Nbh R) → List (Nat × Nat × R)
  | _, [] => []
  | u, nb :: as => lowerTerms u nb ++ iterQuadraticFrom (u+1) as

/-- `cbegin_quadratic() … cend_quadratic()` = what `iter_quadratic()` reports (as index triples) -/
def iterQuadratic (m : QMB R) : List (Nat × Nat × R) :=
  match m.adj with
  | some a => iterQuadraticFrom 0 a
  | none => []

/-- `quadratic(u, v)`: bias if the entry exists, 0 otherwise -/
def coef [Zero R] (nb : Nbh R) (v : Nat) : R :=
  match nb with
  | [] => 0
  | (w, c) :: t => if w = v then c else coef t v

/-- the polynomial of the coefficients the model itself reports -/
def reportedEval [Add R] [Mul R] [Zero R] (m : QMB R) (x : Nat → R) : R :=
  polyEval m.off m.lin m.iterQuadratic x

end QMB

/-! ## labels: where a sample's columns go -/

def indexOfFrom (v : Label) : List Label → Nat → Option Nat
  | [], _ => none
  | l :: ls, i => if l = v then some i else indexOfFrom v ls (i+1)

/-- `labels.index(v)`: position of the first occurrence -/
def indexOf? (labels : List Label) (v : Label) : Option Nat := indexOfFrom v labels 0

/-- `qm_to_sample[si] = labels.index(self.variables.at(si))` — `ValueError` at the first missing variable -/
def qmToSample : List Label → List Label → Except Err (List Nat)
  | [], _ => .ok []
  | v :: vs, sampleLabels =>
    match indexOf? sampleLabels v with
    | none => .error .value
    | some i =>
      match qmToSample vs sampleLabels with
      | .ok q => .ok (i :: q)
      | .error e => .error e

/-- `row[q[ui]]` -/
def pick [Zero R] (row : List R) (q : List Nat) (ui : Nat) : R := row.getD (q.getD ui 0) 0

/-- `cyQMBase._energies(samples, labels)` -/
def cyEnergies [Add R] [Mul R] [Zero R] (m : QMB R) (modelLabels : List Label)
    (samples : List (List R)) (sampleLabels : List Label) : Except Err (List R) :=
  if samples.any (fun r => r.length ≠ sampleLabels.length) then .error .runtime else
  match qmToSample modelLabels sampleLabels with
  | .error err => .error err
  | .ok q => .ok (samples.map fun row => m.cyEnergy (pick row q))

/-! ## expressions (`expression.h`, `cyexpression.pyx`) -/

/-- `Expression`: the base model over local indices + `variables_` (global index of each local one) -/
structure Expr (R : Type) where
  vars : List Nat
  qb : QMB R

namespace Expr

/-- `Expression::energy(sample_start)`: sub-sample in the expression's own order, then the base loop -/
def energyCpp [Add R] [Mul R] (e : Expr R) (x : Nat → R) : R :=
  e.qb.energy (fun i => x (e.vars.getD i 0))

end Expr

/-- `reindex[i] = labels.index(self.parent.variables.at(expression.variables()[i]))` — `ValueError` when the
    sample labels lack a variable of the expression -/
def exprReindex (e : Expr R) (parentLabels sampleLabels : List Label) : Except Err (List Nat) :=
  qmToSample (e.vars.map fun g => parentLabels.getD g (.int (-1))) sampleLabels

/-- `cyexpression._energies` as repaired (D2): a variable-free expression evaluates to its offset.
    `parentLabels` are the CQM's variables. -/
def exprEnergies [Add R] [Mul R] [Zero R] (e : Expr R) (parentLabels : List Label)
    (samples : List (List R)) (sampleLabels : List Label) : Except Err (List R) :=
  match exprReindex e parentLabels sampleLabels with
  | .error err => .error err
  | .ok reindex =>
    if reindex.length ≠ 0 then
      .ok (samples.map fun row => e.qb.energy (pick row reindex))
    else
      .ok (samples.map fun _ => e.qb.off)

/-- the same function before the repair of D2 (`energies[si] = 0` in the `shape[1] == 0` branch) -/
def exprEnergiesOld [Add R] [Mul R] [Zero R] (e : Expr R) (parentLabels : List Label)
    (samples : List (List R)) (sampleLabels : List Label) : Except Err (List R) :=
  match exprReindex e parentLabels sampleLabels with
  | .error err => .error err
  | .ok reindex =>
    if reindex.length ≠ 0 then
      .ok (samples.map fun row => e.qb.energy (pick row reindex))
    else
      .ok (samples.map fun _ => 0)

/-! ## the dict back-end (`pybqm.py`)

`_adj` is a dict of dicts; `_adj[u][u]` is the linear bias.  Positions in `_adj` order stand for the
labels (the harness translates), so a row is `(u's linear bias, [(position of v, bias)] in dict order)`. -/

structure PyBqm (R : Type) where
  rows : List (R × Nbh R)
  off : R

namespace PyBqm

/-- `iter_quadratic`: `seen.add(u); for v in Nu: if v not in seen: yield u, v, bias`
    (the diagonal entry `Nu[u]` is in `seen`) -/
def iterQuadraticFrom : Nat → List Nat → List (R × Nbh R) → List (Nat × Nat × R)
  | _, _, [] => []
  | u, seen, (_, nb) :: rest =>
    ((nb.filter fun p => !(u :: seen).contains p.1).map fun p => (u, p.1, p.2))
      ++ iterQuadraticFrom (u+1) (u :: seen) rest

def iterQuadratic (m : PyBqm R) : List (Nat × Nat × R) := iterQuadraticFrom 0 [] m.rows

/-- `ldata[j] = get_linear(labels[j]) if labels[j] in adj else 0`: the linear bias of the model variable that sits in
    sample column `j` (`b2s` = `bqm_to_sample` by position), 0 for a column that carries no model variable -/
def ldataAt [Zero R] (lins : List R) (b2s : List Nat) (j : Nat) : R :=
  match b2s.idxOf? j with
  | some u => lins.getD u 0
  | none => 0

/-- `pyBQM.energies`, one row; `width` is the number of sample columns:
    `samples.dot(ldata) + (samples[:, irow] * samples[:, icol]).dot(qdata) + offset` -/
def energyRow [Add R] [Mul R] [Zero R] (m : PyBqm R) (b2s : List Nat) (width : Nat) (row : List R) : R :=
  let ldata : List R := (List.range width).map (ldataAt (m.rows.map (·.1)) b2s)
  let dot1 := ((row.zip ldata).map fun p => p.1 * p.2).foldl (· + ·) 0
  let dot2 := (m.iterQuadratic.map fun t => pick row b2s t.1 * pick row b2s t.2.1 * t.2.2).foldl (· + ·) 0
  dot1 + dot2 + m.off

/-- `pyBQM.energies`: `ValueError` when a model variable is missing from the sample labels -/
def energies [Add R] [Mul R] [Zero R] (m : PyBqm R) (modelLabels : List Label)
    (samples : List (List R)) (sampleLabels : List Label) : Except Err (List R) := do
  let b2s ← qmToSample modelLabels sampleLabels
  pure (samples.map fun row => m.energyRow b2s sampleLabels.length row)

/-- specification: the reported polynomial of the dict model -/
def reportedEval [Add R] [Mul R] [Zero R] (m : PyBqm R) (x : Nat → R) : R :=
  polyEval m.off (m.rows.map (·.1)) m.iterQuadratic x

end PyBqm

/-! ## discrete quadratic model (`cydiscrete_quadratic_model.pyx`) -/

/-- `cppbqm` over *cases*, `case_starts_` (one more entry than variables), `adj_` over variables -/
structure Dqm (R : Type) where
  bqm : QMB R
  starts : List Nat
  adj : List (List Nat)
  off : R

namespace Dqm

def numVariables (d : Dqm R) : Nat := d.adj.length

def numCases (d : Dqm R) (u : Nat) : Nat := d.starts.getD (u+1) 0 - d.starts.getD u 0

/-- `cppbqm.quadratic(cu, cv)` -/
def caseQuad [Zero R] (d : Dqm R) (cu cv : Nat) : R := QMB.coef (d.bqm.nbh cu) cv

def caseLin [Zero R] (d : Dqm R) (cu : Nat) : R := d.bqm.lin.getD cu 0

/-- `for vi in range(adj_[u].size()): v = adj_[u][vi]; if v > u: break; …` -/
def nbLoop [Add R] [Zero R] (d : Dqm R) (row : List Int) (u cu : Nat) : List Nat → R → R
  | [], en => en
  | v :: t, en =>
    if v > u then en
    else nbLoop d row u cu t (en + d.caseQuad cu (d.starts.getD v 0 + (row.getD v 0).toNat))

/-- the loop over `u` of one sample; `none` = `ValueError("invalid case")`.
    The range check is the repaired one (D3): `case_u < 0 or case_u >= num_cases(u)`. -/
def rowLoop [Add R] [Zero R] (d : Dqm R) (row : List Int) : Nat → List (List Nat) → R → Option R
  | _, [], en => some en
  | u, nb :: rest, en =>
    let caseU := row.getD u 0
    if caseU < 0 ∨ caseU ≥ (d.numCases u : Int) then none
    else
      let cu := d.starts.getD u 0 + caseU.toNat
      rowLoop d row (u+1) rest (nbLoop d row u cu nb (en + d.caseLin cu))

/-- `cyDiscreteQuadraticModel.energies(samples)` (samples already in the model's variable order) -/
def cyEnergies [Add R] [Zero R] (d : Dqm R) (samples : List (List Int)) : Except Err (List R) :=
  if samples.any (fun r => r.length ≠ d.numVariables) then .error .value else
  samples.mapM fun row =>
    match rowLoop d row 0 d.adj d.off with
    | some e => .ok e
    | none => .error .value

/-- the upper bound check only, as it was before D3; a negative case indexes the previous variable's
    cases (`starts[u] + case_u` in signed arithmetic); `none` also stands for an index below 0 -/
def rowLoopOld [Add R] [Zero R] (d : Dqm R) (row : List Int) : Nat → List (List Nat) → R → Option R
  | _, [], en => some en
  | u, nb :: rest, en =>
    let caseU := row.getD u 0
    if caseU ≥ (d.numCases u : Int) then none
    else
      let cuI : Int := (d.starts.getD u 0 : Int) + caseU
      if cuI < 0 then none   -- out-of-bounds read in the real code
      else
        let cu := cuI.toNat
        rowLoopOld d row (u+1) rest (nbLoop d row u cu nb (en + d.caseLin cu))

/-- `DiscreteQuadraticModel.energies`: column count, then reorder by label (`KeyError → ValueError`) -/
def energies [Add R] [Zero R] (d : Dqm R) (modelLabels : List Label)
    (samples : List (List Int)) (sampleLabels : List Label) : Except Err (List R) :=
  if sampleLabels.length ≠ d.numVariables then .error .value else do
    let order ← qmToSample modelLabels sampleLabels
    d.cyEnergies (samples.map fun row => order.map fun j => row.getD j 0)

end Dqm

/-! ## higher-order polynomial (`polynomial.py`) -/

/-- `np.prod([samples[:, labeldict[v]] for v in term], axis=0)` for one row -/
def termProd [Mul R] [One R] (x : Nat → R) : List Nat → R
  | [] => 1
  | v :: t => x v * termProd x t

/-- `BinaryPolynomial.energies`, one row: the `len(term) == 0` branch adds the bias itself -/
def polyEnergy [Add R] [Mul R] [Zero R] [One R] (terms : List (List Nat × R)) (x : Nat → R) : R :=
  terms.foldl (fun en tb => if tb.1.length = 0 then en + tb.2 else en + termProd x tb.1 * tb.2) 0

/-- specification: Σ bias · Π values -/
def polySpec [Add R] [Mul R] [Zero R] [One R] (x : Nat → R) : List (List Nat × R) → R
  | [] => 0
  | (t, b) :: rest => b * termProd x t + polySpec x rest

/-- `BinaryPolynomial.energies(samples_like)`: `labeldict[v]` raises `KeyError` for a missing label -/
def polyEnergies [Add R] [Mul R] [Zero R] [One R] (terms : List (List Nat × R)) (polyLabels : List Label)
    (samples : List (List R)) (sampleLabels : List Label) : Except Err (List R) := do
  let used := (terms.flatMap (·.1)).eraseDups
  let _ ← used.mapM fun v =>
    match indexOf? sampleLabels (polyLabels.getD v (.int (-1))) with
    | some i => Except.ok i
    | none => Except.error Err.key
  let col (v : Nat) : Nat := (indexOf? sampleLabels (polyLabels.getD v (.int (-1)))).getD 0
  pure (samples.map fun row => polyEnergy terms (fun v => row.getD (col v) 0))

/-! ## `as_samples` -/

/-- the accepted encodings of samples -/
inductive SL (R : Type) where
  | dict (items : List (Label × R))                       -- a Mapping
  | dicts (l : List (List (Label × R)))                   -- a sequence of Mappings (iterator path)
  | arr (rows : List (List R))                            -- array-like, 2-d
  | arr1 (row : List R)                                   -- array-like, 1-d
  | labelled (rows : List (List R)) (labels : List Label) -- (array_like, labels), 2-d
  | labelled1 (row : List R) (labels : List Label)        -- (array_like, labels), 1-d
  | sampleset (rows : List (List R)) (labels : List Label)

def rangeLabels (k : Nat) : List Label := (List.range k).map fun i => Label.int (Int.ofNat i)

/-- `_sample_array`: 1-d → one row unless empty → shape (0, 0) -/
def sampleArray1 (row : List R) : List (List R) := if row.isEmpty then [] else [row]

def sameSet (a b : List Label) : Bool := a.all (b.contains ·) && b.all (a.contains ·)

/-- `_as_samples_tuple` after `_sample_array`; `width` is `arr.shape[1]` -/
def tupleCheck (rows : List (List R)) (width : Nat) (labels : List Label) : Except Err (List (List R) × List Label) :=
  -- `if not arr.size: arr.shape = (arr.shape[0], len(labels))`
  let size := rows.length * width
  if size = 0 then
    -- reshape of an empty array to (shape[0], len(labels)) fails unless shape[0]*len(labels) = 0
    if rows.length * labels.length = 0 then .ok (rows.map fun _ => [], labels)
    else .error .value   -- numpy: cannot reshape (AttributeError/ValueError)
  else if labels.length ≠ width then .error .value
  else .ok (rows, labels)

def widthOf (rows : List (List R)) : Nat := (rows.head?.map (·.length)).getD 0

/-- `_as_samples_dict` -/
def asSamplesDict (items : List (Label × R)) : Except Err (List (List R) × List Label) :=
  if items.isEmpty then .ok ([[]], [])
  else .ok ([items.map (·.2)], items.map (·.1))

/-- the re-indexing step of `_as_samples_iterator` for one later element, as repaired (D1):
    `reindex = [labels.index(v) for v in first_labels]; samples = samples[:, reindex]` -/
def reindexRow [Zero R] (firstLabels labels : List Label) (row : List R) : List R :=
  firstLabels.map fun v => row.getD ((indexOf? labels v).getD 0) 0

/-- the same step before the repair: `reindex = [first_labels.index(v) for v in labels]` -/
def reindexRowOld [Zero R] (firstLabels labels : List Label) (row : List R) : List R :=
  labels.map fun v => row.getD ((indexOf? firstLabels v).getD 0) 0

/-- the loop of `_as_samples_iterator` over the elements after the first -/
def iterRest [Zero R] (reindex : List Label → List Label → List R → List R) (firstLabels : List Label) :
    List (List (Label × R)) → Except Err (List (List R))
  | [] => .ok []
  | d :: ds =>
    let labels := d.map (·.1)
    let row := d.map (·.2)
    if labels = firstLabels then
      match iterRest reindex firstLabels ds with
      | .ok rows => .ok (row :: rows)
      | .error e => .error e
    else if !(sameSet labels firstLabels) then .error .value   -- `if set(labels) ^ first_set: raise ValueError`
    else
      match iterRest reindex firstLabels ds with
      | .ok rows => .ok (reindex firstLabels labels row :: rows)
      | .error e => .error e

/-- `_as_samples_iterator` over dicts, parametrised by the re-indexing step -/
def asSamplesIterWith [Zero R] (reindex : List Label → List Label → List R → List R)
    (l : List (List (Label × R))) : Except Err (List (List R) × List Label) :=
  match l with
  | [] => .ok ([], [])
  | first :: rest =>
    match iterRest reindex (first.map (·.1)) rest with
    | .ok rows => .ok (first.map (·.2) :: rows, first.map (·.1))
    | .error e => .error e

/-- `as_samples(samples_like)`, repaired tree -/
def asSamples [Zero R] : SL R → Except Err (List (List R) × List Label)
  | .dict items => asSamplesDict items
  | .dicts l => asSamplesIterWith reindexRow l
  | .arr rows => .ok (rows, rangeLabels (widthOf rows))
  | .arr1 row => .ok (sampleArray1 row, rangeLabels (widthOf (sampleArray1 row)))
  | .labelled rows labels => tupleCheck rows (widthOf rows) labels
  | .labelled1 row labels => tupleCheck (sampleArray1 row) (widthOf (sampleArray1 row)) labels
  | .sampleset rows labels => .ok (rows, labels)

/-- `as_samples` before the repair of D1 -/
def asSamplesOld [Zero R] : SL R → Except Err (List (List R) × List Label)
  | .dicts l => asSamplesIterWith reindexRowOld l
  | sl => asSamples sl

/-! ### specification of a samples-like: what value it assigns to a label in a row -/

def lookupLabel (items : List (Label × R)) (v : Label) : Option R :=
  match items with
  | [] => none
  | (k, a) :: t => if k = v then some a else lookupLabel t v

namespace SL

def numRows : SL R → Nat
  | .dict _ => 1
  | .dicts l => l.length
  | .arr rows => rows.length
  | .arr1 row => if row.isEmpty then 0 else 1
  | .labelled rows _ => rows.length
  | .labelled1 row _ => if row.isEmpty then 0 else 1
  | .sampleset rows _ => rows.length

/-- the value the input assigns to label `v` in row `r` -/
def value : SL R → Nat → Label → Option R
  | .dict items, _, v => lookupLabel items v
  | .dicts l, r, v => (l[r]?).bind fun d => lookupLabel d v
  | .arr rows, r, v => match v with
    | .int z => if 0 ≤ z then (rows[r]?).bind fun row => row[z.toNat]? else none
    | _ => none
  | .arr1 row, _, v => match v with
    | .int z => if 0 ≤ z then row[z.toNat]? else none
    | _ => none
  | .labelled rows labels, r, v => (rows[r]?).bind fun row => (indexOf? labels v).bind fun j => row[j]?
  | .labelled1 row labels, _, v => (indexOf? labels v).bind fun j => row[j]?
  | .sampleset rows labels, r, v => (rows[r]?).bind fun row => (indexOf? labels v).bind fun j => row[j]?

end SL

end En
