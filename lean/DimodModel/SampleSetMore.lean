import DimodModel.SampleSet

/-! Additions to the sample-set model (C14): sequences of deferred calls on a (possibly future-backed)
    sample set object.  Core Lean only. -/

namespace SSM

/-- one call of `relabel_variables(mapping, inplace)` or `change_vartype(vartype, energy_offset, inplace)` -/
inductive LOp where
  | relabel (m : List (Label × Label)) (inplace : Bool)
  | changeVt (vt : VT) (off : Rat) (inplace : Bool)

/-- the call issued on a sample set *object* (resolved or not): the object it returns (`none` = raises) -/
def LOp.onObject : LOp → LSS → Option LSS
  | .relabel m ip, x => x.relabelOp m ip
  | .changeVt vt off ip, x => x.changeVtOp vt off ip

/-- the same call on a resolved sample set -/
def LOp.onValue : LOp → SS → Option SS
  | .relabel m _, s => s.relabel m
  | .changeVt vt off _, s => (Hook.changeVt vt off).run s

/-- a chain `x.op₁(...).op₂(...)…` on objects; the first raising call ends it -/
def chainObject (ops : List LOp) (x : Option LSS) : Option LSS := ops.foldl (fun acc o => acc.bind o.onObject) x

/-- the same chain on resolved values -/
def chainValue (ops : List LOp) (s : Option SS) : Option SS := ops.foldl (fun acc o => acc.bind o.onValue) s

end SSM
