import DimodModel.Cqm

/-! Checked-indexing variant of the `Expression` layer (`expression.h` over `abc.h`): every `operator[]` the
    C++ performs on `variables_`, `linear_biases_` and `(*adj_ptr_)` — with the **local** index that
    `enforce_variable` / `indices_.at` hands back — is a `List` lookup that fails (`none` = undefined behaviour)
    outside the vector.  `DimodProofs/NoUBExpr.lean` proves that under the representation invariant `ExprWF`
    no lookup fails, for any global index given (the Expression methods have no precondition on the global index:
    an unknown variable is added by `enforce_variable` or ignored).  Core Lean only. -/

namespace QB
open Bqm (modifyAt eraseIdx nbhAdd)

/-- `vec[i] = f(vec[i])` -/
def upd? {α} (l : List α) (i : Nat) (f : α → α) : Option (List α) :=
  match l[i]? with
  | some _ => some (modifyAt l i f)
  | none => none

def addLinear? (q : QB) (u : Nat) (b : Rat) : Option QB := (upd? q.lin u (· + b)).map fun l => { q with lin := l }
def setLinear? (q : QB) (u : Nat) (b : Rat) : Option QB := (upd? q.lin u (fun _ => b)).map fun l => { q with lin := l }

/-- `asymmetric_quadratic_ref(u, v) (+)= b`: `(*adj_ptr_)[u]` -/
def asym? (q : QB) (u v : Nat) (b : Rat) (set : Bool) : Option QB :=
  (upd? q.adj u (fun nb => nbhAdd nb v b set)).map fun a => { q with adj := a }

/-- `abc::add_quadratic(u, v, b)` -/
def addQuadratic? (q : QB) (vtu : VT4) (u v : Nat) (b : Rat) : Option QB :=
  if u = v then
    match vtu with
    | .binary => q.addLinear? u b
    | .spin => some { q with off := q.off + b }
    | _ => q.asym? u u b false
  else (q.asym? u v b false).bind fun q1 => q1.asym? v u b false

/-- `abc::remove_interaction(u, v)`: `(*adj_ptr_)[u]` is searched, then both rows are written -/
def removeInteraction? (q : QB) (u v : Nat) : Option (QB × Bool) :=
  match q.adj[u]? with
  | none => none
  | some nb =>
    if nbhHas nb v then
      (upd? q.adj u (nbhDrop · v)).bind fun a1 => (upd? a1 v (nbhDrop · u)).map fun a2 => ({ q with adj := a2 }, true)
    else some (q, false)

/-- `abc::remove_variable(vi)`: `linear_biases_.erase(begin() + vi)`, `adj.erase(begin() + vi)` need `vi` inside both -/
def removeVar? (q : QB) (vi : Nat) : Option QB :=
  match q.lin[vi]?, q.adj[vi]? with
  | some _, some _ => some (q.removeVar vi)
  | _, _ => none

/-- one term of the loop of `substitute_variable`: `linear_biases_[term.v]`, `(*adj_ptr_)[term.v]`, `(*adj_ptr_)[v]` -/
def substStep? (patched : Bool) (v : Nat) (m c : Rat) (q : Option QB) (p : Nat × Rat) : Option QB :=
  q.bind fun q =>
    if patched && p.1 = v then
      (upd? q.lin v (· + 2 * p.2 * m * c)).bind fun l => (upd? q.adj v (scaleEntry · v (m * m))).map fun a =>
        { q with off := q.off + p.2 * c * c, lin := l, adj := a }
    else
      (upd? q.lin p.1 (· + p.2 * c)).bind fun l => (upd? q.adj p.1 (scaleEntry · v m)).bind fun a1 =>
        (upd? a1 v (scaleEntry · p.1 m)).map fun a2 => { q with lin := l, adj := a2 }

/-- `abc::substitute_variable(v, m, c)`: `linear_biases_[v]` twice, `(*adj_ptr_)[v]` for the loop, then per term -/
def substitute? (q : QB) (v : Nat) (m c : Rat) : Option QB :=
  match q.lin[v]?, q.adj[v]? with
  | some lv, some nb =>
    nb.foldl (substStep? Generated.AbcSubst.selfLoopBranch v m c)
      (some { q with off := q.off + lv * c, lin := modifyAt q.lin v (· * m) })
  | _, _ => none

end QB

namespace Expr

/-- `add_linear(g, b)`: `base_type::add_linear(enforce_variable(g), b)` -/
def addLinear? (e : Expr) (g : Nat) (b : Rat) : Option Expr :=
  ((e.enforce g).1.qb.addLinear? (e.enforce g).2 b).map fun q => { (e.enforce g).1 with qb := q }

def setLinear? (e : Expr) (g : Nat) (b : Rat) : Option Expr :=
  ((e.enforce g).1.qb.setLinear? (e.enforce g).2 b).map fun q => { (e.enforce g).1 with qb := q }

def addQuadratic? (e : Expr) (vt : List VT4) (gu gv : Nat) (b : Rat) : Option Expr :=
  (((e.enforce gv).1.enforce gu).1.qb.addQuadratic? (vt.getD gu .binary) ((e.enforce gv).1.enforce gu).2 (e.enforce gv).2 b).map
    fun q => { ((e.enforce gv).1.enforce gu).1 with qb := q }

def removeInteraction? (e : Expr) (gu gv : Nat) : Option Expr :=
  match e.idx.get? gu, e.idx.get? gv with
  | some i, some j => (e.qb.removeInteraction? i j).map fun r => { e with qb := r.1 }
  | _, _ => some e

/-- `Expression::remove_variable(g)`: `variables_.erase(begin() + i)` and the base `remove_variable(i)` -/
def removeVar? (e : Expr) (g : Nat) : Option Expr :=
  match e.idx.get? g with
  | none => some e
  | some i =>
    match e.vars[i]? with
    | none => none
    | some _ => (e.qb.removeVar? i).map fun q =>
        { vars := Bqm.eraseIdx e.vars i, idx := decrIdx (e.vars.drop (i + 1)) (e.idx.erase g), qb := q }

def substitute? (e : Expr) (g : Nat) (m c : Rat) : Option Expr :=
  match e.idx.get? g with
  | some i => (e.qb.substitute? i m c).map fun q => { e with qb := q }
  | none => some e

/-- `Expression::linear(g)` / `quadratic(g, h)`: `linear_biases_[indices_.at(g)]`, `(*adj_ptr_)[i]` -/
def linear? (e : Expr) (g : Nat) : Option Rat :=
  match e.idx.get? g with
  | some i => e.qb.lin[i]?
  | none => some 0

def quadratic? (e : Expr) (g h : Nat) : Option Rat :=
  match e.idx.get? g, e.idx.get? h with
  | some i, some j => (e.qb.adj[i]?).map fun nb => QB.nbhCoef nb j
  | _, _ => some 0

end Expr

/-- one call on an `Expression` (global variable indices; `vt` = the vartypes of the parent model) -/
inductive EOp where
  | addLinear (g : Nat) (b : Rat)
  | setLinear (g : Nat) (b : Rat)
  | addQuadratic (gu gv : Nat) (b : Rat)
  | removeInteraction (gu gv : Nat)
  | removeVar (g : Nat)
  | substitute (g : Nat) (m c : Rat)

namespace Expr

def stepE (vt : List VT4) (e : Expr) : EOp → Expr
  | .addLinear g b => e.addLinear g b
  | .setLinear g b => e.setLinear g b
  | .addQuadratic gu gv b => e.addQuadratic vt gu gv b
  | .removeInteraction gu gv => e.removeInteraction gu gv
  | .removeVar g => e.removeVar g
  | .substitute g m c => e.substitute g m c

/-- the same call with every vector access checked; `none` = an access outside a vector -/
def stepE? (vt : List VT4) (e : Expr) : EOp → Option Expr
  | .addLinear g b => e.addLinear? g b
  | .setLinear g b => e.setLinear? g b
  | .addQuadratic gu gv b => e.addQuadratic? vt gu gv b
  | .removeInteraction gu gv => e.removeInteraction? gu gv
  | .removeVar g => e.removeVar? g
  | .substitute g m c => e.substitute? g m c

def runE (vt : List VT4) (e : Expr) (ops : List EOp) : Expr := ops.foldl (stepE vt) e

def runE? (vt : List VT4) : Option Expr → List EOp → Option Expr
  | r, [] => r
  | none, _ => none
  | some e, op :: t => runE? vt (e.stepE? vt op) t

end Expr
