import DimodModel.SampleSet

/-! A small store model for NumPy-backed state (C19).  An array is a window `(base, offset, stride, len)`
    into a buffer; basic slicing shares the buffer, integer-array / boolean indexing and `.copy()`
    allocate a new one.  Python objects that matter for aliasing (`Variables`, the `info` dict and the
    containers nested in it) are object identities.  Every copy-producing `SampleSet` function is written
    with the indexing form its source uses.  Core Lean only. -/

namespace Store
open SSM

structure Arr where
  base : Nat
  offset : Int
  stride : Int
  len : Nat
deriving DecidableEq

/-- buffers by base id; `next` is the allocator's next free id (also used for Python object ids) -/
structure St where
  mem : Nat → Int → Rat
  next : Nat

def Arr.addr (a : Arr) (i : Nat) : Int := a.offset + (i : Int) * a.stride

def read (st : St) (a : Arr) (i : Nat) : Rat := st.mem a.base (a.addr i)

def readAll (st : St) (a : Arr) : List Rat := (List.range a.len).map (read st a)

/-- `a[i] = v` -/
def write (st : St) (a : Arr) (i : Nat) (v : Rat) : St :=
  { st with mem := fun b k => if b = a.base ∧ k = a.addr i then v else st.mem b k }

/-- a new buffer holding `vals` (C-contiguous) -/
def alloc (st : St) (vals : List Rat) : St × Arr :=
  ({ mem := fun b k => if b = st.next then vals.getD k.toNat 0 else st.mem b k, next := st.next + 1 },
   { base := st.next, offset := 0, stride := 1, len := vals.length })

/-- `a.copy()` -/
def copyArr (st : St) (a : Arr) : St × Arr := alloc st (readAll st a)

/-- basic slicing `a[start:stop:step]`: a window on the same buffer -/
def basicSlice (a : Arr) (sl : PySlice) : Option Arr :=
  (sliceBounds sl a.len).map fun b =>
    { base := a.base, offset := a.offset + b.1 * a.stride, stride := a.stride * b.2.2,
      len := (rangeInt b.1 b.2.1 b.2.2).length }

/-- integer-array indexing `a[idx]`: a new buffer -/
def fancy (st : St) (a : Arr) (idx : List Nat) : St × Arr := alloc st (idx.map (read st a))

/-- boolean indexing `a[mask]`: a new buffer -/
def boolIndex (st : St) (a : Arr) (mask : List Bool) : St × Arr :=
  alloc st (maskSelect (readAll st a) mask)

/-- two windows overlap in memory (`np.shares_memory`) -/
def sharesMemory (a b : Arr) : Bool :=
  a.base = b.base && (List.range a.len).any fun i => (List.range b.len).any fun j => a.addr i = b.addr j

/-! ### objects -/

/-- what of a `SampleSet` object can alias: the record (one window per row index; the record is a
    1-d structured array), the `Variables` object, the `info` dict and the mutable containers below it -/
structure Obj where
  record : Arr
  variables : Nat
  infoTop : Nat
  infoNested : List Nat
deriving DecidableEq

/-- fresh object identity -/
def newId (st : St) : St × Nat := ({ st with next := st.next + 1 }, st.next)

def newIds (st : St) (k : Nat) : St × List Nat :=
  ({ st with next := st.next + k }, (List.range k).map (st.next + ·))

/-- how the `info` argument reaches `SampleSet.__init__` (which always does `dict(info)`) -/
inductive InfoMode where
  | passed        -- `self.info` handed on: new top-level dict, nested containers shared
  | deep          -- `copy.deepcopy(self.info)`
  | empty         -- `{}`
deriving DecidableEq

def mkInfo (st : St) (o : Obj) : InfoMode → St × Nat × List Nat
  | .passed => let (st1, t) := newId st; (st1, t, o.infoNested)
  | .deep => let (st1, t) := newId st; let (st2, ns) := newIds st1 o.infoNested.length; (st2, t, ns)
  | .empty => let (st1, t) := newId st; (st1, t, [])

/-- `SampleSet(record, variables, info, vartype)`: always `Variables(variables)` (new object) and
    `dict(info)` -/
def construct (st : St) (o : Obj) (rec : Arr) (mode : InfoMode) : St × Obj :=
  let (st1, v) := newId st
  let (st2, t, ns) := mkInfo st1 o mode
  (st2, { record := rec, variables := v, infoTop := t, infoNested := ns })

/-- the copy-producing functions of `sampleset.py`.  The Boolean of `sliceNone`, `filter`,
    `appendVectors`, `concatOne` is `fixed`: `false` mirrors the code before the repairs D16, D28, D29. -/
inductive Op where
  | copy                                   -- `record.copy()`, `info.copy()`
  | deepcopy                               -- `copy.deepcopy` / pickle
  | sliceNone (fixed : Bool) (sl : PySlice)   -- `record[selector]`            (D16: basic slice)
  | sliceSorted (sel : List Nat)           -- `record[sort_indices[selector]]`
  | lowest (mask : List Bool)              -- `record[close]`; empty receiver: `self.copy()`
  | filter (fixed : Bool) (mask : List Bool)  -- `record[keep]`, info passed on  (D28)
  | aggregate (idx : List Nat)             -- `record[indices]`
  | relabelCopy                            -- `self.copy().relabel_variables(...)`
  | changeVartypeCopy                      -- `self.copy().change_vartype(...)`
  | appendVectors (fixed : Bool)           -- `recfunctions.append_fields` (new array), info passed on (D28)
  | fromSamples                            -- keep/drop/append_variables: `np.zeros` record, deep info
  | concatOne (fixed : Bool)               -- `concatenate([ss])`: `stack_arrays` returns its input (D29)
  | concatMany                             -- `concatenate([ss, …])`

/-- run one function: the new store and the returned object (`none` = raises) -/
def Op.run (st : St) (o : Obj) : Op → Option (St × Obj)
  | .copy => let (st1, r) := copyArr st o.record; some (construct st1 o r .passed)
  | .deepcopy => let (st1, r) := copyArr st o.record; some (construct st1 o r .deep)
  | .sliceNone fixed sl => match basicSlice o.record sl with
    | none => none
    | some v => if fixed then let (st1, r) := copyArr st v; some (construct st1 o r .deep)
                else some (construct st o v .deep)
  | .sliceSorted sel => let (st1, r) := fancy st o.record sel; some (construct st1 o r .deep)
  | .lowest mask =>
    if o.record.len = 0 then let (st1, r) := copyArr st o.record; some (construct st1 o r .passed)
    else let (st1, r) := boolIndex st o.record mask; some (construct st1 o r .deep)
  | .filter fixed mask => let (st1, r) := boolIndex st o.record mask; some (construct st1 o r (if fixed then .deep else .passed))
  | .aggregate idx => let (st1, r) := fancy st o.record idx; some (construct st1 o r .deep)
  | .relabelCopy => let (st1, r) := copyArr st o.record; some (construct st1 o r .passed)
  | .changeVartypeCopy => let (st1, r) := copyArr st o.record; some (construct st1 o r .passed)
  | .appendVectors fixed => let (st1, r) := copyArr st o.record; some (construct st1 o r (if fixed then .deep else .passed))
  | .fromSamples => let (st1, r) := copyArr st o.record; some (construct st1 o r .deep)
  | .concatOne fixed => if fixed then let (st1, r) := copyArr st o.record; some (construct st1 o r .empty)
                        else some (construct st o o.record .empty)
  | .concatMany => let (st1, r) := copyArr st o.record; some (construct st1 o r .empty)

/-- the repaired code -/
def Op.isRepaired : Op → Bool
  | .sliceNone f _ => f
  | .filter f _ => f
  | .appendVectors f => f
  | .concatOne f => f
  | _ => true

/-- functions documented to make a *shallow* copy of `info` (`SampleSet.copy`: "Create a shallow copy") -/
def Op.shallowInfo : Op → Bool
  | .copy => true
  | .relabelCopy => true
  | .changeVartypeCopy => true
  | .lowest _ => true      -- through `self.copy()` when the receiver is empty
  | _ => false

/-! ### models (BQM / QM / CQM): object identities only -/

/-- a model object: the native model and its `Variables` -/
structure MObj where
  data : Nat
  variables : Nat
deriving DecidableEq

inductive MOp where
  | copy | deepcopy | pickle | construct | arithmetic | neg | pos (fixed : Bool) | inplaceFalse | addToCqmCopy
  | view        -- `.spin` / `.binary` / expression views: documented aliases

def MOp.run (next : Nat) (o : MObj) : MOp → Nat × MObj
  | .pos false => (next, o)                     -- `return self` (D27)
  | .view => (next, o)
  | _ => (next + 2, { data := next, variables := next + 1 })

end Store

namespace Store

/-! ### functions that build one sample set from several (`concatenate`) -/

/-- `_iter_records` for one further input: a differing vartype goes through
    `change_vartype(vartype, inplace=False)` = `self.copy()` then the in-place conversion `f` *of the copy*;
    a differing label order through `new_record = samples.record.copy()`; otherwise the input's own record
    is handed to `stack_arrays` (which copies it into the result) -/
def coerceInput (st : St) (inp : Arr) (f : Rat → Rat) (vtDiffers orderDiffers : Bool) : St × Arr :=
  let p1 : St × Arr := if vtDiffers then alloc st ((readAll st inp).map f) else (st, inp)
  if orderDiffers then copyArr p1.1 p1.2 else p1

def coerceAll (st : St) : List (Arr × (Rat → Rat) × Bool × Bool) → St × List Arr
  | [] => (st, [])
  | (a, f, v, o) :: t =>
    let p := coerceInput st a f v o
    let q := coerceAll p.1 t
    (q.1, p.2 :: q.2)

/-- `concatenate([first, *others])` on the records: coerce every further input, then `stack_arrays` -/
def concatInputs (st : St) (first : Arr) (others : List (Arr × (Rat → Rat) × Bool × Bool)) : St × Arr :=
  let q := coerceAll st others
  alloc q.1 ((first :: q.2).flatMap (readAll q.1))

end Store

namespace Store

/-! ### model objects (BQM / QM / CQM) at the granularity the Python / Cython layer exposes

A model object is `(native handle, Variables object, cached views)`: `.data` is the Cython object that owns
the C++ model, `.data.variables` its `Variables`, `._spin` / `._binary` (BQM) or the objective / constraint
views (CQM) are Python objects built *around the parent's handle*.  The heap holds the contents of native
models and of `Variables` objects abstractly. -/

structure MSt where
  native : Nat → List Rat          -- what a native model holds (its coefficients, abstractly)
  vars : Nat → List Nat            -- what a Variables object holds (its labels, abstractly)
  next : Nat

structure Mdl where
  handle : Nat
  variables : Nat
deriving DecidableEq

/-- in-place edits: through a handle, through a Variables object -/
def setNative (st : MSt) (h : Nat) (c : List Rat) : MSt := { st with native := fun k => if k = h then c else st.native k }
def setVars (st : MSt) (v : Nat) (c : List Nat) : MSt := { st with vars := fun k => if k = v then c else st.vars k }

/-- `new = type(self)(vartype); new.cppbqm[0] = self.cppbqm[0]; new.variables = self.variables.copy()` followed by
    whatever the method then does *to the new object* (`f` on the coefficients, `g` on the labels) -/
def freshFrom (st : MSt) (o : Mdl) (f : List Rat → List Rat) (g : List Nat → List Nat) : MSt × Mdl :=
  ({ native := fun k => if k = st.next then f (st.native o.handle) else st.native k,
     vars := fun k => if k = st.next + 1 then g (st.vars o.variables) else st.vars k,
     next := st.next + 2 },
   { handle := st.next, variables := st.next + 1 })

/-- the calls of the property's list, each as coded in the repaired tree -/
inductive MCall where
  | copy | deepcopy | pickle                    -- `__copy__` / `__deepcopy__` / `__reduce__`
  | construct                                   -- `BQM(bqm)`, `type(m)(m)`, `DictBQM(bqm)`, `as_bqm(copy=True)`
  | fromModel                                   -- `QM.from_bqm`, `CQM.from_bqm`, `CQM.from_quadratic_model`
  | relabelCopy | relabelIntsCopy | changeVartypeCopy | fixVariablesCopy    -- `self.copy().<method>(inplace=True)`
  | spinToBinaryCopy (hasSpin : Bool)           -- `QM.spin_to_binary(inplace=False)`: copies whether or not there is a SPIN variable
  | arith                                       -- `m + x`, `m - x`, `m * x`, `m / x`, `x + m`, … : `new = self.copy(); new += x`
  | radd (zero : Bool)                          -- `0 + m` (what `sum()` does): `self + other`, also for zero
  | neg | pos                                   -- `-m`: copy and scale; `+m`: copy
  | view                                        -- `.spin` / `.binary`, `cqm.objective`, `cqm.constraints[l].lhs`: documented aliases

def MCall.run (st : MSt) (o : Mdl) (f : List Rat → List Rat) (g : List Nat → List Nat) : MCall → MSt × Mdl
  | .view => (st, o)                            -- a Python object around the parent's own handle
  | _ => freshFrom st o f g

/-! #### adding a model to a CQM -/

/-- `cyCQM.add_constraint_from_model(model, …, copy)`: with `copy` the constraint gets a copy of the model's data;
    without, the data are *moved* into the CQM and `model.clear()` empties the caller's model (documented) -/
def addConstraintFromModel (st : MSt) (src : Mdl) (copy : Bool) : MSt × Nat :=
  let st1 : MSt := { st with native := fun k => if k = st.next then st.native src.handle else st.native k, next := st.next + 1 }
  (if copy then st1 else setNative st1 src.handle [], st.next)

/-- `add_constraint(model, sense, rhs, label, copy=…)` forwards `copy` by keyword -/
def addConstraint (st : MSt) (src : Mdl) (copy : Bool) : MSt × Nat := addConstraintFromModel st src copy

/-- `add_discrete_from_model(qm, label, copy, check_overlaps)`: the overlap check reads, it never writes -/
def addDiscreteFromModel (st : MSt) (src : Mdl) (copy : Bool) (_checkOverlaps : Bool) : MSt × Nat :=
  addConstraintFromModel st src copy

/-- `add_discrete_from_comparison(comp, label, copy, check_overlaps)` as coded:
    `self.add_discrete_from_model(comp.lhs, label=label, copy=copy, check_overlaps=check_overlaps)` -/
def addDiscreteFromComparison (st : MSt) (lhs : Mdl) (copy checkOverlaps : Bool) : MSt × Nat :=
  addDiscreteFromModel st lhs copy checkOverlaps

end Store
