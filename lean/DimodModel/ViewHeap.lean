import Generated.ViewCache

/-! Object graph of `BinaryQuadraticModel.spin` / `.binary` (property C02, round 8).

`binary_quadratic_model.py`:

    @property
    def binary(self):
        if self.vartype is Vartype.BINARY: return self
        try: bqm = self._binary
        except AttributeError: pass
        else:
            if bqm.vartype is Vartype.BINARY: return bqm
        bqm = type(self).__new__(type(self))
        bqm.data = VartypeView(self.data, Vartype.BINARY)
        bqm._spin = self
        self._binary = bqm
        return bqm                                  (`spin` symmetrically)

    def change_vartype(self, vartype, inplace=True): … self.data.change_vartype(vartype); return self
    vartype = self.data.vartype()

`vartypeview.py`: `VartypeView(data, vartype)` keeps `data` (the parent's `data` OBJECT — the base data or another
`VartypeView`, shared, not copied) and `_vartype`; `change_vartype` only re-assigns `_vartype`; every `@view_method`
passes through to `self.data` when `self._vartype == self.data.vartype()`, else converts (`energies`: the sample values are
mapped, then `self.data.energies`).

The shape of the two properties (test of the cached object's vartype, the two cache links) is REGENERATED from the source by
`harness/translators/c02_view_cache.py` (`Generated/ViewCache.lean`); `getView` / `stack` are defined over those flags.

State: the data cells (cell 0 = the base data with its vartype, cell k+1 = `views[k]` = a `VartypeView` over an earlier cell)
and the model objects (their `data` cell and the two cache attributes).  Everything the cache logic decides — which object
`.binary` / `.spin` returns, when a new view is stacked on a view, what `.vartype` every object reports after in-place
changes of any object — is in `step`.  Core Lean only. -/

namespace ViewHeap

inductive VT | spin | binary
  deriving DecidableEq, Repr

structure Obj where
  data : Nat                      -- cell id of `self.data`
  cBinary : Option Nat := none    -- `self._binary` (object id)
  cSpin : Option Nat := none      -- `self._spin`

structure Heap where
  baseVt : VT
  views : List (Nat × VT) := []   -- cell k+1: `VartypeView(cell views[k].1, views[k].2)`
  objs : List Obj := [{ data := 0 }]

namespace Heap

/-- `data.vartype()` of a cell -/
def cellVt (h : Heap) : Nat → VT
  | 0 => h.baseVt
  | c + 1 => match h.views[c]? with
    | some p => p.2
    | none => h.baseVt

/-- `obj.vartype` -/
def objVt (h : Heap) (o : Nat) : VT := h.cellVt ((h.objs.getD o { data := 0 }).data)

/-- number of `VartypeView` layers between a cell and the base data -/
def depth (h : Heap) : Nat → Nat → Nat
  | 0, _ => 0
  | _, 0 => 0
  | fuel + 1, c + 1 => match h.views[c]? with
    | some p => depth h fuel p.1 + 1
    | none => 0

def objDepth (h : Heap) (o : Nat) : Nat := h.depth (h.views.length + 1) ((h.objs.getD o { data := 0 }).data)

def setObj (h : Heap) (o : Nat) (f : Obj → Obj) : Heap :=
  { h with objs := h.objs.set o (f (h.objs.getD o { data := 0 })) }

/-- the tail of the `binary` / `spin` property: a new object over a new `VartypeView(self.data, vt)`, caches linked both ways -/
def stack (h : Heap) (o : Nat) (vt : VT) : Heap × Nat :=
  ({ h with
      views := h.views ++ [((h.objs.getD o { data := 0 }).data, vt)],
      objs := (h.objs.set o (match vt with
                | .binary => { (h.objs.getD o { data := 0 }) with
                    cBinary := if Generated.ViewCache.cachesNew then some h.objs.length else (h.objs.getD o { data := 0 }).cBinary }
                | .spin => { (h.objs.getD o { data := 0 }) with
                    cSpin := if Generated.ViewCache.cachesNew then some h.objs.length else (h.objs.getD o { data := 0 }).cSpin }))
              ++ [match vt with
                | .binary => ({ data := h.views.length + 1, cSpin := if Generated.ViewCache.linksBack then some o else none } : Obj)
                | .spin => ({ data := h.views.length + 1, cBinary := if Generated.ViewCache.linksBack then some o else none } : Obj)] },
   h.objs.length)

/-- `obj.binary` (`vt = .binary`) / `obj.spin` (`vt = .spin`): the new heap and the object returned -/
def getView (h : Heap) (o : Nat) (vt : VT) : Heap × Nat :=
  if h.objVt o = vt then (h, o)
  else
    match (match vt with | .binary => (h.objs.getD o { data := 0 }).cBinary | .spin => (h.objs.getD o { data := 0 }).cSpin) with
    | some b => if Generated.ViewCache.checksCachedVartype = false ∨ h.objVt b = vt then (h, b) else h.stack o vt
    | none => h.stack o vt

/-- `obj.change_vartype(vt, inplace=True)`: on the base data the model is converted in place (its vartype changes, the
    energy function does not: the C02 conversion theorems); on a `VartypeView` only `_vartype` is re-assigned -/
def changeVartype (h : Heap) (o : Nat) (vt : VT) : Heap :=
  match (h.objs.getD o { data := 0 }).data with
  | 0 => { h with baseVt := vt }
  | c + 1 => { h with views := h.views.set c ((h.views.getD c (0, vt)).1, vt) }

inductive Op
  | binary (o : Nat)
  | spin (o : Nat)
  | changeVartype (o : Nat) (vt : VT)

/-- one call; the second component is the object the call returns -/
def step (h : Heap) : Op → Heap × Nat
  | .binary o => if o < h.objs.length then h.getView o .binary else (h, o)
  | .spin o => if o < h.objs.length then h.getView o .spin else (h, o)
  | .changeVartype o vt => if o < h.objs.length then (h.changeVartype o vt, o) else (h, o)

def run (h : Heap) (ops : List Op) : Heap := ops.foldl (fun h op => (h.step op).1) h

/-! ## what is read through a cell -/

/-- a sample of vartype `vt` as the spin sample it stands for -/
def toSpin (vt : VT) (x : Nat → Rat) : Nat → Rat :=
  match vt with
  | .spin => x
  | .binary => fun i => 2 * x i - 1

/-- `VartypeView.energies`: the sample values mapped from the view's vartype `a` to the data's vartype `b`
    (`samples *= 2; samples -= 1` / `samples += 1; samples //= 2`; pass-through when equal) -/
def conv (a b : VT) (x : Nat → Rat) : Nat → Rat :=
  match a, b with
  | .binary, .spin => fun i => 2 * x i - 1
  | .spin, .binary => fun i => (x i + 1) / 2
  | _, _ => x

/-- `energies` through a cell; `F` = the energy function of the base data on spin samples (invariant under the base's
    in-place conversions) -/
def cellVal (F : (Nat → Rat) → Rat) (h : Heap) : Nat → Nat → (Nat → Rat) → Rat
  | 0, _, _ => 0
  | _ + 1, 0, x => F (toSpin h.baseVt x)
  | fuel + 1, c + 1, x => match h.views[c]? with
    | some p => cellVal F h fuel p.1 (conv p.2 (h.cellVt p.1) x)
    | none => 0

/-- `obj.energies(x)` -/
def objVal (F : (Nat → Rat) → Rat) (h : Heap) (o : Nat) (x : Nat → Rat) : Rat :=
  cellVal F h (h.views.length + 1) ((h.objs.getD o { data := 0 }).data) x

/-- every view refers to an earlier cell; every object and cache attribute refers to an existing cell / object -/
structure WF (h : Heap) : Prop where
  views : ∀ (k : Nat) (p : Nat × VT), h.views[k]? = some p → p.1 ≤ k
  objs : ∀ o ∈ h.objs, o.data ≤ h.views.length
  nonempty : 0 < h.objs.length

end Heap

/-- the heap right after `m = BQM(vt)` -/
def init (vt : VT) : Heap := { baseVt := vt }

end ViewHeap
