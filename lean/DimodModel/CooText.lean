import DimodModel.SampleSet

/-! Text-level model of `dimod/serialization/coo.py` (C11).  Core Lean only.

    Text is `List Char`.  The writer is `_iter_triplets` + `'\n'.join` as coded: the optional header line
    `# vartype=NAME`, then one line `'%d %d %f' % (u, v, bias)` per emitted triple.  `'%f' % x` is modelled on the exact
    rational value of the double `x`: sign, integer digits, `.`, exactly six fractional digits, the value rounded to
    millionths by round-half-even on the exact value (what C `printf` / `PyOS_double_to_string` do: correctly rounded).

    The reader is `load` as coded: every line goes through both regular expressions,
      `_LINE_REGEX           = ^\s*(\d+)\s+(\d+)\s+([+-]?\d*(?:\.\d+)?)\s*$`
      `_VARTYPE_HEADER_REGEX = ^[ \t\f]*#.*?vartype[:=][ \t]*([-_.a-zA-Z0-9]+)`
    then `u == v` is decided on the matched *strings*, `int()` / `float()` convert the groups, `add_variable` /
    `add_interaction` are called in line order.  Because consecutive pieces of `_LINE_REGEX` start with disjoint
    character classes (`\s`, `\d`, `[+-]`, `.`) the backtracking matcher can only succeed with every greedy piece
    maximal (a shorter piece leaves a character the next piece cannot take; the only piece that may be empty is group 3,
    and a shorter `\s+` before it succeeds only when nothing but white space follows, where the maximal choice succeeds
    with the same groups) — so the matcher is the deterministic maximal-munch scanner `matchTriple`.  The lazy `.*?` of
    the header is the left-most position at which the rest of the pattern matches (`scanVartype`).

    Limits of the model (validated by correspondence only): character classes are those of Python `str` patterns
    restricted to code points below 256 (`\d` = 0-9, `\s` = 9-13, 28-32, 0x85, 0xa0); `float(s)` keeps the exact decimal
    value where the code keeps the binary64 nearest to it (the harness compares with that binary64); `inf` / `nan` /
    `-0.0` biases have no rational value. -/

namespace CooText
open SSM

/-! ### numbers as text -/

def digitChar (d : Nat) : Char := Char.ofNat (48 + d)

/-- `'%d' % n` for `n ≥ 0` -/
def natDigits (n : Nat) : List Char :=
  if n < 10 then [digitChar n] else natDigits (n / 10) ++ [digitChar (n % 10)]

/-- `int(s)` for `s` matched by `\d+` -/
def parseNat (cs : List Char) : Nat := cs.foldl (fun acc c => acc * 10 + (c.toNat - 48)) 0

/-- the bias in millionths as `%f` rounds it: round-half-even on the exact value `x.num / x.den` -/
def round6 (x : Rat) : Int :=
  let n := x.num * 1000000
  let d : Int := x.den
  let f := n / d
  let r := n % d
  if 2 * r < d then f else if d < 2 * r then f + 1 else if f % 2 = 0 then f else f + 1

/-- six digits with leading zeros -/
def pad6 (k : Nat) : List Char :=
  [digitChar (k / 100000 % 10), digitChar (k / 10000 % 10), digitChar (k / 1000 % 10), digitChar (k / 100 % 10),
   digitChar (k / 10 % 10), digitChar (k % 10)]

/-- `'%f' % x`: the sign is the sign of `x` itself (`-0.000000` for a tiny negative value) -/
def printF (x : Rat) : List Char :=
  let a := (round6 x).natAbs
  (if x.num < 0 then ['-'] else []) ++ natDigits (a / 1000000) ++ '.' :: pad6 (a % 1000000)

/-- `'%d %d %f' % (u, v, bias)` -/
def printLine (t : Nat × Nat × Rat) : List Char :=
  natDigits t.1 ++ ' ' :: (natDigits t.2.1 ++ ' ' :: printF t.2.2)

def vtName : VT → List Char
  | .spin => ['S', 'P', 'I', 'N']
  | .binary => ['B', 'I', 'N', 'A', 'R', 'Y']
  | .integer => ['I', 'N', 'T', 'E', 'G', 'E', 'R']
  | .real => ['R', 'E', 'A', 'L']

/-- `'# vartype=%s' % bqm.vartype.name` -/
def headerLine (vt : VT) : List Char := ['#', ' ', 'v', 'a', 'r', 't', 'y', 'p', 'e', '='] ++ vtName vt

/-! ### the writer -/

/-- the body of the double loop of `_iter_triplets` for one pair `(u, v)` -/
def entry (lin : Nat → Rat) (quad : Nat → Nat → Option Rat) (u v : Nat) : Option (Nat × Nat × Rat) :=
  if u = v then (if lin u ≠ 0 then some (u, u, lin u) else none)
  else (quad u v).map fun b => (u, v, b)

/-- `for idx, u in enumerate(variables): for v in variables[idx:]` -/
def rows (lin : Nat → Rat) (quad : Nat → Nat → Option Rat) : List Nat → List (Nat × Nat × Rat)
  | [] => []
  | u :: rest => (u :: rest).filterMap (entry lin quad u) ++ rows lin quad rest

/-- the triples `_iter_triplets` yields, over `sorted(bqm.variables)` -/
def triples (labels : List Nat) (lin : Nat → Rat) (quad : Nat → Nat → Option Rat) : List (Nat × Nat × Rat) :=
  rows lin quad (labels.mergeSort fun a b => decide (a ≤ b))

/-- the lines `_iter_triplets` yields -/
def dumpLines (hdr : Bool) (vt : VT) (labels : List Nat) (lin : Nat → Rat) (quad : Nat → Nat → Option Rat) : List (List Char) :=
  (if hdr then [headerLine vt] else []) ++ (triples labels lin quad).map printLine

/-- `'\n'.join(lines)` -/
def joinNl : List (List Char) → List Char
  | [] => []
  | [l] => l
  | l :: r => l ++ '\n' :: joinNl r

/-- `coo.dumps(bqm, vartype_header)` -/
def dumps (hdr : Bool) (vt : VT) (labels : List Nat) (lin : Nat → Rat) (quad : Nat → Nat → Option Rat) : List Char :=
  joinNl (dumpLines hdr vt labels lin quad)

/-! ### the reader -/

/-- `s.split('\n')` -/
def splitNl : List Char → List (List Char)
  | [] => [[]]
  | c :: t =>
    if c = '\n' then [] :: splitNl t
    else match splitNl t with
      | h :: r => (c :: h) :: r
      | [] => [[c]]

/-- the longest prefix whose characters satisfy `p`, and the rest -/
def spanP (p : Char → Bool) : List Char → List Char × List Char
  | [] => ([], [])
  | c :: t => if p c then ((c :: (spanP p t).1), (spanP p t).2) else ([], c :: t)

/-- `\s` -/
def isSpace (c : Char) : Bool :=
  (9 ≤ c.toNat && c.toNat ≤ 13) || (28 ≤ c.toNat && c.toNat ≤ 32) || c.toNat = 133 || c.toNat = 160
/-- `\d` -/
def isDigit (c : Char) : Bool := 48 ≤ c.toNat && c.toNat ≤ 57
/-- `[ \t]` -/
def isBlank (c : Char) : Bool := c.toNat = 32 || c.toNat = 9
/-- `[ \t\f]` -/
def isHdrBlank (c : Char) : Bool := c.toNat = 32 || c.toNat = 9 || c.toNat = 12
/-- `[-_.a-zA-Z0-9]` -/
def isNameChar (c : Char) : Bool := c.isAlphanum || c = '-' || c = '_' || c = '.'

/-- `[+-]?` at the head -/
def takeSign : List Char → List Char × List Char
  | [] => ([], [])
  | c :: t => if c = '+' ∨ c = '-' then ([c], t) else ([], c :: t)

/-- `(?:\.\d+)?` at the head -/
def takeFrac : List Char → List Char × List Char
  | [] => ([], [])
  | c :: t =>
    if c = '.' then (if (spanP isDigit t).1.isEmpty then ([], c :: t) else (c :: (spanP isDigit t).1, (spanP isDigit t).2))
    else ([], c :: t)

/-- `_LINE_REGEX` on one line: the three groups, or no match -/
def matchTriple (s : List Char) : Option (List Char × List Char × List Char) :=
  let s1 := (spanP isSpace s).2
  let u := (spanP isDigit s1).1
  let s2 := (spanP isDigit s1).2
  if u.isEmpty then none else
  let w1 := (spanP isSpace s2).1
  let s3 := (spanP isSpace s2).2
  if w1.isEmpty then none else
  let v := (spanP isDigit s3).1
  let s4 := (spanP isDigit s3).2
  if v.isEmpty then none else
  let w2 := (spanP isSpace s4).1
  let s5 := (spanP isSpace s4).2
  if w2.isEmpty then none else
  let sg := (takeSign s5).1
  let s6 := (takeSign s5).2
  let ip := (spanP isDigit s6).1
  let s7 := (spanP isDigit s6).2
  let fp := (takeFrac s7).1
  let s8 := (takeFrac s7).2
  if (spanP isSpace s8).2.isEmpty then some (u, v, sg ++ (ip ++ fp)) else none

def dropPrefix : List Char → List Char → Option (List Char)
  | [], s => some s
  | _ :: _, [] => none
  | a :: p, c :: s => if a = c then dropPrefix p s else none

/-- `vartype[:=][ \t]*([-_.a-zA-Z0-9]+)` at the head of `s` -/
def matchVartypeAt (s : List Char) : Option (List Char) :=
  match dropPrefix ['v', 'a', 'r', 't', 'y', 'p', 'e'] s with
  | some (c :: t) =>
    if c = ':' ∨ c = '=' then
      let n := (spanP isNameChar (spanP isBlank t).2).1
      if n.isEmpty then none else some n
    else none
  | _ => none

/-- `.*?` followed by the rest of the header pattern: the left-most position that works (`.` does not cross `\n`) -/
def scanVartype : List Char → Option (List Char)
  | [] => none
  | c :: t => match matchVartypeAt (c :: t) with
    | some n => some n
    | none => if c = '\n' then none else scanVartype t

/-- `_VARTYPE_HEADER_REGEX` on one line: the name, or no match -/
def matchHeader (s : List Char) : Option (List Char) :=
  match (spanP isHdrBlank s).2 with
  | c :: t => if c = '#' then scanVartype t else none
  | [] => none

/-- `Vartype[name]` (`DISCRETE` is an alias of `INTEGER`); `none` = KeyError -/
def vtOfName (n : List Char) : Option VT :=
  if n = vtName .spin then some .spin else if n = vtName .binary then some .binary
  else if n = vtName .integer then some .integer else if n = vtName .real then some .real
  else if n = ['D', 'I', 'S', 'C', 'R', 'E', 'T', 'E'] then some .integer else none

/-- the local `vartype` of `load`: `None`, a header string not yet looked up, or a `Vartype` -/
inductive VState | unset | name (n : List Char) | vt (v : VT)

abbrev Groups := List Char × List Char × List Char

/-- the body of `for line in fp:`; `none` = an exception (KeyError / ValueError) -/
def stepLine (st : Option (VState × List Groups)) (line : List Char) : Option (VState × List Groups) :=
  match st with
  | none => none
  | some (vs, tr) =>
    let tr' := tr ++ (matchTriple line).toList
    match matchHeader line with
    | none => some (vs, tr')
    | some n =>
      match vs with
      | .unset => some (.name n, tr')
      | .name m =>
        (match vtOfName m, vtOfName n with
         | some a, some b => if b ≠ a then none else some (.vt a, tr')
         | _, _ => none)
      | .vt a =>
        (match vtOfName n with
         | some b => if b ≠ a then none else some (.vt a, tr')
         | none => none)

/-- `float(s)` for a string matched by group 3: exact decimal value; `none` = ValueError (no digit at all) -/
def parseDec (s : List Char) : Option Rat :=
  let sg := (takeSign s).1
  let ip := (spanP isDigit (takeSign s).2).1
  let rest := (spanP isDigit (takeSign s).2).2
  let fp := match rest with | _ :: t => (spanP isDigit t).1 | [] => []
  if ip.isEmpty && fp.isEmpty then none
  else
    let m : Int := (parseNat ip * 10 ^ fp.length + parseNat fp : Nat)
    some (mkRat (if sg = ['-'] then -m else m) (10 ^ fp.length))

/-- one `add_variable(int(u), float(bias))` / `add_interaction(int(u), int(v), float(bias))`; the test `u == v` is on the
    strings; `add_interaction` refuses equal labels -/
def callOf (g : Groups) : Option (Nat × Nat × Rat) :=
  if g.1 = g.2.1 then (parseDec g.2.2).map fun b => (parseNat g.1, parseNat g.1, b)
  else if parseNat g.1 = parseNat g.2.1 then none
  else (parseDec g.2.2).map fun b => (parseNat g.1, parseNat g.2.1, b)

def allSome : List (Option α) → Option (List α)
  | [] => some []
  | none :: _ => none
  | some a :: t => (allSome t).map (a :: ·)

/-- `BinaryQuadraticModel.empty(vartype)` → `as_vartype` -/
def finishVartype : VState → Option VT
  | .unset => none
  | .name n => (match vtOfName n with | some .spin => some .spin | some .binary => some .binary | _ => none)
  | .vt .spin => some .spin
  | .vt .binary => some .binary
  | .vt _ => none

/-- `coo.load(lines, vartype=arg)`: the vartype of the result and the mutator calls in order; `none` = an exception -/
def loadLines (arg : Option VT) (lines : List (List Char)) : Option (VT × List (Nat × Nat × Rat)) :=
  match lines.foldl stepLine (some ((match arg with | none => .unset | some a => .vt a), [])) with
  | none => none
  | some (vs, tr) =>
    match finishVartype vs with
    | none => none
    | some vt => (allSome (tr.map callOf)).map fun calls => (vt, calls)

/-- `coo.loads(s, vartype=arg)` -/
def loads (arg : Option VT) (s : List Char) : Option (VT × List (Nat × Nat × Rat)) := loadLines arg (splitNl s)

/-! ### what the calls build (`add_variable` / `add_interaction` accumulate) -/

def linOf (calls : List (Nat × Nat × Rat)) (u : Nat) : Rat := ((calls.filter fun x => x.1 = u ∧ x.2.1 = u).map (·.2.2)).sum

def quadOf (calls : List (Nat × Nat × Rat)) (u v : Nat) : Rat :=
  ((calls.filter fun x => x.1 ≠ x.2.1 ∧ ((x.1 = u ∧ x.2.1 = v) ∨ (x.1 = v ∧ x.2.1 = u))).map (·.2.2)).sum

/-- the variables of the loaded model, in order of first appearance -/
def varsOf (calls : List (Nat × Nat × Rat)) : List Nat := (calls.flatMap fun x => [x.1, x.2.1]).eraseDups

end CooText
