/-! # File readers as programs over a byte stream  (C09 / C10, shared layer)

`Prog α` is a deep embedding of "a Python function that calls `file.read(n)` some number of times
and then returns, raises, or runs into an unchecked out-of-bounds buffer access".  `Prog.run`
interprets it over `List UInt8`; a read at end of input comes back *short* exactly as `file.read`
does.  `Prog.runS` is the same interpreter with one ghost flag: "some read so far came back short".

Everything in `dimod/serialization/fileview.py` and the `from_file` methods is written as a `Prog`
term (`DimodModel/BqmFile.lean`, `DimodModel/CqmFile.lean`); the generic facts (a parse that saw no
short read is unchanged by appending bytes, …) are proved once for all `Prog`s in
`DimodProofs/Reader.lean`.  Core Lean only. -/

namespace FileFmt

abbrev Bytes := List UInt8

/-- exception classes the loaders can raise (Python side: `harness/props/c10.py:classify`) -/
inductive FErr
  | value      -- ValueError (not one of the subclasses below)
  | structErr  -- struct.error
  | json       -- json.JSONDecodeError
  | index      -- IndexError
  | runtime    -- RuntimeError
  | key        -- KeyError
  | type       -- TypeError
  | unicode    -- UnicodeDecodeError
  | zip        -- zipfile.BadZipFile
  deriving Repr, DecidableEq

def FErr.name : FErr → String
  | .value => "value" | .structErr => "struct" | .json => "json" | .index => "index"
  | .runtime => "runtime" | .key => "key" | .type => "type" | .unicode => "unicode" | .zip => "zip"

/-- three-valued outcome: returned, raised, or undefined behaviour (read outside a buffer with
    bounds checking off) -/
inductive Res (α : Type) where
  | ok (a : α)
  | err (e : FErr)
  | ub
  deriving Repr

def Res.isOk : Res α → Bool | .ok _ => true | _ => false
def Res.isErr : Res α → Bool | .err _ => true | _ => false
def Res.isUb : Res α → Bool | .ub => true | _ => false

def Res.bind : Res α → (α → Res β) → Res β
  | .ok a, f => f a
  | .err e, _ => .err e
  | .ub, _ => .ub

def Res.map (f : α → β) : Res α → Res β
  | .ok a => .ok (f a)
  | .err e => .err e
  | .ub => .ub

instance : Monad Res where
  pure := .ok
  bind := Res.bind

/-- a reader program -/
inductive Prog (α : Type) where
  | ret (a : α)
  | fail (e : FErr)
  | ub
  | read (n : Nat) (k : Bytes → Prog α)

namespace Prog

def bind : Prog α → (α → Prog β) → Prog β
  | .ret a, f => f a
  | .fail e, _ => .fail e
  | .ub, _ => .ub
  | .read n k, f => .read n (fun b => (k b).bind f)

instance : Monad Prog where
  pure := .ret
  bind := Prog.bind

/-- a pure three-valued computation as a program that reads nothing -/
def ofRes : Res α → Prog α
  | .ok a => .ret a
  | .err e => .fail e
  | .ub => .ub

/-- `file.read(n)` semantics: up to `n` bytes -/
def run : Prog α → Bytes → Res (α × Bytes)
  | .ret a, s => .ok (a, s)
  | .fail e, _ => .err e
  | .ub, _ => .ub
  | .read n k, s => (k (s.take n)).run (s.drop n)

/-- the same interpreter with a ghost flag: did any read so far come back short? -/
def runS : Prog α → Bytes → Bool → Res (α × Bytes × Bool)
  | .ret a, s, sh => .ok (a, s, sh)
  | .fail e, _, _ => .err e
  | .ub, _, _ => .ub
  | .read n k, s, sh => (k (s.take n)).runS (s.drop n) (sh || decide (s.length < n))

/-- `file.read(n)` as it is: whatever is there -/
def readN (n : Nat) : Prog Bytes := .read n .ret

/-- `b = file.read(n); if len(b) < n: raise e` -/
def readExact (n : Nat) (e : FErr) : Prog Bytes :=
  .read n fun b => if b.length < n then .fail e else .ret b

/-- `m = file.read(len(magic)); if m != magic: raise ValueError` -/
def expect (magic : Bytes) : Prog Unit :=
  .read magic.length fun m => if m = magic then .ret () else .fail .value

end Prog

/-! ## integers, padding -/

/-- little-endian unsigned -/
def leNat : Bytes → Nat
  | [] => 0
  | b :: t => b.toNat + 256 * leNat t

/-- `np.frombuffer(file.read(nlb), '<u{nlb}')[0]`: IndexError on nothing, ValueError on a partial
    item -/
def Prog.readLen (nlb : Nat) : Prog Nat :=
  .read nlb fun lb =>
    if lb.length = 0 then .fail .index
    else if lb.length < nlb then .fail .value
    else .ret (leNat lb)

/-- `k` little-endian bytes of `n` (mod 256^k) -/
def toLE : Nat → Nat → Bytes
  | 0, _ => []
  | k + 1, n => UInt8.ofNat (n % 256) :: toLE k (n / 256)

/-- two's complement little-endian signed integer of `b.length` bytes -/
def leInt (b : Bytes) : Int :=
  let u := leNat b
  if 2 * u < 256 ^ b.length then (u : Int) else (u : Int) - (256 ^ b.length : Nat)

def spaces (n : Nat) : Bytes := List.replicate n 32

/-- number of pad bytes that bring `total` to a multiple of 64 -/
def padLen (total : Nat) : Nat := (64 - total % 64) % 64

/-- Python tuple comparison `a < b` on tuples of ints -/
def tupleLt : List Nat → List Nat → Bool
  | [], [] => false
  | [], _ :: _ => true
  | _ :: _, [] => false
  | a :: as, b :: bs => if a < b then true else if b < a then false else tupleLt as bs

/-! ## `np.frombuffer` on packed records -/

/-- `c` consecutive records of `rs` bytes -/
def chunksN (rs : Nat) : Nat → Bytes → List Bytes
  | 0, _ => []
  | c + 1, d => d.take rs :: chunksN rs c (d.drop rs)

/-- `np.frombuffer(data, dtype=<packed record of rs bytes>)`: ValueError unless the length is a
    multiple of the record size (`rs > 0` for every dtype) -/
def frombuffer (rs : Nat) (data : Bytes) : Res (List Bytes) :=
  if data.length % rs ≠ 0 then .err .value else .ok (chunksN rs (data.length / rs) data)

/-! ## headers (`fileview.make_header` / `read_header`) -/

/-- `make_header(prefix, data, version)`; `text = json.dumps(data, sort_keys=True).encode('ascii')`
    is produced outside the model -/
def makeHeader (pre : Bytes) (maj min : UInt8) (text : Bytes) : Bytes :=
  let pad := padLen (pre.length + 2 + 4 + text.length + 1)
  pre ++ [maj, min] ++ toLE 4 (text.length + 1 + pad) ++ text ++ [10] ++ spaces pad

/-- `read_header(file_like, prefix)`; `parse` stands for `json.loads(bytes.decode('ascii'))`
    followed by picking the fields the caller uses -/
def headerValue (parse : Bytes → Option H) (v js : Bytes) : Res (List Nat × H) :=
  if js.any (fun b => b ≥ 128) then .err .unicode else     -- .decode('ascii')
  match parse js with
  | none => .err .json
  | some h => .ok (v.map (·.toNat), h)

def readHeader (pre : Bytes) (parse : Bytes → Option H) : Prog (List Nat × H) :=
  (Prog.expect pre).bind fun _ =>
  (Prog.readN 2).bind fun v =>                      -- tuple(file_like.read(2))
  (Prog.readExact 4 .structErr).bind fun lb =>      -- struct.unpack('<I', file_like.read(4))
  (Prog.readN (leNat lb)).bind fun js =>
  Prog.ofRes (headerValue parse v js)

/-! ## sections (`fileview.Section.dumps` / `Section.load`) -/

/-- `Section.dumps`: magic, little-endian length (`nlb` bytes) of data+padding, data, padding -/
def sectionDumps (magic : Bytes) (nlb : Nat) (data : Bytes) : Bytes :=
  let pad := padLen (data.length + magic.length + nlb)
  magic ++ toLE nlb (data.length + pad) ++ data ++ spaces pad

/-- `Section.load` with a pure `loads_data`: magic, length, `loads_data(fp.read(length))`.
    The data handed to `loads` still carries its padding. -/
def sectionLoadWith (magic : Bytes) (nlb : Nat) (loads : Bytes → Res α) : Prog α :=
  (Prog.expect magic).bind fun _ =>
  (Prog.readLen nlb).bind fun n =>
  (Prog.readN n).bind fun d =>
  Prog.ofRes (loads d)

/-- `Section.load` returning the raw data -/
def sectionLoad (magic : Bytes) (nlb : Nat) : Prog Bytes := sectionLoadWith magic nlb .ok

/-! ## the JSON oracle used by the compiled driver

`json.loads` is a parameter of the model.  The driver instantiates it with this function: the text
`text` (what `json.dumps` produced, known to the harness) followed by JSON whitespace parses to the
value `v`; nothing else parses.  `DimodProofs/Reader.lean` shows it satisfies the contract the
theorems assume. -/

def isJsonWs (b : UInt8) : Bool := b = 32 || b = 10 || b = 13 || b = 9

def oracleParse (text : Bytes) (v : α) (b : Bytes) : Option α :=
  if text.isPrefixOf b && (b.drop text.length).all isJsonWs then some v else none

end FileFmt
