import DimodModel.Fix

/-! # C02 — the dict back-end (`pybqm.py`) along edit histories

`pyBQM.change_vartype` makes one pass over `_adj.items()` and, inside it, over every neighbourhood dict: what it computes
depends on the *state of the dicts* the history left behind (which keys exist, where the variable's own entry sits in its
neighbourhood, that both copies of an interaction are there).  This file adds the one data-level mutator of `pyBQM` that
was not in the model, `relabel_variables` (one `(old, new)` pair of a safe sub-mapping, as coded: the linear entry first,
the interactions re-inserted one by one, the old neighbourhood deleted), the raw insertion order as an observable, and the
type of data-level calls a history is made of.  Core Lean only. -/

namespace En

variable {R : Type}

namespace LBqm

/-- one iteration of `for v in adj[old]: adj[new][v] = adj[v][new] = adj[v].pop(old)`; `p` is the item `(v, bias)` of
    `adj[old]` the loop is at (only its key is used by the code; the popped value is `adj[v][old]`) -/
def relabelMove (old new : Label) (adj : ODict Label (ODict Label R)) (p : Label × R) : ODict Label (ODict Label R) :=
  let nv := (adj.get? p.1).getD []
  let x := (nv.get? old).getD p.2
  let adj := adj.set new (((adj.get? new).getD []).set p.1 x)
  adj.set p.1 ((((adj.get? p.1).getD []).pop old).set new x)

/-- `relabel_variables`, the body for one pair `old → new` of a safe sub-mapping (`iter_safe_relabels` guarantees that
    `new` is not a current label):
    ```
    if old == new or old not in adj: continue
    adj[new] = {new: adj[old].pop(old)}
    for v in adj[old]: adj[new][v] = adj[v][new] = adj[v].pop(old)
    del adj[old]
    ``` -/
def relabelOne (m : LBqm R) (old new : Label) : LBqm R :=
  if old = new then m else
  match m.adj.get? old with
  | none => m
  | some nold =>
    let first : ODict Label R := match nold.get? old with | some b => [(new, b)] | none => []
    let adj := m.adj.set new first
    let adj := (nold.pop old).foldl (relabelMove old new) adj
    { m with adj := adj.pop old }

/-- `pyBQM.set_quadratic(u, v, bias)` on the data itself: checked first, `add_variable(u)`, `add_variable(v)`, then
    `_adj[u][v] = _adj[v][u] = bias` -/
def setQuadratic [Add R] [Zero R] (m : LBqm R) (u v : Label) (b : R) : Except Err (LBqm R) :=
  if u = v then .error .value else
  let d1 := (m.addVariable u).addVariable v
  let nu := ((d1.adj.get? u).getD []).set v b
  let adj := d1.adj.set u nu
  let adj := adj.set v (((adj.get? v).getD []).set u b)
  .ok { d1 with adj }

/-- `QuadraticViewsMixin.fix_variables(fixed)` on the dict back-end: `for v, val in fixed: fix_variable(v, val)`; the first
    raising call ends the loop -/
def fixVariables [Add R] [Mul R] [Zero R] (m : LBqm R) : List (Label × R) → Except Err (LBqm R)
  | [] => .ok m
  | p :: rest => match m.fixVariable p.1 p.2 with
    | .ok m' => fixVariables m' rest
    | .error e => .error e

/-- insertion order of `_adj` and of every neighbourhood -/
def rawOrder (m : LBqm R) : List (Label × List Label) := m.adj.map fun p => (p.1, p.2.map (·.1))

/-- data-level calls of `pyBQM` a history is made of (everything the composite methods of `BinaryQuadraticModel` —
    `contract_variables`, `fix_variable`, `flip_variable`, `update`, `scale`, the bulk adders, the view writes — are
    built from) -/
inductive HOp (R : Type) where
  | addLinear (v : Label) (b : R)
  | setLinear (v : Label) (b : R)
  | addQuadratic (u v : Label) (b : R)
  | setQuadratic (u v : Label) (b : R)
  | removeInteraction (u v : Label)
  | removeVariable (v : Label)
  | relabel (old new : Label)
  | setOffset (b : R)
  | changeVartype (vt : VT)

open Generated.Vartype in
/-- one call; a raising call leaves the model as it was -/
def hstep (m : LBqm Rat) : HOp Rat → LBqm Rat
  | .addLinear v b => m.addLinear v b
  | .setLinear v b => m.setLinear v b
  | .addQuadratic u v b => match m.addQuadratic u v b with | .ok m' => m' | .error _ => m
  | .setQuadratic u v b => match m.setQuadratic u v b with | .ok m' => m' | .error _ => m
  | .removeInteraction u v => match m.removeInteraction u v with | .ok m' => m' | .error _ => m
  | .removeVariable v => match m.removeVariable v with | .ok m' => m' | .error _ => m
  | .relabel old new => if m.adj.contains new then m else m.relabelOne old new
  | .setOffset b => { m with off := b }
  | .changeVartype vt => m.changeVartypeWith pyToBinary pyToSpin vt

/-- a history from the empty model of vartype `vt` -/
def hrun (vt : VT) (ops : List (HOp Rat)) : LBqm Rat := ops.foldl hstep { vt, adj := [], off := 0 }

/-- calls issued through the model itself or through a `.spin` / `.binary` view object of vartype `view` (fresh or held across
    vartype changes: `View.*` falls back to the data's own method when the vartypes coincide) -/
inductive VOp (R : Type) where
  | addLinear (v : Label) (b : R)
  | setLinear (v : Label) (b : R)
  | addVariable (v : Label) (b : R)
  | addQuadratic (u v : Label) (b : R)
  | setQuadratic (u v : Label) (b : R)
  | removeInteraction (u v : Label)
  | removeVariable (v : Label)
  | setOffset (b : R)
  | baseSetQuadratic (u v : Label) (b : R)
  | relabel (old new : Label)
  | changeVartype (vt : VT)

open Generated.Vartype in
/-- one call through an object of vartype `view`; `baseSetQuadratic` (the model's own `set_quadratic`, which unlike the
    view's is the data method), `relabel_variables` and `change_vartype` act on the data -/
def vstep (m : LBqm Rat) (c : VT × VOp Rat) : LBqm Rat :=
  let T := viewTables
  match c.2 with
  | .addLinear v b => View.addLinear T c.1 m v b
  | .setLinear v b => match View.setLinear T c.1 m v b with | .ok m' => m' | .error _ => m
  | .addVariable v b => View.addVariable T c.1 m v b
  | .addQuadratic u v b => match View.addQuadratic T c.1 m u v b with | .ok m' => m' | .error _ => m
  | .setQuadratic u v b => (View.setQuadratic T c.1 m u v b).1
  | .removeInteraction u v => (View.removeInteraction T c.1 m u v).1
  | .removeVariable v => (View.removeVariable T c.1 m v).1
  | .setOffset b => match View.setOffset T c.1 m b with | .ok m' => m' | .error _ => m
  | .baseSetQuadratic u v b => m.hstep (.setQuadratic u v b)
  | .relabel old new => m.hstep (.relabel old new)
  | .changeVartype vt => m.hstep (.changeVartype vt)

/-- a history of calls through the model and its views, from the empty model -/
def vrun (vt : VT) (calls : List (VT × VOp Rat)) : LBqm Rat := calls.foldl vstep { vt, adj := [], off := 0 }

end LBqm

end En
