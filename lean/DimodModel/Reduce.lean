import DimodModel.GateBag
import Generated.Gates
import Generated.HocLayout

/-! # C15 — higher-order reduction: executable models (core Lean only)

Anchors: `dimod/higherorder/utils.py` (`reduce_binary_polynomial`, `_decrement_count`, `_remove_old`,
`_new_product`, `_new_aux`, `_spin_product`, `make_quadratic`, `make_quadratic_cqm`),
`dimod/higherorder/polynomial.py` (`BinaryPolynomial.__init__`: SPIN terms drop variables of even
multiplicity, equal terms are summed), `dimod/generators/gates.py:and_gate`.

Two layers of `reduce_binary_polynomial`:

* **(i) semantic** (`Red.step`, `Red.semReduce`; any variable type `V`): given the sequence of chosen
  pairs `(u, v)` with their product variables `p`, replace `{u, v}` by `p` in every current term of
  degree > 2 that contains both;
* **(ii) bookkeeping as coded** (`Red.BK`, `Red.bkStep`, `Red.bkReduce`; labels): the pair → terms
  index `idx` (a `defaultdict(dict)`), the count → pairs queue `que` (a `defaultdict(set)`),
  `_decrement_count`, `_remove_old`, with the choices `max(que)` / `set.pop()` supplied by an oracle
  (the list of pairs the implementation picked).  `none` = the code would raise `KeyError` (an index
  entry the bookkeeping expects is missing) or the oracle's pair is not in `que[max(que)]`. -/

namespace Red
open Pen

/-! ## polynomials -/

/-- a `frozenset` of variables: duplicate-free list, order irrelevant -/
abbrev Term (V : Type) := List V

def termVal {V : Type} (x : V → Rat) : Term V → Rat
  | [] => 1
  | v :: t => x v * termVal x t

def polyEnergy {V : Type} (x : V → Rat) : List (Term V × Rat) → Rat
  | [] => 0
  | tb :: r => tb.2 * termVal x tb.1 + polyEnergy x r

section generic
variable {V : Type} [DecidableEq V]

def subset (a b : Term V) : Bool := a.all (fun v => b.contains v)
def sameSet (a b : Term V) : Bool := subset a b && subset b a

def dedup : List V → List V
  | [] => []
  | v :: t => if t.contains v then dedup t else v :: dedup t

/-- `BinaryPolynomial.__init__`, one term: `frozenset(term)`; for SPIN keep the variables of odd multiplicity -/
def normTerm (vt : VT) (t : List V) : Term V :=
  match vt with
  | .binary => dedup t
  | .spin => (dedup t).filter (fun v => (t.filter (· = v)).length % 2 = 1)

/-- aggregate equal terms (`terms[fsterm] += bias`), first-occurrence order -/
def addTerm : List (Term V × Rat) → Term V → Rat → List (Term V × Rat)
  | [], t, b => [(t, b)]
  | (t', b') :: r, t, b => if sameSet t' t then (t', b' + b) :: r else (t', b') :: addTerm r t b

def normPoly (vt : VT) (raw : List (List V × Rat)) : List (Term V × Rat) :=
  raw.foldl (fun acc tb => addTerm acc (normTerm vt tb.1) tb.2) []

/-! ## layer (i): semantic reduction -/

structure HiLo (V : Type) where
  lo : List (Term V × Rat)     -- `reduced_terms`: degree ≤ 2
  hi : List (Term V × Rat)     -- terms still of degree > 2

def HiLo.init (p : List (Term V × Rat)) : HiLo V :=
  { lo := p.filter (fun tb => tb.1.length ≤ 2), hi := p.filter (fun tb => tb.1.length > 2) }

def hasPair (u v : V) (t : Term V) : Bool := t.contains u && t.contains v

/-- `(old_term - pair) | {prod_var}` -/
def substTerm (u v p : V) (t : Term V) : Term V := t.filter (fun w => w ≠ u ∧ w ≠ v) ++ [p]

/-- one substitution `p = u·v` applied to every higher-degree term containing the pair -/
def step (u v p : V) (s : HiLo V) : HiLo V :=
  let new := (s.hi.filter (fun tb => hasPair u v tb.1)).map (fun tb => (substTerm u v p tb.1, tb.2))
  { lo := s.lo ++ new.filter (fun tb => tb.1.length ≤ 2),
    hi := s.hi.filter (fun tb => !hasPair u v tb.1) ++ new.filter (fun tb => tb.1.length > 2) }

def semReduce (choices : List (V × V × V)) (s : HiLo V) : HiLo V :=
  choices.foldl (fun s c => step c.1 c.2.1 c.2.2 s) s

/-- total degree still to be removed; every step on a pair that occurs decreases it -/
def degSum : List (Term V × Rat) → Nat
  | [] => 0
  | tb :: r => tb.1.length + degSum r

def HiLo.measure (s : HiLo V) : Nat := degSum s.hi

end generic

/-! ## naming of the introduced variables -/

mutual
/-- Python `repr` of a label (strings single-quoted; the harness never sends quotes/backslashes) -/
def pyRepr : Label → String
  | .int z => toString z
  | .str s => "'" ++ s ++ "'"
  | .tup l => match l with
    | [] => "()"
    | [a] => "(" ++ pyRepr a ++ ",)"
    | a :: r => "(" ++ pyRepr a ++ pyReprTail r ++ ")"
def pyReprTail : List Label → String
  | [] => ""
  | a :: r => ", " ++ pyRepr a ++ pyReprTail r
end

/-- `'{}'.format(label)` -/
def pyStr : Label → String
  | .str s => s
  | l => pyRepr l

def maxLen : List Label → Nat
  | [] => 0
  | .str s :: t => max s.length (maxLen t)
  | _ :: t => maxLen t

/-- `while p in variables: p = '_' + p` — terminates because a name longer than every variable is free -/
def freshen (vars : List Label) (p : String) : String :=
  if (Label.str p) ∈ vars ∧ p.length ≤ maxLen vars then freshen vars ("_" ++ p) else p
termination_by maxLen vars + 1 - p.length
decreasing_by
  simp only [String.length_append]
  have : "_".length = 1 := rfl
  omega

/-- `_new_product(variables, u, v)` (the caller adds the result to `variables`) -/
def newProduct (vars : List Label) (u v : Label) : Label := .str (freshen vars (pyStr u ++ "*" ++ pyStr v))

/-- `_new_aux(variables, u, v)` -/
def newAux (vars : List Label) (u v : Label) : Label := .str (freshen vars ("aux" ++ pyStr u ++ "," ++ pyStr v))

/-! ## layer (ii): the bookkeeping as coded -/

abbrev LTerm := Term Label
abbrev Pair := Label × Label

def pairEq (a b : Pair) : Bool := (a.1 = b.1 && a.2 = b.2) || (a.1 = b.2 && a.2 = b.1)

/-- `itertools.combinations(term, 2)` -/
def pairsOf (t : LTerm) : List Pair := pairsLt t

structure BK where
  idx : List (Pair × List (LTerm × Rat))
  que : List (Nat × List Pair)
  reduced : List (LTerm × Rat)
  constraints : List (Pair × Label)
  vars : List Label

/-- `idx.get(pair)`: first entry whose key is the same `frozenset` -/
def idxGet : List (Pair × List (LTerm × Rat)) → Pair → Option (List (LTerm × Rat))
  | [], _ => none
  | e :: r, p => if pairEq e.1 p then some e.2 else idxGet r p

/-- `d[term] = bias` on one inner dict (insertion order kept, existing key overwritten) -/
def setT (t : LTerm) (b : Rat) : List (LTerm × Rat) → List (LTerm × Rat)
  | [] => [(t, b)]
  | e :: r => if sameSet e.1 t then (e.1, b) :: r else e :: setT t b r

/-- `del d[term]` -/
def delT (t : LTerm) : List (LTerm × Rat) → List (LTerm × Rat)
  | [] => []
  | e :: r => if sameSet e.1 t then r else e :: delT t r

/-- `idx[pair][term] = bias` (both levels created on demand) -/
def idxSet : List (Pair × List (LTerm × Rat)) → Pair → LTerm → Rat → List (Pair × List (LTerm × Rat))
  | [], p, t, b => [(p, [(t, b)])]
  | e :: r, p, t, b => if pairEq e.1 p then (e.1, setT t b e.2) :: r else e :: idxSet r p t b

/-- `del idx[pair]` -/
def idxErase : List (Pair × List (LTerm × Rat)) → Pair → List (Pair × List (LTerm × Rat))
  | [], _ => []
  | e :: r, p => if pairEq e.1 p then r else e :: idxErase r p

/-- replace the inner dict of an existing key -/
def idxPut : List (Pair × List (LTerm × Rat)) → Pair → List (LTerm × Rat) → List (Pair × List (LTerm × Rat))
  | [], _, _ => []
  | e :: r, p, m => if pairEq e.1 p then (e.1, m) :: r else e :: idxPut r p m

def queAdd : List (Nat × List Pair) → Nat → Pair → List (Nat × List Pair)
  | [], n, p => [(n, [p])]
  | e :: r, n, p =>
    if e.1 = n then (e.1, if e.2.any (pairEq p) then e.2 else e.2 ++ [p]) :: r else e :: queAdd r n p

/-- `que[n].remove(pair)`; `del que[n]` when it becomes empty; `none` = `KeyError` -/
def queRemove : List (Nat × List Pair) → Nat → Pair → Option (List (Nat × List Pair))
  | [], _, _ => none
  | e :: r, n, p =>
    if e.1 = n then
      (if e.2.any (pairEq p) then
        some (if (e.2.filter (fun q => !pairEq q p)).isEmpty then r else (e.1, e.2.filter (fun q => !pairEq q p)) :: r)
       else none)
    else (queRemove r n p).map (fun r' => e :: r')

/-- `_decrement_count(idx, que, pair)` -/
def decrementCount (s : BK) (p : Pair) : Option BK :=
  match idxGet s.idx p with
  | none => none       -- `len(idx[pair])` would be 0 and `que[0].remove(pair)` raises
  | some m =>
    let count := m.length
    match queRemove s.que count p with
    | none => none
    | some q => some { s with que := if count > 1 then queAdd q (count - 1) p else q }

/-- `_remove_old(idx, term, pair)` -/
def removeOld (s : BK) (t : LTerm) (p : Pair) : Option BK :=
  match idxGet s.idx p with
  | none => none
  | some m =>
    if m.any (fun e => sameSet e.1 t) then
      some { s with idx := if (delT t m).isEmpty then idxErase s.idx p else idxPut s.idx p (delT t m) }
    else none

def BK.init (poly : List (LTerm × Rat)) (vars : List Label) : BK :=
  let idx := poly.foldl (fun idx tb =>
    if tb.1.length ≤ 2 then idx else (pairsOf tb.1).foldl (fun idx p => idxSet idx p tb.1 tb.2) idx) []
  { idx := idx,
    que := idx.foldl (fun q e => queAdd q e.2.length e.1) [],
    reduced := poly.filter (fun tb => tb.1.length ≤ 2),
    constraints := [], vars := vars }

def maxKey (que : List (Nat × List Pair)) : Nat := que.foldl (fun m e => max m e.1) 0

/-- `_decrement_count(idx, que, old_pair); _remove_old(idx, old_term, old_pair)` -/
def decRem (oldTerm : LTerm) (s : BK) (p : Pair) : Option BK :=
  (decrementCount s p).bind (fun s => removeOld s oldTerm p)

/-- `idx[common_pair][new_term] = bias; _remove_old(idx, old_term, common_pair)` -/
def setRem (newTerm : LTerm) (bias : Rat) (oldTerm : LTerm) (s : BK) (cp : Pair) : Option BK :=
  removeOld { s with idx := idxSet s.idx cp newTerm bias } oldTerm cp

/-- `idx[new_pair][new_term] = bias; new_pairs.add(new_pair)` -/
def addNew (newTerm : LTerm) (bias : Rat) (prod : Label) (acc : BK × List Pair) (c : Label) : BK × List Pair :=
  ({ acc.1 with idx := idxSet acc.1.idx (prod, c) newTerm bias },
   if acc.2.any (pairEq (prod, c)) then acc.2 else acc.2 ++ [(prod, c)])

/-- the body of `for old_term, bias in terms.items()` -/
def bkTerm (u v prod : Label) (acc : BK × List Pair) (tb : LTerm × Rat) : Option (BK × List Pair) :=
  let common := tb.1.filter (fun w => w ≠ u ∧ w ≠ v)
  let newTerm := common ++ [prod]
  -- for old_pair in product(pair, common_subterm)
  match ([u, v].flatMap (fun a => common.map (fun c => (a, c)))).foldlM (decRem tb.1) acc.1 with
  | none => none
  | some s1 =>
    -- for common_pair in combinations(common_subterm, 2)
    match (pairsOf common).foldlM (setRem newTerm tb.2 tb.1) s1 with
    | none => none
    | some s2 =>
      if newTerm.length > 2 then some (common.foldl (addNew newTerm tb.2 prod) (s2, acc.2))
      else some ({ s2 with reduced := s2.reduced ++ [(newTerm, tb.2)] }, acc.2)

/-- one iteration of `while idx:` with the popped pair given by the oracle (ordered as `*pair` unpacks it) -/
def bkStep (s : BK) (choice : Pair) : Option BK :=
  let most := maxKey s.que
  match s.que.find? (fun e => e.1 = most) with
  | none => none
  | some eMost =>
    if !(eMost.2.any (pairEq choice)) then none else
    match queRemove s.que most choice, idxGet s.idx choice with
    | some que, some terms =>
      let prod := newProduct s.vars choice.1 choice.2
      let s0 : BK := { s with que := que, idx := idxErase s.idx choice,
                               vars := s.vars ++ [prod], constraints := s.constraints ++ [(choice, prod)] }
      match terms.foldlM (bkTerm choice.1 choice.2 prod) (s0, []) with
      | none => none
      | some (s1, newPairs) =>
        some { s1 with que := newPairs.foldl (fun q p => queAdd q ((idxGet s1.idx p).map (·.length) |>.getD 0) p) s1.que }
    | _, _ => none

/-- run the loop on the oracle's choices; the result also says whether `idx` is empty at the end -/
def bkReduce (poly : List (LTerm × Rat)) (vars : List Label) (choices : List Pair) : Option BK :=
  choices.foldlM bkStep (BK.init poly vars)

def polyVars (poly : List (LTerm × Rat)) : List Label := dedup (poly.flatMap (·.1))

/-! ## `make_quadratic`, `make_quadratic_cqm` -/

/-- one reduced term → one call of `_init_objective`: degree 2 → `add_interaction`, degree 1 →
    `add_variable`, degree 0 → `offset +=`; `none` = `RuntimeError` (a higher-order term is left) -/
def termCall (tb : LTerm × Rat) : Option (PTerm Label) :=
  match tb.1 with
  | [] => some (PTerm.const tb.2)
  | [v] => some (PTerm.lin v tb.2)
  | [u, v] => some (PTerm.quad u v tb.2)
  | _ => none

/-- `_init_objective` -/
def objectiveBag : List (LTerm × Rat) → Option (List (PTerm Label))
  | [] => some []
  | tb :: r =>
    match termCall tb, objectiveBag r with
    | some t, some rest => some (t :: rest)
    | _, _ => none

/-- the penalty calls of `make_quadratic`, in constraint order; returns the bag and the auxiliaries.
    `vars` is the `variables` set (grown by every new auxiliary). -/
def penaltyBags (vt : VT) (strength : Rat) : List Label → List (Pair × Label) → List (PTerm Label) × List Label
  | _, [] => ([], [])
  | vars, c :: r =>
    match vt with
    | .binary =>
      let rest := penaltyBags vt strength vars r
      (tableBag Generated.Gates.andBinary [c.1.1, c.1.2, c.2] strength ++ rest.1, rest.2)
    | .spin =>
      let aux := newAux vars c.1.1 c.1.2
      let rest := penaltyBags vt strength (vars ++ [aux]) r
      (tableBag Generated.Gates.spinProduct [c.1.1, c.1.2, c.2, aux] strength ++ rest.1, aux :: rest.2)

/-- `make_quadratic(poly, strength, vartype, bqm)`: the calls it makes on the model it adds to — penalties
    first, then the reduced objective.  `reserved` = the variables that model already has (`[]` for a
    fresh one): new product and auxiliary names avoid them too (D38 repair). -/
def makeQuadratic (reserved : List Label) (vt : VT) (strength : Rat) (raw : List (List Label × Rat)) (choices : List Pair) :
    Option (List (PTerm Label) × BK × List Label) :=
  match bkReduce (normPoly vt raw) (polyVars (normPoly vt raw) ++ reserved) choices with
  | none => none
  | some s =>
    if !s.idx.isEmpty then none else
    match objectiveBag s.reduced with
    | none => none
    | some obj =>
      -- `variables = set().union(*poly) | bqm.variables` plus the product variables of the reduction (D37 repair)
      let pb := penaltyBags vt strength (polyVars (normPoly vt raw) ++ reserved ++ s.constraints.map (·.2)) s.constraints
      some (pb.1 ++ obj, s, pb.2)

/-! ## `_init_quadratic_model`: `make_quadratic(poly, strength, vartype, bqm)` onto a given model -/

/-- the value of a variable of the *other* vartype at the sample `x` of vartype `target`
    (`s = 2b − 1` resp. `b = (s + 1)/2`) -/
def convSample (target : VT) (x : Label → Rat) : Label → Rat :=
  match target with
  | .binary => fun l => 2 * x l - 1
  | .spin => fun l => (x l + 1) / 2

/-- `change_vartype` in closed form, as the mutator calls that rebuild the model in the `target`
    vartype from a model of the other vartype (every variable keeps its linear entry, every interaction
    its quadratic entry; the arithmetic as coded in C++ is C01's subject) -/
def convBag (target : VT) (b : Bq Label) : List (PTerm Label) :=
  match target with
  | .binary =>
    PTerm.const b.off
      :: (b.lin.flatMap fun p => [PTerm.lin p.1 (2 * p.2), PTerm.const (-p.2)])
      ++ (b.quad.flatMap fun p => [PTerm.quad p.1.1 p.1.2 (4 * p.2), PTerm.lin p.1.1 (-2 * p.2), PTerm.lin p.1.2 (-2 * p.2), PTerm.const p.2])
  | .spin =>
    PTerm.const b.off
      :: (b.lin.flatMap fun p => [PTerm.lin p.1 (p.2 / 2), PTerm.const (p.2 / 2)])
      ++ (b.quad.flatMap fun p => [PTerm.quad p.1.1 p.1.2 (p.2 / 4), PTerm.lin p.1.1 (p.2 / 4), PTerm.lin p.1.2 (p.2 / 4), PTerm.const (p.2 / 4)])

/-- `bqm.change_vartype(vartype, inplace=False)` -/
def changeVartype (b : Bq Label) (vt : VT) : Bq Label :=
  if b.vt = vt then b else (Bq.empty vt : Bq Label).apply (convBag vt b)

/-- `_init_quadratic_model(bqm, vartype, BinaryQuadraticModel)`: `none` = `ValueError` (neither given) -/
def initQuadraticModel (g : Option (Bq Label)) (vtArg : Option VT) : Option (Bq Label × VT) :=
  match vtArg, g with
  | none, none => none
  | none, some g => some (g, g.vt)
  | some vt, none => some (Bq.empty vt, vt)
  | some vt, some g => some (changeVartype g vt, vt)       -- `qm = qm.change_vartype(vartype, inplace=False)`

/-- `make_quadratic(poly, strength, vartype, bqm)`: the penalty and objective calls go onto the (converted)
    given model; the polynomial is read in the resulting vartype -/
def makeQuadraticOnto (g : Option (Bq Label)) (vtArg : Option VT) (strength : Rat) (raw : List (List Label × Rat))
    (choices : List Pair) : Option (Bq Label × VT × List (PTerm Label) × BK × List Label) :=
  match initQuadraticModel g vtArg with
  | none => none
  | some (b, vt) =>
    match makeQuadratic (b.lin.map (·.1)) vt strength raw choices with
    | none => none
    | some (bag, st, auxs) => some (b.apply bag, vt, bag, st, auxs)

/-! ## `make_quadratic_cqm` -/

/-- the constraint `var(u)*var(v) - var(p) == 0` with its label `'u'*'v' == 'p'`: the calls of the
    `BQM * BQM` product (one interaction, two zero linear updates) and of the subtraction -/
def prodConstraint (c : Pair × Label) : String × List (PTerm Label) :=
  ("'" ++ pyStr c.1.1 ++ "'*'" ++ pyStr c.1.2 ++ "' == '" ++ pyStr c.2 ++ "'",
   [PTerm.quad c.1.1 c.1.2 1, PTerm.lin c.1.1 0, PTerm.lin c.1.2 0, PTerm.lin c.2 (-1)])

/-- `make_quadratic_cqm(poly, vartype, cqm)`: the objective bag and the product constraints (all `== 0`) it
    adds; `reserved` = the variables of the given CQM (`[]` for a fresh one) -/
def makeQuadraticCqm (reserved : List Label) (vt : VT) (raw : List (List Label × Rat)) (choices : List Pair) :
    Option (List (PTerm Label) × List (String × List (PTerm Label))) :=
  match bkReduce (normPoly vt raw) (polyVars (normPoly vt raw) ++ reserved) choices with
  | none => none
  | some s =>
    if !s.idx.isEmpty then none else
    match objectiveBag s.reduced with
    | none => none
    | some obj => some (obj, s.constraints.map prodConstraint)

/-! ## `HigherOrderComposite`: `polymorph_response` -/

/-- one returned row: the child sampler's row (over `respVars`) restricted to the polynomial's variables
    unless `keep_penalty_variables`, with `poly.energies((samples, response.variables))` as its energy
    (column labels follow `response.variables`, the D6 repair) -/
def polymorphRow (poly : List (LTerm × Rat)) (keep : Bool) (respVars : List Label) (row : Label → Rat) :
    List (Label × Rat) × Rat :=
  ((if keep then respVars else polyVars poly).map (fun v => (v, row v)), polyEnergy row poly)

/-- `penalty_satisfaction`: every product constraint `u·v == p` holds in the row -/
def penaltySatisfied (reduction : List (Pair × Label)) (row : Label → Rat) : Bool :=
  reduction.all (fun c => row c.1.1 * row c.1.2 == row c.2)

/-! ## `HigherOrderComposite.sample_poly` with its options, over a child-sampler parameter -/

/-- one row of the returned sample set -/
structure HocRow where
  cols : List (Label × Rat)
  energy : Rat
  sat : Bool

/-- what the child sampler returned: `response.variables` and the rows of `record.sample` -/
structure Response where
  vars : List Label
  rows : List (Label → Rat)

/-- `polymorph_response(response, poly, bqm, penalty_strength, keep_penalty_variables, discard_unsatisfied)`:
    with `discard_unsatisfied` only the rows in which *every* product constraint holds are kept (and flagged
    satisfied); the energy of a row is the polynomial's energy of that row; the columns are the child's
    variables or, without `keep_penalty_variables`, the polynomial's -/
def polymorphResponse (poly : List (LTerm × Rat)) (reduction : List (Pair × Label)) (keep discard : Bool) (resp : Response) :
    List HocRow :=
  (resp.rows.filter (fun x => !discard || penaltySatisfied reduction x)).map (fun x =>
    { cols := (polymorphRow poly keep resp.vars x).1,
      energy := (polymorphRow poly keep resp.vars x).2,
      sat := discard || penaltySatisfied reduction x })

/-- `dict[k] = v` on an association list -/
def setKey (l : List (Label × Rat)) (k : Label) (v : Rat) : List (Label × Rat) :=
  if l.any (fun e => e.1 = k) then l.map (fun e => if e.1 = k then (k, v) else e) else l ++ [(k, v)]

def getKey (l : List (Label × Rat)) (k : Label) : Option Rat := (l.find? (fun e => e.1 = k)).map (·.2)

/-- `bqm.adj[a].get(b, 0)` -/
def adjGet (b : Bq Label) (a c : Label) : Rat :=
  ((b.quad.find? (fun e => (e.1.1 = a ∧ e.1.2 = c) ∨ (e.1.1 = c ∧ e.1.2 = a))).map (·.2)).getD 0

/-- `expand_initial_state(bqm, initial_state)`: every product variable gets the product of its factors, every
    spin auxiliary the value minimising `en·val` with `en = Σ state[w]·bqm.adj[aux].get(w, 0)` over
    `w ∈ {u, v, product}` (`min` over `{1, -1}` in this order: ties give `1`); `none` = `KeyError` -/
def expandInitialState (b : Bq Label) : List (Pair × Label × Option Label) → List (Label × Rat) → Option (List (Label × Rat))
  | [], st => some st
  | ((u, v), p, aux?) :: rest, st =>
    match getKey st u, getKey st v with
    | some su, some sv =>
      let st1 := setKey st p (su * sv)
      match aux? with
      | none => expandInitialState b rest st1
      | some aux =>
        let en := su * adjGet b aux u + sv * adjGet b aux v + (su * sv) * adjGet b aux p
        expandInitialState b rest (setKey st1 aux (if 0 < en then -1 else 1))
    | _, _ => none

/-- `HigherOrderComposite(child).sample_poly(poly, penalty_strength, keep_penalty_variables, discard_unsatisfied,
    initial_state=…)`: `child` receives the quadratic model and the expanded initial state (`none` when the
    option is not given); `none` = an exception (`make_quadratic` / `expand_initial_state`) -/
def samplePoly (child : Bq Label → Option (List (Label × Rat)) → Response)
    (vt : VT) (raw : List (List Label × Rat)) (choices : List Pair)
    (strength : Rat) (keep discard : Bool) (init : Option (List (Label × Rat))) : Option (List HocRow) :=
  match makeQuadratic [] vt strength raw choices with
  | none => none
  | some (bag, st, auxs) =>
    let b := (Bq.empty vt : Bq Label).apply bag
    let red := (List.range st.constraints.length).map (fun i =>
      ((st.constraints.getD i ((Label.int 0, Label.int 0), Label.int 0)).1,
       (st.constraints.getD i ((Label.int 0, Label.int 0), Label.int 0)).2, auxs[i]?))
    let init' : Option (Option (List (Label × Rat))) :=
      match init with
      | none => some none
      | some s => if st.constraints.isEmpty then some (some s) else (expandInitialState b red s).map some
    match init' with
    | none => none
    | some i' => some (polymorphResponse (normPoly vt raw) st.constraints keep discard (child b i'))

/-! ## `polymorph_response`: the returned `SampleSet` as coded (record layout, info, errors)

`dimod/reference/composites/higherordercomposites.py`: `penalty_satisfaction`, `polymorph_response`.  The child's
sample set is a record array: one `sample` row per record (aligned with `variables`), its `energy`, and the other
fields (`num_occurrences` and whatever vectors the child attached) in `record.dtype.names` order. -/

/-- one record of a sample set -/
structure RecRow where
  sample : List Rat            -- `record.sample[i]`, aligned with `variables`
  energy : Rat                 -- `record.energy[i]`
  vectors : List Rat           -- `record[name][i]` for the remaining field names, in order

/-- the child's `SampleSet` -/
structure SampleSetM where
  vars : List Label            -- `response.variables`
  names : List String          -- `record.dtype.names` without the names of `Generated.HocLayout.notCarried` (`'sample'`, `'energy'`)
  rows : List RecRow
  info : List (String × String)  -- `response.info` (keys with opaque values), insertion order
  vt : VT                      -- `response.vartype`

/-- the exceptions `polymorph_response` can raise -/
inductive HocErr where
  | indexValueError          -- `response.variables.index(label)`: a label of the reduction is not a variable of the response
  | energiesKeyError         -- `labeldict[v]` inside `poly.energies`: a variable of the polynomial is not in the response
  | duplicateField           -- `np.empty(..., dtype=datatypes)`: the child's record already has a `penalty_satisfaction` field
  deriving DecidableEq, Repr

/-- `variables.index(v)` -/
def indexOf? (v : Label) : List Label → Option Nat
  | [] => none
  | w :: r => if w = v then some 0 else (indexOf? v r).map (· + 1)

/-- the value of the column labelled `v` in a sample row (`0` stands for "no such column"; never used then) -/
def rowFn (vars : List Label) (s : List Rat) : Label → Rat :=
  fun v => match indexOf? v vars with
    | some i => s.getD i 0
    | none => 0

/-- the three column indices of one entry of `bqm.info['reduction']` -/
def prodIdx (vars : List Label) (c : Pair × Label) : Option (Nat × Nat × Nat) :=
  match indexOf? c.1.1 vars, indexOf? c.1.2 vars, indexOf? c.2 vars with
  | some i, some j, some k => some (i, j, k)
  | _, _, _ => none

/-- all entries; `none` = `ValueError` of `.index` -/
def prodIdxs (vars : List Label) : List (Pair × Label) → Option (List (Nat × Nat × Nat))
  | [] => some []
  | c :: r =>
    match prodIdx vars c, prodIdxs vars r with
    | some i, some rest => some (i :: rest)
    | _, _ => none

/-- `np.prod([...], axis=0)` for one row: the product of the 0/1 comparison results of all entries -/
def satProduct (s : List Rat) : List (Nat × Nat × Nat) → Nat
  | [] => 1
  | (i, j, k) :: r => (if s.getD i 0 * s.getD j 0 == s.getD k 0 then 1 else 0) * satProduct s r

/-- `penalty_satisfaction(response, bqm)`: all ones without a reduction; otherwise the product over ALL
    `bqm.info['reduction']` entries of `sample[:, u] * sample[:, v] == sample[:, product]` -/
def penaltyVector (reduction : List (Pair × Label)) (resp : SampleSetM) : Except HocErr (List Nat) :=
  if reduction.isEmpty then .ok (resp.rows.map fun _ => 1) else
  match prodIdxs resp.vars reduction with
  | none => .error .indexValueError
  | some idxs => .ok (resp.rows.map fun r => satProduct r.sample idxs)

/-- `poly.energies((samples, response.variables))`: every variable of every term (also of zero-bias terms) is looked
    up in `labeldict` whatever the number of rows -/
def polyEnergiesM (poly : List (LTerm × Rat)) (vars : List Label) (samples : List (List Rat)) : Except HocErr (List Rat) :=
  if poly.all (fun tb => tb.1.all (fun v => (indexOf? v vars).isSome)) then
    .ok (samples.map fun s => polyEnergy (rowFn vars s) poly)
  else .error .energiesKeyError

/-- `[response.variables.index(v) for v in original_variables]` -/
def colIdxs (vars : List Label) : List Label → Option (List Nat)
  | [] => some []
  | v :: r =>
    match indexOf? v vars, colIdxs vars r with
    | some i, some rest => some (i :: rest)
    | _, _ => none

/-- NumPy dtype of the `penalty_satisfaction` column as the code produces it -/
inductive SatDtype where
  | int64 | bool | float64
  deriving DecidableEq, Repr

/-- the value stored under an `info` key of the returned sample set -/
inductive InfoVal where
  | opaque (s : String)                         -- whatever the child put there
  | reduction (r : List (Pair × Label))         -- `bqm.info['reduction']` (keys and product labels)
  | strength (q : Rat)                          -- `penalty_strength`

/-- `info[k] = v` -/
def setInfo (l : List (String × InfoVal)) (k : String) (v : InfoVal) : List (String × InfoVal) :=
  if l.any (fun e => e.1 = k) then l.map (fun e => if e.1 = k then (k, v) else e) else l ++ [(k, v)]

structure OutRow where
  sample : List Rat
  energy : Rat
  sat : Nat                    -- `penalty_satisfaction`
  vectors : List Rat

/-- the `SampleSet` that `polymorph_response` returns -/
structure OutSet where
  vars : List Label            -- its `variables`, in column order
  fields : List String         -- `record.dtype.names`
  satDtype : SatDtype
  rows : List OutRow
  info : List (String × InfoVal)
  vt : VT

/-- keep the entries of `l` whose flag is set (`array[samples_to_keep]`) -/
def maskFilter {α : Type} : List α → List Bool → List α
  | a :: l, b :: m => if b then a :: maskFilter l m else maskFilter l m
  | _, _ => []

/-- `samples[:, idxs]` (`none` = all columns are kept) -/
def selectCols (sel : Option (List Nat)) (s : List Rat) : List Rat :=
  match sel with
  | none => s
  | some idxs => idxs.map (fun i => s.getD i 0)

/-- `polymorph_response(response, poly, bqm, penalty_strength, keep_penalty_variables, discard_unsatisfied)` as coded.
    `order` = the iteration order of the set `poly.variables` (an oracle: a permutation of the polynomial's variables);
    `strength` = `none` when `penalty_strength is None`. -/
def polymorphRecord (poly : List (LTerm × Rat)) (order : List Label) (reduction : List (Pair × Label))
    (strength : Option Rat) (keep discard : Bool) (resp : SampleSetM) : Except HocErr OutSet :=
  match penaltyVector reduction resp with
  | .error e => .error e
  | .ok pv =>
    -- `samples_to_keep`, and the penalty vector that is stored
    let mask : List Bool := if discard then pv.map (fun n => n != 0) else resp.rows.map (fun _ => true)
    let kept := maskFilter resp.rows mask
    let stored : List Nat := if discard then kept.map (fun _ => 1) else pv
    let dt : SatDtype :=
      if discard then (if kept.isEmpty then .float64 else .bool)
      else if reduction.isEmpty then (if resp.rows.isEmpty then .float64 else .int64) else .int64
    match polyEnergiesM poly resp.vars (kept.map (·.sample)) with
    | .error e => .error e
    | .ok energies =>
      match (if keep then some none else (colIdxs resp.vars order).map some) with
      | none => .error .indexValueError
      | some sel =>
        -- a field name of the child equal to one of the leading fields (`penalty_satisfaction`; `sample` and `energy` are not carried over)
        if resp.names.any (fun n => Generated.HocLayout.headFields.contains n) then .error .duplicateField else
        let info0 : List (String × InfoVal) := resp.info.map (fun e => (e.1, InfoVal.opaque e.2))
        let info1 := setInfo info0 Generated.HocLayout.reductionKey (.reduction reduction)
        .ok { vars := if keep then resp.vars else order,
              fields := Generated.HocLayout.headFields ++ resp.names,
              satDtype := dt,
              rows := (List.range kept.length).map (fun i =>
                { sample := selectCols sel (kept.getD i ⟨[], 0, []⟩).sample,
                  energy := energies.getD i 0,
                  sat := stored.getD i 0,
                  vectors := (kept.getD i ⟨[], 0, []⟩).vectors }),
              info := match strength with
                | none => info1
                | some q => setInfo info1 Generated.HocLayout.strengthKey (.strength q),
              vt := resp.vt }

/-- `HigherOrderComposite(child).sample_poly(…)` returning the whole sample set: `child` maps the quadratic model and
    the expanded initial state to its `SampleSet` -/
def samplePolyRecord (child : Bq Label → Option (List (Label × Rat)) → SampleSetM)
    (vt : VT) (raw : List (List Label × Rat)) (choices : List Pair) (order : List Label)
    (strength : Rat) (keep discard : Bool) (init : Option (List (Label × Rat))) : Option (Except HocErr OutSet) :=
  match makeQuadratic [] vt strength raw choices with
  | none => none
  | some (bag, st, auxs) =>
    let b := (Bq.empty vt : Bq Label).apply bag
    let red := (List.range st.constraints.length).map (fun i =>
      ((st.constraints.getD i ((Label.int 0, Label.int 0), Label.int 0)).1,
       (st.constraints.getD i ((Label.int 0, Label.int 0), Label.int 0)).2, auxs[i]?))
    let init' : Option (Option (List (Label × Rat))) :=
      match init with
      | none => some none
      | some s => if st.constraints.isEmpty then some (some s) else (expandInitialState b red s).map some
    match init' with
    | none => none
    | some i' => some (polymorphRecord (normPoly vt raw) order st.constraints (some strength) keep discard (child b i'))

end Red
