import DimodModel.Pack
import DimodModel.VarsMore

/-! # C11 — pickle at the level of `__reduce__` / `__getstate__` / `__setstate__`

What `pickle.dumps` is handed and what `pickle.loads` does with it, object kind by object kind, as coded:

* `cyBQM_template.__reduce__` (`cybqm_template.pyx.pxi`): `ldata, qdata, off, labels = self.to_numpy_vectors(return_labels=True)`
  and the pair `(type(self).from_numpy_vectors, (ldata, qdata, off, self.vartype(), labels))`; `pickle.loads` calls the first
  with the second, so `labels` arrives as `variable_order`;
* `BinaryQuadraticModel` has no hook of its own: `object.__reduce_ex__(2)` gives `copyreg.__newobj__, (cls,)` and the state
  `self.__dict__` — `data` and whatever is cached next to it: bound methods stored by `@forwarding_method` (pickled as
  `getattr(<the pickled data>, name)`); `pickle.loads` makes `cls.__new__(cls)` and updates its `__dict__` with the state;
* `cyVariables`: Cython's `__reduce_cython__` / `__setstate_cython__` (`VState.reduce` / `VState.setState` of `VarsMore.lean`);
* `SampleSet.__getstate__`: `self.resolve()` (a pending future is waited for and its hooks are run), then `self.__dict__`;
  there is no `__setstate__`, so the state is written into the new object's `__dict__`.

Core Lean only. -/

namespace Pack
open SSM

/-- a cy BQM: the labels in index order, the vartype, the model in index space -/
structure CyBQM where
  labels : List Label
  vt : VT
  body : BQMIdx

/-- the argument tuple of `__reduce__`: `(ldata, (irow, icol, qdata), off, vartype, labels)` -/
structure ReduceArgs where
  ldata : List Rat
  quad : List (Nat × Nat × Rat)
  offset : Rat
  vt : VT
  labels : List Label

/-- `to_numpy_vectors(return_labels=True)` with its defaults (`sort_indices=False`): the interactions in the order the loop over
    the neighbourhoods lists them (`b.quad`), re-indexed to the label order, NOT sorted -/
def toVectorsRaw (b : BQMIdx) (order : List Nat) : Vectors :=
  { ldata := order.map fun vi => b.lin.getD vi 0,
    quad := b.quad.map fun t => (order.idxOf t.1, order.idxOf t.2.1, t.2.2),
    offset := b.offset, order := order }

/-- `cyBQM.__reduce__`: `order` is the permutation `to_numpy_vectors(sort_labels=True)` lists the variables in (sorted labels
    when they are comparable, the given order otherwise) -/
def CyBQM.reduce (b : CyBQM) (order : List Nat) : ReduceArgs :=
  let v := toVectorsRaw b.body order
  { ldata := v.ldata, quad := v.quad, offset := v.offset, vt := b.vt,
    labels := order.map fun i => b.labels.getD i (.int 0) }

/-- `from_numpy_vectors(ldata, qdata, off, vartype, variable_order=labels)` -/
def ReduceArgs.rebuild (r : ReduceArgs) : CyBQM :=
  { labels := r.labels, vt := r.vt, body := fromVectors { ldata := r.ldata, quad := r.quad, offset := r.offset, order := [] } }

/-- `pickle.loads(pickle.dumps(cybqm))` -/
def CyBQM.pickleRoundTrip (b : CyBQM) (order : List Nat) : CyBQM := (b.reduce order).rebuild

def CyBQM.linear (b : CyBQM) (v : Label) : Rat := b.body.lin.getD (b.labels.idxOf v) 0

/-- the instance `__dict__` of a `BinaryQuadraticModel`: `data` and the names under which `@forwarding_method` stored bound
    methods of `data` -/
structure PyBQM where
  data : CyBQM
  fwd : List String

/-- the pickled state: every value through its own reduction; a stored bound method is `(getattr, (data, name))` -/
structure PyBQMState where
  data : ReduceArgs
  fwd : List String

def PyBQM.getstate (o : PyBQM) (order : List Nat) : PyBQMState := ⟨o.data.reduce order, o.fwd⟩

/-- `obj = cls.__new__(cls); obj.__dict__.update(state)`: the stored methods are bound to the REBUILT `data` -/
def PyBQMState.setstate (s : PyBQMState) : PyBQM := ⟨s.data.rebuild, s.fwd⟩

/-- the state of a sample set: `__dict__` after `resolve()` -/
structure SSState where
  record : SS                 -- `_record` / `_vartype` / field names: a NumPy array and an enum member pickle to themselves
  variables : VState          -- `_variables` through `__reduce_cython__`
  info : Info

/-- `SampleSet.__getstate__` on a possibly pending object with its `Variables` object and `info`; `none` = `resolve()` raised -/
def ssGetstate (x : LSS) (vars : VState) (info : Info) : Option SSState :=
  x.resolve.map fun s => ⟨s, vars.pickleRoundTrip, info⟩

end Pack
