import DimodModel.Enumerate

/-! # C07 — result assembly and row post-processing of the non-exact samplers and composites

Mirror of
* `sampleset.py:_as_samples_iterator` (column re-indexing of dict / (array, labels) samples), `infer_vartype`;
* `core/initialized.py:parse_initial_states` (vartype conversion, `none` / `tile` / `random` generators,
  `_truncate_filter`, `from_samples_bqm`) — IdentitySampler and RandomSampler;
* `SimulatedAnnealingSampler.sample` result assembly (`to_ising`, Ising energies, `change_vartype(offset)`);
* `SampleSet.aggregate`, `SampleSet.truncate/slice` — TruncateComposite / PolyTruncateComposite;
* `decorators.bqm_structured` — StructureComposite; `TrackingComposite`.
The random choices themselves (NumPy / `random`) are inputs of the model.  Core Lean only. -/

namespace Enum

/-! ## columns by label -/

/-- `_as_samples_iterator`: a later sample given under `labels` is rearranged to the first sample's label
    order: `reindex = [labels.index(v) for v in first_labels]; row[reindex]` -/
def reindexRow (first labels : List Label) (row : List Rat) : List Rat :=
  first.map fun v => row.getD (labels.idxOf v) 0

/-- the inverse permutation `[first_labels.index(v) for v in labels]` (the D1 slip), kept for the witness -/
def reindexRowInverse (first labels : List Label) (row : List Rat) : List Rat :=
  labels.map fun v => row.getD (first.idxOf v) 0

/-- value of a labelled row under a label -/
def labelled (labels : List Label) (row : List Rat) (l : Label) : Rat := row.getD (labels.idxOf l) 0

/-! ## `parse_initial_states` -/

/-- `infer_vartype`: `none` = ambiguous (all ones / empty), `some true` = SPIN, `some false` = BINARY;
    values outside both alphabets make it raise (`error`) -/
def inferSpin (rows : List (List Rat)) : Except Unit (Option Bool) :=
  let vals := rows.flatten
  if vals.all (· = 1) then .ok none
  else if vals.all (fun v => v = 1 ∨ v = 0) then .ok (some false)
  else if vals.all (fun v => v = 1 ∨ v = -1) then .ok (some true)
  else .error ()

/-- matching the vartype of the initial states to the bqm's: `(s + 1) // 2` resp. `2 x - 1` -/
def convertRow (fromSpin toSpin : Bool) (row : List Rat) : List Rat :=
  if fromSpin && !toSpin then row.map fun v => (v + 1) / 2
  else if !fromSpin && toSpin then row.map fun v => 2 * v - 1
  else row

inductive Generator where
  | none | tile | random
deriving DecidableEq

/-- `np.tile(states, (reps, 1))` followed by `states[:rem]`: read `i` is state `i mod m` -/
def tileRows (rows : List (List Rat)) (n : Nat) : List (List Rat) :=
  (List.range n).map fun i => rows.getD (i % rows.length) []

/-- the three generators; `fresh` = the rows the PRNG delivers for the `random` generator -/
def extrapolate (g : Generator) (rows : List (List Rat)) (numReads : Nat) (fresh : List (List Rat)) : Except Unit (List (List Rat)) :=
  match g with
  | .none => if rows.length < numReads then .error () else .ok rows
  | .tile => if rows.length < 1 then .error () else if rows.length ≥ numReads then .ok rows else .ok (tileRows rows numReads)
  | .random => .ok (rows ++ fresh.take (numReads - rows.length))

/-- generator, `_truncate_filter`, and `from_samples_bqm` (which computes every row's energy from the bqm) for
    `n` reads -/
def pisCore (m : Bqm) (labels : List Label) (rows : List (List Rat)) (g : Generator) (n : Nat) (fresh : List (List Rat)) :
    Except Unit (List Row) :=
  if n < 1 then .error () else
  match extrapolate g rows n fresh with
  | .error e => .error e
  | .ok rs => .ok ((rs.take n).map fun r => ⟨labels.zip r, m.energy (labelled labels r)⟩)

/-- `parse_initial_states` after `as_samples`: `labels` = labels of the given states (in `as_samples` order),
    `statesSpin` = their (inferred) vartype, `numReads = none` → `len(states) or 1`.  `ValueError`s are `error`. -/
def parseInitialStates (m : Bqm) (labels : List Label) (rows : List (List Rat)) (statesSpin : Option Bool)
    (g : Generator) (numReads : Option Nat) (fresh : List (List Rat)) : Except Unit (List Row) :=
  pisCore m labels (rows.map (convertRow (statesSpin.getD m.spin) m.spin)) g
    (match numReads with | some n => n | none => if rows.length = 0 then 1 else rows.length) fresh

/-! ## SimulatedAnnealingSampler: result assembly -/

/-- `h, J, offset = bqm.to_ising()`; per read a spin assignment and `ising_energy(spins, h, J)`; then
    `SampleSet.from_samples(…, SPIN, energies).change_vartype(bqm.vartype, offset)`.  `spins` = the
    assignments the annealer ends in (input of the model). -/
def saAssemble (m : Bqm) (spins : List (List (Label × Rat))) : List Row :=
  let s := m.toSpin
  let ising : Bqm := { s with off := 0 }
  let rows : List Row := spins.map fun x => ⟨x, ising.energy (Row.val ⟨x, 0⟩)⟩
  if m.spin then rows.map (fun r => { r with energy := r.energy + s.off }) else rows.map (·.toBinary s.off)

/-! ## aggregate / truncate -/

/-- a record row: sample values (in the sample set's column order), energy, `num_occurrences` -/
structure ORow where
  vals : List Rat
  energy : Rat
  occ : Nat

/-- add one record row to the aggregated rows: bump the occurrences of the row with the same sample, or
    append it as a new row -/
def aggInsert : List ORow → ORow → List ORow
  | [], r => [r]
  | a :: rest, r => if a.vals = r.vals then { a with occ := a.occ + r.occ } :: rest else a :: aggInsert rest r

/-- `SampleSet.aggregate`: distinct sample rows in first-seen order, occurrences summed, the other fields of
    the first occurrence -/
def aggregate (rows : List ORow) : List ORow := rows.foldl aggInsert []

/-- `SampleSet.truncate(n, sorted_by)`: `sorted_by='energy'` sorts by energy first (`np.argsort`: *some* sorting
    permutation; here the stable one), `None` keeps the order -/
def truncate (n : Nat) (byEnergy : Bool) (rows : List ORow) : List ORow :=
  (if byEnergy then rows.mergeSort (fun a b => decide (a.energy ≤ b.energy)) else rows).take n

/-- `TruncateComposite.sample` / `PolyTruncateComposite.sample_poly` -/
def truncateComposite (n : Nat) (byEnergy agg : Bool) (childRows : List ORow) : List ORow :=
  truncate n byEnergy (if agg then aggregate childRows else childRows)

/-! ## StructureComposite, TrackingComposite -/

/-- `bqm_structured`: every variable is a node, every interaction an edge (either orientation) -/
def structureOK (nodes : List Label) (edges : List (Label × Label)) (m : Bqm) : Bool :=
  m.lin.all (fun p => nodes.contains p.1) &&
  m.quad.all (fun (u, v, _) => nodes.contains u && nodes.contains v &&
    edges.any (fun (a, b) => (a = u && b = v) || (a = v && b = u)))

/-- `StructureComposite.sample`: raise `BinaryQuadraticModelStructureError` or hand the bqm to the child unchanged -/
def structureSample (child : Bqm → List Row) (nodes : List Label) (edges : List (Label × Label)) (m : Bqm) : Except Unit (List Row) :=
  if structureOK nodes edges m then .ok (child m) else .error ()

/-- `TrackingComposite.sample`: the child's answer, and the log extended by this input and output -/
def trackingSample (child : Bqm → List Row) (log : List (Bqm × List Row)) (m : Bqm) : List Row × List (Bqm × List Row) :=
  let out := child m
  (out, log ++ [(m, out)])

end Enum
