import DimodModel.Energy
import Generated.EnergyLoops

/-! # C01 — the energy loops over the guards regenerated from the source (round 7)

`Generated/EnergyLoops.lean` is rewritten on every run from `abc.h` (`if (term.v > u) break;`) and from
`cyqmbase_template.pyx.pxi` (`while it != end and deref(it).v <= ui`).  The loops below are the loops of
`DimodModel/Energy.lean` with the hand-written guard replaced by the generated one.  Core Lean only. -/

namespace En
namespace QMB

open Generated.EnergyLoops

variable {R : Type}

/-- `for (auto& term : adj[u]) { if (<generated guard>) break; en += term.bias * u_val * sample[term.v]; }` -/
def lowerLoopCpp [Add R] [Mul R] (x : Nat → R) (u : Nat) : Nbh R → R → R
  | [], en => en
  | (v, b) :: t, en => if cppBreak v u then en else lowerLoopCpp x u t (en + b * x u * x v)

/-- `while it != end and <generated guard>: energies[si] += bias * sample[ui] * sample[vi]; inc(it)` -/
def lowerLoopCy [Add R] [Mul R] (x : Nat → R) (u : Nat) : Nbh R → R → R
  | [], en => en
  | (v, b) :: t, en => if cyContinue v u then lowerLoopCy x u t (en + b * x u * x v) else en

/-- the outer loop with the neighbourhood loop as a parameter -/
def adjLoopWith [Add R] [Mul R] (inner : Nat → Nbh R → R → R) (x : Nat → R) (a : List (Nbh R)) : Nat → List R → R → R
  | _, [], en => en
  | u, l :: ls, en => adjLoopWith inner x a (u+1) ls (inner u (a.getD u []) (en + x u * l))

/-- `QuadraticModelBase::energy(sample_start)` over the generated guard -/
def energyGen [Add R] [Mul R] (m : QMB R) (x : Nat → R) : R :=
  match m.adj with
  | some a => adjLoopWith (lowerLoopCpp x) x a cppFirst m.lin m.off
  | none => linLoop x 0 m.lin m.off

/-- `cyQMBase._energies`, one row, over the generated guard -/
def cyEnergyGen [Add R] [Mul R] (m : QMB R) (x : Nat → R) : R :=
  adjLoopWith (lowerLoopCy x) x (m.adj.getD []) 0 m.lin m.off

theorem lowerLoopCpp_eq [Add R] [Mul R] (x : Nat → R) (u : Nat) (nb : Nbh R) (en : R) :
    lowerLoopCpp x u nb en = lowerLoop x u nb en := by
  induction nb generalizing en with
  | nil => rfl
  | cons e t ih =>
    obtain ⟨v, b⟩ := e
    simp only [lowerLoopCpp, lowerLoop, cppBreak, decide_eq_true_eq]
    split
    · rfl
    · exact ih _

theorem lowerLoopCy_eq [Add R] [Mul R] (x : Nat → R) (u : Nat) (nb : Nbh R) (en : R) :
    lowerLoopCy x u nb en = lowerLoop x u nb en := by
  induction nb generalizing en with
  | nil => rfl
  | cons e t ih =>
    obtain ⟨v, b⟩ := e
    simp only [lowerLoopCy, lowerLoop, cyContinue, decide_eq_true_eq]
    by_cases h : v ≤ u
    · have h' : ¬ v > u := by omega
      simp only [h, h', if_true, if_false]; exact ih _
    · have h' : v > u := by omega
      simp only [h, h', if_true, if_false]

theorem adjLoopWith_eq [Add R] [Mul R] (inner : Nat → Nbh R → R → R) (x : Nat → R) (a : List (Nbh R))
    (hin : ∀ u nb en, inner u nb en = lowerLoop x u nb en) (u : Nat) (ls : List R) (en : R) :
    adjLoopWith inner x a u ls en = adjLoop x a u ls en := by
  induction ls generalizing u en with
  | nil => rfl
  | cons l ls ih => simp only [adjLoopWith, adjLoop, hin]; exact ih _ _

/-- the loops over the generated guards are the loops every C01 theorem is about -/
theorem energyGen_eq [Add R] [Mul R] (m : QMB R) (x : Nat → R) : m.energyGen x = m.energy x := by
  unfold energyGen energy
  cases m.adj with
  | none => rfl
  | some a => exact adjLoopWith_eq _ x a (lowerLoopCpp_eq x) _ _ _

theorem cyEnergyGen_eq [Add R] [Mul R] (m : QMB R) (x : Nat → R) : m.cyEnergyGen x = m.cyEnergy x := by
  unfold cyEnergyGen cyEnergy
  exact adjLoopWith_eq _ x _ (lowerLoopCy_eq x) _ _ _

end QMB
end En
