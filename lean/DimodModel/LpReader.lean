import DimodModel.Lp
import Generated.LpKeywords

/-! # C12 — the C++ LP reader as coded

Mirror of `extern/filereaderlp/reader.cpp` (`Reader::readnexttoken`, `nextrawtoken`, `processtokens`,
`splittokens`, `parseexpression`, `process{obj,con,bounds,gen,bin,semi,sos}sec`, `Builder::getvarbyname`)
composed with `model_to_cqm` / `copy_expression` / `cyread_lp_file` of `dimod/cylp.pyx`.  Keyword tables,
the identifier terminator set and the single-character switch come from `Generated.LpKeywords`
(regenerated from the C++ source on every run).

Outcomes: `ok cqm`, `refused` (an `lpassert` / `std::domain_error` / duplicate constraint label: a Python
`ValueError`), `assertion` (a C `assert` of `varinfo_type` that only debug builds evaluate),
`unmodelled` (text outside the modelled alphabet: `nan`, hexadecimal floats, control characters, a
non-finite coefficient / offset / right-hand side, undefined behaviour of the C++ code).

`strtod` is modelled on decimal literals `ddd[.ddd][e[±]ddd]`, `.ddd…`, `inf`, `infinity` (any case) with
the correctly rounded (round-half-even, subnormals, overflow to infinity) binary64 value.  Core Lean only. -/

namespace LpCpp
open Lp Generated.LpKeywords

inductive Err where
  | refused | unmodelled | assertion
deriving DecidableEq, Repr

/-- a double that is finite (as its exact rational value) or an infinity -/
inductive Num where
  | fin (q : Rat)
  | inf (neg : Bool)
deriving DecidableEq

def Num.neg : Num → Num
  | .fin q => .fin (-q)
  | .inf b => .inf (!b)

def Num.isTwo : Num → Bool
  | .fin q => q = 2
  | _ => false

/-! ## binary64 rounding -/

def pow2 (i : Int) : Rat := if i ≥ 0 then ((2 ^ i.toNat : Nat) : Rat) else 1 / ((2 ^ (-i).toNat : Nat) : Rat)

/-- `⌊log2 q⌋` for `q > 0` -/
def floorLog2 (q : Rat) : Int :=
  let e0 : Int := (Nat.log2 q.num.toNat : Int) - (Nat.log2 q.den : Int)
  if pow2 e0 ≤ q then e0 else e0 - 1

def roundHalfEven (x : Rat) : Int :=
  let f := x.floor
  let r := x - (f : Rat)
  if r < 1 / 2 then f else if r > 1 / 2 then f + 1 else if f % 2 = 0 then f else f + 1

/-- the binary64 nearest to `q` (ties to even; gradual underflow; overflow to infinity) -/
def roundDouble (q : Rat) : Num :=
  if q = 0 then .fin 0 else
  let a := if q < 0 then -q else q
  let e := max (floorLog2 a) (-1022)
  let quantum := pow2 (e - 52)
  let r := ((roundHalfEven (a / quantum) : Int) : Rat) * quantum
  if r ≥ pow2 1024 then .inf (q < 0) else .fin (if q < 0 then -r else r)

/-- `q` is a binary64 value -/
def isDouble (q : Rat) : Bool := roundDouble q = .fin q

/-! ## `readnexttoken`: raw tokens of one line -/

inductive Raw where
  | str (s : String) | cons (v : Num)
  | less | greater | equal | colon | brkop | brkcl | plus | minus | hat | slash | asterisk
deriving DecidableEq

def lowerAscii (s : String) : String := String.ofList (s.toList.map Char.toLower)

def digitsVal (cs : List Char) : Nat := cs.foldl (fun n c => 10 * n + (c.toNat - 48)) 0

def startsCI (cs : List Char) (w : String) : Bool :=
  let n := w.length
  cs.length ≥ n && (cs.take n).map Char.toLower = w.toList

def isHexDigit (c : Char) : Bool := c.isDigit || ('a' ≤ c.toLower && c.toLower ≤ 'f')

/-- a hexadecimal mantissa follows `0x` -/
def hexFollows : List Char → Bool
  | d :: rest => isHexDigit d || (d = '.' && (match rest with | h :: _ => isHexDigit h | [] => false))
  | [] => false

/-- `strtod(startptr, &endptr)` at a character that is none of `switchChars`:
    `none` = no conversion (`endptr == startptr`); `some (v, n)` = value and consumed length -/
def strtod (cs : List Char) : Except Err (Option (Num × Nat)) :=
  match cs with
  | [] => .ok none
  | c :: _ =>
    if c.toNat < 32 ∨ c.toNat = 127 then .error .unmodelled          -- `isspace` skipping / control characters
    else if startsCI cs "infinity" then .ok (some (.inf false, 8))
    else if startsCI cs "inf" then .ok (some (.inf false, 3))
    else if startsCI cs "nan" then .error .unmodelled
    else if startsCI cs "0x" && hexFollows (cs.drop 2) then .error .unmodelled
    else
      let ip := cs.takeWhile Char.isDigit
      let r1 := cs.drop ip.length
      let hasDot := r1.head? = some '.'
      let fp := if hasDot then (r1.drop 1).takeWhile Char.isDigit else []
      if ip.isEmpty ∧ fp.isEmpty then .ok none
      else
        let mlen := ip.length + (if hasDot then 1 + fp.length else 0)
        let r2 := cs.drop mlen
        -- exponent part, only when at least one digit follows `e[±]`
        let (ex, elen) : Int × Nat :=
          match r2 with
          | e :: r3 =>
            if e = 'e' ∨ e = 'E' then
              let (sgn, r4, sl) : Bool × List Char × Nat :=
                match r3 with
                | '+' :: t => (false, t, 1)
                | '-' :: t => (true, t, 1)
                | _ => (false, r3, 0)
              let ed := r4.takeWhile Char.isDigit
              if ed.isEmpty then (0, 0)
              else
                let sig := ed.dropWhile (· = '0')
                let v : Int := if sig.length > 6 then 1000000 else (digitsVal sig : Nat)
                (if sgn then -v else v, 1 + sl + ed.length)
            else (0, 0)
          | [] => (0, 0)
        let mant : Nat := digitsVal (ip ++ fp)
        let dexp : Int := ex - (fp.length : Int)
        let ndig : Int := ((ip ++ fp).length : Int)
        let v : Num :=
          if mant = 0 then .fin 0
          else if dexp > 400 then .inf false
          else if dexp + ndig < -400 then .fin 0
          else if dexp ≥ 0 then roundDouble ((mant : Rat) * ((10 ^ dexp.toNat : Nat) : Rat))
          else roundDouble ((mant : Rat) / ((10 ^ (-dexp).toNat : Nat) : Rat))
        .ok (some (v, mlen + elen))

def singleTok (c : Char) : Option Raw :=
  if c = '[' then some .brkop else if c = ']' then some .brkcl else if c = '<' then some .less
  else if c = '>' then some .greater else if c = '=' then some .equal else if c = ':' then some .colon
  else if c = '+' then some .plus else if c = '^' then some .hat else if c = '/' then some .slash
  else if c = '*' then some .asterisk else if c = '-' then some .minus else none

/-- all raw tokens of one line (`\` and `;` at a token start end the line; blanks and tabs are skipped) -/
def lexLine : Nat → List Char → Except Err (List Raw)
  | 0, _ => .ok []
  | _, [] => .ok []
  | fuel+1, c :: cs =>
    if c = '\\' ∨ c = ';' ∨ c = '\n' then .ok []
    else if c = ' ' ∨ c = '\t' then lexLine fuel cs
    else if c = Char.ofNat 0 then .error .unmodelled
    else match singleTok c with
    | some t => (lexLine fuel cs).map (t :: ·)
    | none =>
      match strtod (c :: cs) with
      | .error e => .error e
      | .ok (some (v, n)) => (lexLine fuel ((c :: cs).drop n)).map (Raw.cons v :: ·)
      | .ok none =>
        let w := (c :: cs).takeWhile (fun d => !identTerminators.contains d)
        if w.isEmpty then .error .refused
        else (lexLine fuel ((c :: cs).drop w.length)).map (Raw.str (String.ofList w) :: ·)

/-- `std::getline` lines with a trailing `\r` dropped -/
def splitLines (cs : List Char) : List (List Char) :=
  let rec go : List Char → List Char → List (List Char)
    | [], cur => [cur.reverse]
    | c :: t, cur => if c = '\n' then cur.reverse :: go t [] else go t (c :: cur)
  (go cs []).map fun l => if l.getLast? = some '\r' then l.dropLast else l

def rawTokens (text : String) : Except Err (List Raw) :=
  -- the single-character switch of `readnexttoken` as extracted from the source must be the one modelled by `lexLine`
  if switchChars ≠ ['\\', '[', ']', '<', '>', '=', ':', '+', '^', '/', '*', '-', ' ', '\t', ';', '\n', Char.ofNat 0] then .error .unmodelled else
  (splitLines text.toList).foldlM (fun acc l => (lexLine (l.length + 1) l).map (acc ++ ·)) []

/-! ## `processtokens` -/

inductive Cmp where
  | leq | l | eq | g | geq
deriving DecidableEq

inductive PTok where
  | secid (k : Kw) | varid (s : String) | conid (s : String) | const (v : Num) | free
  | brkop | brkcl | comp (d : Cmp) | slash | asterisk | hat | sostype (one : Bool)
deriving DecidableEq

def parseKw (s : String) : Option Kw := (sectionKeywords.find? (·.1 = s)).map (·.2)

def isSign : Raw → Bool
  | .plus | .minus => true
  | _ => false

def signOf : Raw → Rat
  | .plus => 1
  | _ => -1

def Num.scale (s : Rat) : Num → Num
  | .fin q => .fin (s * q)
  | .inf b => .inf (if s < 0 then !b else b)

/-- skipping of a `/* … */` comment as coded: two tokens at a time -/
def skipComment : Nat → List Raw → List Raw
  | 0, ts => ts
  | fuel+1, ts =>
    let ts := ts.drop 2
    match ts with
    | [] => []
    | [.asterisk] => skipComment fuel ts          -- rawtokens[1] is FLEND
    | .asterisk :: .slash :: _ => ts.drop 2
    | _ => skipComment fuel ts

def procToks : Nat → List Raw → Except Err (List PTok)
  | 0, _ => .ok []
  | _, [] => .ok []
  | fuel+1, t0 :: rest =>
    let emit (p : PTok) (n : Nat) : Except Err (List PTok) := (procToks fuel ((t0 :: rest).drop n)).map (p :: ·)
    match t0, rest with
    | .slash, .asterisk :: _ => procToks fuel (skipComment (rest.length + 2) (t0 :: rest))
    | .str s, _ =>
      let lc := lowerAscii s
      let kw3 : Option Kw := match rest with
        | .minus :: .str s2 :: _ => parseKw (lc ++ "-" ++ lowerAscii s2)
        | _ => none
      let kw2 : Option Kw := match rest with
        | .str s1 :: _ => parseKw (lc ++ " " ++ lowerAscii s1)
        | _ => none
      match kw3 with
      | some k => emit (.secid k) 3
      | none =>
      match kw2 with
      | some k => emit (.secid k) 2
      | none =>
      match parseKw lc with
      | some k => emit (.secid k) 1
      | none =>
      match rest with
      | .colon :: .colon :: _ =>
        match s.toList with
        | [a, b] =>
          if (a = 'S' ∨ a = 's') ∧ (b = '1' ∨ b = '2') then emit (.sostype (b = '1')) 3 else .error .refused
        | _ => .error .refused
      | .colon :: _ => emit (.conid s) 2
      | _ =>
        if freeWords.contains lc then emit .free 1
        else if infWords.contains lc then emit (.const (.inf false)) 1
        else emit (.varid s) 1
    | .plus, _ | .minus, _ =>
      let s1 := signOf t0
      let (sign, r1) : Rat × List Raw := match rest with
        | t1 :: r => if isSign t1 then (s1 * signOf t1, r) else (s1, rest)
        | [] => (s1, rest)
      match r1 with
      | .cons v :: r2 => (procToks fuel r2).map (PTok.const (v.scale sign) :: ·)
      | .brkop :: r2 => if sign = 1 then (procToks fuel r2).map (PTok.brkop :: ·) else .error .refused
      | .str _ :: _ => (procToks fuel r1).map (PTok.const (.fin sign) :: ·)
      | _ => .error .refused
    | .cons _, .brkop :: _ => .error .refused
    | .cons v, _ => emit (.const v) 1
    | .brkop, _ => emit .brkop 1
    | .brkcl, _ => emit .brkcl 1
    | .slash, _ => emit .slash 1
    | .asterisk, _ => emit .asterisk 1
    | .hat, _ => emit .hat 1
    | .less, .equal :: _ => emit (.comp .leq) 2
    | .less, _ => emit (.comp .l) 1
    | .greater, .equal :: _ => emit (.comp .geq) 2
    | .greater, _ => emit (.comp .g) 1
    | .equal, _ => emit (.comp .eq) 1
    | .colon, _ => .error .refused

/-! ## `splittokens`: section ranges (begin, end) as indices into the processed tokens -/

structure SplitSt where
  current : Kw := .sNone
  isOpen : Bool := false
  secs : List (Kw × Nat × Nat) := []

def setEnd (secs : List (Kw × Nat × Nat)) (k : Kw) (e : Nat) : List (Kw × Nat × Nat) :=
  secs.map fun (k', b, e') => if k' = k then (k', b, e) else (k', b, e')

def kwAt (ts : Array PTok) (i : Nat) : Option Kw :=
  match ts[i]? with
  | some (.secid k) => some k
  | _ => none

/-- one iteration of the loop of `splittokens` at index `i` -/
def splitStep (ts : Array PTok) (st : SplitSt) (i : Nat) : Except Err SplitSt :=
  match kwAt ts i with
  | none => .ok st
  | some kw => do
    let newType := st.current ≠ kw
    let st ← (if newType ∧ st.current ≠ .sNone then
        (if st.isOpen then .ok { st with secs := setEnd st.secs st.current i, isOpen := false, current := .sNone }
         else .error .refused)
      else .ok st : Except Err SplitSt)
    let next := i + 1
    if next = ts.size ∨ (kwAt ts next).isSome then
      -- reached the end of the tokens or the new section is empty
      let st ← (if st.current ≠ .sNone then
          (if next = ts.size then .error .unmodelled          -- reads `next->keyword` past the end
           else if some st.current ≠ kwAt ts next then
             (if st.isOpen then .ok { st with secs := setEnd st.secs st.current i, isOpen := false } else .error .refused)
           else .ok st)
        else .ok st : Except Err SplitSt)
      if st.isOpen then .error .refused else .ok { st with current := .sNone }
    else
      let st ← (if newType then
          (if st.secs.any (·.1 = kw) ∨ st.isOpen then .error .refused
           else .ok { st with current := kw, secs := st.secs ++ [(kw, next, ts.size)], isOpen := true })
        else .ok st : Except Err SplitSt)
      if st.isOpen = (st.current = .sNone) then .error .refused else .ok st

def splitToks (ts : Array PTok) : Except Err (List (Kw × Nat × Nat)) := do
  let st ← (List.range ts.size).foldlM (splitStep ts) {}
  if st.current ≠ .sNone then .error .refused else .ok st.secs

/-! ## the model under construction (`Builder`, `Model`) -/

inductive VType where
  | continuous | binary | general | semicont | semiint
deriving DecidableEq

structure CVar where
  name : String
  type : VType := .continuous
  lb : Num := .fin 0
  ub : Num := .inf false

structure CExpr where
  lin : List (String × Num) := []
  quad : List (String × String × Num) := []
  off : List Num := []          -- the summands of `offset +=`
  name : String := ""

structure CCon where
  lower : Num := .inf true
  upper : Num := .inf false
  expr : CExpr := {}

/-- `Builder::getvarbyname` -/
def getVar (vs : List CVar) (n : String) : List CVar :=
  if vs.any (·.name = n) then vs else vs ++ [{ name := n }]

def modVar (vs : List CVar) (n : String) (f : CVar → CVar) : List CVar :=
  (getVar vs n).map fun v => if v.name = n then f v else v

/-- the body of `[ … ]`: terms until no pattern applies -/
def parseQuadTerms : Nat → List PTok → List CVar → CExpr → (List PTok × List CVar × CExpr) ⊕ Unit
  | 0, ts, vs, e => .inl (ts, vs, e)
  | fuel+1, ts, vs, e =>
    match ts with
    | [] => .inl (ts, vs, e)
    | .brkcl :: _ => .inl (ts, vs, e)
    | .const c :: .varid x :: .hat :: .const p :: r =>
      if p.isTwo then parseQuadTerms fuel r (getVar vs x) { e with quad := e.quad ++ [(x, x, c)] } else .inr ()
    | .varid x :: .hat :: .const p :: r =>
      if p.isTwo then parseQuadTerms fuel r (getVar vs x) { e with quad := e.quad ++ [(x, x, .fin 1)] } else .inr ()
    | .const c :: .varid x :: .asterisk :: .varid y :: r =>
      parseQuadTerms fuel r (getVar (getVar vs x) y) { e with quad := e.quad ++ [(x, y, c)] }
    | .varid x :: .asterisk :: .varid y :: r =>
      parseQuadTerms fuel r (getVar (getVar vs x) y) { e with quad := e.quad ++ [(x, y, .fin 1)] }
    | _ => .inl (ts, vs, e)

/-- `parseexpression` after the optional constraint identifier; returns the unread tokens -/
def parseTerms (isobj : Bool) : Nat → List PTok → List CVar → CExpr → Except Err (List PTok × List CVar × CExpr)
  | 0, ts, vs, e => .ok (ts, vs, e)
  | fuel+1, ts, vs, e =>
    match ts with
    | [] => .ok (ts, vs, e)
    | .const c :: .varid x :: r => parseTerms isobj fuel r (getVar vs x) { e with lin := e.lin ++ [(x, c)] }
    | .const c :: r => parseTerms isobj fuel r vs { e with off := e.off ++ [c] }
    | .varid x :: r => parseTerms isobj fuel r (getVar vs x) { e with lin := e.lin ++ [(x, .fin 1)] }
    | .brkop :: t :: r0 =>
      match parseQuadTerms (r0.length + 2) (t :: r0) vs e with
      | .inr () => .error .refused
      | .inl (r, vs, e) =>
        if isobj then
          match r with
          | .brkcl :: .slash :: .const p :: r' => if p.isTwo then parseTerms isobj fuel r' vs e else .error .refused
          | _ => .error .refused
        else
          match r with
          | .brkcl :: r' => parseTerms isobj fuel r' vs e
          | _ => .error .refused
    | _ => .ok (ts, vs, e)

def parseExpression (isobj : Bool) (ts : List PTok) (vs : List CVar) : Except Err (List PTok × List CVar × CExpr) :=
  match ts with
  | .conid n :: r => parseTerms isobj (r.length + 1) r vs { name := n }
  | _ => parseTerms isobj (ts.length + 1) ts vs {}

/-- `processconsec` -/
def parseCons : Nat → List PTok → List CVar → List CCon → Except Err (List CVar × List CCon)
  | 0, _, vs, cs => .ok (vs, cs)
  | fuel+1, ts, vs, cs =>
    match ts with
    | [] => .ok (vs, cs)
    | _ =>
      match parseExpression false ts vs with
      | .error e => .error e
      | .ok (r, vs, e) =>
        match r with
        | .comp d :: .const v :: r' =>
          match d with
          | .eq => parseCons fuel r' vs (cs ++ [{ lower := v, upper := v, expr := e }])
          | .leq => parseCons fuel r' vs (cs ++ [{ upper := v, expr := e }])
          | .geq => parseCons fuel r' vs (cs ++ [{ lower := v, expr := e }])
          | _ => .error .refused
        | _ => .error .refused

/-- `processboundssec` -/
def parseBounds : Nat → List PTok → List CVar → Except Err (List CVar)
  | 0, _, vs => .ok vs
  | fuel+1, ts, vs =>
    match ts with
    | [] => .ok vs
    | .varid x :: .free :: r => parseBounds fuel r (modVar vs x fun v => { v with lb := .inf true, ub := .inf false })
    | .const lb :: .comp d1 :: .varid x :: .comp d2 :: .const ub :: r =>
      if d1 = .leq ∧ d2 = .leq then parseBounds fuel r (modVar vs x fun v => { v with lb := lb, ub := ub }) else .error .refused
    | .const c :: .comp d :: .varid x :: r =>
      match d with
      | .leq => parseBounds fuel r (modVar vs x fun v => { v with lb := c })
      | .geq => parseBounds fuel r (modVar vs x fun v => { v with ub := c })
      | .eq => parseBounds fuel r (modVar vs x fun v => { v with lb := c, ub := c })
      | _ => .error .refused
    | .varid x :: .comp d :: .const c :: r =>
      match d with
      | .leq => parseBounds fuel r (modVar vs x fun v => { v with ub := c })
      | .geq => parseBounds fuel r (modVar vs x fun v => { v with lb := c })
      | .eq => parseBounds fuel r (modVar vs x fun v => { v with lb := c, ub := c })
      | _ => .error .refused
    | _ => .error .refused

/-- `processgensec` / `processbinsec` / `processsemisec`: every token is the section's own keyword or a variable -/
def parseNames (k : Kw) (f : CVar → CVar) : List PTok → List CVar → Except Err (List CVar)
  | [], vs => .ok vs
  | .secid k' :: r, vs => if k' = k then parseNames k f r vs else .error .refused
  | .varid x :: r, vs => parseNames k f r (modVar vs x f)
  | _ :: _, _ => .error .refused

/-- `processsossec`: the entries only create variables -/
def parseSosEntries : List PTok → List CVar → List PTok × List CVar
  | .conid x :: .const _ :: r, vs => parseSosEntries r (getVar vs x)
  | ts, vs => (ts, vs)

def parseSos : Nat → List PTok → List CVar → Except Err (List CVar)
  | 0, _, vs => .ok vs
  | fuel+1, ts, vs =>
    match ts with
    | [] => .ok vs
    | .conid _ :: .sostype _ :: r =>
      let (r', vs) := parseSosEntries r vs
      parseSos fuel r' vs
    | _ => .error .refused

structure CModel where
  vars : List CVar := []
  obj : CExpr := {}
  maximize : Bool := false
  cons : List CCon := []

def secSlice (ts : Array PTok) (secs : List (Kw × Nat × Nat)) (k : Kw) : Option (List PTok) :=
  (secs.find? (·.1 = k)).map fun (_, b, e) => (ts.toList.take e).drop b

/-- `processsections` in the order of the source (checked against `Generated.LpKeywords.sectionOrder`) -/
def processSections (ts : Array PTok) (secs : List (Kw × Nat × Nat)) : Except Err CModel := do
  if sectionOrder ≠ ["none", "obj", "con", "bounds", "gen", "bin", "semi", "sos", "end"] then .error .unmodelled
  -- objective: OBJMIN if present, else OBJMAX; all its tokens must be consumed
  let (vs, obj, mx) ← (match secSlice ts secs .sObjmin, secSlice ts secs .sObjmax with
    | some sl, _ => do
      let (r, vs, e) ← parseExpression true sl []
      if r.isEmpty then pure (vs, e, false) else .error .refused
    | none, some sl => do
      let (r, vs, e) ← parseExpression true sl []
      if r.isEmpty then pure (vs, e, true) else .error .refused
    | none, none => pure ([], {}, false) : Except Err (List CVar × CExpr × Bool))
  let (vs, cons) ← (match secSlice ts secs .sCon with
    | some sl => parseCons (sl.length + 1) sl vs []
    | none => pure (vs, []) : Except Err (List CVar × List CCon))
  let vs ← (match secSlice ts secs .sBounds with
    | some sl => parseBounds (sl.length + 1) sl vs
    | none => pure vs : Except Err (List CVar))
  let vs ← (match secSlice ts secs .sGen with
    | some sl => parseNames .sGen (fun v => { v with type := if v.type = .semicont then .semiint else .general }) sl vs
    | none => pure vs : Except Err (List CVar))
  let vs ← (match secSlice ts secs .sBin with
    | some sl => parseNames .sBin (fun v => { v with type := .binary, ub := if v.ub = .inf false then .fin 1 else v.ub }) sl vs
    | none => pure vs : Except Err (List CVar))
  let vs ← (match secSlice ts secs .sSemi with
    | some sl => parseNames .sSemi (fun v => { v with type := if v.type = .general then .semiint else .semicont }) sl vs
    | none => pure vs : Except Err (List CVar))
  let vs ← (match secSlice ts secs .sSos with
    | some sl => parseSos (sl.length + 1) sl vs
    | none => pure vs : Except Err (List CVar))
  if (secs.any (·.1 = .sEnd)) then .error .refused
  pure { vars := vs, obj := obj, maximize := mx, cons := cons }

/-- `Reader::read` -/
def readModel (text : String) : Except Err CModel := do
  let raw ← rawTokens text
  let pt ← procToks (raw.length + 1) raw
  let ts := pt.toArray
  let secs ← splitToks ts
  processSections ts secs

/-! ## `model_to_cqm` and the relabelling of `cyread_lp_file` -/

def clampNum (vt : VT) : Num → Rat
  | .fin q => clamp vt q
  | .inf true => minBound vt
  | .inf false => maxBound vt

def finite : Num → Except Err Rat
  | .fin q => .ok q
  | .inf _ => .error .unmodelled

def toVar (v : CVar) : Except Err LVar :=
  match v.type with
  | .semicont | .semiint => .error .refused            -- "unsupported vartype"
  | t =>
    let vt : VT := match t with | .binary => .binary | .general => .integer | _ => .real
    let lb := clampNum vt v.lb
    let ub := clampNum vt v.ub
    -- the `assert`s of `varinfo_type(vartype, lb, ub)` (debug builds only)
    if lb > ub ∨ (vt = .binary ∧ (lb ≠ 0 ∨ ub ≠ 1)) then .error .assertion
    else .ok ⟨.str v.name, vt, lb, ub⟩

/-- `a + b` in binary64 -/
def rdAdd (a b : Rat) : Except Err Rat :=
  match roundDouble (a + b) with
  | .fin r => .ok r
  | .inf _ => .error .unmodelled

/-- `add_linear(v, c)`: `bias[v] += c` in binary64, a new variable starts at its first coefficient -/
def accLin (acc : List (String × Rat)) (v : String) (c : Rat) : Except Err (List (String × Rat)) :=
  if acc.any (·.1 = v) then acc.mapM fun (v', a) => if v' = v then (rdAdd a c).map ((v', ·)) else pure (v', a)
  else pure (acc ++ [(v, c)])

def samePair (u v u' v' : String) : Bool := (u = u' && v = v') || (u = v' && v = u')

/-- `add_quadratic(u, v, c)` on the unordered pair -/
def accQuad (acc : List (String × String × Rat)) (u v : String) (c : Rat) : Except Err (List (String × String × Rat)) :=
  if acc.any (fun (u', v', _) => samePair u v u' v') then
    acc.mapM fun (u', v', a) => if samePair u v u' v' then (rdAdd a c).map ((u', v', ·)) else pure (u', v', a)
  else pure (acc ++ [(u, v, c)])

/-- `copy_expression` (+ `scale(-1)` for a maximisation): linear terms, then quadratic terms (halved in the
    objective, in binary64; the square of a BINARY variable goes to its linear bias), then the offset; every
    accumulation is a binary64 addition -/
def toExpr (bins : List String) (e : CExpr) (isobj : Bool) (flip : Bool) : Except Err LExpr := do
  let s : Rat := if flip then -1 else 1
  let lin ← e.lin.foldlM (fun acc (v, c) => do accLin acc v (← finite c)) []
  let (lin, quad) ← e.quad.foldlM (fun (acc : List (String × Rat) × List (String × String × Rat)) (u, v, c) => do
      let q ← finite c
      let q ← (if isobj then finite (roundDouble (q / 2)) else pure q)
      if u = v ∧ bins.contains u then pure (← accLin acc.1 u q, acc.2) else pure (acc.1, ← accQuad acc.2 u v q)) (lin, [])
  let off ← e.off.foldlM (fun a c => do rdAdd a (← finite c)) 0
  pure ⟨lin.map (fun (v, b) => (Label.str v, s * b)), quad.map (fun (u, v, b) => (Label.str u, Label.str v, s * b)), s * off⟩

def toCon (bins : List String) (i : Nat) (c : CCon) : Except Err LCon := do
  let e ← toExpr bins c.expr false false
  let label : Label := if c.expr.name.isEmpty then .int i else .str c.expr.name
  if c.lower = c.upper then (finite c.lower).map fun r => ⟨label, e, .eq, r, false⟩
  else if c.lower = .inf true then (finite c.upper).map fun r => ⟨label, e, .le, r, false⟩
  else if c.upper = .inf false then (finite c.lower).map fun r => ⟨label, e, .ge, r, false⟩
  else .error .refused

def toCqm (m : CModel) : Except Err LCqm := do
  -- `variable_type_to_vartype` throws first, variable by variable; then the debug assertions
  let vars ← m.vars.mapM toVar
  let bins := (m.vars.filter (·.type = .binary)).map (·.name)
  let obj ← toExpr bins m.obj true m.maximize
  let cons ← (List.range m.cons.length).zip m.cons |>.mapM fun (i, c) => toCon bins i c
  -- `relabel_constraints`: two constraints with the same name are a ValueError
  let names := cons.map (·.label)
  if names.eraseDups.length ≠ names.length then .error .refused
  pure ⟨vars, obj, cons⟩

/-- `dimod.lp.loads(text)` -/
def loads (text : String) : Except Err LCqm := (readModel text).bind toCqm

end LpCpp
