import DimodModel.CheckedCqm

/-! `ConstrainedQuadraticModel::change_vartype(target, v)` (constrained_quadratic_model.h) as coded: a branch on the vartype the
    variable has, then calls that `Cqm.COp` already models - `substitute_variable(v, mult, c)` on the objective and on every
    constraint, the three `varinfo_[v]` writes - or `std::logic_error`.  SPIN → INTEGER goes through BINARY by two recursive
    calls.  Core Lean only. -/

namespace Cqm

/-- the calls made for a variable of vartype `src` (`none` = `std::logic_error("unsupported vartype change")`) -/
def changeVartypeOps (src tgt : VT4) (v : Nat) : Option (List COp) :=
  if src = tgt then some [] else
  match src, tgt with
  | .spin, .binary =>
    some [.substituteVariable v 2 (-1), .setLowerBound v 0, .setUpperBound v 1, .setVartype v .binary]
  | .binary, .spin =>
    some [.substituteVariable v (1/2) (1/2), .setLowerBound v (-1), .setUpperBound v 1, .setVartype v .spin]
  | .spin, .integer =>
    -- change_vartype(BINARY, v); change_vartype(INTEGER, v)
    some [.substituteVariable v 2 (-1), .setLowerBound v 0, .setUpperBound v 1, .setVartype v .binary, .setVartype v .integer]
  | .binary, .integer => some [.setVartype v .integer]
  | _, _ => none

/-- `change_vartype(t, v)`; `true` = the call throws `std::logic_error` and nothing has changed -/
def changeVartypeC (m : Cqm) (t : VT4) (v : Nat) : Cqm × Bool :=
  match changeVartypeOps (m.vt.getD v .binary) t v with
  | some ops => (m.crun ops, false)
  | none => (m, true)

/-- the same call with every vector access checked (`this->vartype(v)` reads `varinfo_[v]`); `none` = an access outside a vector -/
def changeVartypeC? (m : Cqm) (t : VT4) (v : Nat) : Option (Cqm × Bool) :=
  match m.vt[v]? with
  | none => none
  | some src =>
    match changeVartypeOps src t v with
    | some ops => (crun? (some m) ops).map fun r => (r, false)
    | none => some (m, true)

end Cqm
