import DimodModel.FeasOptions
import DimodModel.Enumerate
import Generated.FeasTable

/-! Property C08 — the remaining report paths, as coded.

    * `fromSamplesCqmTop`  : `SampleSet.from_samples_cqm` **with its first branch** (`if len(samples_like) == 0:` — an empty
      sample set whose `is_satisfied` still has one column per constraint, built without evaluating anything; `len` of the
      ARGUMENT, which is not always the number of rows);
    * `violationOf` / `violationsGet` : `cqm.violations(sample)[label]` (dict look-up in the report);
    * `ExactCQMSolver.sample_cqm` : `exactColumns` (the column order `d_vars + var_list` of `_all_cases_cqm`), `exactDomain`
      (`_iterator_by_vartype`, REAL raises `ValueError`), `exactCases` (the rows, in the order `_all_cases_cqm` produces them —
      the enumeration `Enum.allCasesCqm` is the model property C07 proves complete and duplicate-free), `exactSolve`
      (`if not len(cqm.variables): return` an empty sample set without feasibility fields; otherwise `from_samples_cqm(cases, cqm)`);
    * float tolerances: `satisfiedFl fl` — the same test with every arithmetic result passed through a rounding function `fl`
      (`fl (violation) ≤ fl (atol + fl (rtol * |rhs|))`), to state exactly where rounding is excluded.
    Core Lean only. -/

namespace Feas

/-! ### `from_samples_cqm`: the empty-input branch -/

/-- what the first branch returns: no rows; `np.empty((0, len(cqm.constraints)), dtype=bool)` has one (empty) column per
    constraint; `info` carries NO `constraint_labels` in this branch (second component `false`) -/
def emptyResult (obj : Nat → Rat) (cs : List CEval) : VResult :=
  { energies := obj, isSatisfied := cs.map (fun _ _ => true), isFeasible := fun _ => true }

/-- `SampleSet.from_samples_cqm(samples_like, cqm, rtol, atol)`.  `lenArg` = Python's `len(samples_like)` — NOT the number of
    rows: the number of rows for a 2-d array or a list of samples, `2` for a `(samples, labels)` pair (whatever the number of
    rows — this is the form `ExactCQMSolver` passes), the number of VARIABLES for a single sample given as a dict.  `n` = the
    number of rows `as_samples` makes of it.  Second component: does `info['constraint_labels']` exist. -/
def fromSamplesCqmTop (lenArg n : Nat) (atol rtol : Rat) (garbage : Nat → Nat → Bool) (obj : Nat → Rat) (cs : List CEval) : VResult × Bool :=
  if lenArg = 0 then (emptyResult obj cs, false) else (fromSamplesCqm n atol rtol garbage obj cs, true)

/-! ### `violations(sample)[label]` -/

def violationsGet (d : List (Label × Rat)) (l : Label) : Option Rat := (d.find? (fun p => p.1 = l)).map (·.2)

/-- the hard constraints `iter_violations(sample, skip_satisfied=True)` lists -/
def hardListed (clip : Bool) (cs : List CEval) (r : Nat) : List Label :=
  ((iterViolations true clip cs r).filter (fun p => cs.any (fun c => decide (c.label = p.1) && c.weight.isNone))).map (·.1)

/-! ### float tolerances -/

/-- the satisfaction test when every arithmetic result is rounded by `fl` (IEEE: `fl` = round-to-nearest-even into binary64;
    `abs` is exact).  `violation c r` here is the violation of the (already rounded) left-hand-side energy. -/
def satisfiedFl (fl : Rat → Rat) (atol rtol : Rat) (c : CEval) (r : Nat) : Bool :=
  decide (fl (violation c r) ≤ fl (atol + fl (rtol * absR c.rhs)))

/-! ### `ExactCQMSolver.sample_cqm` -/

/-- global indices of the variables of the discrete constraints (`d_vars`), constraint order, each in its lhs's private order -/
def exactDVars (m : Cqm) : List Nat := (m.cons.filter (·.isDiscrete m.vt)).flatMap (·.e.vars)

/-- `d_cases` -/
def exactDSizes (m : Cqm) : List Nat := (m.cons.filter (·.isDiscrete m.vt)).map (·.e.vars.length)

/-- `var_list` after the discrete variables were set aside -/
def exactFree (m : Cqm) : List Nat := (List.range m.vt.length).filter (fun g => !(exactDVars m).contains g)

/-- the columns of the case array: `d_vars + var_list` -/
def exactColumns (m : Cqm) : List Nat := exactDVars m ++ exactFree m

/-- `_iterator_by_vartype`; `none` = `ValueError` (REAL) -/
def exactDomain (m : Cqm) (g : Nat) : Option (List Int) :=
  match m.vt.getD g .real with
  | .binary => some [0, 1]
  | .spin => some [-1, 1]
  | .integer => some (Enum.intDomain (m.lb.getD g 0) (m.ub.getD g 0))
  | .real => none

/-- `_all_cases_cqm(cqm)[0]` as a list of rows (columns = `exactColumns`); `none` = raises -/
def exactCases (m : Cqm) : Option (List (List Int)) :=
  ((exactFree m).mapM (exactDomain m)).map fun doms => Enum.allCasesCqm (exactDSizes m) doms

/-- a case array as rows indexed by GLOBAL variable index -/
def rowsOfCases (cols : List Nat) (cases : List (List Int)) : Nat → Nat → Rat :=
  fun r g => (((cases.getD r []).getD (cols.idxOf g) 0 : Int) : Rat)

inductive ExactOut
  | raises                                   -- ValueError (a REAL variable)
  | noFields                                 -- `if not len(cqm.variables)`: an empty sample set WITHOUT is_satisfied / is_feasible
  | result (cases : List (List Int)) (res : VResult) (hasLabels : Bool)

/-- `ExactCQMSolver().sample_cqm(cqm, rtol, atol)` -/
def exactSolve (m : Cqm) (atol rtol : Rat) (garbage : Nat → Nat → Bool) : ExactOut :=
  if m.vt.length = 0 then .noFields
  else match exactCases m with
    | none => .raises
    | some cases =>
      let rows := rowsOfCases (exactColumns m) cases
      let res := fromSamplesCqmTop 2 cases.length atol rtol garbage (evalObj m rows) (evalCons m rows)
      .result cases res.1 res.2

end Feas

namespace Feas
open Generated.FeasTable

/-! ### the branch tables extracted from the source (`Generated/FeasTable.lean`) -/

def evalForm : VForm → Rat → Rat
  | .act, a => a
  | .negAct, a => -a
  | .absAct, a => absR a

/-- the member name of `dimod.sym.Sense` -/
def senseName : Sense → String
  | .eq => "Eq" | .ge => "Ge" | .le => "Le"

/-- what an `if sense is Sense.X: violation = … elif …` chain computes: the first branch whose name is the constraint's sense;
    `none` = no branch (the `else: raise RuntimeError`) or an expression the translator does not recognise -/
def violationByTable (tbl : List (String × Option VForm)) (c : CEval) (r : Nat) : Option Rat :=
  match tbl.find? (fun p => p.1 = senseName c.sense) with
  | some (_, some f) => some (evalForm f (activity c r))
  | _ => none

/-- the documented defaults, as the binary64 values of the literals `1e-6`, `1e-8` -/
def defaultRtol : Rat := (4722366482869645 : Rat) / 4722366482869645213696
def defaultAtol : Rat := (3022314549036573 : Rat) / 302231454903657293676544

end Feas

namespace Feas

/-! ### the single-sample guard of the per-sample path -/

/-- `iter_constraint_data(sample_like, labels=…)` as coded from its first statement: `as_samples` makes `nrows` rows of the
    argument; `if sample.shape[0] != 1: raise ValueError` — before anything is yielded — otherwise the loop over the selected
    constraints.  `iter_violations`, `violations` and `check_feasible` are built on this generator and inherit the guard. -/
def iterConstraintDataG (nrows : Nat) (labels : Option (List Label)) (cs : List CEval) (r : Nat) : List CData × Bool :=
  if nrows ≠ 1 then ([], true) else iterConstraintDataL labels cs r

def iterViolationsG (nrows : Nat) (skip clip : Bool) (labels : Option (List Label)) (cs : List CEval) (r : Nat) : List (Label × Rat) × Bool :=
  if nrows ≠ 1 then ([], true) else iterViolationsL skip clip labels cs r

/-- `check_feasible` with the guard: `none` = `ValueError` -/
def checkFeasibleG (nrows : Nat) (atol rtol : Rat) (cs : List CEval) (r : Nat) : Option Bool :=
  if nrows ≠ 1 then none else some (checkFeasible atol rtol cs r)

end Feas

namespace Feas

/-! ### labelled sample arrays: the gather step of `_cyExpression._energies` -/

/-- the value a sample `(row, sampleLabels)` gives to label `l` (0 when the sample has no such column) -/
def sampleVal (sampleLabels : List Label) (row : List Rat) (l : Label) : Rat :=
  match Cqm.findIdx l sampleLabels 0 with
  | some j => row.getD j 0
  | none => 0

/-- `_energies`: `reindex[i] = labels.index(parent.variables.at(expression.variables()[i]))`, `samples[:, reindex]` — the
    sub-sample of one row in the expression's private order -/
def gatherRow (modelLabels sampleLabels : List Label) (row : List Rat) (e : Expr) : List Rat :=
  e.vars.map fun g => sampleVal sampleLabels row (modelLabels.getD g (.int 0))

/-- a model variable of the expression that the sample does not name: `labels.index` raises `ValueError` -/
def gatherMissing (modelLabels sampleLabels : List Label) (e : Expr) : Bool :=
  e.vars.any fun g => (Cqm.findIdx (modelLabels.getD g (.int 0)) sampleLabels 0).isNone

/-- `_energies` for one row of a labelled sample array, as coded: gather, then `abc::energy` (or the offset for an expression
    without variables) -/
def exprEnergyOfSample (modelLabels sampleLabels : List Label) (row : List Rat) (e : Expr) : Rat :=
  if e.vars.length = 0 then e.qb.off else qbEnergy e.qb (fun i => (gatherRow modelLabels sampleLabels row e).getD i 0)

end Feas

namespace Feas

/-! ### round 8: the first branch of `from_samples_cqm` after its repair

`if not isinstance(samples_like, abc.Mapping) and len(samples_like) == 0:` — ONE sample given as a mapping is never "no rows"
(`len({}) == 0` for a model without variables used to take the empty branch while `check_feasible({})` / `violations({})` /
`from_samples_cqm([{}], cqm)` evaluate the constant constraints). -/
def fromSamplesCqmArg (isMapping : Bool) (lenArg n : Nat) (atol rtol : Rat) (garbage : Nat → Nat → Bool) (obj : Nat → Rat)
    (cs : List CEval) : VResult × Bool :=
  if (!isMapping && lenArg == 0) = true then (emptyResult obj cs, false) else (fromSamplesCqm n atol rtol garbage obj cs, true)

end Feas
