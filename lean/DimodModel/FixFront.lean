import DimodModel.Fix

/-! # C03 — the Python front of `fix_variables` (round 7)

`views/quadratic.py: QuadraticViewsMixin.fix_variables` and `cyconstrained.pyx: fix_variables` start with
`if isinstance(fixed, Mapping): fixed = fixed.items()` and then make **one** pass `for v, val in fixed`.  `fixed` is a Python
object: a Mapping / list / tuple can be iterated again, a `zip` / generator / `iter(...)` / `map` object is consumed by the pass.
`FixedArg` keeps that distinction; `loopFront` is the pass (it stops at the first rejected pair and leaves an iterator after the
pair that failed).  Core Lean only. -/

namespace En

variable {R : Type}

/-- the argument `fixed` as the caller gives it -/
inductive FixedArg (R : Type) where
  | mapping (items : List (Label × R))     -- `fixed.items()`: a view, re-iterable
  | sequence (pairs : List (Label × R))    -- list / tuple of 2-tuples
  | iterator (rest : List (Label × R))     -- zip / generator / iter / map: one pass, then exhausted

namespace FixedArg

/-- what iterating the object now yields -/
def pairs : FixedArg R → List (Label × R)
  | .mapping items => items
  | .sequence ps => ps
  | .iterator rest => rest

/-- the object after a loop that consumed all but `left` of what it yields -/
def after (arg : FixedArg R) (left : List (Label × R)) : FixedArg R :=
  match arg with
  | .iterator _ => .iterator left
  | a => a

end FixedArg

/-- `for v, val in fixed: fix_variable(v, val)` with the per-variable call as a parameter: final state, whether every call was
    accepted, and the pairs NOT consumed -/
def loopFront {σ : Type} (step : σ → Label → R → Option σ) : σ → List (Label × R) → (σ × Bool) × List (Label × R)
  | s, [] => ((s, true), [])
  | s, (v, a) :: rest =>
    match step s v a with
    | none => ((s, false), rest)
    | some s' => loopFront step s' rest

/-- `QuadraticViewsMixin.fix_variables(fixed)` on an array back-end: result and the argument object afterwards -/
def QmL.fixVariablesFront [Add R] [Mul R] [Zero R] (m : QmL R) (arg : FixedArg R) : (QmL R × Bool) × FixedArg R :=
  let r := loopFront (fun (m : QmL R) v a => m.fixVariable v a) m arg.pairs
  (r.1, arg.after r.2)

/-- `cyConstrainedQuadraticModel.fix_variables(fixed, inplace=True)` -/
def CqmL.fixVariablesInplaceFront [Add R] [Mul R] [Zero R] [One R] [DecidableEq R] (m : CqmL R) (arg : FixedArg R) :
    (CqmL R × Bool) × FixedArg R :=
  let r := loopFront (fun (m : CqmL R) v a => m.fixVariable v a) m arg.pairs
  (r.1, arg.after r.2)

/-- `cyConstrainedQuadraticModel.fix_variables(fixed, inplace=False)`: one pass collecting indices, values and the label set
    (an unknown label raises inside the pass), then the C++ copy -/
def CqmL.fixVariablesCopyFront [Add R] [Mul R] [Zero R] [DecidableEq R] (m : CqmL R) (arg : FixedArg R) :
    Option (CqmL R) × FixedArg R :=
  let r := loopFront (fun (acc : List (Label × R)) v a => (indexOf? m.labels v).map fun _ => acc ++ [(v, a)]) [] arg.pairs
  (if r.1.2 then m.fixVariablesCopy r.1.1 else none, arg.after r.2)

/-- the front with an up-front validation pass over the same object (the shape of seeded change C03-5): the second pass sees what
    the first left -/
def QmL.fixVariablesFrontTwoPass [Add R] [Mul R] [Zero R] (m : QmL R) (arg : FixedArg R) : (QmL R × Bool) × FixedArg R :=
  let chk := loopFront (fun (_ : Unit) v _ => if m.labels.contains v then some () else none) () arg.pairs
  if chk.1.2 then QmL.fixVariablesFront m (arg.after chk.2) else ((m, false), arg.after chk.2)

end En
