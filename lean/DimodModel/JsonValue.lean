import DimodModel.JsonString

/-! # `json.loads` on the texts dimod writes for labels: numbers, strings, nested arrays

Mirrors `json.scanner.py_make_scanner._scan_once` restricted to the value kinds that occur in
label texts (`json.dumps(serialize_variable(v))`, the `VARS` array, `variable_labels.json`):
strings (`scanString`), arrays (`JSONArray`: blanks after `[`, after a value and after `,`), and
numbers by `NUMBER_RE = (-?(?:0|[1-9]\d*))(\.\d+)?([eE][-+]?\d+)?` plus the constants `NaN`,
`Infinity`, `-Infinity`.  A number with a fraction or exponent is a *float*; the model keeps its
text (`JVal.flt`): that `float(text)` is the float whose `repr` was written is IEEE's shortest
round-trip property and stays a contract.  Objects, `true/false/null` do not occur in labels and
are not modelled (`none`). -/

namespace FileFmt

def isDigit (c : Char) : Bool := decide (48 ≤ c.toNat ∧ c.toNat ≤ 57)

/-- `int(text)` of a run of digits -/
def digitsVal (cs : List Char) : Nat := cs.foldl (fun acc c => acc * 10 + (c.toNat - 48)) 0

def isWs (c : Char) : Bool := c = ' ' || c = '\n' || c = '\r' || c = '\t'

def skipWs (cs : List Char) : List Char := cs.dropWhile isWs

/-- `(0|[1-9]\d*)`: the digits of the integer part and what follows -/
def scanIntPart : List Char → Option (List Char × List Char)
  | [] => none
  | c :: t =>
    if c = '0' then some (['0'], t)
    else if isDigit c then some (c :: t.takeWhile isDigit, t.dropWhile isDigit)
    else none

/-- optional `(\.\d+)` -/
def scanFrac : List Char → List Char × List Char
  | c :: d :: t => if c = '.' ∧ isDigit d = true then (c :: d :: t.takeWhile isDigit, t.dropWhile isDigit) else ([], c :: d :: t)
  | cs => ([], cs)

/-- optional `([eE][-+]?\d+)` -/
def scanExp : List Char → List Char × List Char
  | e :: s :: d :: t =>
    if (e = 'e' ∨ e = 'E') ∧ (s = '-' ∨ s = '+') ∧ isDigit d = true then
      (e :: s :: d :: t.takeWhile isDigit, t.dropWhile isDigit)
    else if (e = 'e' ∨ e = 'E') ∧ isDigit s = true then
      (e :: s :: (d :: t).takeWhile isDigit, (d :: t).dropWhile isDigit)
    else ([], e :: s :: d :: t)
  | [e, s] => if (e = 'e' ∨ e = 'E') ∧ isDigit s = true then ([e, s], []) else ([], [e, s])
  | cs => ([], cs)

def cNaN : List Char := ['N', 'a', 'N']
def cInf : List Char := ['I', 'n', 'f', 'i', 'n', 'i', 't', 'y']

/-- a number or one of the float constants -/
def scanNumber (cs : List Char) : Option (JVal × List Char) :=
  let neg := cs.head? = some '-'
  let body := if neg then cs.drop 1 else cs
  match scanIntPart body with
  | some (ip, t1) =>
    let fr := scanFrac t1
    let ex := scanExp fr.2
    if fr.1.isEmpty && ex.1.isEmpty then
      some (.int (if neg then -(digitsVal ip : Int) else (digitsVal ip : Int)), ex.2)
    else some (.flt (String.ofList ((if neg then ['-'] else []) ++ ip ++ fr.1 ++ ex.1)), ex.2)
  | none =>
    if cNaN.isPrefixOf cs then some (.flt (String.ofList cNaN), cs.drop 3)
    else if cInf.isPrefixOf cs then some (.flt (String.ofList cInf), cs.drop 8)
    else if neg && cInf.isPrefixOf body then some (.flt (String.ofList ('-' :: cInf)), cs.drop 9)
    else none

mutual
/-- `scan_once` at the first character of a value -/
def scanOnce : Nat → List Char → Option (JVal × List Char)
  | 0, _ => none
  | _, [] => none
  | f + 1, c :: t =>
    if c = '"' then
      match scanString t with
      | some (s, r) => some (.str (String.ofList s), r)
      | none => none
    else if c = '[' then
      match skipWs t with
      | [] => none
      | d :: t2 =>
        if d = ']' then some (.arr [], t2)
        else match scanElems f (d :: t2) with
          | some (vs, r) => some (.arr vs, r)
          | none => none
    else scanNumber (c :: t)
/-- the elements of a non-empty array, from the first character of the first element -/
def scanElems : Nat → List Char → Option (List JVal × List Char)
  | 0, _ => none
  | f + 1, cs =>
    match scanOnce f cs with
    | none => none
    | some (v, r) =>
      match skipWs r with
      | [] => none
      | d :: r2 =>
        if d = ',' then
          match scanElems f (skipWs r2) with
          | some (vs, r3) => some (v :: vs, r3)
          | none => none
        else if d = ']' then some ([v], r2)
        else none
end

/-- `json.loads(text)`: blanks, one value, blanks, end of text -/
def loadsJ (cs : List Char) : Option JVal :=
  match scanOnce (cs.length + 1) (skipWs cs) with
  | some (v, r) => if (skipWs r).isEmpty then some v else none
  | none => none

end FileFmt
