/-! Labels (ints, strings, nested tuples) with decidable equality, and insertion-ordered
    association-list maps (the model of a Python dict).  Core Lean only. -/

inductive Label where
  | int (z : Int)
  | str (s : String)
  | tup (l : List Label)

-- nested inductive: check that DecidableEq can be had
mutual
def Label.decEq : (a b : Label) → Decidable (a = b)
  | .int x, .int y => if h : x = y then isTrue (by rw [h]) else isFalse (by intro h'; cases h'; exact h rfl)
  | .str x, .str y => if h : x = y then isTrue (by rw [h]) else isFalse (by intro h'; cases h'; exact h rfl)
  | .tup x, .tup y => match Label.decEqList x y with
      | isTrue h => isTrue (by rw [h])
      | isFalse h => isFalse (by intro h'; cases h'; exact h rfl)
  | .int _, .str _ => isFalse (by intro h; cases h)
  | .int _, .tup _ => isFalse (by intro h; cases h)
  | .str _, .int _ => isFalse (by intro h; cases h)
  | .str _, .tup _ => isFalse (by intro h; cases h)
  | .tup _, .int _ => isFalse (by intro h; cases h)
  | .tup _, .str _ => isFalse (by intro h; cases h)
def Label.decEqList : (a b : List Label) → Decidable (a = b)
  | [], [] => isTrue rfl
  | [], _ :: _ => isFalse (by intro h; cases h)
  | _ :: _, [] => isFalse (by intro h; cases h)
  | x :: xs, y :: ys =>
    match Label.decEq x y, Label.decEqList xs ys with
    | isTrue h1, isTrue h2 => isTrue (by rw [h1, h2])
    | isFalse h1, _ => isFalse (by intro h; cases h; exact h1 rfl)
    | _, isFalse h2 => isFalse (by intro h; cases h; exact h2 rfl)
end
instance : DecidableEq Label := Label.decEq

/-- finite map as a function + we keep executability by an assoc list; here: assoc list -/
abbrev AMap (α β : Type) := List (α × β)

def AMap.get? [DecidableEq α] (m : AMap α β) (k : α) : Option β :=
  match m with
  | [] => none
  | (k', v) :: m => if k' = k then some v else AMap.get? m k

def AMap.erase [DecidableEq α] : AMap α β → α → AMap α β
  | [], _ => []
  | (k', v) :: m, k => if k' = k then AMap.erase m k else (k', v) :: AMap.erase m k

def AMap.set [DecidableEq α] (m : AMap α β) (k : α) (v : β) : AMap α β := (k, v) :: m.erase k
