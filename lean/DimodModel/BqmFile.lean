/-! Feasibility prototype (scratch): `BinaryQuadraticModel.from_file` (format v2) as a reader over
    bytes with visible short reads.  Floats are opaque payloads; JSON parsing is an oracle that
    succeeds exactly when the complete JSON text is present (contract, see DESIGN section 7). -/

abbrev Bytes := List UInt8

inductive FErr | value | structErr | json | index
  deriving Repr, DecidableEq

/-- reader state: remaining bytes -/
abbrev Rd (α : Type) := Bytes → Except FErr (α × Bytes)

def rdRead (n : Nat) : Rd Bytes := fun s => .ok (s.take n, s.drop n)

def leNat (b : Bytes) : Nat := b.foldr (fun x acc => x.toNat + 256 * acc) 0

/-- two's complement little-endian int32 -/
def leInt32 (b : Bytes) : Int :=
  let u := leNat b
  if u < 2147483648 then u else (u : Int) - 4294967296

structure Header where
  nvars : Nat
  ninter : Nat
  dsize : Nat          -- bias item size (4 or 8)
  hasVars : Bool
  jsonLen : Nat        -- length of the JSON object text (up to and incl. the closing brace)
  deriving Repr

structure Decoded where
  offset : Bytes
  linear : List Bytes
  quad : List (Nat × Nat × Bytes)   -- (row, col, bias) lower triangle as loaded
  labelsPresent : Bool
  deriving Repr, DecidableEq

def magic : Bytes := "DIMODBQM".toUTF8.toList
def varsMagic : Bytes := "VARS".toUTF8.toList

/-- `read_header`: prefix, 2 version bytes, u32 length, JSON (oracle `hdr`) -/
def readHeader (hdr : Header) : Rd Header := fun s => do
  let (p, s) ← rdRead 8 s
  if p ≠ magic then throw .value
  let (_ver, s) ← rdRead 2 s
  let (lenb, s) ← rdRead 4 s
  if lenb.length < 4 then throw .structErr
  let hlen := leNat lenb
  let (js, s) ← rdRead hlen s
  -- json.loads succeeds iff the whole object text is there (trailing newline/padding optional)
  if js.length < hdr.jsonLen then throw .json
  pure (hdr, s)

/-- np.frombuffer(data, dtype=record of size `rs`): error unless the length is a multiple of `rs` -/
def frombuffer (data : Bytes) (rs : Nat) : Except FErr (List Bytes) :=
  if rs = 0 then .ok [] else
  if data.length % rs ≠ 0 then .error .value else
  let rec chunks (fuel : Nat) (d : Bytes) : List Bytes :=
    match fuel with
    | 0 => []
    | f+1 => if d.isEmpty then [] else d.take rs :: chunks f (d.drop rs)
  .ok (chunks (data.length / rs) data)

def readNeighborhoods (dsize : Nat) (nvars ninter : Nat) (nidx : List Int) :
    Nat → List (Nat × Nat × Bytes) → Rd (List (Nat × Nat × Bytes))
  | v, acc => fun s =>
    if h : v < nvars then
      let here := nidx.getD v 0
      let degI : Int := if v + 1 < nvars then nidx.getD (v+1) 0 - here else 2 * (ninter : Int) - here
      if degI = 0 then readNeighborhoods dsize nvars ninter nidx (v+1) acc s
      else do
        -- a negative degree makes `file.read(negative)` read everything; not reachable from truncation
        let deg := degI.toNat
        let (raw, s) ← rdRead (deg * (4 + dsize)) s
        let recs ← frombuffer raw (4 + dsize)
        if recs.length ≠ deg then throw .value
        let outvars := recs.map fun r => (leInt32 (r.take 4), r.drop 4)
        -- searchsorted(outvar, v, side='right'): entries with index ≤ v
        let lower := outvars.filter fun p => p.1 ≤ (v : Int)
        let acc := acc ++ lower.map fun p => (p.1.toNat, v, p.2)
        readNeighborhoods dsize nvars ninter nidx (v+1) acc s
    else .ok (acc, s)
termination_by v _ => nvars - v

def decode (hdr : Header) (varsJsonLen : Nat) : Rd Decoded := fun s => do
  let (h, s) ← readHeader hdr s
  let (off, s) ← rdRead h.dsize s
  if off.length < h.dsize then throw .value
  if h.nvars = 0 then
    -- labels: `data['variables']` is False for an empty model
    pure ({ offset := off, linear := [], quad := [], labelsPresent := false }, s)
  else
    let (lraw, s) ← rdRead (h.nvars * (4 + h.dsize)) s
    let lrecs ← frombuffer lraw (4 + h.dsize)
    if lrecs.length ≠ h.nvars then throw .value
    let nidx := lrecs.map fun r => leInt32 (r.take 4)
    let lin := lrecs.map fun r => r.drop 4
    let (quad, s) ← readNeighborhoods h.dsize h.nvars h.ninter nidx 0 [] s
    if h.hasVars then
      let (m, s) ← rdRead 4 s
      if m ≠ varsMagic then throw .value
      let (lb, s) ← rdRead 4 s
      -- np.frombuffer(...)[0]: IndexError on empty, ValueError on 1..3 bytes
      if lb.length = 0 then throw .index
      if lb.length < 4 then throw .value
      let (js, s) ← rdRead (leNat lb) s
      if js.length < varsJsonLen then throw .json
      pure ({ offset := off, linear := lin, quad := quad, labelsPresent := true }, s)
    else pure ({ offset := off, linear := lin, quad := quad, labelsPresent := false }, s)
