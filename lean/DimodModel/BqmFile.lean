import DimodModel.FileReader
import Generated.FileConsts

/-! # BQM (format v1, v2) and QM files: `to_file` as a byte-producing function, `from_file` as a
    reader program  (C09 / C10)

Mirrors `dimod/binary/binary_quadratic_model.py:to_file/from_file`,
`dimod/quadratic/quadratic_model.py:to_file/from_file`, `cyqm_template.pyx.pxi:_ivartypes_load /
_ilower_triangle_load`, `cyqmbase_template.pyx.pxi:_ivarinfo/_ineighborhood`,
`cybqm_template.pyx.pxi:_ilinear_and_degree`.

* floats are opaque payloads of `dsize` bytes (4 or 8); the loader adds each payload to a fresh
  `0.0`, which returns the payload (IEEE: `0.0 + x = x` bit for bit unless `x = -0.0`; the harness
  never writes `-0.0`);
* JSON text (the header dictionary, the `VARS` array) is produced by Python and given to the
  encoder as bytes; `json.loads` is a parameter of the decoder (`parse…`);
* the quadratic part of a model is kept as the per-variable *lower triangle*
  (`lower[v] = [(u, bias) | u < v]`, `u ≤ v` for a QM), which is what `from_file` feeds to
  `add_quadratic_from_arrays` / `add_quadratic_back`; that those calls rebuild the symmetric
  adjacency is C04's model, not this one;
* `np.searchsorted(outvar, v, side='right')` is modelled by its contract on sorted input: the
  length of the longest prefix with entries `≤ v`. -/

namespace FileFmt

/-- the `variables` entry of a header dictionary: a boolean (v2, QM) or the label list (v1) -/
inductive VarsField (J : Type) where
  | flag (b : Bool)
  | labels (l : List J)
  deriving Repr

/-- Python truthiness of `data['variables']` -/
def VarsField.truthy : VarsField J → Bool
  | .flag b => b
  | .labels l => !l.isEmpty

/-- the fields of a BQM / QM / expression header dictionary the loaders use -/
structure QHeader (J : Type) where
  nvars : Nat
  ninter : Nat
  dsize : Nat          -- itemsize of `dtype`
  isize : Nat          -- itemsize of `itype`
  nsize : Nat          -- itemsize of `ntype` (BQM only)
  vartype : Nat        -- BQM only: 0 = SPIN, 1 = BINARY  (passed through)
  vars : VarsField J
  deriving Repr

/-- what `to_file` reads out of a model and `from_file` puts back -/
structure QContent where
  offset : Bytes
  linear : List Bytes
  lower : List (List (Nat × Bytes))
  deriving Repr, DecidableEq

/-- QM only: (vartype code, lower bound, upper bound) per variable -/
abbrev VarInfo := List (UInt8 × Bytes × Bytes)

/-! magic strings, section tags and length-field widths come from the source under test
    (`lean/Generated/FileConsts.lean`, rewritten by `harness/translators/fileconsts.py`) -/
def bqmPrefix : Bytes := Gen.bqmPrefix
def qmPrefix : Bytes := Gen.qmPrefix
def exprPrefix : Bytes := Gen.exprPrefix
def cqmPrefix : Bytes := Gen.cqmPrefix
def dqmPrefix : Bytes := Gen.dqmPrefix
def magVARS : Bytes := Gen.magVARS
def magVTYP : Bytes := Gen.magVTYP
def magOFFS : Bytes := Gen.magOFFS
def magLINB : Bytes := Gen.magLINB
def magNEIG : Bytes := Gen.magNEIG
def magINDX : Bytes := Gen.magINDX
def magQUAD : Bytes := Gen.magQUAD
def magBIAS : Bytes := Gen.magBIAS
/-- `Section.NUM_LENGTH_BYTES` -/
abbrev nlb4 : Nat := Gen.numLengthBytes
/-- `QuadraticSection.NUM_LENGTH_BYTES` -/
abbrev nlb8 : Nat := Gen.quadNumLengthBytes

/-! ## neighbourhoods -/

/-- the part of `v`'s neighbourhood above the diagonal: every `(v, b) ∈ lower[w]` seen from `v` -/
def upperFrom (v : Nat) : Nat → List (List (Nat × Bytes)) → List (Nat × Bytes)
  | _, [] => []
  | w, row :: rows => ((row.filter fun p => p.1 = v).map fun p => (w, p.2)) ++ upperFrom v (w + 1) rows

def upperOf (lower : List (List (Nat × Bytes))) (v : Nat) : List (Nat × Bytes) := upperFrom v 0 lower

/-- `_ineighborhood(v)`: the whole sorted neighbourhood -/
def neigh (lower : List (List (Nat × Bytes))) (v : Nat) : List (Nat × Bytes) :=
  lower.getD v [] ++ upperOf lower v

def encRec (isz : Nat) (p : Nat × Bytes) : Bytes := toLE isz p.1 ++ p.2

def encNeigh (isz : Nat) (l : List (Nat × Bytes)) : Bytes := (l.map (encRec isz)).flatten

/-- the neighbourhoods of the variables `v, v+1, …` whose lower triangles are `rows` -/
def allNeighFrom (lower : List (List (Nat × Bytes))) : Nat → List (List (Nat × Bytes)) → List (List (Nat × Bytes))
  | _, [] => []
  | v, row :: rows => (row ++ upperOf lower v) :: allNeighFrom lower (v + 1) rows

/-- `_ineighborhood(v)` for every variable, in order -/
def allNeigh (lower : List (List (Nat × Bytes))) : List (List (Nat × Bytes)) := allNeighFrom lower 0 lower

/-- `_ilinear_and_degree()`: running sum of degrees and the linear bias, per variable -/
def linDeg (nsz : Nat) : Nat → List (List (Nat × Bytes)) → List Bytes → List Bytes
  | _, _, [] => []
  | acc, [], b :: bs => (toLE nsz acc ++ b) :: linDeg nsz acc [] bs
  | acc, nb :: nbs, b :: bs => (toLE nsz acc ++ b) :: linDeg nsz (acc + nb.length) nbs bs

/-! ## BQM `to_file` -/

/-- body of a BQM file after the header, before the optional `VARS` section: offset, linear data
    with neighbourhood starts, then every neighbourhood -/
def bqmBodyBytes (isz nsz : Nat) (c : QContent) : Bytes :=
  c.offset ++ ((linDeg nsz 0 (allNeigh c.lower) c.linear).flatten ++
    ((allNeigh c.lower).map (encNeigh isz)).flatten)

/-- `BinaryQuadraticModel.to_file(version=…)`.  `hdrText` is the JSON text of the header
    dictionary, `h` its value, `varsText = json.dumps(variables.to_serializable())` -/
def bqmEncode (maj : UInt8) (hdrText : Bytes) (h : QHeader J) (c : QContent) (varsText : Bytes) : Bytes :=
  makeHeader bqmPrefix maj 0 hdrText ++ (bqmBodyBytes h.isize h.nsize c ++
    (if maj ≥ 2 && h.vars.truthy then sectionDumps magVARS nlb4 varsText else []))

/-! ## BQM `from_file` -/

/-- `degree` of each variable from the neighbourhood starts (`ldata['nidx']`) -/
def degrees (ninter : Nat) : List Int → List Int
  | [] => []
  | [a] => [2 * (ninter : Int) - a]
  | a :: b :: t => (b - a) :: degrees ninter (b :: t)

/-- one record of a neighbourhood: (outvar, bias) -/
def decRec (isz : Nat) (r : Bytes) : Int × Bytes := (leInt (r.take isz), r.drop isz)

/-- the `for v in range(num_variables)` loop of `from_file` -/
def bqmNeighLoop (isz dsz : Nat) : Nat → List Int → Prog (List (List (Nat × Bytes)))
  | _, [] => .ret []
  | v, d :: ds =>
    if d = 0 then (bqmNeighLoop isz dsz (v + 1) ds).bind fun rest => .ret ([] :: rest)
    else if d < 0 then .fail .value     -- read(negative) returns everything; shape[0] != degree
    else (Prog.readExact (d.toNat * (isz + dsz)) .value).bind fun raw =>
      let recs := (chunksN (isz + dsz) d.toNat raw).map (decRec isz)
      let low := recs.takeWhile fun p => p.1 ≤ (v : Int)
      if low.any (fun p => p.1 = (v : Int) || p.1 < 0) then .fail .value   -- self-loop / negative index
      else (bqmNeighLoop isz dsz (v + 1) ds).bind fun rest => .ret ((low.map fun p => (p.1.toNat, p.2)) :: rest)

/-- what `from_file` returns -/
structure QLoaded (J : Type) where
  hdr : QHeader J
  content : QContent
  labels : Option (List J)
  deriving Repr

/-- `VariablesSection.load` -/
def varsLoads (parseVars : Bytes → Option (List J)) (d : Bytes) : Res (List J) :=
  if d.any (fun b => b ≥ 128) then .err .unicode else      -- data.decode('ascii')
  match parseVars d with
  | none => .err .json
  | some l => .ok l

def varsLoad (parseVars : Bytes → Option (List J)) : Prog (List J) :=
  sectionLoadWith magVARS nlb4 (varsLoads parseVars)

/-- the labels step at the end of `from_file` -/
def bqmFinish (parseVars : Bytes → Option (List J)) (ver : List Nat) (h : QHeader J) (c : QContent) : Prog (QLoaded J) :=
  if h.vars.truthy then
    if tupleLt ver [2, 0] then
      match h.vars with
      | .labels l => .ret { hdr := h, content := c, labels := some l }
      | .flag _ => .fail .type          -- iterating `True`
    else (varsLoad parseVars).bind fun l => .ret { hdr := h, content := c, labels := some l }
  else .ret { hdr := h, content := c, labels := none }

/-- linear data and neighbourhoods (`if num_variables:`) -/
def bqmLinQuad (h : QHeader J) : Prog (List Bytes × List (List (Nat × Bytes))) :=
  if h.nvars = 0 then .ret ([], [])
  else
    (Prog.readExact (h.nvars * (h.nsize + h.dsize)) .value).bind fun lraw =>
    (bqmNeighLoop h.isize h.dsize 0
        (degrees h.ninter ((chunksN (h.nsize + h.dsize) h.nvars lraw).map fun r => leInt (r.take h.nsize)))).bind fun low =>
    .ret ((chunksN (h.nsize + h.dsize) h.nvars lraw).map (fun r => r.drop h.nsize), low)

def bqmBody (parseVars : Bytes → Option (List J)) (ver : List Nat) (h : QHeader J) : Prog (QLoaded J) :=
  (Prog.readExact h.dsize .value).bind fun off =>
  (bqmLinQuad h).bind fun ll =>
  bqmFinish parseVars ver h { offset := off, linear := ll.1, lower := ll.2 }

def bqmDecode (parse : Bytes → Option (QHeader J)) (parseVars : Bytes → Option (List J)) : Prog (QLoaded J) :=
  (readHeader bqmPrefix parse).bind fun vh =>
  if !tupleLt vh.1 [3, 0] then .fail .value else bqmBody parseVars vh.1 vh.2

/-! ## the raw buffer loaders (`boundscheck(False)` loops)

`guard = true` is the code with a length check between `np.frombuffer` and the loop (the D12
repair); `guard = false` is the loop as originally written: it indexes `range(n)` into an array
that is shorter than `n` when the buffer is, which is undefined behaviour (`Res.ub`). -/

/-- `arr = np.frombuffer(buff[:rs*n], dtype)`, then `for i in range(n): use arr[i]` -/
def rawRecords (guard : Bool) (rs : Nat) (buff : Bytes) (n : Nat) : Res (List Bytes) :=
  match frombuffer rs (buff.take (rs * n)) with
  | .ok recs =>
    if recs.length = n then .ok recs
    else if guard then .err .value
    else .ub
  | .err e => .err e
  | .ub => .ub

/-- `cyQM._ivartypes_load(buff, num_variables)` (also `cyCQM._ivarinfo_load`) -/
def ivartypesLoad (guard : Bool) (dsz : Nat) (buff : Bytes) (n : Nat) : Res VarInfo :=
  (rawRecords guard (1 + 2 * dsz) buff n).map fun recs =>
    recs.map fun r => (r.headD 0, (r.drop 1).take dsz, r.drop (1 + dsz))

def encVarInfo (vi : VarInfo) : Bytes := (vi.map fun t => t.1 :: (t.2.1 ++ t.2.2)).flatten

/-! ## QM `to_file` -/

def encInt64 (n : Nat) : Bytes := toLE 8 n

/-- `NeighborhoodSection.dump_data(vi=…)`: int64 count, then the lower-triangle records -/
def neigData (isz : Nat) (row : List (Nat × Bytes)) : Bytes := encInt64 row.length ++ encNeigh isz row

def qmNeigSections (isz : Nat) : List (List (Nat × Bytes)) → Bytes
  | [] => []
  | row :: rows => sectionDumps magNEIG nlb4 (neigData isz row) ++ qmNeigSections isz rows

def qmEncode (hdrText : Bytes) (h : QHeader J) (vi : VarInfo) (c : QContent) (varsText : Bytes) : Bytes :=
  makeHeader qmPrefix 1 0 hdrText ++
  sectionDumps magVTYP nlb4 (encVarInfo vi) ++
  sectionDumps magOFFS nlb4 c.offset ++
  sectionDumps magLINB nlb4 c.linear.flatten ++
  qmNeigSections h.isize c.lower ++
  (if h.vars.truthy then sectionDumps magVARS nlb4 varsText else [])

/-! ## QM `from_file` -/

/-- `OffsetSection.loads_data`: `np.frombuffer(data[:itemsize], dtype)[0]` -/
def offsLoads (dsz : Nat) (d : Bytes) : Res Bytes :=
  match frombuffer dsz (d.take dsz) with
  | .ok [] => .err .index
  | .ok (x :: _) => .ok x
  | .err e => .err e
  | .ub => .ub

/-- `LinearSection.loads_data`: `np.frombuffer(data[:n*itemsize], dtype)` (may be shorter) -/
def linbLoads (dsz n : Nat) (d : Bytes) : Res (List Bytes) := frombuffer dsz (d.take (n * dsz))

def zeroBias (dsz : Nat) : Bytes := List.replicate dsz 0

/-- `add_linear_from_array` on a fresh range-labelled model with `n` variables: a shorter array
    leaves the remaining biases at zero -/
def padLinear (dsz n : Nat) (arr : List Bytes) : List Bytes :=
  arr ++ List.replicate (n - arr.length) (zeroBias dsz)

/-- `NeighborhoodSection.loads_data` + `_ilower_triangle_load(vi, count, buff)` -/
def neigLoads (isz dsz : Nat) (d : Bytes) : Res (List (Nat × Bytes)) :=
  if (d.take 8).length < 8 then .err .structErr else
  let count := leInt (d.take 8)
  let buff := d.drop 8
  if count * ((isz + dsz : Nat) : Int) > (buff.length : Int) then .err .runtime else
  .ok ((chunksN (isz + dsz) count.toNat buff).map fun r => ((leInt (r.take isz)).toNat, r.drop isz))

def qmNeigLoop (isz dsz : Nat) : Nat → Prog (List (List (Nat × Bytes)))
  | 0 => .ret []
  | k + 1 => (sectionLoadWith magNEIG nlb4 (neigLoads isz dsz)).bind fun row =>
      (qmNeigLoop isz dsz k).bind fun rest => .ret (row :: rest)

structure QmLoaded (J : Type) where
  hdr : QHeader J
  varinfo : VarInfo
  content : QContent
  labels : Option (List J)
  deriving Repr

def qmFinish (parseVars : Bytes → Option (List J)) (h : QHeader J) (vi : VarInfo) (c : QContent) : Prog (QmLoaded J) :=
  if h.vars.truthy then
    (varsLoad parseVars).bind fun l => .ret { hdr := h, varinfo := vi, content := c, labels := some l }
  else .ret { hdr := h, varinfo := vi, content := c, labels := none }

def qmBody (guard : Bool) (parseVars : Bytes → Option (List J)) (h : QHeader J) : Prog (QmLoaded J) :=
  (sectionLoadWith magVTYP nlb4 fun d => ivartypesLoad guard h.dsize d h.nvars).bind fun vi =>
  (sectionLoadWith magOFFS nlb4 (offsLoads h.dsize)).bind fun off =>
  (sectionLoadWith magLINB nlb4 (linbLoads h.dsize h.nvars)).bind fun lin =>
  (qmNeigLoop h.isize h.dsize h.nvars).bind fun low =>
  qmFinish parseVars h vi { offset := off, linear := padLinear h.dsize h.nvars lin, lower := low }

def qmDecode (guard : Bool) (parse : Bytes → Option (QHeader J)) (parseVars : Bytes → Option (List J)) : Prog (QmLoaded J) :=
  (readHeader qmPrefix parse).bind fun vh =>
  if tupleLt [2, 0] vh.1 then .fail .value else qmBody guard parseVars vh.2

end FileFmt
