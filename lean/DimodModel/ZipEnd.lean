import DimodModel.JsonObject

/-! # The part of `zipfile` that decides whether a file opens at all  (C09 / C10)

`zipfile.ZipFile(fp)` (used by `ConstrainedQuadraticModel.from_file` directly and by
`DiscreteQuadraticModel._from_file_numpy` through `np.load` → `NpzFile`) locates an archive from the
END of the file it is given: `_EndRecData` looks for the 22-byte end-of-central-directory record
(signature `PK\x05\x06`) in the last 22 bytes and, failing that, for the *last* occurrence of the
signature in the last `65536 + 22` bytes.  No record → `BadZipFile`.  This file models exactly that
search on the bytes of the WHOLE file (`fp.seek(0, 2)`: the position `from_file` left the file at
does not matter), the arithmetic `_RealGetContents` does on the record, and the two loaders that
call it.  What stays a parameter (`readDir`) is reading the central directory and the members once
a record was found — "member bytes in = member bytes out" — and it is only ever assumed for the
COMPLETE file.  Core Lean only. -/

namespace FileFmt

/-- `stringEndArchive = b"PK\005\006"` -/
def sigEOCD : Bytes := [80, 75, 5, 6]

/-- `_ZIP_PREFIX = b"PK\x03\x04"` of `np.load` -/
def sigLocal : Bytes := [80, 75, 3, 4]

/-- `data.rfind(stringEndArchive)`: the last position at which the signature occurs -/
def rfindSig : Bytes → Option Nat
  | [] => none
  | b :: t =>
    match rfindSig t with
    | some i => some (i + 1)
    | none => if sigEOCD.isPrefixOf (b :: t) then some 0 else none

/-- `(1 << 16) + sizeEndCentDir`: how far from the end of the file the record is looked for -/
def eocdWindow : Nat := 65536 + 22

/-- `endrec`: the record's 22 bytes and the file offset it was found at (`_ECD_LOCATION`) -/
structure EndRec where
  location : Nat
  record : Bytes
  deriving Repr, DecidableEq

/-- `zipfile._EndRecData(fpin)` on a file with these bytes.  (`fpin.seek(-22, 2)` on a file shorter
    than 22 bytes is clamped by `BytesIO` and raises `OSError` → `None` for real files: in both cases
    no record is returned, which is what `List.drop` of a truncated subtraction gives here.) -/
def endRecData (file : Bytes) : Option EndRec :=
  if (file.drop (file.length - 22)).length = 22 ∧ (file.drop (file.length - 22)).take 4 = sigEOCD ∧
      (file.drop (file.length - 22)).drop 20 = [0, 0] then
    some ⟨file.length - 22, file.drop (file.length - 22)⟩
  else
    -- `maxCommentStart = max(filesize - (1 << 16) - sizeEndCentDir, 0)`; `data = file[maxCommentStart:]`
    match rfindSig (file.drop (file.length - eocdWindow)) with
    | none => none
    | some start =>
      if (((file.drop (file.length - eocdWindow)).drop start).take 22).length ≠ 22 then none
      else some ⟨file.length - eocdWindow + start, ((file.drop (file.length - eocdWindow)).drop start).take 22⟩

/-- `endrec[_ECD_SIZE]`, `endrec[_ECD_OFFSET]`, number of entries (`'<4s4H2LH'`) -/
def EndRec.sizeCd (r : EndRec) : Nat := leNat ((r.record.drop 12).take 4)
def EndRec.offsetCd (r : EndRec) : Nat := leNat ((r.record.drop 16).take 4)
def EndRec.entries (r : EndRec) : Nat := leNat ((r.record.drop 10).take 2)

/-- `start_dir = offset_cd + concat` with `concat = location - size_cd - offset_cd`
    (`None`: "Bad offset for central directory") -/
def EndRec.startDir (r : EndRec) : Option Nat := if r.location < r.sizeCd then none else some (r.location - r.sizeCd)

/-- the record `ZipFile._write_end_record` writes for an archive without comment and below the
    zip64 limits: signature, disk numbers 0, the entry count twice, size and offset of the central
    directory, comment length 0 -/
def eocdRecord (count sizeCd offsetCd : Nat) : Bytes :=
  sigEOCD ++ [0, 0, 0, 0] ++ toLE 2 count ++ toLE 2 count ++ toLE 4 sizeCd ++ toLE 4 offsetCd ++ [0, 0]

/-- `ZipFile(fp)` / `_RealGetContents`: no end record → `BadZipFile`; a central directory that would
    start before the file → `BadZipFile`; otherwise the directory and the members are read
    (`readDir`, a parameter: it gets the record and the whole file) -/
def zipOpen (readDir : EndRec → Bytes → Option β) (file : Bytes) : Option β :=
  match endRecData file with
  | none => none
  | some r => if r.startDir.isNone then none else readDir r file

/-! ## CQM: `read_header`, then `zipfile.ZipFile(file_like)` which looks at the WHOLE file -/

def containerLoadW (pre : Bytes) (parse : Bytes → Option H) (verOk : List Nat → Bool) (openWhole : Bytes → Option β)
    (bytes : Bytes) : Res (H × β) :=
  match (readHeader pre parse).run bytes with
  | .err e => .err e
  | .ub => .ub
  | .ok ((ver, h), _) =>
    if !verOk ver then .err .value
    else match openWhole bytes with
      | none => .err .zip
      | some a => .ok (h, a)

/-- `ConstrainedQuadraticModel.from_file` on a version-2.0 file, the archive located as `zipfile` does -/
def cqmFileLoadW (guard : Bool) (dsz : Nat) (parseHdr : Bytes → Option CqmCounts) (readDir : EndRec → Bytes → Option Archive)
    (parse : Bytes → Option (QHeader J)) (okLabel : List Char → Bool) (bytes : Bytes) : Res CqmContent :=
  (containerLoadW cqmPrefix parseHdr cqmVerOk (zipOpen readDir) bytes).bind fun ha =>
    cqmDecodeChecked guard dsz ha.1 parse okLabel ha.2

/-! ## DQM: header, `BIAS`, length, then `np.load`

`_from_file_numpy` as it is calls `np.load(file_like)`: the archive is looked for at the end of the
whole FILE, where a `VARS` section may follow the blob (`whole = true`).  With the candidate repair
`np.load(io.BytesIO(file_like.read(length)))` it is looked for at the end of the blob
(`whole = false`).  Which of the two the source under test does is regenerated by the translator
(`Gen.dqmLoadsWholeFile`). -/

/-- everything before `np.load`: `read_header`, the version test, `BIAS`, the length -/
def dqmFront (parse : Bytes → Option (Bool × H)) : Prog (Bool × H × Nat) :=
  (readHeader dqmPrefix parse).bind fun vh =>
  if !tupleLt vh.1 [2, 0] then .fail .value else
  (Prog.expect magBIAS).bind fun _ =>
  (Prog.readLen 4).bind fun n => .ret (vh.2.1, vh.2.2, n)

/-- after the blob: the optional `VARS` section and the length test -/
def dqmTail (parseVars : Bytes → Option (List J)) (nvars : Nat) (labelled : Bool) (h : H) (d : D) : Prog (H × D × Option (List J)) :=
  if labelled then
    (varsLoad parseVars).bind fun l => if l.length ≠ nvars then .fail .value else .ret (h, d, some l)
  else .ret (h, d, none)

def dqmLoad (whole : Bool) (parse : Bytes → Option (Bool × H)) (parseVars : Bytes → Option (List J))
    (readNpz : EndRec → Bytes → Option D) (nvarsOf : D → Nat) (file : Bytes) : Res (H × D × Option (List J)) :=
  match (dqmFront parse).run file with
  | .err e => .err e
  | .ub => .ub
  | .ok ((labelled, h, n), rest) =>
    let stream := if whole then rest else rest.take n      -- what `np.load` reads its magic from
    let magic := stream.take 4
    if magic ≠ sigLocal ∧ magic ≠ sigEOCD then .err .value   -- not a zip: `.npy` / pickle paths, all raise here
    else
      match zipOpen readNpz (if whole then file else stream) with
      | none => .err .zip
      | some d =>
        match (dqmTail parseVars (nvarsOf d) labelled h d).run (rest.drop n) with    -- `file_like.seek(start + length)`
        | .ok (x, _) => .ok x
        | .err e => .err e
        | .ub => .ub

end FileFmt
