import DimodModel.Energy
import Generated.Vartype

/-! # C02 — SPIN ↔ BINARY conversions, as coded

* `abc.h: substitute_variable / substitute_variables`      → `QMB.substituteVariable(Old)`, `QMB.substituteVariables`
* `binary_quadratic_model.h: change_vartype`               → `Bqm.changeVartype`
* `quadratic_model.h / constrained_quadratic_model.h: change_vartype(vartype, v)` → `Qm.changeVartype`, `CqmC.changeVartype`
* `pybqm.py: pyBQM.change_vartype` (generated multiplier table) → `PyBqm.changeVartypeWith`
* `pybqm.py` mutators/readers + `vartypeview.py: VartypeView`  → `LBqm.*`, `View.*`
* `utilities.py: ising_to_qubo / qubo_to_ising`            → `isingToQubo`, `quboToIsing`
* `polynomial.py: to_binary / to_spin`                     → `polyToBinary`, `polyToSpin`

The numeric constants come from `Generated/Vartype.lean` (rewritten from the source on every run).
`substituteVariable` is the function after the repair of D4 (self-loop branch); `substituteVariableOld`
is the function as it was. -/

namespace En

variable {R : Type}

inductive VT | spin | binary
  deriving DecidableEq, Repr

inductive VT4 | binary | spin | integer | real
  deriving DecidableEq, Repr

/-- the literal `2` of the C++ source -/
def two [Add R] [One R] : R := 1 + 1

namespace Nbh

/-- `asymmetric_quadratic_ref(u, v) *= k` on the neighbourhood of `u`: `lower_bound`, a zero entry is
    inserted first when there is none -/
def mulAt [Mul R] [Zero R] (nb : Nbh R) (v : Nat) (k : R) : Nbh R :=
  match nb with
  | [] => [(v, 0 * k)]
  | (w, c) :: t =>
    if w < v then (w, c) :: mulAt t v k
    else if w = v then (w, c * k) :: t
    else (v, 0 * k) :: (w, c) :: t

end Nbh

namespace QMB

/-- `substitute_variable(v, multiplier, offset)` after D4: the self-loop is handled by its own branch -/
def substituteVariable [Add R] [Mul R] [Zero R] [One R] (m : QMB R) (v : Nat) (mult c : R) : QMB R :=
  let off0 := m.off + m.lin.getD v 0 * c
  let lin0 := m.lin.modify v (· * mult)
  match m.adj with
  | none => { lin := lin0, adj := none, off := off0 }
  | some a =>
    let nb := a.getD v []
    let off1 := nb.foldl (fun o p => if p.1 = v then o + p.2 * c * c else o) off0
    let lin1 := nb.foldl (fun l p =>
      if p.1 = v then l.modify v (· + two * p.2 * mult * c) else l.modify p.1 (· + p.2 * c)) lin0
    let a1 := nb.foldl (fun a p => if p.1 = v then a else a.modify p.1 (Nbh.mulAt · v mult)) a
    let a2 := a1.modify v (·.map fun p => if p.1 = v then (p.1, p.2 * (mult * mult)) else (p.1, p.2 * mult))
    { lin := lin1, adj := some a2, off := off1 }

/-- `substitute_variable` as it was: every neighbour (the variable itself included) is treated alike:
    `linear[term.v] += term.bias*offset; asymmetric_quadratic_ref(term.v, v) *= multiplier; term.bias *= multiplier` -/
def substituteVariableOld [Add R] [Mul R] [Zero R] (m : QMB R) (v : Nat) (mult c : R) : QMB R :=
  let off0 := m.off + m.lin.getD v 0 * c
  let lin0 := m.lin.modify v (· * mult)
  match m.adj with
  | none => { lin := lin0, adj := none, off := off0 }
  | some a =>
    let nb := a.getD v []
    let lin1 := nb.foldl (fun l p => l.modify p.1 (· + p.2 * c)) lin0
    let a1 := nb.foldl (fun a p => a.modify p.1 (Nbh.mulAt · v mult)) a
    let a2 := a1.modify v (·.map fun p => (p.1, p.2 * mult))
    { lin := lin1, adj := some a2, off := off0 }

/-- `substitute_variables(multiplier, offset)`: every directed entry is visited once, hence `c²/2` -/
def substituteVariables [Add R] [Mul R] [Div R] [One R] (m : QMB R) (mult c : R) : QMB R :=
  let quadMp := mult * mult
  let linQuadMp := mult * c
  let quadOffsetMp := c * c / two
  let off0 := m.lin.foldl (fun o l => o + l * c) m.off
  let lin0 := m.lin.map (· * mult)
  match m.adj with
  | none => { lin := lin0, adj := none, off := off0 }
  | some a =>
    let off1 := a.foldl (fun o nb => nb.foldl (fun o p => o + quadOffsetMp * p.2) o) off0
    let lin1 := List.zipWith (fun l (nb : Nbh R) => nb.foldl (fun l p => l + linQuadMp * p.2) l) lin0 a
    let a1 := a.map (·.map fun p => (p.1, p.2 * quadMp))
    { lin := lin1, adj := some a1, off := off1 }

end QMB

/-! ## `BinaryQuadraticModel::change_vartype` -/

structure Bqm (R : Type) where
  vt : VT
  qb : QMB R

namespace Bqm

def changeVartypeWith [Add R] [Mul R] [Div R] [One R] (toSpin toBinary : R × R) (m : Bqm R) (vt : VT) : Bqm R :=
  if m.vt = vt then m
  else match vt with
    | .spin => { vt := .spin, qb := m.qb.substituteVariables toSpin.1 toSpin.2 }
    | .binary => { vt := .binary, qb := m.qb.substituteVariables toBinary.1 toBinary.2 }

def changeVartype (m : Bqm Rat) (vt : VT) : Bqm Rat :=
  m.changeVartypeWith Generated.Vartype.bqmToSpin Generated.Vartype.bqmToBinary vt

end Bqm

/-! ## `QuadraticModel::change_vartype(vartype, v)` -/

structure VarInfo (R : Type) where
  vt : VT4
  lb : R
  ub : R

structure Qm (R : Type) where
  qb : QMB R
  info : List (VarInfo R)

/-- constants of one per-variable conversion table: substitution pairs and the bounds set next to them -/
structure VarTable (R : Type) where
  toBinary : R × R
  toBinaryBounds : R × R
  toSpin : R × R
  toSpinBounds : R × R

def qmTable : VarTable Rat :=
  { toBinary := Generated.Vartype.qmToBinary, toBinaryBounds := Generated.Vartype.qmToBinaryBounds,
    toSpin := Generated.Vartype.qmToSpin, toSpinBounds := Generated.Vartype.qmToSpinBounds }

def cqmTable : VarTable Rat :=
  { toBinary := Generated.Vartype.cqmToBinary, toBinaryBounds := Generated.Vartype.cqmToBinaryBounds,
    toSpin := Generated.Vartype.cqmToSpin, toSpinBounds := Generated.Vartype.cqmToSpinBounds }

def setInfo (info : List (VarInfo R)) (v : Nat) (vt : VT4) (b : Option (R × R)) : List (VarInfo R) :=
  info.modify v fun i => match b with
    | some (lb, ub) => { vt, lb, ub }
    | none => { i with vt }

namespace Qm

/-- `none` = `std::logic_error("unsupported vartype change")` (→ `TypeError` in Python) -/
def changeVartypeWith [Add R] [Mul R] [Zero R] [One R] (t : VarTable R) (m : Qm R) (vt : VT4) (v : Nat) : Option (Qm R) :=
  let source := (m.info[v]?.map (·.vt)).getD .binary
  if source = vt then some m
  else if source = .spin ∧ vt = .binary then
    some { qb := m.qb.substituteVariable v t.toBinary.1 t.toBinary.2, info := setInfo m.info v .binary (some t.toBinaryBounds) }
  else if source = .binary ∧ vt = .spin then
    some { qb := m.qb.substituteVariable v t.toSpin.1 t.toSpin.2, info := setInfo m.info v .spin (some t.toSpinBounds) }
  else if source = .spin ∧ vt = .integer then
    -- first to BINARY, then to INTEGER
    some { qb := m.qb.substituteVariable v t.toBinary.1 t.toBinary.2,
           info := setInfo (setInfo m.info v .binary (some t.toBinaryBounds)) v .integer none }
  else if source = .binary ∧ vt = .integer then
    some { m with info := setInfo m.info v .integer none }
  else none

def changeVartype (m : Qm Rat) (vt : VT4) (v : Nat) : Option (Qm Rat) := m.changeVartypeWith qmTable vt v

end Qm

/-! ## `ConstrainedQuadraticModel::change_vartype(vartype, v)` -/

namespace Expr

/-- local index of global variable `g` (`indices_.find`) -/
def localOf? (e : Expr R) (g : Nat) : Option Nat :=
  let rec go : List Nat → Nat → Option Nat
    | [], _ => none
    | x :: xs, i => if x = g then some i else go xs (i+1)
  go e.vars 0

/-- `Expression::substitute_variable`: nothing happens when the expression does not use `v` -/
def substituteVariable [Add R] [Mul R] [Zero R] [One R] (e : Expr R) (g : Nat) (mult c : R) : Expr R :=
  match e.localOf? g with
  | some i => { e with qb := e.qb.substituteVariable i mult c }
  | none => e

def substituteVariableOld [Add R] [Mul R] [Zero R] (e : Expr R) (g : Nat) (mult c : R) : Expr R :=
  match e.localOf? g with
  | some i => { e with qb := e.qb.substituteVariableOld i mult c }
  | none => e

end Expr

inductive Sense | le | ge | eq
  deriving DecidableEq, Repr

structure Cons (R : Type) where
  e : Expr R
  sense : Sense
  rhs : R
  weight : Option R      -- none = hard
  quadPenalty : Bool
  discrete : Bool

/-- the C++ `ConstrainedQuadraticModel`: objective, constraints, `varinfo_` -/
structure CqmC (R : Type) where
  obj : Expr R
  cons : List (Cons R)
  info : List (VarInfo R)

namespace CqmC

def mapExprs (m : CqmC R) (f : Expr R → Expr R) : CqmC R :=
  { m with obj := f m.obj, cons := m.cons.map fun c => { c with e := f c.e } }

/-- `ConstrainedQuadraticModel::substitute_variable` -/
def substituteVariable [Add R] [Mul R] [Zero R] [One R] (m : CqmC R) (v : Nat) (mult c : R) : CqmC R :=
  m.mapExprs (·.substituteVariable v mult c)

def substituteVariableOld [Add R] [Mul R] [Zero R] (m : CqmC R) (v : Nat) (mult c : R) : CqmC R :=
  m.mapExprs (·.substituteVariableOld v mult c)

def changeVartypeWith [Add R] [Mul R] [Zero R] [One R] (t : VarTable R) (m : CqmC R) (vt : VT4) (v : Nat) : Option (CqmC R) :=
  let source := (m.info[v]?.map (·.vt)).getD .binary
  if source = vt then some m
  else if source = .spin ∧ vt = .binary then
    some { m.substituteVariable v t.toBinary.1 t.toBinary.2 with info := setInfo m.info v .binary (some t.toBinaryBounds) }
  else if source = .binary ∧ vt = .spin then
    some { m.substituteVariable v t.toSpin.1 t.toSpin.2 with info := setInfo m.info v .spin (some t.toSpinBounds) }
  else if source = .spin ∧ vt = .integer then
    some { m.substituteVariable v t.toBinary.1 t.toBinary.2 with
           info := setInfo (setInfo m.info v .binary (some t.toBinaryBounds)) v .integer none }
  else if source = .binary ∧ vt = .integer then
    some { m with info := setInfo m.info v .integer none }
  else none

def changeVartype (m : CqmC Rat) (vt : VT4) (v : Nat) : Option (CqmC Rat) := m.changeVartypeWith cqmTable vt v

/-- `spin_to_binary(inplace=True)` (`constrained.py` / `quadratic_model.py`): `for v in variables: if vartype(v) is SPIN:
    change_vartype(BINARY, v)` — over the given variable indices, in order -/
def spinToBinaryOver [Add R] [Mul R] [Zero R] [One R] (t : VarTable R) (m : CqmC R) (idxs : List Nat) : CqmC R :=
  idxs.foldl (fun m v =>
    if (m.info[v]?.map (·.vt)) = some VT4.spin then (m.changeVartypeWith t .binary v).getD m else m) m

def spinToBinaryWith [Add R] [Mul R] [Zero R] [One R] (t : VarTable R) (m : CqmC R) : CqmC R :=
  spinToBinaryOver t m (List.range m.info.length)

def spinToBinary (m : CqmC Rat) : CqmC Rat := m.spinToBinaryWith cqmTable

end CqmC

/-! ## `pyBQM.change_vartype` -/

namespace PyBqm

open Generated.Vartype in
/-- one pass over `adj.items()`; the offset runs through all rows -/
def changeVartypeWith [Add R] [Mul R] (t : PyTable R) (m : PyBqm R) : PyBqm R :=
  let rec go : List (R × Nbh R) → R → List (R × Nbh R) × R
    | [], off => ([], off)
    | (lbias, nb) :: rest, off =>
      let off := off + t.linOffsetMp * lbias
      let l := t.linMp * lbias
      let l := nb.foldl (fun l p => l + t.linQuadMp * p.2) l
      let off := nb.foldl (fun o p => o + t.quadOffsetMp * p.2) off
      let r := go rest off
      ((l, nb.map fun p => (p.1, t.quadMp * p.2)) :: r.1, r.2)
  let r := go m.rows m.off
  { rows := r.1, off := r.2 }

end PyBqm

/-! ## label-keyed dict back-end (`pybqm.py`) and `VartypeView` on top of it -/

/-- insertion-ordered dict: an update keeps the position, a new key goes to the end -/
abbrev ODict (α β : Type) := List (α × β)

namespace ODict
variable {α β : Type} [DecidableEq α]

def get? (m : ODict α β) (k : α) : Option β :=
  match m with
  | [] => none
  | (k', v) :: t => if k' = k then some v else get? t k

def set (m : ODict α β) (k : α) (v : β) : ODict α β :=
  match m with
  | [] => [(k, v)]
  | (k', v') :: t => if k' = k then (k', v) :: t else (k', v') :: set t k v

def pop (m : ODict α β) (k : α) : ODict α β :=
  match m with
  | [] => []
  | (k', v') :: t => if k' = k then t else (k', v') :: pop t k

def contains (m : ODict α β) (k : α) : Bool := (get? m k).isSome

end ODict

/-- `pyBQM`: `_adj[v][v]` is the linear bias -/
structure LBqm (R : Type) where
  vt : VT
  adj : ODict Label (ODict Label R)
  off : R

namespace LBqm

def variables (m : LBqm R) : List Label := m.adj.map (·.1)

/-- `add_linear(v, bias)` -/
def addLinear [Add R] [Zero R] (m : LBqm R) (v : Label) (b : R) : LBqm R :=
  let nv := (m.adj.get? v).getD []
  { m with adj := m.adj.set v (nv.set v ((nv.get? v).getD 0 + b)) }

/-- `set_linear(v, bias)` -/
def setLinear (m : LBqm R) (v : Label) (b : R) : LBqm R :=
  let nv := (m.adj.get? v).getD []
  { m with adj := m.adj.set v (nv.set v b) }

/-- `add_quadratic(u, v, bias)` -/
def addQuadratic [Add R] [Zero R] (m : LBqm R) (u v : Label) (b : R) : Except Err (LBqm R) :=
  if u = v then .error .value else
  let m := if m.adj.contains u then m else m.setLinear u 0
  let m := if m.adj.contains v then m else m.setLinear v 0
  let nu := (m.adj.get? u).getD []
  let nv := (m.adj.get? v).getD []
  let x := (nv.get? u).getD 0 + b
  -- `adj[u][v] = adj[v][u] = …`: the right-most target is assigned last in CPython? No: left to right.
  let adj := m.adj.set u (nu.set v x)
  let adj := adj.set v (((adj.get? v).getD nv).set u x)
  .ok { m with adj }

/-- `add_variable(v)` for a given label (bias 0) -/
def addVariable [Add R] [Zero R] (m : LBqm R) (v : Label) : LBqm R := m.addLinear v 0

def getLinear (m : LBqm R) (v : Label) : Except Err R :=
  match (m.adj.get? v).bind (·.get? v) with
  | some b => .ok b
  | none => .error .value

def getQuadratic (m : LBqm R) (u v : Label) : Except Err R :=
  if u = v then .error .value else
  match (m.adj.get? u).bind (·.get? v) with
  | some b => .ok b
  | none => .error .value

/-- `iter_neighborhood(v)` -/
def neighborhood (m : LBqm R) (v : Label) : Except Err (List (Label × R)) :=
  match m.adj.get? v with
  | some nv => .ok (nv.filter fun p => p.1 ≠ v)
  | none => .error .value

/-- `iter_quadratic()` -/
def iterQuadratic (m : LBqm R) : List (Label × Label × R) :=
  let rec go : List (Label × ODict Label R) → List Label → List (Label × Label × R)
    | [], _ => []
    | (u, nu) :: rest, seen =>
      ((nu.filter fun p => !(u :: seen).contains p.1).map fun p => (u, p.1, p.2)) ++ go rest (u :: seen)
  go m.adj []

def reduceLinear [Add R] [Zero R] (m : LBqm R) : R :=
  m.adj.foldl (fun acc p => acc + (p.2.get? p.1).getD 0) 0

def reduceQuadratic [Add R] [Zero R] (m : LBqm R) : R :=
  m.iterQuadratic.foldl (fun acc t => acc + t.2.2) 0

def reduceNeighborhood [Add R] [Zero R] (m : LBqm R) (v : Label) : Except Err R :=
  (m.neighborhood v).map fun nb => nb.foldl (fun acc p => acc + p.2) 0

def removeInteraction (m : LBqm R) (u v : Label) : Except Err (LBqm R) :=
  if u = v then .error .value else
  match (m.adj.get? u).bind (·.get? v) with
  | none => .error .value
  | some _ =>
    let adj := m.adj.set u (((m.adj.get? u).getD []).pop v)
    let adj := adj.set v (((adj.get? v).getD []).pop u)
    .ok { m with adj }

def removeVariable (m : LBqm R) (v : Label) : Except Err (LBqm R) :=
  match m.adj.get? v with
  | none => .error .value
  | some nv =>
    let adj := m.adj.pop v
    let adj := nv.foldl (fun adj p => if p.1 = v then adj else adj.set p.1 (((adj.get? p.1).getD []).pop v)) adj
    .ok { m with adj }

open Generated.Vartype in
/-- `pyBQM.change_vartype` on the label-keyed form (same loop as `PyBqm.changeVartypeWith`) -/
def changeVartypeWith [Add R] [Mul R] [Zero R] (toBinary toSpin : PyTable R) (m : LBqm R) (vt : VT) : LBqm R :=
  if m.vt = vt then m else
  let t := match vt with | .binary => toBinary | .spin => toSpin
  let rec go : List (Label × ODict Label R) → R → List (Label × ODict Label R) × R
    | [], off => ([], off)
    | (u, nu) :: rest, off =>
      let lbias := (nu.get? u).getD 0
      let off := off + t.linOffsetMp * lbias
      let l := t.linMp * lbias
      let others := nu.filter fun p => p.1 ≠ u
      let l := others.foldl (fun l p => l + t.linQuadMp * p.2) l
      let off := others.foldl (fun o p => o + t.quadOffsetMp * p.2) off
      let nu' := nu.map fun p => if p.1 = u then (p.1, l) else (p.1, t.quadMp * p.2)
      let r := go rest off
      ((u, nu') :: r.1, r.2)
  let r := go m.adj m.off
  { vt, adj := r.1, off := r.2 }

end LBqm

abbrev PairMap (R : Type) := ODict (Label × Label) R

/-! ### constructors from dicts (`binary_quadratic_model.py: _init_components`, `from_ising`, `from_qubo`) -/

namespace LBqm

/-- one item of the `quadratic` mapping: a diagonal entry is a linear bias (BINARY) or a constant (SPIN), anything else goes
    through `add_quadratic` (so `(u, v)` and `(v, u)` accumulate) -/
def initQuadStep [Add R] [Zero R] (vt : VT) (m : LBqm R) (e : (Label × Label) × R) : LBqm R :=
  if e.1.1 = e.1.2 then
    match vt with
    | .binary => m.addLinear e.1.1 e.2
    | .spin => { m with off := m.off + e.2 }
  else
    match m.addQuadratic e.1.1 e.1.2 e.2 with
    | .ok m' => m'
    | .error _ => m

/-- `_init_components(linear, quadratic, offset, vartype)` for mapping arguments: offset, then the quadratic items, then
    `add_linear_from(linear)` -/
def initComponents [Add R] [Zero R] (vt : VT) (linear : ODict Label R) (quadratic : PairMap R) (offset : R) : LBqm R :=
  let m0 : LBqm R := { vt, adj := [], off := offset }
  let m1 := quadratic.foldl (initQuadStep vt) m0
  linear.foldl (fun m p => m.addLinear p.1 p.2) m1

/-- `BQM.from_ising(h, J, offset)` = `cls(h, J, offset, SPIN)` -/
def fromIsing [Add R] [Zero R] (h : ODict Label R) (J : PairMap R) (offset : R) : LBqm R := initComponents .spin h J offset

/-- `BQM.from_qubo(Q, offset)` = `cls({}, Q, offset, BINARY)` -/
def fromQubo [Add R] [Zero R] (Q : PairMap R) (offset : R) : LBqm R := initComponents .binary [] Q offset

end LBqm

/-! ### `VartypeView` -/

open Generated.Vartype in
structure ViewTables (R : Type) where
  binaryOverSpin : ViewTable R
  spinOverBinary : ViewTable R

open Generated.Vartype in
def viewTables : ViewTables Rat := { binaryOverSpin := viewBinaryOverSpin, spinOverBinary := viewSpinOverBinary }

namespace View
open Generated.Vartype

variable [Add R] [Mul R] [Sub R] [Zero R]

/-- the table of the (view vartype, other data vartype) combination -/
def tbl (T : ViewTables R) (view : VT) : ViewTable R :=
  match view with
  | .binary => T.binaryOverSpin
  | .spin => T.spinOverBinary

/-- `VartypeView.offset` (getter) -/
def offset (T : ViewTables R) (view : VT) (d : LBqm R) : R :=
  if view = d.vt then d.off
  else d.off + (tbl T view).offLin * d.reduceLinear + (tbl T view).offQuad * d.reduceQuadratic

/-- `VartypeView.offset` (setter), after D7 -/
def setOffset (T : ViewTables R) (view : VT) (d : LBqm R) (b : R) : Except Err (LBqm R) :=
  if view = d.vt then .ok { d with off := b }
  else .ok { d with off := d.off + (b - offset T view d) }

/-- the setter as it was: `self._vartype == self.data.vartype` compares with a bound method, so the
    first branch is never taken and equal vartypes end in `RuntimeError` -/
def setOffsetOld (T : ViewTables R) (view : VT) (d : LBqm R) (b : R) : Except Err (LBqm R) :=
  if view = d.vt then .error .runtime
  else .ok { d with off := d.off + (b - offset T view d) }

def addLinear (T : ViewTables R) (view : VT) (d : LBqm R) (v : Label) (b : R) : LBqm R :=
  if view = d.vt then d.addLinear v b
  else
    let t := tbl T view
    let d := d.addLinear v (t.addLinLin * b)
    { d with off := d.off + t.addLinOff * b }

def addQuadratic (T : ViewTables R) (view : VT) (d : LBqm R) (u v : Label) (b : R) : Except Err (LBqm R) :=
  if view = d.vt then d.addQuadratic u v b
  else do
    let t := tbl T view
    let d ← d.addQuadratic u v (t.addQuadQuad * b)
    let d := d.addLinear u (t.addQuadLinU * b)
    let d := d.addLinear v (t.addQuadLinW * b)
    pure { d with off := d.off + t.addQuadOff * b }

/-- `add_variable(v, bias)` with a given label: `data.add_variable(v)` then `self.add_linear(v, bias)` -/
def addVariable (T : ViewTables R) (view : VT) (d : LBqm R) (v : Label) (b : R) : LBqm R :=
  addLinear T view (d.addVariable v) v b

def getLinear (T : ViewTables R) (view : VT) (d : LBqm R) (v : Label) : Except Err R :=
  if view = d.vt then d.getLinear v
  else do
    let t := tbl T view
    let l ← d.getLinear v
    let nb ← d.reduceNeighborhood v
    pure (t.getLinLin * l + t.getLinNb * nb)

def getQuadratic (T : ViewTables R) (view : VT) (d : LBqm R) (u v : Label) : Except Err R :=
  if view = d.vt then d.getQuadratic u v
  else if u = v then .error .value
  else do
    let q ← d.getQuadratic u v
    pure ((tbl T view).getQuad * q)

/-- `set_linear`: `add_linear(v, 0)` then add the difference -/
def setLinear (T : ViewTables R) (view : VT) (d : LBqm R) (v : Label) (b : R) : Except Err (LBqm R) :=
  if view = d.vt then .ok (d.setLinear v b)
  else do
    let d := addLinear T view d v 0
    let cur ← getLinear T view d v
    pure (addLinear T view d v (b - cur))

/-- `set_quadratic` (not wrapped by `view_method`): both variables are added *before* anything is checked -/
def setQuadratic (T : ViewTables R) (view : VT) (d : LBqm R) (u v : Label) (b : R) : LBqm R × Option Err :=
  let d := addVariable T view d u 0
  let d := addVariable T view d v 0
  match addQuadratic T view d u v 0 with
  | .error e => (d, some e)
  | .ok d1 =>
    match getQuadratic T view d1 u v with
    | .error e => (d1, some e)
    | .ok cur =>
      match addQuadratic T view d1 u v (b - cur) with
      | .error e => (d1, some e)
      | .ok d2 => (d2, none)

def removeInteraction (T : ViewTables R) (view : VT) (d : LBqm R) (u v : Label) : LBqm R × Option Err :=
  if view = d.vt then
    match d.removeInteraction u v with
    | .ok d' => (d', none)
    | .error e => (d, some e)
  else
    match getQuadratic T view d u v with
    | .error e => (d, some e)
    | .ok _ =>
      match setQuadratic T view d u v 0 with
      | (d1, some e) => (d1, some e)
      | (d1, none) =>
        match d1.removeInteraction u v with
        | .ok d2 => (d2, none)
        | .error e => (d1, some e)

def removeVariable (T : ViewTables R) (view : VT) (d : LBqm R) (v : Label) : LBqm R × Option Err :=
  if view = d.vt then
    match d.removeVariable v with
    | .ok d' => (d', none)
    | .error e => (d, some e)
  else
    match d.neighborhood v with
    | .error e => (d, some e)
    | .ok nb =>
      let d1 := nb.foldl (fun d p => (setQuadratic T view d p.1 v 0).1) d
      match setLinear T view d1 v 0 with
      | .error e => (d1, some e)
      | .ok d2 =>
        match d2.removeVariable v with
        | .ok d3 => (d3, none)
        | .error e => (d2, some e)

/-- the value handed to `data.energies` for a sample value of the view -/
def sampleMap (T : ViewTables R) (view : VT) (d : LBqm R) (x : R) : R :=
  if view = d.vt then x else (tbl T view).sampleMul * x + (tbl T view).sampleAdd

end View

/-! ## `SampleSet.change_vartype` (`sampleset.py`)

The record's `sample` matrix and `energy` vector; every other vector, the labels and `info` are not touched by the
method.  A sample set that is still pending (`from_future`) defers exactly this call through its result hook. -/

structure SSet (R : Type) where
  vt : VT
  rows : List (List R)
  energy : List R

/-- `change_vartype(vartype, energy_offset)` on a resolved sample set: `if energy_offset: energy += energy_offset`, then
    `2*sample - 1` (→ SPIN) or `(sample + 1) // 2` (→ BINARY; exact on spin values) -/
def SSet.changeVartype [Add R] [Sub R] [Mul R] [Div R] [Zero R] [One R] [DecidableEq R]
    (s : SSet R) (target : VT) (energyOffset : R) : SSet R :=
  let energy := if energyOffset ≠ 0 then s.energy.map (· + energyOffset) else s.energy
  if target = s.vt then { s with energy }
  else match target with
    | .spin => { vt := .spin, rows := s.rows.map (·.map fun x => two * x - 1), energy }
    | .binary => { vt := .binary, rows := s.rows.map (·.map fun x => (x + 1) / two), energy }

/-- the deferred form: the hook of a pending sample set applies the same call, with the same arguments, once resolved -/
def SSet.changeVartypeDeferred [Add R] [Sub R] [Mul R] [Div R] [Zero R] [One R] [DecidableEq R]
    (pending : Unit → SSet R) (target : VT) (energyOffset : R) : Unit → SSet R :=
  fun u => (pending u).changeVartype target energyOffset

/-! ## `ising_to_qubo` / `qubo_to_ising` (`utilities.py`) -/

/-- `ising_to_qubo(h, J, offset)`; `4.`, `2.` are the literals of the source -/
def isingToQubo [Add R] [Mul R] [Sub R] [Zero R] [One R] [DecidableEq R] (h : ODict Label R) (J : PairMap R) (offset : R) : PairMap R × R :=
  let four : R := two * two
  let q : PairMap R := h.map fun p => ((p.1, p.1), two * p.2)
  let q := J.foldl (fun (q : PairMap R) (e : (Label × Label) × R) =>
    let (u, v) := e.1
    let bias := e.2
    if bias = 0 then q else
    let q := q.set (u, v) (four * bias)
    let q := q.set (u, u) ((q.get? (u, u)).getD 0 - two * bias)
    let q := q.set (v, v) ((q.get? (v, v)).getD 0 - two * bias)
    q) q
  let sumJ := J.foldl (fun a e => a + e.2) 0
  let sumH := h.foldl (fun a e => a + e.2) 0
  (q, offset + (sumJ - sumH))

/-- `qubo_to_ising(Q, offset)` with `half = .5`, `quarter = .25` -/
def quboToIsing [Add R] [Mul R] [Zero R] [DecidableEq R] (half quarter : R) (Q : PairMap R) (offset : R) :
    ODict Label R × PairMap R × R :=
  let addTo (h : ODict Label R) (u : Label) (x : R) : ODict Label R :=
    match h.get? u with
    | some y => h.set u (y + x)
    | none => h.set u x
  let st := Q.foldl (fun (st : ODict Label R × PairMap R × R × R) (e : (Label × Label) × R) =>
    let (h, J, lo, qo) := st
    let (u, v) := e.1
    let bias := e.2
    if u = v then (addTo h u (half * bias), J, lo + bias, qo)
    else
      let J := if bias ≠ 0 then J.set (u, v) (quarter * bias) else J
      let h := addTo h u (quarter * bias)
      let h := addTo h v (quarter * bias)
      (h, J, lo, qo + bias)) ([], [], 0, 0)
  (st.1, st.2.1, offset + (half * st.2.2.1 + quarter * st.2.2.2))

/-! ## `BinaryPolynomial.to_binary / to_spin` (`polynomial.py`)

A term is a strictly increasing list of variable positions (the harness sorts a frozenset by the
position of its labels), so sub-terms are sublists and `frozenset` equality is list equality. -/

abbrev Poly (R : Type) := ODict (List Nat) R

/-- `itertools.combinations` over all sizes: every sublist (as `powerset(term)` yields them, up to order) -/
def sublists : List Nat → List (List Nat)
  | [] => [[]]
  | v :: t => let r := sublists t; r ++ r.map (v :: ·)

/-- `new[t] += b` / `new[t] = b` -/
def Poly.accum [Add R] (p : Poly R) (t : List Nat) (b : R) : Poly R :=
  match p.get? t with
  | some y => p.set t (y + b)
  | none => p.set t b

def powR [Mul R] [One R] (a : R) : Nat → R
  | 0 => 1
  | k+1 => a * powR a k

/-- `to_binary`: `s = 2x - 1`; `newbias = bias * 2**len(t) * (-1)**(len(term) - len(t))` -/
def polyToBinary [Add R] [Mul R] [Neg R] [One R] (p : Poly R) : Poly R :=
  p.foldl (fun new tb =>
    (sublists tb.1).foldl (fun new t =>
      new.accum t (tb.2 * powR two t.length * powR (-1) (tb.1.length - t.length))) new) []

/-- `to_spin`: `x = (s + 1) / 2`; `newbias = bias / 2**len(term)` for every sub-term -/
def polyToSpin [Add R] [Mul R] [Div R] [One R] (p : Poly R) : Poly R :=
  p.foldl (fun new tb =>
    (sublists tb.1).foldl (fun new t => new.accum t (tb.2 / powR two tb.1.length)) new) []

end En
