import DimodModel.VarsKeys
import DimodModel.VarsMore

/-! Object level of the remaining `Variables` surface (round 7): `_extend`, the constructor, `copy()`,
    pickle (`__reduce_cython__` / set-state), `copy.deepcopy` (no `__deepcopy__` is defined: the default goes
    through `__reduce_ex__`), `at`, `__iter__`, `__getitem__(slice)`, `__eq__`, and the mixin methods that
    `Variables` inherits from `collections.abc.Set` / `collections.abc.Sequence`
    (`__reversed__`, `isdisjoint`, `__le__`, `__lt__`, `__ge__`, `__gt__`, `__and__`, `__or__`, `__sub__`,
    `__xor__`, `_from_iterable`), all written over `KState`, the sparse state holding Python *objects*
    (`1`, `True`, `1.0`, `np.int64(1)` are one key; what is stored is the first object).
    `count`, `index`, `__contains__`, `__len__`, `__iter__`, `__getitem__` of the mixins are overridden by
    `cyVariables`, so the mixin bodies below call the `cyVariables` ones, as the MRO does.  Core Lean only. -/

namespace PyKey
mutual
/-- an injective code of an object — its TYPE tag and its value — as a `Label` (which has decidable equality):
    0 `int`, 1 `bool`, 2 `float`, 3 NumPy integer, 4 NumPy floating, 5 `str`, 6 `tuple` -/
def code : PyKey → Label
  | .int z => .tup [.int 0, .int z]
  | .bool b => .tup [.int 1, .int (if b then 1 else 0)]
  | .float z => .tup [.int 2, .int z]
  | .npInt z => .tup [.int 3, .int z]
  | .npFloat z => .tup [.int 4, .int z]
  | .str s => .tup [.int 5, .str s]
  | .tup l => .tup (.int 6 :: codeList l)
def codeList : List PyKey → List Label
  | [] => []
  | a :: l => code a :: codeList l
end
end PyKey

namespace KState
open PyKey

def empty : KState := { i2l := [], l2i := [], stop := 0 }

/-- `_extend(iterable, permissive)`: `for v in iterable: self._append(v, permissive=permissive)`;
    a raising call keeps what was appended before (`false` = ValueError) -/
def extend (k : KState) : List (Option PyKey) → Bool → KState × Bool
  | [], _ => (k, true)
  | v :: vs, p => match k.appendP v p with
    | none => (k, false)
    | some k' => extend k' vs p

/-- `Variables(iterable)` / `cls._from_iterable(it)`: `_extend(iterable, permissive=True)` -/
def ofList (vs : List PyKey) : KState := (empty.extend (vs.map some) true).1

/-- `Variables(range(n))`: the fast path only sets `_stop` (no dict is built) -/
def ofRange (n : Nat) : KState := { i2l := [], l2i := [], stop := n }

/-- `dict(d)` on `_label_to_index`: the items re-inserted (the first entry of a key is the live one) -/
def copyL2i (m : List (PyKey × Nat)) : List (PyKey × Nat) :=
  m.foldr (fun p acc => (p.1, p.2) :: l2iErase acc p.1) []

/-- `dict(d)` on `_index_to_label` -/
def copyI2l (m : List (Nat × PyKey)) : List (Nat × PyKey) :=
  m.foldr (fun p acc => (p.1, p.2) :: i2lErase acc p.1) []

/-- `copy()` (also `__copy__`, `__init_cyvariables__`): new dicts holding the SAME objects -/
def copy (k : KState) : KState := { i2l := copyI2l k.i2l, l2i := copyL2i k.l2i, stop := k.stop }

/-- `pickle.loads(pickle.dumps(v))`: `__reduce_cython__` hands out `(_index_to_label, _label_to_index, _stop)`,
    both dicts travel as item streams, every key / value object is rebuilt with its own type and value
    (an object of this model IS its type and value), set-state assigns the three fields -/
def pickleRoundTrip (k : KState) : KState := { i2l := copyI2l k.i2l, l2i := copyL2i k.l2i, stop := k.stop }

/-- `copy.deepcopy(v)`: `cyVariables` defines no `__deepcopy__` (see the comment in the source), the default
    reconstructs through `__reduce_ex__(4)`: the state tuple is deep-copied (new dicts; int / float / str /
    bool / NumPy scalars / tuples of those are rebuilt equal in type and value) and set -/
def deepcopy (k : KState) : KState := { i2l := copyI2l k.i2l, l2i := copyL2i k.l2i, stop := k.stop }

/-- `at(idx)`: negative indices count from the end, `none` = IndexError; range fast path
    `if self._is_range(): v = pyidx`, otherwise `PyDict_GetItemWithError(self._index_to_label, pyidx)` or `pyidx` -/
def at? (k : KState) (idx : Int) : Option PyKey :=
  let i := if idx < 0 then (k.stop : Int) + idx else idx
  if 0 ≤ i ∧ i < k.stop then
    some (if k.l2i.isEmpty then .int i.toNat else k.labelAt i.toNat)
  else none

/-- `__iter__`: `yield from range(self._stop)` on the range fast path, else `self.at(i)` for every `i` -/
def iterObjs (k : KState) : List PyKey :=
  if k.l2i.isEmpty then (List.range k.stop).map fun (i : Nat) => PyKey.int (i : Int)
  else (List.range k.stop).filterMap fun (i : Nat) => k.at? (i : Int)

/-- `__reversed__` of `abc.Sequence`: `for i in reversed(range(len(self))): yield self[i]` -/
def reversedObjs (k : KState) : List PyKey :=
  (List.range k.stop).reverse.filterMap fun (i : Nat) => k.at? (i : Int)

/-- `__getitem__(slice)`: `idx.indices(size)` (`none` = ValueError of a zero step), then
    `new._append(self.at(i), permissive=False)` into `type(self)()` -/
def getSlice (k : KState) (sl : SSM.PySlice) : Option KState :=
  match SSM.sliceIndices sl k.stop with
  | none => none
  | some idx =>
    idx.foldl (fun acc (i : Nat) => acc.bind fun n => (k.at? (i : Int)).bind fun l => n.appendP (some l) false) (some empty)

/-- the other operand: a `Sequence`, a `Set` that is not a sequence (given by its elements; membership is a
    hash / `==` lookup), anything else -/
inductive KOther where
  | seq (l : List PyKey)
  | set (l : List PyKey)
  | other

/-- `x in other` for a builtin set / frozenset / dict view given by its elements -/
def memO (o : List PyKey) (x : PyKey) : Bool := o.any fun y => pyEq y x

/-- `Variables.__eq__` over objects: `len(self) == len(other) and all(map(eq, self, other))`;
    `not (self ^ other)` with `abc.Set.__xor__` = `(self - other) | (other - self)`
    (`__sub__`: `value for value in self if value not in other`; `__rsub__`: `value for value in other if value not in self`) -/
def eqOther (k : KState) : KOther → Bool
  | .seq o => decide (k.stop = o.length) && (List.zipWith pyEq k.iterObjs o).all id
  | .set o => ((k.iterObjs.filter fun x => !(memO o x)) ++ (o.filter fun x => !(k.count x))).isEmpty
  | .other => false

/-! ### `abc.Set` mixins (`other` is any iterable for the operators that accept one; a Set for the comparisons) -/

/-- `isdisjoint(other)`: `for value in other: if value in self: return False` -/
def isdisjoint (k : KState) (o : List PyKey) : Bool := o.all fun x => !(k.count x)

/-- `__le__(other)` for a Set `other`: `if len(self) > len(other): return False`, then every element in `other` -/
def le (k : KState) (o : List PyKey) : Bool :=
  if k.stop > o.length then false else k.iterObjs.all (memO o)

/-- `__lt__`: `len(self) < len(other) and self.__le__(other)` -/
def lt (k : KState) (o : List PyKey) : Bool := decide (k.stop < o.length) && k.le o

/-- `__ge__`: `if len(self) < len(other): return False`, then every element of `other` in `self` -/
def ge (k : KState) (o : List PyKey) : Bool :=
  if k.stop < o.length then false else o.all fun x => k.count x

/-- `__gt__`: `len(self) > len(other) and self.__ge__(other)` -/
def gt (k : KState) (o : List PyKey) : Bool := decide (k.stop > o.length) && k.ge o

/-- `self & other`: `self._from_iterable(value for value in other if value in self)` (the order of OTHER) -/
def and (k : KState) (o : List PyKey) : KState := ofList (o.filter fun x => k.count x)

/-- `self | other`: `self._from_iterable(e for s in (self, other) for e in s)` -/
def or (k : KState) (o : List PyKey) : KState := ofList (k.iterObjs ++ o)

/-- `self - other`: `other` becomes a `Variables` through `_from_iterable` unless it is a Set (membership in it is
    the same `==` lookup either way); `self._from_iterable(value for value in self if value not in other)` -/
def sub (k : KState) (o : List PyKey) : KState := ofList (k.iterObjs.filter fun x => !((ofList o).count x))

/-- `self ^ other`: `other = self._from_iterable(other)` unless it is a Set, then `(self - other) | (other - self)`;
    `other - self` iterates the OBJECTS the converted `other` holds (an integral float sitting on its own index has
    become the `int` index there) -/
def xor (k : KState) (o : List PyKey) : KState :=
  ofList ((k.sub o).iterObjs ++ (ofList ((ofList o).iterObjs.filter fun x => !(k.count x))).iterObjs)

/-- `other - self` (`__rsub__`): `other` becomes a `Variables` unless it is a Set;
    `self._from_iterable(value for value in other if value not in self)` -/
def rsub (k : KState) (o : List PyKey) : KState := ofList ((ofList o).iterObjs.filter fun x => !(k.count x))

/-- `other | self`: `collections.abc.Set` sets `__ror__ = __or__`, so the labels of SELF come first -/
def ror (k : KState) (o : List PyKey) : KState := k.or o

/-- `v != other`: `not (self == other)` -/
def neOther (k : KState) (o : KOther) : Bool := !(k.eqOther o)

/-! ### the extended object-level alphabet -/

inductive KOp3 where
  | base (op : KOp2)
  | extend (vs : List (Option PyKey)) (permissive : Bool)
  | copy
  | pickle
  | deepcopy
  | slice (sl : SSM.PySlice)

def KOp3.toOp2 : KOp3 → VState.Op2
  | .base op => .base op.toOp
  | .extend vs p => .extend (vs.map fun v => v.map canon) p
  | .copy => .copy
  | .pickle => .pickle
  | .deepcopy => .pickle
  | .slice sl => .slice sl

def step3 (k : KState) : KOp3 → KState × Bool
  | .base op => k.step2 op
  | .extend vs p => k.extend vs p
  | .copy => (k.copy, true)
  | .pickle => (k.pickleRoundTrip, true)
  | .deepcopy => (k.deepcopy, true)
  | .slice sl => match k.getSlice sl with
    | some k' => (k', true)
    | none => (k, false)

end KState

/-! ### the range-labelled fast path: `_is_range()` is `not PyDict_Size(self._label_to_index)`; every reader has a
    branch that never looks at a dict when it holds.  Written separately so that the theorems can state that the
    fast branch and the dict branch agree on every sound state. -/

namespace VState

/-- `_count_int` on the fast path -/
def countIntRange (s : VState) (z : Int) : Bool := decide (0 ≤ z) && decide (z < s.stop)

/-- `at(idx)` on the fast path: the index itself -/
def atRange (s : VState) (idx : Int) : Option Label :=
  let i := if idx < 0 then (s.stop : Int) + idx else idx
  if 0 ≤ i ∧ i < s.stop then some (.int i.toNat) else none

/-- `index(v)` on the fast path: `v if PyLong_Check(v) else int(v)` -/
def indexRange (s : VState) (v : Label) : Option Nat :=
  match v with
  | .int z => if s.countIntRange z then some z.toNat else none
  | _ => none

end VState
