import DimodModel.Feasibility

/-! Property C08 — the option logic of `iter_violations` / `violations` (`constrained.py`).

    `Feas.iterViolations skip clip` (in `Feasibility.lean`) is the three-branch code as written
    (`if skip_satisfied: … elif clip: … else: …`).  Here:

    * `reportDef skip clip` — what the *documentation* of the two options defines, for every combination, directly on the
      definition's `violation`: `skip_satisfied` drops every constraint whose violation is not strictly positive, `clip`
      replaces a negative violation by 0 (so with both options only strictly violated constraints are listed, with their
      positive violation);
    * `dictOf` — Python's `dict(iterable of pairs)` (a later pair with a key already present overwrites the value in place);
      `violations(sample, skip_satisfied, clip)` is `dict(self.iter_violations(...))`;
    * `iterViolationsOneLoop` — the *collapsed* single loop (`if clip and v < 0: v = 0.0 elif skip and v <= 0: continue`),
      kept only to show in `Properties/C08.lean` that it is NOT the definition (non-vacuity of the option theorem).
    Core Lean only. -/

namespace Feas

/-- the documented report for every option combination, on the definition's violation -/
def reportDef (skip clip : Bool) (cs : List CEval) (r : Nat) : List (Label × Rat) :=
  (cs.filter fun c => !skip || decide (violation c r > 0)).map fun c =>
    (c.label, if clip then maxR (violation c r) 0 else violation c r)

/-- `d[k] = v` on an insertion-ordered dict -/
def dictInsert (d : List (Label × Rat)) (k : Label) (v : Rat) : List (Label × Rat) :=
  if d.any (fun p => p.1 = k) then d.map (fun p => if p.1 = k then (k, v) else p) else d ++ [(k, v)]

/-- `dict(pairs)` -/
def dictOf (l : List (Label × Rat)) : List (Label × Rat) := l.foldl (fun d p => dictInsert d p.1 p.2) []

/-- `violations(sample, skip_satisfied=…, clip=…)` = `dict(self.iter_violations(sample, skip_satisfied=…, clip=…))` -/
def violationsDict (skip clip : Bool) (cs : List CEval) (r : Nat) : List (Label × Rat) :=
  dictOf (iterViolations skip clip cs r)

/-- a *different* program: one loop, the clip test first and the skip test in its `elif` (a plausible refactoring of the
    three loops).  With both options a strictly slack inequality is reported with 0 instead of being skipped. -/
def iterViolationsOneLoop (skip clip : Bool) (cs : List CEval) (r : Nat) : List (Label × Rat) :=
  (iterConstraintData cs r).filterMap fun d =>
    if clip && decide (d.violation < 0) then some (d.label, 0)
    else if skip && decide (d.violation ≤ 0) then none
    else some (d.label, d.violation)

end Feas
