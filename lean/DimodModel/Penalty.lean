import DimodModel.Label

/-! # C16 — constraint-to-penalty conversions: executable models (core Lean only)

Two levels, used by every model in this file (and by `Reduce.lean`, `Generators.lean`):

* a **term bag** `List (PTerm α)`: the sequence of `add_linear` / `add_quadratic` / `offset +=` calls a
  piece of dimod code issues, in the order it issues them (`α` = variable label, or global case index
  for a DQM);
* a **coefficient state** `Bq α` (insertion-ordered linear map, unordered-pair quadratic map, offset)
  with `Bq.apply`, the model of what those calls do to a `BinaryQuadraticModel` (C++ `add_quadratic`
  folds a self-loop into the linear bias / the offset according to the vartype).

`DimodProofs/Penalty.lean` proves `energy (apply b ts) = energy b + evalBag ts`, so every property of
the added penalty is a statement about the bag.

Anchors: `dimod/binary/cybqm/cybqm_template.pyx.pxi:add_linear_equality_constraint`,
`dimod/binary/binary_quadratic_model.py:add_linear_equality_constraint` (fallback: object dtype and
`.spin/.binary` views through `dimod/binary/vartypeview.py`), `add_linear_inequality_constraint`,
`dimod/discrete/cydiscrete_quadratic_model.pyx:add_linear_equality_constraint`,
`dimod/discrete/discrete_quadratic_model.py:add_linear_inequality_constraint`,
`dimod/generators/integer.py:binary_encoding`,
`dimod/constrained/constrained.py:_qm_to_bqm / cqm_to_bqm / CQMToBQMInverter`. -/

namespace Pen

inductive VT | spin | binary
  deriving DecidableEq, Repr

/-- one mutator call: `offset += c`, `add_linear(v, c)`, `add_quadratic(u, v, c)` -/
inductive PTerm (α : Type) where
  | const (c : Rat)
  | lin (v : α) (c : Rat)
  | quad (u v : α) (c : Rat)

def PTerm.eval {α : Type} (x : α → Rat) : PTerm α → Rat
  | .const c => c
  | .lin v c => c * x v
  | .quad u v c => c * (x u * x v)

def evalBag {α : Type} (x : α → Rat) : List (PTerm α) → Rat
  | [] => 0
  | t :: ts => t.eval x + evalBag x ts

def PTerm.scale {α : Type} (s : Rat) : PTerm α → PTerm α
  | .const c => .const (s * c)
  | .lin v c => .lin v (s * c)
  | .quad u v c => .quad u v (s * c)

def PTerm.relabel {α β : Type} (f : α → β) : PTerm α → PTerm β
  | .const c => .const c
  | .lin v c => .lin (f v) c
  | .quad u v c => .quad (f u) (f v) c

/-! ## coefficient state -/

structure Bq (α : Type) where
  vt : VT
  lin : List (α × Rat)
  quad : List ((α × α) × Rat)
  off : Rat

/-- add `c` to the entry of `k`, appending the key when absent (`dict[k] = dict.get(k, 0) + c`) -/
def addKey {α : Type} [DecidableEq α] : List (α × Rat) → α → Rat → List (α × Rat)
  | [], k, c => [(k, c)]
  | (k', c') :: m, k, c => if k' = k then (k', c' + c) :: m else (k', c') :: addKey m k c

/-- the same for an unordered pair -/
def addPair {α : Type} [DecidableEq α] : List ((α × α) × Rat) → α → α → Rat → List ((α × α) × Rat)
  | [], u, v, c => [((u, v), c)]
  | ((a, b), c') :: m, u, v, c =>
    if (a = u ∧ b = v) ∨ (a = v ∧ b = u) then ((a, b), c' + c) :: m else ((a, b), c') :: addPair m u v c

namespace Bq
variable {α : Type} [DecidableEq α]

def empty (vt : VT) : Bq α := { vt, lin := [], quad := [], off := 0 }

def addLinear (b : Bq α) (v : α) (c : Rat) : Bq α := { b with lin := addKey b.lin v c }

/-- C++ `QuadraticModelBase::add_quadratic` for a BQM: a self-loop is linear (BINARY) / constant (SPIN) -/
def addQuadratic (b : Bq α) (u v : α) (c : Rat) : Bq α :=
  if u = v then
    match b.vt with
    | .binary => b.addLinear u c
    | .spin => { b.addLinear u 0 with off := b.off + c }
  else
    { (b.addLinear u 0).addLinear v 0 with quad := addPair b.quad u v c }

def applyTerm (b : Bq α) : PTerm α → Bq α
  | .const c => { b with off := b.off + c }
  | .lin v c => b.addLinear v c
  | .quad u v c => b.addQuadratic u v c

def apply (b : Bq α) : List (PTerm α) → Bq α
  | [] => b
  | t :: ts => (b.applyTerm t).apply ts

def linSum (x : α → Rat) : List (α × Rat) → Rat
  | [] => 0
  | (v, c) :: m => c * x v + linSum x m

def quadSum (x : α → Rat) : List ((α × α) × Rat) → Rat
  | [] => 0
  | ((u, v), c) :: m => c * (x u * x v) + quadSum x m

def energy (b : Bq α) (x : α → Rat) : Rat := b.off + linSum x b.lin + quadSum x b.quad

end Bq

/-- domain validity of a sample for a vartype -/
def Dom {α : Type} (vt : VT) (x : α → Rat) : Prop :=
  match vt with
  | .binary => ∀ v, x v * x v = x v
  | .spin => ∀ v, x v * x v = 1

/-! ## `add_linear_equality_constraint`, three implementations -/

/-- all `(i, j)` with `i < j` by position: the Cython double loop -/
def pairsLt {β : Type} : List β → List (β × β)
  | [] => []
  | a :: t => t.map (fun b => (a, b)) ++ pairsLt t

/-- Cython (`cybqm_template.pyx.pxi`): resolve every label first (`_index(v, permissive=True)`), then
    offset, linear part by vartype, quadratic part over positions `i < j` (same label at two
    positions goes through C++ `add_quadratic(u, u, ·)`). -/
def eqTermsCy (vt : VT) (terms : List (Label × Rat)) (lam C : Rat) : List (PTerm Label) :=
  terms.map (fun t => PTerm.lin t.1 0)
  ++ [PTerm.const (lam * C * C)]
  ++ (match vt with
      | .binary => terms.map (fun t => PTerm.lin t.1 (lam * t.2 * (2 * C + t.2)))
      | .spin => terms.flatMap (fun t => [PTerm.lin t.1 (lam * t.2 * 2 * C), PTerm.const (lam * t.2 * t.2)]))
  ++ (pairsLt terms).map (fun p => PTerm.quad p.1.1 p.2.1 (2 * lam * p.1.2 * p.2.2))

/-- `itertools.combinations_with_replacement(terms, 2)` -/
def pairsLe {β : Type} : List β → List (β × β)
  | [] => []
  | a :: t => (a, a) :: t.map (fun b => (a, b)) ++ pairsLe t

/-- one iteration of the fallback loop, `u == v` compared on *labels* (as coded) -/
def pyPairTerms (vt : VT) (lam C : Rat) (p : (Label × Rat) × (Label × Rat)) : List (PTerm Label) :=
  if p.1.1 = p.2.1 then
    match vt with
    | .spin => [PTerm.lin p.1.1 (2 * lam * p.1.2 * C), PTerm.const (lam * p.1.2 * p.2.2)]
    | .binary => [PTerm.lin p.1.1 (lam * p.1.2 * (2 * C + p.2.2))]
  else [PTerm.quad p.1.1 p.2.1 (2 * lam * p.1.2 * p.2.2)]

/-- the Python fallback before the D22 repair (kept for the witness theorem): the loop runs over the
    raw term list, so two positions with the same label take the `u == v` branch. -/
def eqTermsPyUnmerged (vt : VT) (terms : List (Label × Rat)) (lam C : Rat) : List (PTerm Label) :=
  (pairsLe terms).flatMap (pyPairTerms vt lam C) ++ [PTerm.const (lam * C * C)]

/-- `merged[v] = merged.get(v, 0) + bias` over the terms, in first-occurrence order -/
def mergeTerms (terms : List (Label × Rat)) : List (Label × Rat) :=
  terms.foldl (fun m t => addKey m t.1 t.2) []

/-- the Python fallback (object dtype; `.spin` / `.binary` views) as repaired: merge, then loop -/
def eqTermsPy (vt : VT) (terms : List (Label × Rat)) (lam C : Rat) : List (PTerm Label) :=
  eqTermsPyUnmerged vt (mergeTerms terms) lam C

/-- `VartypeView.add_linear / add_quadratic / offset +=` of a view whose vartype `view` differs from the
    vartype of the data: the calls made on the underlying data. -/
def viewTerm (view : VT) : PTerm Label → List (PTerm Label)
  | .const c => [.const c]
  | .lin v b =>
    match view with
    | .binary => [.lin v (b / 2), .const (b / 2)]            -- binary view of SPIN data
    | .spin => [.lin v (2 * b), .const (-b)]                 -- spin view of BINARY data
  | .quad u v b =>
    match view with
    | .binary => [.quad u v (b / 4), .lin u (b / 4), .lin v (b / 4), .const (b / 4)]
    | .spin => [.quad u v (4 * b), .lin u (-2 * b), .lin v (-2 * b), .const b]

/-- fallback executed on a view: the view-level calls, each translated to the data -/
def eqTermsView (view : VT) (terms : List (Label × Rat)) (lam C : Rat) : List (PTerm Label) :=
  (eqTermsPy view terms lam C).flatMap (viewTerm view)

/-- sample of the data's vartype ↦ sample of the other vartype (what the view shows) -/
def viewSample (view : VT) (x : Label → Rat) : Label → Rat :=
  match view with
  | .spin => fun v => 2 * x v - 1        -- data BINARY
  | .binary => fun v => (x v + 1) / 2    -- data SPIN

/-! ### DQM (`cydiscrete_quadratic_model.pyx`) — keys are *global case indices* -/

/-- `case_starts_` from the numbers of cases -/
def caseStarts : List Nat → List Nat
  | [] => [0]
  | n :: t => 0 :: (caseStarts t).map (· + n)

/-- the variable a global case index belongs to -/
def varOfCase : List Nat → Nat → Nat
  | [], _ => 0
  | n :: t, c => if c < n then 0 else varOfCase t (c - n) + 1

def insertByCase (t : Nat × Rat) : List (Nat × Rat) → List (Nat × Rat)
  | [] => [t]
  | h :: r => if t.1 < h.1 then t :: h :: r else h :: insertByCase t r

/-- `std::sort` by case (any sort: equal keys are summed afterwards) -/
def sortByCase : List (Nat × Rat) → List (Nat × Rat)
  | [] => []
  | t :: r => insertByCase t (sortByCase r)

/-- "sort and sum duplicates": the unique-with-accumulate loop on a sorted vector -/
def mergeAdj : List (Nat × Rat) → List (Nat × Rat)
  | [] => []
  | [t] => [t]
  | a :: b :: r => if a.1 = b.1 then mergeAdj ((a.1, a.2 + b.2) :: r) else a :: mergeAdj (b :: r)
termination_by l => l.length

/-- outcome of the argument loop: `case_v >= num_cases(v)` raises (D3: no lower-bound check — the
    harness never sends negative numbers here, `Nat` cannot express them) -/
def dqmResolve (ncases : List Nat) : List (Nat × Nat × Rat) → Option (List (Nat × Rat))
  | [] => some []
  | (v, c, b) :: t =>
    if h : v < ncases.length then
      if c < ncases[v] then (dqmResolve ncases t).map (fun r => ((caseStarts ncases).getD v 0 + c, b) :: r)
      else none
    else none

/-- the calls on the case-level BQM (always BINARY): per merged term a linear update, per pair `i < j`
    of *different* variables a quadratic one -/
def dqmEqTermsOf (ncases : List Nat) (lam C : Rat) (m : List (Nat × Rat)) : List (PTerm Nat) :=
  let rec go : List (Nat × Rat) → List (PTerm Nat)
    | [] => []
    | a :: t =>
      PTerm.lin a.1 (lam * a.2 * (2 * C + a.2))
      :: (t.filter (fun b => varOfCase ncases a.1 ≠ varOfCase ncases b.1)).map
            (fun b => PTerm.quad a.1 b.1 (2 * lam * a.2 * b.2))
      ++ go t
  PTerm.const (lam * C * C) :: go m

def dqmEqTerms (ncases : List Nat) (terms : List (Nat × Nat × Rat)) (lam C : Rat) : Option (List (PTerm Nat)) :=
  (dqmResolve ncases terms).map (fun r => dqmEqTermsOf ncases lam C (mergeAdj (sortByCase r)))

/-! ### DQM: the variable-level adjacency `adj_` kept next to the case-level model

`energies()` only visits the variable pairs listed in `adj_`, so the equality constraint must also
merge its variables into every `adj_[v]` ("finally fix the adjacency").  The merge is modelled as coded. -/

/-- merge the sorted constraint variables `xs` (skipping `v` itself) into the sorted neighbour list of `v` -/
def adjMerge (v : Nat) : List Nat → List Nat → List Nat
  | [], nb => nb
  | x :: xs, [] => if x = v then adjMerge v xs [] else x :: adjMerge v xs []
  | x :: xs, n :: ns =>
    if x = v then adjMerge v xs (n :: ns)
    else if x < n then x :: adjMerge v xs (n :: ns)
    else if n < x then n :: adjMerge v (x :: xs) ns
    else n :: adjMerge v xs ns
termination_by xs nb => xs.length + nb.length

def insertUniq (a : Nat) : List Nat → List Nat
  | [] => [a]
  | b :: r => if a < b then a :: b :: r else if a = b then b :: r else b :: insertUniq a r

/-- `unordered_set` of the variables of the merged terms, sorted -/
def sortedVars (ncases : List Nat) (m : List (Nat × Rat)) : List Nat :=
  m.foldr (fun t acc => insertUniq (varOfCase ncases t.1) acc) []

/-- the adjacency after the constraint: every constraint variable's list gets the other constraint variables merged in -/
def adjUpdate (adj : List (List Nat)) (vars : List Nat) : List (List Nat) :=
  (List.range adj.length).map (fun i => if vars.contains i then adjMerge i vars (adj.getD i []) else adj.getD i [])

/-- a DQM: numbers of cases, the case-level BINARY model, the variable-level adjacency -/
structure Dqm where
  ncases : List Nat
  bq : Bq Nat
  adj : List (List Nat)

/-- `cyDiscreteQuadraticModel.add_linear_equality_constraint` on an arbitrary DQM (`none` = `ValueError`) -/
def dqmAddEq (d : Dqm) (terms : List (Nat × Nat × Rat)) (lam C : Rat) : Option Dqm :=
  (dqmResolve d.ncases terms).map (fun r =>
    let m := mergeAdj (sortByCase r)
    { d with bq := d.bq.apply (dqmEqTermsOf d.ncases lam C m), adj := adjUpdate d.adj (sortedVars d.ncases m) })

/-- `energies()` as coded: offset, the linear bias of every chosen case, and the case-pair bias of every
    *adjacent* variable pair `v < u` (the loop breaks at the first neighbour above `u`) -/
def Dqm.quadCoef (d : Dqm) (a b : Nat) : Rat :=
  ((d.bq.quad.find? (fun e => (e.1.1 = a ∧ e.1.2 = b) ∨ (e.1.1 = b ∧ e.1.2 = a))).map (·.2)).getD 0

def Dqm.linCoef (d : Dqm) (a : Nat) : Rat := ((d.bq.lin.find? (fun e => e.1 = a)).map (·.2)).getD 0

def Dqm.energyCoded (d : Dqm) (sample : List Nat) : Rat :=
  let cs := caseStarts d.ncases
  let gc (u : Nat) : Nat := cs.getD u 0 + sample.getD u 0
  d.bq.off + ((List.range d.ncases.length).map (fun u =>
    d.linCoef (gc u) + (((d.adj.getD u []).takeWhile (fun v => v ≤ u)).map (fun v => d.quadCoef (gc u) (gc v))).foldl (· + ·) 0)).foldl (· + ·) 0

/-! ## slack construction of the two `add_linear_inequality_constraint`s -/

def pows : Nat → List Nat
  | 0 => []
  | k+1 => pows k ++ [2^k]

/-- `[2**j for j in range(num_slack)]` + the remainder, `num_slack = floor(log2 S)` -/
def slackLog2 (S : Nat) : List Nat := pows (Nat.log2 S) ++ [S - 2^(Nat.log2 S) + 1]

/-- smallest `k` with `S + 1 ≤ 10^k` = `ceil(log10(S + 1))` -/
def clog10 (S : Nat) : Nat :=
  let rec go (fuel k p : Nat) : Nat :=
    match fuel with
    | 0 => k
    | f+1 => if S + 1 ≤ p then k else go f (k+1) (p * 10)
  go (S + 1) 0 1

/-- `list(range(0, stop, step))[1:]` -/
def rangeStepTail (stop step : Nat) : List Nat :=
  ((List.range stop).filter (fun i => i % step = 0 ∧ i ≠ 0))

/-- log10 method: one list of case values per slack variable -/
def slackLog10 (S : Nat) : List (List Nat) :=
  (List.range (clog10 S)).map (fun j => rangeStepTail (min (S + 1) (10^(j+1))) (10^j))

def slackLinear (S : Nat) : List Nat := (List.range S).map (· + 1)

/-- `sum(v for _, v in terms if v > 0)` -/
def sumPos : List Int → Int
  | [] => 0
  | a :: l => (if a > 0 then a else 0) + sumPos l

/-- `sum(v for _, v in terms if v < 0)` -/
def sumNeg : List Int → Int
  | [] => 0
  | a :: l => (if a < 0 then a else 0) + sumNeg l

inductive IneqPlan where
  | skip                              -- warning, nothing added, `[]` returned
  | infeasible                        -- ValueError
  | equality (ubc : Int)              -- slack_upper_bound == 0
  | slack (ubc lbc : Int) (S : Nat)   -- slack variables for 0..S, then equality with `-ub_c`
  deriving DecidableEq, Repr

/-- bound tightening shared by BQM and DQM versions (integer coefficients) -/
def ineqPlan (coeffs : List Int) (c lb ub : Int) : IneqPlan :=
  let tu := sumPos coeffs
  let tl := sumNeg coeffs
  let ubc := min tu (ub - c)
  let lbc := max tl (lb - c)
  if tu ≤ ubc ∧ tl ≥ lbc then .skip
  else if ubc < lbc then .infeasible
  else if (ubc - lbc).toNat = 0 then .equality ubc
  else .slack ubc lbc (ubc - lbc).toNat

/-- BQM slack terms `(slack_<label>_<j>, coefficient)`, with the `cross_zero` extra variable as coded -/
def bqmSlack (label : String) (ubc lbc : Int) (S : Nat) (crossZero : Bool) : List (Label × Int) :=
  let coeffs := slackLog2 S
  let base := (List.range coeffs.length).map (fun j => (Label.str s!"slack_{label}_{j}", (coeffs.getD j 0 : Int)))
  let zero := crossZero && (decide (lbc > 0) || decide (ubc < 0)) && decide (ubc - (S : Int) > 0)
  if zero then base ++ [(Label.str s!"slack_{label}_{Nat.log2 S + 1}", ubc - (S : Int))] else base

/-- DQM slack: per new variable its label, number of cases and `(case, value)` list -/
structure SlackVar where
  label : String
  ncases : Nat
  cases : List (Nat × Int)

def enum1 (l : List Nat) : List (Nat × Int) :=
  (List.range l.length).map (fun i => (i + 1, ((l.getD i 0 : Nat) : Int)))

def dqmSlack (label method : String) (ubc lbc : Int) (S : Nat) (crossZero : Bool) : List SlackVar :=
  let zero := crossZero && (decide (lbc > 0) || decide (ubc < 0))
  if method = "log2" then
    let coeffs := slackLog2 S
    let base := (List.range coeffs.length).map
      (fun j => ({ label := s!"slack_{label}_{j}", ncases := 2, cases := [(1, (coeffs.getD j 0 : Int))] } : SlackVar))
    if zero then base ++ [{ label := s!"slack_{label}_{Nat.log2 S + 1}", ncases := 2, cases := [(1, ubc)] }] else base
  else if method = "log10" then
    let digs := slackLog10 S
    let k := digs.length
    (List.range k).map (fun j =>
      let d := digs.getD j []
      if j + 1 < k || !zero then { label := s!"slack_{label}_{j}", ncases := d.length + 1, cases := enum1 d }
      else { label := s!"slack_{label}_{j}", ncases := d.length + 2, cases := enum1 d ++ [(d.length + 1, ubc)] })
  else
    let d := slackLinear S
    if zero then [{ label := s!"slack_{label}", ncases := d.length + 2, cases := enum1 d ++ [(d.length + 1, ubc)] }]
    else [{ label := s!"slack_{label}", ncases := d.length + 1, cases := enum1 d }]

/-! ## the two `add_linear_inequality_constraint`s as coded, end to end -/

/-- outcome of `add_linear_inequality_constraint`: the warning branch (nothing added, `[]` returned),
    `ValueError` (infeasible for every value), an error raised by the inner equality constraint, or the
    updated model together with the returned slack terms -/
inductive IneqRes (M S : Type) where
  | skipped
  | raises
  | err
  | ok (m : M) (slack : S)

def ratTerms {α : Type} (terms : List (α × Int)) : List (α × Rat) := terms.map (fun t => (t.1, ((t.2 : Int) : Rat)))

/-- `BinaryQuadraticModel.add_linear_inequality_constraint(terms, λ, label, constant, lb, ub, cross_zero)`
    on a BINARY model: the mutator calls it makes and the slack terms it returns.  The bounds are
    tightened with the *sums* of the positive / negative coefficients (`ineqPlan`); the equality short-cut
    is taken when the *tightened* range `ub_c − lb_c` is 0. -/
def bqmIneq (label : String) (terms : List (Label × Int)) (lam : Rat) (c lb ub : Int) (cross : Bool) :
    IneqRes (List (PTerm Label)) (List (Label × Int)) :=
  match ineqPlan (terms.map (·.2)) c lb ub with
  | .skip => .skipped
  | .infeasible => .raises
  | .equality ubc => .ok (eqTermsCy .binary (ratTerms terms) lam (((-ubc : Int)) : Rat)) []
  | .slack ubc lbc S =>
    let sl := bqmSlack label ubc lbc S cross
    .ok (sl.map (fun p => PTerm.lin p.1 0) ++ eqTermsCy .binary (ratTerms (terms ++ sl)) lam (((-ubc : Int)) : Rat)) sl

/-- the slack terms `(variable, case, value)` of the new variables `base, base+1, …` -/
def slackExtra (base : Nat) : List SlackVar → List (Nat × Nat × Int)
  | [] => []
  | v :: r => v.cases.map (fun cv => (base, cv.1, cv.2)) ++ slackExtra (base + 1) r

def ratTerms3 (terms : List (Nat × Nat × Int)) : List (Nat × Nat × Rat) := terms.map (fun t => (t.1, t.2.1, ((t.2.2 : Int) : Rat)))

/-- `DiscreteQuadraticModel.add_linear_inequality_constraint(terms, λ, label, constant, lb, ub, slack_method,
    cross_zero)`: `terms` are `(variable, case, bias)` triples, possibly with repeated `(variable, case)`
    pairs; the bounds are tightened with the sums of the positive / negative biases over *all* triples -/
def dqmIneq (d : Dqm) (method label : String) (terms : List (Nat × Nat × Int)) (lam : Rat) (c lb ub : Int) (cross : Bool) :
    IneqRes Dqm (List SlackVar) :=
  match ineqPlan (terms.map (·.2.2)) c lb ub with
  | .skip => .skipped
  | .infeasible => .raises
  | .equality ubc =>
    match dqmAddEq d (ratTerms3 terms) lam (((-ubc : Int)) : Rat) with
    | some d' => .ok d' []
    | none => .err
  | .slack ubc lbc S =>
    let sv := dqmSlack label method ubc lbc S cross
    let d1 : Dqm := { d with ncases := d.ncases ++ sv.map (·.ncases), adj := d.adj ++ sv.map (fun _ => []) }
    match dqmAddEq d1 (ratTerms3 (terms ++ slackExtra d.ncases.length sv)) lam (((-ubc : Int)) : Rat) with
    | some d' => .ok d' sv
    | none => .err

/-! ## `binary_encoding` -/

/-- `(label, coefficient)` of `binary_encoding(v, ub)`; `none` = `ValueError` (ub < 2) -/
def binaryEncoding (v : Label) (ub : Nat) : Option (List (Label × Nat)) :=
  if ub < 2 then none else
  let k := Nat.log2 ub
  some ((List.range k).map (fun e => (Label.tup [v, .int (2^e : Nat)], 2^e))
        ++ [(Label.tup [v, .int ((ub - (2^k - 1) : Nat) : Int), .str "msb"], ub - (2^k - 1))])

/-! ## `cqm_to_bqm`, `_qm_to_bqm`, `CQMToBQMInverter`

Polynomial-level model: every CQM variable is an affine form over BQM bits
(`x ↦ x`, `s ↦ 2x − 1` after `spin_to_binary`, `i ↦ Σ cⱼ·bitⱼ` from `binary_encoding`);
`_qm_to_bqm` distributes linear and quadratic terms over these forms (the `BQM * BQM` product loop:
equal bits go to the linear bias, unequal ones to `add_quadratic`).  The BQM operator calls
themselves (`+=`, `*`) belong to C06; here the resulting coefficient maps are compared. -/

inductive VKind where
  | binary
  | spin
  | integer (lb ub : Int)
  deriving DecidableEq, Repr

structure QM where
  lin : List (Label × Rat)
  quad : List ((Label × Label) × Rat)
  off : Rat

inductive Sense | le | ge | eq
  deriving DecidableEq, Repr

structure Cons where
  lhs : QM
  sense : Sense
  rhs : Rat

structure CQM where
  vars : List (Label × VKind)
  obj : QM
  cons : List Cons

/-- affine form `const + Σ coeff·bit` -/
abbrev Aff := Rat × List (Label × Rat)

def natRat (n : Nat) : Rat := ((n : Int) : Rat)

def kindOf (vars : List (Label × VKind)) (v : Label) : Option VKind :=
  match vars with
  | [] => none
  | (w, k) :: t => if w = v then some k else kindOf t v

def affOf (vars : List (Label × VKind)) (v : Label) : Aff :=
  match kindOf vars v with
  | some .binary => (0, [(v, 1)])
  | some .spin => (-1, [(v, 2)])
  | some (.integer _ ub) =>
    match binaryEncoding v ub.toNat with
    | some bits => (0, bits.map (fun b => (b.1, natRat b.2)))
    | none => (0, [])
  | none => (0, [(v, 1)])

def expandLin (a : Rat) (f : Aff) : List (PTerm Label) :=
  PTerm.const (a * f.1) :: f.2.map (fun b => PTerm.lin b.1 (a * b.2))

def expandProd (b : Rat) (f g : Aff) : List (PTerm Label) :=
  PTerm.const (b * f.1 * g.1)
  :: f.2.map (fun p => PTerm.lin p.1 (b * g.1 * p.2))
  ++ g.2.map (fun p => PTerm.lin p.1 (b * f.1 * p.2))
  ++ f.2.flatMap (fun p => g.2.map (fun q => PTerm.quad p.1 q.1 (b * p.2 * q.2)))

/-- `_qm_to_bqm` as a bag on the BINARY result -/
def qmToBag (vars : List (Label × VKind)) (qm : QM) : List (PTerm Label) :=
  qm.lin.flatMap (fun t => expandLin t.2 (affOf vars t.1))
  ++ qm.quad.flatMap (fun t => expandProd t.2 (affOf vars t.1.1) (affOf vars t.1.2))
  ++ [PTerm.const qm.off]

inductive CqmErr | lowerBound | encoding | quadraticConstraint | infeasible | conflict
  deriving DecidableEq, Repr

/-- encoding bits created for the integer variables, in `cqm.variables` order.  `taken` = the labels the bits of the next
    integer must avoid: every variable label of the CQM and the bits created so far (`.conflict` = `ValueError("given CQM has
    conflicting variables with ones generated by dimod.generators.binary_encoding")`, as repaired by
    patches/cqm-to-bqm-bit-label-conflict.diff: before, only the bits created so far were compared) -/
def cqmInitBits (taken : List Label) : List (Label × VKind) → Except CqmErr (List (PTerm Label))
  | [] => .ok []
  | (v, k) :: r =>
    match k with
    | .integer lb ub =>
      if lb ≠ 0 then .error .lowerBound else
      match binaryEncoding v ub.toNat with
      | none => .error .encoding
      | some e =>
        if e.any (fun b => taken.contains b.1) then .error .conflict else
        match cqmInitBits (taken ++ e.map (·.1)) r with
        | .error err => .error err
        | .ok rest => .ok (e.map (fun b => PTerm.lin b.1 0) ++ rest)
    | _ => cqmInitBits taken r

/-- variables created up front: the encoding bits of every integer (in `cqm.variables` order), then
    the binary/spin variables -/
def cqmInitVars (vars : List (Label × VKind)) : Except CqmErr (List (PTerm Label)) :=
  match cqmInitBits (vars.map (·.1)) vars with
  | .error e => .error e
  | .ok bits =>
    .ok (bits ++ (vars.filter (fun p => match p.2 with | .integer _ _ => false | _ => true)).map (fun p => PTerm.lin p.1 0))

def maxList (l : List Rat) : Rat := l.foldl (fun a b => if a < b then b else a) (l.headD 0)
def minList (l : List Rat) : Rat := l.foldl (fun a b => if b < a then b else a) (l.headD 0)

/-- default multiplier: ten times the largest bias magnitude of the objective BQM (1 if that is 0) -/
def defaultLambda (b : Bq Label) (ncons : Nat) : Rat :=
  if ncons = 0 ∨ b.lin.isEmpty then 0 else
  let l := b.lin.map (·.2)
  let m0 := if -(minList l) < maxList l then maxList l else -(minList l)
  let m := if b.quad.isEmpty then m0 else
    let q := b.quad.map (·.2)
    let m1 := if -(minList q) < maxList q then maxList q else -(minList q)
    if m0 < m1 then m1 else m0
  if m = 0 then 1 else 10 * m

/-- merged per-variable linear terms of the constraint's BINARY bqm, in creation order, and its offset -/
def consLinear (vars : List (Label × VKind)) (lhs : QM) : List (Label × Rat) × Rat :=
  let b := (Bq.empty .binary : Bq Label).apply (qmToBag vars lhs)
  (b.lin, b.off)

def ratToInt? (r : Rat) : Option Int := if r.den = 1 then some r.num else none

def INT64_MAX : Int := 9223372036854775807
def INT64_MIN : Int := -9223372036854775808

/-- the calls one constraint contributes (`idx` names its slack variables: the real label is random).
    `lhs.is_linear()` fails exactly when the constraint has a quadratic term (every product of two
    affine forms creates at least one interaction). -/
def consBag (vars : List (Label × VKind)) (lam : Rat) (idx : Nat) (c : Cons) : Except CqmErr (List (PTerm Label)) :=
  if !c.lhs.quad.isEmpty then Except.error CqmErr.quadraticConstraint
  else
    let tl : List (Label × Rat) × Rat := consLinear vars c.lhs
    let terms : List (Label × Rat) := tl.1
    let off : Rat := tl.2
    match c.sense with
    | Sense.eq => Except.ok (eqTermsCy .binary terms lam (off - c.rhs))
    | s =>
      -- integer data only (the harness guarantees it); non-integers are floored here
      let coeffs : List Int := terms.map (fun (t : Label × Rat) => (ratToInt? t.2).getD t.2.floor)
      let cst : Int := (ratToInt? off).getD off.floor
      let rhs : Int := (ratToInt? c.rhs).getD c.rhs.floor
      let lb : Int := if s = Sense.ge then rhs else INT64_MIN
      let ub : Int := if s = Sense.ge then INT64_MAX else rhs
      match ineqPlan coeffs cst lb ub with
      | IneqPlan.skip => Except.ok []
      | IneqPlan.infeasible => Except.error CqmErr.infeasible
      | IneqPlan.equality ubc => Except.ok (eqTermsCy .binary terms lam (-(ubc : Rat)))
      | IneqPlan.slack ubc lbc S =>
        let sl : List (Label × Int) := bqmSlack s!"c{idx}" ubc lbc S false
        Except.ok (sl.map (fun (p : Label × Int) => PTerm.lin p.1 0)
              ++ eqTermsCy .binary (terms ++ sl.map (fun (p : Label × Int) => (p.1, (p.2 : Rat)))) lam (-(ubc : Rat)))

/-- the calls of all constraints, in order (`i` = index of the constraint, for the slack labels) -/
def consBags (vars : List (Label × VKind)) (lam : Rat) : Nat → List Cons → Except CqmErr (List (PTerm Label))
  | _, [] => .ok []
  | i, c :: r =>
    match consBag vars lam i c with
    | .error e => .error e
    | .ok bag =>
      match consBags vars lam (i + 1) r with
      | .error e => .error e
      | .ok rest => .ok (bag ++ rest)

def cqmToBqm (q : CQM) (lam? : Option Rat) : Except CqmErr (Bq Label × Rat) :=
  match cqmInitVars q.vars with
  | .error e => .error e
  | .ok init =>
    let b0 := ((Bq.empty .binary : Bq Label).apply init).apply (qmToBag q.vars q.obj)
    let lam := match lam? with | some l => l | none => defaultLambda b0 q.cons.length
    match consBags q.vars lam 0 q.cons with
    | .error e => .error e
    | .ok bags => .ok (b0.apply bags, lam)

/-- value of an affine form at a BQM sample -/
def affVal (z : Label → Rat) (f : Aff) : Rat := f.1 + f.2.foldr (fun b acc => b.2 * z b.1 + acc) 0

/-- `CQMToBQMInverter.__call__` on a BQM sample -/
def invert (vars : List (Label × VKind)) (z : Label → Rat) : List (Label × Rat) :=
  vars.map (fun p => (p.1, affVal z (affOf vars p.1)))

end Pen
