import DimodModel.Bqm

/-! `BinaryQuadraticModel.scale(scalar, ignored_variables, ignored_interactions, ignore_offset)` and `normalize(...)`
    (dimod/binary/binary_quadratic_model.py) as coded — property C04.  With all three optional arguments absent the call
    is `scale(scalar)` of `Bqm.vScale` (the data's own `scale`, or the generic loop on a view object); otherwise the
    Python loops run with the receiver's own `set_linear` / `set_quadratic` / offset setter, skipping the ignored terms.
    `tv` = the vartype the receiver shows, `viaView` = the receiver is a `VartypeView` object.  Core Lean only. -/

namespace Bqm

/-- `for v in self.variables: if v in ignored_variables: continue; self.set_linear(v, scalar*self.get_linear(v))` -/
def scaleIgnLinStep (tv : VT) (s : Rat) (iv : List Label) (acc : Bqm) (i : Nat) : Bqm :=
  match acc.labels[i]? with
  | some l => if iv.contains l then acc else acc.vSetLinear tv l (s * acc.vGetLinear tv i)
  | none => acc

/-- `for u, v, bias in self.iter_quadratic(): if (u, v) in ignored or (v, u) in ignored: continue;
    self.set_quadratic(u, v, scalar*self.get_quadratic(u, v))` -/
def scaleIgnQuadStep (tv : VT) (viaView : Bool) (s : Rat) (ii : List (Label × Label)) (acc : Bqm) (t : Nat × Nat × Rat) : Bqm :=
  match acc.labels[t.1]?, acc.labels[t.2.1]? with
  | some ul, some vl =>
    if ii.contains (ul, vl) || ii.contains (vl, ul) then acc
    else acc.setQuadVia tv viaView ul vl (s * ((acc.vGetQuadratic tv t.1 t.2.1).getD 0))
  | _, _ => acc

/-- the loops of `scale` (taken whenever one of the optional arguments is given) -/
def scaleIgnLoops (m : Bqm) (tv : VT) (viaView : Bool) (s : Rat) (iv : List Label) (ii : List (Label × Label)) (io : Bool) : Bqm :=
  let m1 := (List.range m.labels.length).foldl (scaleIgnLinStep tv s iv) m
  let m2 := m1.lowerTriples.foldl (scaleIgnQuadStep tv viaView s ii) m1
  if io then m2 else m2.vSetOffset tv (m2.vOffset tv * s)

/-- `scale(scalar, ignored_variables=None, ignored_interactions=None, ignore_offset=False)` -/
def vScaleIgnoring (m : Bqm) (tv : VT) (viaView : Bool) (s : Rat) (iv : Option (List Label))
    (ii : Option (List (Label × Label))) (io : Bool) : Bqm :=
  if iv.isNone && ii.isNone && !io then m.vScale tv viaView s
  else m.scaleIgnLoops tv viaView s (iv.getD []) (ii.getD []) io

/-- `min_and_max` of `normalize`: `(0, 0)` for an empty list -/
def minMax : List Rat → Rat × Rat
  | [] => (0, 0)
  | x :: t => (t.foldl min x, t.foldl max x)

/-- the linear biases `normalize` looks at: `[v for k, v in self.linear.items() if k not in ignored_variables]` -/
def normLins (m : Bqm) (tv : VT) (iv : List Label) : List Rat :=
  (List.range m.labels.length).filterMap fun i =>
    match m.labels[i]? with
    | some l => if iv.contains l then none else some (m.vGetLinear tv i)
    | none => none

/-- `[v for (a, b), v in self.quadratic.items() if (a, b) not in ignored and (b, a) not in ignored]` -/
def normQuads (m : Bqm) (tv : VT) (ii : List (Label × Label)) : List Rat :=
  m.lowerTriples.filterMap fun t =>
    match m.labels[t.1]?, m.labels[t.2.1]? with
    | some ul, some vl => if ii.contains (ul, vl) || ii.contains (vl, ul) then none else some ((m.vGetQuadratic tv t.1 t.2.1).getD 0)
    | _, _ => none

/-- the scale factor `normalize` computes (`none`: `inv_scalar == 0`, nothing is scaled and `1.0` is returned);
    `lr` / `qr` are the parsed `(min, max)` ranges, all four bounds non-zero (a zero bound is a ZeroDivisionError of the
    code before anything is changed: `vNormalize` returns the model unchanged with an error) -/
def normScalar (m : Bqm) (tv : VT) (lr qr : Rat × Rat) (iv : List Label) (ii : List (Label × Label)) : Option Rat :=
  let l := minMax (m.normLins tv iv)
  let q := minMax (m.normQuads tv ii)
  let inv := max (max (l.1 / lr.1) (l.2 / lr.2)) (max (q.1 / qr.1) (q.2 / qr.2))
  if inv = 0 then none else some (1 / inv)

/-- `normalize(bias_range, quadratic_range, ignored_variables, ignored_interactions, ignore_offset)`: the ignored
    containers are materialised (never `None` in the inner `scale` call, so the loops run); returns the state and the
    returned scalar -/
def vNormalize (m : Bqm) (tv : VT) (viaView : Bool) (lr qr : Rat × Rat) (iv : Option (List Label))
    (ii : Option (List (Label × Label))) (io : Bool) : (Bqm × Rat) × Option ErrC :=
  if lr.1 = 0 || lr.2 = 0 || qr.1 = 0 || qr.2 = 0 then ((m, 1), some .runtime) else
  match m.normScalar tv lr qr (iv.getD []) (ii.getD []) with
  | some s => ((m.scaleIgnLoops tv viaView s (iv.getD []) (ii.getD []) io, s), none)
  | none => ((m, 1), none)

end Bqm
