import DimodModel.CqmFile

/-! # DQM files: the `np.savez` member list and `from_numpy_vectors`  (C09)

Mirrors `discrete_quadratic_model.py:_to_file_numpy/_from_file_numpy/to_numpy_vectors/from_numpy_vectors`
and `cydiscrete_quadratic_model.pyx:to_numpy_vectors/_into_numpy_vectors/_from_numpy_vectors`.

The npz container (a zip of `.npy` files) stays a parameter: an opened archive is the list of its
arrays — name, dtype descriptor, shape and the raw little-endian payload.  What is modelled is which
arrays are written (names, order, index dtype chosen from the number of cases, shapes), how a DQM
is flattened into them, the validation and regrouping done by `_from_numpy_vectors`, and the numbers
of the header dictionary. -/

namespace FileFmt

/-- one array of an `.npz` file -/
structure NpyMember where
  name : List Char
  descr : List Char        -- e.g. `<u2`, `<f8`
  shape : List Nat
  data : Bytes
  deriving Repr, DecidableEq

/-- the case-level content of a DQM: all cases of all variables numbered consecutively -/
structure DqmContent where
  caseStarts : List Nat                 -- first case of each variable
  linear : List Bytes                   -- float64 per case
  lower : List (List (Nat × Bytes))     -- per case `ci`: interactions with cases `cj < ci`
  offset : Bytes                        -- float64
  deriving Repr, DecidableEq

def nmCaseStarts : List Char := ['c', 'a', 's', 'e', '_', 's', 't', 'a', 'r', 't', 's']
def nmLinear : List Char := ['l', 'i', 'n', 'e', 'a', 'r', '_', 'b', 'i', 'a', 's', 'e', 's']
def nmRow : List Char := ['q', 'u', 'a', 'd', 'r', 'a', 't', 'i', 'c', '_', 'r', 'o', 'w', '_', 'i', 'n', 'd', 'i', 'c', 'e', 's']
def nmCol : List Char := ['q', 'u', 'a', 'd', 'r', 'a', 't', 'i', 'c', '_', 'c', 'o', 'l', '_', 'i', 'n', 'd', 'i', 'c', 'e', 's']
def nmQuad : List Char := ['q', 'u', 'a', 'd', 'r', 'a', 't', 'i', 'c', '_', 'b', 'i', 'a', 's', 'e', 's']
def nmOffset : List Char := ['o', 'f', 'f', 's', 'e', 't']

/-- `index_dtype` of `to_numpy_vectors`: the smallest of uint16/32/64 that holds every case -/
def indexSize (numCases : Nat) : Nat := if numCases < 65536 then 2 else if numCases < 4294967296 then 4 else 8

def descrU (k : Nat) : List Char := ['<', 'u', Char.ofNat (48 + k)]
def descrF8 : List Char := ['<', 'f', '8']

/-- `(irow, icol, qdata)` of `_into_numpy_vectors`: every row `ci`, its entries in order -/
def triplesFrom : Nat → List (List (Nat × Bytes)) → List (Nat × Nat × Bytes)
  | _, [] => []
  | ci, row :: rows => (row.map fun p => (ci, p.1, p.2)) ++ triplesFrom (ci + 1) rows

def mStarts (c : DqmContent) : NpyMember :=
  { name := nmCaseStarts, descr := descrU (indexSize c.linear.length), shape := [c.caseStarts.length],
    data := (c.caseStarts.map (toLE (indexSize c.linear.length))).flatten }
def mLinear (c : DqmContent) : NpyMember :=
  { name := nmLinear, descr := descrF8, shape := [c.linear.length], data := c.linear.flatten }
def mRow (c : DqmContent) : NpyMember :=
  { name := nmRow, descr := descrU (indexSize c.linear.length), shape := [(triplesFrom 0 c.lower).length],
    data := (((triplesFrom 0 c.lower).map (·.1)).map (toLE (indexSize c.linear.length))).flatten }
def mCol (c : DqmContent) : NpyMember :=
  { name := nmCol, descr := descrU (indexSize c.linear.length), shape := [(triplesFrom 0 c.lower).length],
    data := (((triplesFrom 0 c.lower).map (·.2.1)).map (toLE (indexSize c.linear.length))).flatten }
def mQuad (c : DqmContent) : NpyMember :=
  { name := nmQuad, descr := descrF8, shape := [(triplesFrom 0 c.lower).length], data := ((triplesFrom 0 c.lower).map (·.2.2)).flatten }
def mOffset (c : DqmContent) : NpyMember := { name := nmOffset, descr := descrF8, shape := [], data := c.offset }

/-- the arrays `_to_file_numpy` hands to `np.savez`, in keyword order -/
def dqmMembers (c : DqmContent) : List NpyMember := [mStarts c, mLinear c, mRow c, mCol c, mQuad c, mOffset c]

/-! ## `from_numpy_vectors` -/

def findMember (ms : List NpyMember) (name : List Char) : Option NpyMember := ms.find? fun m => m.name = name

/-- item size of a little-endian dtype descriptor `<u2`, `<i4`, `<f8`, … -/
def descrSize (d : List Char) : Option (Char × Nat) :=
  match d with
  | [b, k, s] => if (b = '<' ∨ b = '|') ∧ isDigit s = true then some (k, s.toNat - 48) else none
  | _ => none
where isDigit (c : Char) : Bool := decide (48 ≤ c.toNat ∧ c.toNat ≤ 57)

/-- a one-dimensional integer array: its values (`asintegerarrays`) -/
def intArray (m : NpyMember) : Res (List Int) :=
  match descrSize m.descr with
  | some (k, sz) =>
    if sz = 0 then .err .type else
    if k = 'u' then .ok ((chunksN sz (m.data.length / sz) m.data).map fun r => (leNat r : Int))
    else if k = 'i' then .ok ((chunksN sz (m.data.length / sz) m.data).map leInt)
    else .err .type
  | none => .err .type

/-- a one-dimensional float64 array: its payloads -/
def floatArray (m : NpyMember) : Res (List Bytes) :=
  match descrSize m.descr with
  | some (k, sz) => if k = 'f' ∧ sz = 8 then .ok (chunksN 8 (m.data.length / 8) m.data) else .err .type
  | none => .err .type

/-- the rows of the case-level model: row `ci` collects the entries `(icol, bias)` with `irow = ci`
    (`add_quadratic_from_coo` on lower-triangle triples without repetitions) -/
def groupFrom (ts : List (Nat × Nat × Bytes)) : Nat → Nat → List (List (Nat × Bytes))
  | _, 0 => []
  | ci, k + 1 => ((ts.filter fun t => t.1 = ci).map fun t => (t.2.1, t.2.2)) :: groupFrom ts (ci + 1) k

/-- `case_starts[v+1] < case_starts[v]` or `case_starts[v+1] >= num_cases` for some `v` -/
def startsBad (numCases : Nat) : List Int → Bool
  | a :: b :: t => b < a || b ≥ (numCases : Int) || startsBad numCases (b :: t)
  | _ => false

def zip3 : List Int → List Int → List Bytes → List (Int × Int × Bytes)
  | a :: as, b :: bs, c :: cs => (a, b, c) :: zip3 as bs cs
  | _, _, _ => []

/-- `cyDiscreteQuadraticModel._from_numpy_vectors` -/
def fromVectors (starts : List Int) (lin : List Bytes) (irow icol : List Int) (q : List Bytes) (offset : Bytes) : Res DqmContent :=
  let n := starts.length
  let nc := lin.length
  if n = 0 ∧ nc ≠ 0 then .err .value else
  if n ≠ 0 ∧ (starts.headD 0 ≠ 0 ∨ starts.getLastD 0 ≥ (nc : Int)) then .err .value else
  if startsBad nc starts then .err .value else
  if ¬ (irow.length = icol.length ∧ icol.length = q.length) then .err .value else
  let ts := zip3 irow icol q
  if ts.any (fun t => t.1 < 0 || t.1 ≥ (nc : Int) || t.2.1 < 0 || t.2.1 ≥ (nc : Int) || t.1 = t.2.1) then .err .value else
  .ok { caseStarts := starts.map Int.toNat, linear := lin,
        lower := groupFrom (ts.map fun t => (t.1.toNat, t.2.1.toNat, t.2.2)) 0 nc, offset := offset }

/-- `_from_file_numpy` after `np.load`: pick the arrays by name (`offset` is optional) -/
def dqmFromMembers (ms : List NpyMember) : Res DqmContent :=
  match findMember ms nmCaseStarts, findMember ms nmLinear, findMember ms nmRow, findMember ms nmCol, findMember ms nmQuad with
  | some s, some l, some r, some c, some q =>
    (intArray s).bind fun starts =>
    (floatArray l).bind fun lin =>
    (intArray r).bind fun irow =>
    (intArray c).bind fun icol =>
    (floatArray q).bind fun qd =>
    let off : Bytes := match findMember ms nmOffset with
      | some o => o.data
      | none => List.replicate 8 0
    fromVectors starts lin irow icol qd off
  | _, _, _, _, _ => .err .key

/-! ## the numbers of the DQM header dictionary -/

/-- the variable a case belongs to: number of starts `≤ ci`, minus one -/
def varOfCase (starts : List Nat) (ci : Nat) : Nat := (starts.filter fun s => s ≤ ci).length - 1

def dedupPairs : List (Nat × Nat) → List (Nat × Nat)
  | [] => []
  | p :: t => p :: (dedupPairs t).filter (· ≠ p)

structure DqmCounts where
  numVariables : Nat
  numCases : Nat
  numCaseInteractions : Nat
  numVariableInteractions : Nat
  deriving Repr, DecidableEq

def dqmCounts (c : DqmContent) : DqmCounts :=
  let ts := triplesFrom 0 c.lower
  { numVariables := c.caseStarts.length
    numCases := c.linear.length
    numCaseInteractions := ts.length
    numVariableInteractions := (dedupPairs (ts.map fun t => (varOfCase c.caseStarts t.1, varOfCase c.caseStarts t.2.1))).length }

end FileFmt
