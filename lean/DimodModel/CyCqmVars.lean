import DimodModel.Qm

/-! `cyConstrainedQuadraticModel.add_variables` (dimod/constrained/cyconstrained.pyx) as coded: the Python-side label list
    (`self.variables`) and the native per-variable records of the C++ model (`varinfo_`: vartype, lower bound, upper bound) are
    grown ONE LABEL AT A TIME - `_append(v, permissive=True)`, then either the consistency checks of a label that existed or
    `cppcqm.add_variable(vt, lb, ub)` -, with the running `count` the code keeps.  An element that raises (a label that exists
    with another vartype / other explicitly given bounds: ValueError; an unhashable label: TypeError) ends the loop; the labels
    before it stay (documented).  Core Lean only. -/

namespace CyCqm

structure Vars where
  labels : List Label
  info : List (QVT × Rat × Rat)
  deriving DecidableEq

/-- the state of the loop: the model and the local `count` -/
structure Loop where
  m : Vars
  count : Nat

/-- one turn of the loop for the element `v` (`none` = an unhashable object: `_append` raises TypeError) -/
def turn (vt : QVT) (lb ub : Rat) (lbGiven ubGiven : Bool) (s : Loop) (v : Option Label) : Loop × Option ErrC :=
  match v with
  | none => (s, some .type)
  | some v =>
    -- self.variables._append(v, permissive=True)
    let labels' := if v ∈ s.m.labels then s.m.labels else s.m.labels ++ [v]
    if s.count = labels'.length then
      -- the variable already existed
      let r := s.m.info.getD (labels'.idxOf v) (.binary, 0, 0)
      if vt ≠ r.1 then ({ s with m := { s.m with labels := labels' } }, some .value)
      else if lbGiven && lb ≠ r.2.1 then ({ s with m := { s.m with labels := labels' } }, some .value)
      else if ubGiven && ub ≠ r.2.2 then ({ s with m := { s.m with labels := labels' } }, some .value)
      else ({ s with m := { s.m with labels := labels' } }, none)
    else if s.count = labels'.length - 1 then
      -- we added a new variable
      ({ m := { labels := labels', info := s.m.info ++ [(vt, lb, ub)] }, count := s.count + 1 }, none)
    else ({ s with m := { s.m with labels := labels' } }, some .runtime)

def run (vt : QVT) (lb ub : Rat) (lbGiven ubGiven : Bool) (s : Loop) : List (Option Label) → Loop × Option ErrC
  | [] => (s, none)
  | v :: vs =>
    match turn vt lb ub lbGiven ubGiven s v with
    | (s', none) => run vt lb ub lbGiven ubGiven s' vs
    | (s', some e) => (s', some e)

/-- `add_variables(vartype, variables, lower_bound=…, upper_bound=…)` after its argument checks: `count = self.variables.size()`,
    then the loop -/
def Vars.addVariables (m : Vars) (vt : QVT) (lb ub : Rat) (lbGiven ubGiven : Bool) (vs : List (Option Label)) : Vars × Option ErrC :=
  let r := run vt lb ub lbGiven ubGiven { m := m, count := m.labels.length } vs
  (r.1.m, r.2)

/-- the BATCHED variant (seeded change C20-9): labels are appended in the loop, the native records are added once after it -
    which a raising element skips -/
def Vars.addVariablesBatched (m : Vars) (vt : QVT) (lb ub : Rat) (lbGiven ubGiven : Bool) : List (Option Label) → Vars × Option ErrC
  | [] => (m, none)
  | none :: _ => (m, some .type)
  | some v :: vs =>
    if v ∈ m.labels then
      let r := m.info.getD (m.labels.idxOf v) (.binary, 0, 0)
      if vt ≠ r.1 ∨ (lbGiven && lb ≠ r.2.1) ∨ (ubGiven && ub ≠ r.2.2) then (m, some .value)
      else Vars.addVariablesBatched m vt lb ub lbGiven ubGiven vs
    else
      match Vars.addVariablesBatched { m with labels := m.labels ++ [v] } vt lb ub lbGiven ubGiven vs with
      | (m', none) => ({ m' with info := m'.info ++ [(vt, lb, ub)] }, none)
      | (m', some e) => (m', some e)

end CyCqm
