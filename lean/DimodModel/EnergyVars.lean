import DimodModel.Energy
import DimodModel.Vars

/-! # C01 — how `cyQMBase._energies` / `cyexpression._energies` find the column of a model variable, as coded

`qm_to_sample[si] = labels.index(self.variables.at(si))`: both the model's variables and the sample labels
(`as_samples(..., labels_type=Variables)`) are `cyVariables` objects — sparse identity-compressed maps (`VState`, the
C13 model).  `at(si)` reads `_index_to_label` with the identity as default; `index(v)` checks `count(v)`, then returns `v`
itself on the `_is_range()` fast path, else `_label_to_index.get(v, v)` (`VState.index?`). -/

namespace En

variable {R : Type}

/-- the loop over `si`: first unknown variable raises `ValueError` -/
def qmToSampleVGo (sv : VState) : List Label → Except Err (List Nat)
  | [] => .ok []
  | v :: vs =>
    match sv.index? v with
    | none => .error .value
    | some i =>
      match qmToSampleVGo sv vs with
      | .ok q => .ok (i :: q)
      | .error e => .error e

/-- `qm_to_sample` as coded: `[labels.index(variables.at(si)) for si in range(num_variables)]` -/
def qmToSampleV (mv sv : VState) : Except Err (List Nat) :=
  qmToSampleVGo sv ((List.range mv.stop).map mv.labelAt)

/-- `cyQMBase._energies(samples, labels)` with both label objects as `cyVariables` -/
def cyEnergiesV [Add R] [Mul R] [Zero R] (m : QMB R) (mv : VState) (samples : List (List R)) (sv : VState) :
    Except Err (List R) :=
  if samples.any (fun r => r.length ≠ sv.stop) then .error .runtime else
  match qmToSampleV mv sv with
  | .error err => .error err
  | .ok q => .ok (samples.map fun row => m.cyEnergy (pick row q))

end En
