import DimodModel.Vars

/-! Python objects as dictionary keys of `cyVariables`: `1`, `True`, `1.0`, `np.int64(1)`, `np.float32(1.0)`
    are one key.  `PyKey` is the object, `pyEq` Python's `==` between such objects (hash-consistent, which is
    what a dict lookup uses), `canon : PyKey → Label` the canonical label.  `KState` is the sparse state with
    the *objects* in the dicts and the primitives of `cyvariables.pyx` written as coded (`PyLong_Check`,
    `isinstance(v, Number)`, `int(v) == v`, `PyDict_Contains`, `dict.pop`).  Core Lean only.

    Out of scope: floats with a non-integral value (they are labels of their own and alias nothing), and
    NumPy scalars compared with tuples (NumPy's `==` broadcasts; DESIGN D23). -/

inductive PyKey where
  | int (z : Int)         -- `int`
  | bool (b : Bool)       -- `bool` (a subclass of `int`)
  | float (z : Int)       -- `float` with the integral value `z` (`1.0`, `-0.0`, `3e0`)
  | npInt (z : Int)       -- NumPy integer scalar (`np.int8` … `np.uint64`, `np.bool_` excluded)
  | npFloat (z : Int)     -- NumPy floating scalar with an integral value (`np.float16/32/64`)
  | str (s : String)
  | tup (l : List PyKey)

namespace PyKey

/-- the numeric value of a numeric object -/
def numVal : PyKey → Option Int
  | .int z => some z
  | .bool b => some (if b then 1 else 0)
  | .float z => some z
  | .npInt z => some z
  | .npFloat z => some z
  | .str _ => none
  | .tup _ => none

/-- `==` between two objects neither of which is a tuple -/
def atomEq (a b : PyKey) : Bool :=
  match a, b with
  | .str x, .str y => x == y
  | .str _, _ => false
  | _, .str _ => false
  | a, b => match numVal a, numVal b with
    | some x, some y => x == y
    | _, _ => false

mutual
/-- Python `a == b` (numbers by value across types, strings, tuples element-wise) -/
def pyEq : PyKey → PyKey → Bool
  | .tup x, .tup y => pyEqList x y
  | .tup _, _ => false
  | .int z, b => match b with | .tup _ => false | b => atomEq (.int z) b
  | .bool z, b => match b with | .tup _ => false | b => atomEq (.bool z) b
  | .float z, b => match b with | .tup _ => false | b => atomEq (.float z) b
  | .npInt z, b => match b with | .tup _ => false | b => atomEq (.npInt z) b
  | .npFloat z, b => match b with | .tup _ => false | b => atomEq (.npFloat z) b
  | .str z, b => match b with | .tup _ => false | b => atomEq (.str z) b
def pyEqList : List PyKey → List PyKey → Bool
  | [], [] => true
  | a :: x, b :: y => pyEq a b && pyEqList x y
  | _, _ => false
end

mutual
/-- the canonical label of an object -/
def canon : PyKey → Label
  | .int z => .int z
  | .bool b => .int (if b then 1 else 0)
  | .float z => .int z
  | .npInt z => .int z
  | .npFloat z => .int z
  | .str s => .str s
  | .tup l => .tup (canonList l)
def canonList : List PyKey → List Label
  | [] => []
  | a :: l => canon a :: canonList l
end

/-- `PyLong_Check(v)` -/
def isPyLong : PyKey → Bool
  | .int _ => true
  | .bool _ => true
  | _ => false

/-- `isinstance(v, numbers.Number)` -/
def isNumber : PyKey → Bool
  | .str _ => false
  | .tup _ => false
  | _ => true

end PyKey

open PyKey in
/-- the sparse state with Python objects in the dictionaries -/
structure KState where
  i2l : List (Nat × PyKey)     -- keys: the indices, by value (after `_relabel` with an alias key such as `0.0` the
                               -- stored key object may be that alias: `idx = self._label_to_index.pop(old, old)`;
                               -- every lookup is by `==`, so only the value matters)
  l2i : List (PyKey × Nat)
  stop : Nat

namespace KState
open PyKey

/-- `d.get(v)` on `_label_to_index`: first entry whose key `==` v -/
def l2iGet? : List (PyKey × Nat) → PyKey → Option Nat
  | [], _ => none
  | (k, i) :: m, v => if pyEq k v then some i else l2iGet? m v

/-- `d.get(v)` on `_index_to_label` (keys are Python ints) for an arbitrary object `v` -/
def i2lGet? : List (Nat × PyKey) → PyKey → Option PyKey
  | [], _ => none
  | (i, l) :: m, v => if pyEq (.int i) v then some l else i2lGet? m v

def l2iErase : List (PyKey × Nat) → PyKey → List (PyKey × Nat)
  | [], _ => []
  | (k, i) :: m, v => if pyEq k v then l2iErase m v else (k, i) :: l2iErase m v

def i2lErase : List (Nat × PyKey) → Nat → List (Nat × PyKey)
  | [], _ => []
  | (i, l) :: m, j => if i = j then i2lErase m j else (i, l) :: i2lErase m j

/-- `_count_int(v)`: `vi` is `v` as a C integer, the dict tests use the object `v` -/
def countInt (k : KState) (v : PyKey) (vi : Int) : Bool :=
  if k.l2i.isEmpty then decide (0 ≤ vi) && decide (vi < k.stop)
  else (decide (0 ≤ vi) && decide (vi < k.stop) && (i2lGet? k.i2l v).isNone) || (l2iGet? k.l2i v).isSome

/-- `count(v)` as coded: `PyLong_Check`, then `isinstance(v, Number)` with `int(v) == v`
    (true for every integral value), then the dict test -/
def count (k : KState) (v : PyKey) : Bool :=
  if isPyLong v then k.countInt v ((numVal v).getD 0)
  else if isNumber v then k.countInt (.int ((numVal v).getD 0)) ((numVal v).getD 0)
  else (l2iGet? k.l2i v).isSome

/-- `self._label_to_index.pop(old, old)` / the dict entry or the object itself, as an index -/
def popIdx (k : KState) (v : PyKey) : Nat :=
  match l2iGet? k.l2i v with
  | some i => i
  | none => ((numVal v).getD 0).toNat

/-- `index(v)` for a present `v`: range fast path `v if PyLong_Check(v) else int(v)`, else the dict entry or `v` itself -/
def idxOf (k : KState) (v : PyKey) : Nat :=
  if k.l2i.isEmpty then ((numVal v).getD 0).toNat else k.popIdx v

/-- `_append(v)` for an object not yet present: `if idx != v: store` -/
def append (k : KState) (v : PyKey) : KState :=
  if pyEq (.int k.stop) v then { k with stop := k.stop + 1 }
  else { i2l := (k.stop, v) :: i2lErase k.i2l k.stop, l2i := (v, k.stop) :: l2iErase k.l2i v, stop := k.stop + 1 }

/-- `_pop()` on a non-empty object: the popped object and the new state -/
def pop (k : KState) : KState × PyKey :=
  let idx := k.stop - 1
  let lbl := (i2lGet? k.i2l (.int idx)).getD (.int idx)
  ({ i2l := i2lErase k.i2l idx, l2i := l2iErase k.l2i lbl, stop := idx }, lbl)

/-- the body of the `_relabel` loop for a present `old` and `old != new`:
    `idx = self._label_to_index.pop(old, old)`, then store or erase -/
def relabelOne (k : KState) (old new : PyKey) : KState :=
  if pyEq new (.int (k.popIdx old)) then
    { k with l2i := l2iErase k.l2i old, i2l := i2lErase k.i2l (k.popIdx old) }
  else
    { k with l2i := (new, k.popIdx old) :: l2iErase (l2iErase k.l2i old) new,
             i2l := (k.popIdx old, new) :: i2lErase k.i2l (k.popIdx old) }

/-- the label-level state: every stored object replaced by its canonical label -/
def toV (k : KState) : VState :=
  { i2l := k.i2l.map fun p => (p.1, canon p.2), l2i := k.l2i.map fun p => (canon p.1, p.2), stop := k.stop }

end KState

/-! ### composite operations over objects (everything except the mapping-driven `_relabel` / `_remove`) -/

namespace KState
open PyKey

/-- `_append(v=None)` label generation over objects: the candidates are Python ints -/
def autoLabel (k : KState) : PyKey :=
  if k.l2i.isEmpty || !(k.count (.int k.stop)) then .int k.stop
  else
    let rec least (fuel i : Nat) : Nat :=
      match fuel with
      | 0 => i
      | f+1 => if k.count (.int i) then least f (i+1) else i
    .int (least (k.stop + 1) 0)

/-- `_append(v, permissive)`; `none` = ValueError -/
def appendP (k : KState) (v : Option PyKey) (permissive : Bool) : Option KState :=
  match v with
  | none => some (k.append k.autoLabel)
  | some v => if k.count v then (if permissive then some k else none) else some (k.append v)

/-- `index(v)`; `none` = ValueError -/
def index? (k : KState) (v : PyKey) : Option Nat := if k.count v then some (k.idxOf v) else none

/-- `at(idx)` for `0 ≤ idx`: the stored object or the index itself -/
def labelAt (k : KState) (i : Nat) : PyKey := (i2lGet? k.i2l (.int i)).getD (.int i)

inductive KOp where
  | append (v : Option PyKey) (permissive : Bool)
  | pop
  | clear
  | relabelInts

def KOp.toOp : KOp → VState.Op
  | .append v p => .append (v.map canon) p
  | .pop => .pop
  | .clear => .clear
  | .relabelInts => .relabelInts

def step (k : KState) : KOp → KState × Bool
  | .append v p => match k.appendP v p with
    | some k' => (k', true)
    | none => (k, false)
  | .pop => if k.stop = 0 then (k, false) else (k.pop.1, true)
  | .clear => ({ i2l := [], l2i := [], stop := 0 }, true)
  | .relabelInts => ({ k with i2l := [], l2i := [] }, true)

end KState

/-! ### `_relabel(mapping)` over objects: `iter_safe_relabels` / `resolve_label_conflict` with dict lookups by `==` -/

namespace KState
open PyKey

abbrev KDict := List (PyKey × PyKey)

/-- `d[k] = v` on a dict of objects: an existing equal key keeps its (old) key object -/
def kdictSet (d : KDict) (k v : PyKey) : KDict :=
  match d with
  | [] => [(k, v)]
  | (k', v') :: t => if pyEq k' k then (k', v) :: t else (k', v') :: kdictSet t k v

/-- `k in d` -/
def kdictHas (d : KDict) (k : PyKey) : Bool := d.any (fun p => pyEq p.1 k)

/-- `new_labels = {new: old for old, new in mapping.items()}` -/
def knewLabels (m : KDict) : KDict := m.foldl (fun d p => kdictSet d p.2 p.1) []

/-- `lbl = next(counter); while lbl in new_labels or lbl in old_labels or lbl in existing: lbl = next(counter)` -/
def kfresh (k : KState) (m : KDict) : Nat → Nat → Nat
  | 0, c => c
  | f+1, c =>
    if kdictHas (knewLabels m) (.int c) || kdictHas m (.int c) || k.count (.int c) then kfresh k m f (c+1) else c

/-- loop body of `resolve_label_conflict` -/
def krstep (k : KState) (m : KDict) (acc : Nat × KDict × KDict) (p : PyKey × PyKey) : Nat × KDict × KDict :=
  if pyEq p.1 p.2 then acc
  else if kdictHas (knewLabels m) p.1 || kdictHas m p.2 then
    (kfresh k m (k.stop + 2 * m.length + 2) acc.1 + 1,
     kdictSet acc.2.1 p.1 (.int (kfresh k m (k.stop + 2 * m.length + 2) acc.1)),
     kdictSet acc.2.2 (.int (kfresh k m (k.stop + 2 * m.length + 2) acc.1)) p.2)
  else (acc.1, kdictSet acc.2.1 p.1 p.2, acc.2.2)

/-- `iter_safe_relabels(mapping, self)`; `none` = ValueError -/
def ksafeRelabels (k : KState) (m : KDict) : Option (List KDict) :=
  if (knewLabels m).length < m.length then none else
  if (knewLabels m).any (fun p => k.count p.1 && !(kdictHas m p.1)) then none else
  if m.any (fun p => kdictHas (knewLabels m) p.1) then
    some [(m.foldl (krstep k m) (2 * m.length, [], [])).2.1, (m.foldl (krstep k m) (2 * m.length, [], [])).2.2]
  else some [m]

/-- the inner loop of `_relabel` over one sub-mapping -/
def kseq (k : KState) (sub : KDict) : KState :=
  sub.foldl (fun k p => if pyEq p.1 p.2 || !(k.count p.1) then k else k.relabelOne p.1 p.2) k

/-- `_relabel(mapping)` over objects -/
def relabel (k : KState) (m : KDict) : Option KState :=
  match k.ksafeRelabels m with
  | none => none
  | some subs => some (subs.foldl kseq k)

/-- canonical form of a mapping -/
def cc (p : PyKey × PyKey) : Label × Label := (canon p.1, canon p.2)

end KState

namespace KState
open PyKey

/-- `_remove(v)` over objects: `index`, the chain mapping `{at(i): at(i+1)}`, `_pop`, `_relabel` -/
def remove (k : KState) (v : PyKey) : Option KState :=
  if !(k.count v) then none else
  (k.pop.1).relabel ((List.range (k.stop - 1 - k.idxOf v)).map fun j =>
    (k.labelAt (k.idxOf v + j), k.labelAt (k.idxOf v + j + 1)))

/-- all mutators over objects -/
inductive KOp2 where
  | base (op : KOp)
  | relabel (m : KDict)
  | remove (v : PyKey)

def KOp2.toOp : KOp2 → VState.Op
  | .base op => op.toOp
  | .relabel m => .relabel (m.map cc)
  | .remove v => .remove (canon v)

def step2 (k : KState) : KOp2 → KState × Bool
  | .base op => k.step op
  | .relabel m => match k.relabel m with
    | some k' => (k', true)
    | none => (k, false)
  | .remove v => match k.remove v with
    | some k' => (k', true)
    | none => (k, false)

end KState
