import DimodModel.Label

/-! # C06 — symbolic arithmetic on BQM / QM / CQM expression views (executable model)

Mirror of the operator overloads in
`dimod/binary/binary_quadratic_model.py` (`__add__ … __itruediv__`, `quicksum`, `update`),
`dimod/quadratic/quadratic_model.py` (same, `from_bqm`, `update`),
`dimod/quadratic/cyqm/cyqm_template.pyx.pxi` (`add_variable`, `add_linear`, `_add_quadratic`, `update`),
`dimod/constrained/expression.py` (`_ExpressionMixin.__add__/__radd__/__sub__/__rsub__`).

A model is a list of variables (label, vartype, bounds, linear bias) in insertion order, a list of
interactions (present even when the bias is 0 — `is_linear()` looks at presence) and an offset.
`isQM` says which class the object has; for a BQM `bvt` is its vartype and every variable carries
`bqmInfo bvt`.  Numbers are `Rat`.  Core Lean only. -/

namespace Sym

inductive VT where
  | spin | binary | integer | real
deriving DecidableEq

structure VarInfo where
  vt : VT
  lb : Rat
  ub : Rat
deriving DecidableEq

inductive Err where
  | type      -- TypeError
  | value     -- ValueError
  | zerodiv   -- ZeroDivisionError
deriving DecidableEq

structure Var where
  l : Label
  info : VarInfo
  bias : Rat

structure QTerm where
  u : Label
  v : Label
  b : Rat

structure Model where
  isQM : Bool
  bvt : VT
  vars : List Var
  quad : List QTerm
  off : Rat

/-- `vartype_limits<double, INTEGER>::max()` = 2^53 - 1 -/
def intMax : Rat := 9007199254740991
/-- `vartype_limits<double, REAL>::max()` = the double nearest to 1e30 -/
def realMax : Rat := 1000000000000000019884624838656

def defaultLb : VT → Rat
  | .spin => -1 | .binary => 0 | .integer => 0 | .real => 0
def defaultUb : VT → Rat
  | .spin => 1 | .binary => 1 | .integer => intMax | .real => realMax
def minBound : VT → Rat
  | .spin => -1 | .binary => 0 | .integer => -intMax | .real => -realMax
def maxBound : VT → Rat := defaultUb

/-- info of a BQM variable (what `QuadraticModel.from_bqm` gives it) -/
def bqmInfo (vt : VT) : VarInfo := ⟨vt, defaultLb vt, defaultUb vt⟩

def emptyBQM (vt : VT) : Model := ⟨false, vt, [], [], 0⟩
def emptyQM : Model := ⟨true, .binary, [], [], 0⟩

/-! ## readers -/

def findVar (vs : List Var) (l : Label) : Option Var := vs.find? (fun v => v.l = l)

def Model.has (m : Model) (l : Label) : Bool := (findVar m.vars l).isSome

def Model.isLinear (m : Model) : Bool := m.quad.isEmpty

/-! ## energy (the specification-level reading of a model) -/

def linEval (x : Label → Rat) : List Var → Rat
  | [] => 0
  | v :: vs => v.bias * x v.l + linEval x vs

def quadEval (x : Label → Rat) : List QTerm → Rat
  | [] => 0
  | q :: qs => q.b * x q.u * x q.v + quadEval x qs

def Model.eval (m : Model) (x : Label → Rat) : Rat := m.off + linEval x m.vars + quadEval x m.quad

/-! ## primitive mutators -/

/-- add `b` to the linear bias of an existing label -/
def bumpVar (l : Label) (b : Rat) : List Var → List Var
  | [] => []
  | v :: vs => if v.l = l then { v with bias := v.bias + b } :: vs else v :: bumpVar l b vs

/-- cyQM.add_variable: an existing label must have the same vartype (TypeError) and, for
    INTEGER/REAL, the same bounds (ValueError); a new label is appended with bias 0.
    (Bound *validation* of a new variable is done at the leaf constructors, see `mkVar`.) -/
def addVariable (m : Model) (l : Label) (i : VarInfo) : Except Err Model :=
  match findVar m.vars l with
  | some w =>
    if w.info.vt ≠ i.vt then .error .type
    else if (i.vt = .integer ∨ i.vt = .real) ∧ w.info.lb ≠ i.lb then .error .value
    else if (i.vt = .integer ∨ i.vt = .real) ∧ w.info.ub ≠ i.ub then .error .value
    else .ok m
  | none => .ok { m with vars := m.vars ++ [⟨l, i, 0⟩] }

/-- `add_linear(v, bias)`: QM — the label must exist (`variables.index` raises ValueError);
    BQM — a missing label is appended first -/
def addLinear (m : Model) (l : Label) (b : Rat) : Except Err Model :=
  if m.has l then .ok { m with vars := bumpVar l b m.vars }
  else if m.isQM then .error .value
  else .ok { m with vars := m.vars ++ [⟨l, bqmInfo m.bvt, b⟩] }

/-- add to the interaction {u,v} (either orientation) or append a new one -/
def bumpQuad (u v : Label) (b : Rat) : List QTerm → List QTerm
  | [] => [⟨u, v, b⟩]
  | q :: qs =>
    if (q.u = u ∧ q.v = v) ∨ (q.u = v ∧ q.v = u) then { q with b := q.b + b } :: qs
    else q :: bumpQuad u v b qs

def vtOf (m : Model) (l : Label) : Option VT := (findVar m.vars l).map (·.info.vt)

/-- `add_quadratic(u, v, bias)`.
    QM (`cyQM_template.add_quadratic`/`_add_quadratic`): both labels must exist; a self-loop on a
    SPIN/BINARY variable and any interaction of a REAL variable raise ValueError.
    BQM: missing labels are appended (u first); `u == v` raises ValueError. -/
def addQuadratic (m : Model) (u v : Label) (b : Rat) : Except Err Model :=
  if m.isQM then
    match vtOf m u, vtOf m v with
    | some tu, some tv =>
      if u = v ∧ (tu = .spin ∨ tu = .binary) then .error .value
      else if tu = .real ∨ tv = .real then .error .value
      else .ok { m with quad := bumpQuad u v b m.quad }
    | _, _ => .error .value
  else
    if u = v then .error .value
    else
      let vs1 := if m.has u then m.vars else m.vars ++ [⟨u, bqmInfo m.bvt, 0⟩]
      let vs2 := if (findVar vs1 v).isSome then vs1 else vs1 ++ [⟨v, bqmInfo m.bvt, 0⟩]
      .ok { m with vars := vs2, quad := bumpQuad u v b m.quad }

def Model.addOffset (m : Model) (q : Rat) : Model := { m with off := m.off + q }

/-- `scale(q)`: every bias and the offset -/
def Model.scale (m : Model) (q : Rat) : Model :=
  { m with vars := m.vars.map (fun v => { v with bias := q * v.bias }),
           quad := m.quad.map (fun t => { t with b := q * t.b }),
           off := q * m.off }

/-- `QuadraticModel.from_bqm` (a QM is returned unchanged: the callers only promote BQMs) -/
def Model.toQM (m : Model) : Model := { m with isQM := true }

/-! ## update -/

/-- first phase of `cyQM.update`: every shared label must agree in vartype and both bounds
    (all three raise ValueError); nothing is modified -/
def checkCompat (m : Model) : List Var → Except Err Unit
  | [] => .ok ()
  | w :: ws =>
    match findVar m.vars w.l with
    | some v =>
      if v.info.vt ≠ w.info.vt then .error .value
      else if v.info.lb ≠ w.info.lb then .error .value
      else if v.info.ub ≠ w.info.ub then .error .value
      else checkCompat m ws
    | none => checkCompat m ws

/-- second phase: append the labels that are new (bias 0), in the other model's order -/
def appendNew (vs : List Var) : List Var → List Var
  | [] => vs
  | w :: ws =>
    if (findVar vs w.l).isSome then appendNew vs ws
    else appendNew (vs ++ [{ w with bias := 0 }]) ws

/-- third phase: add the linear biases -/
def addLinAll (vs : List Var) : List Var → List Var
  | [] => vs
  | w :: ws => addLinAll (bumpVar w.l w.bias vs) ws

def addQuadAll (qs : List QTerm) : List QTerm → List QTerm
  | [] => qs
  | t :: ts => addQuadAll (bumpQuad t.u t.v t.b qs) ts

/-- `QuadraticModel.update(other)` (other is a QM, a promoted BQM, or an expression view) -/
def qmUpdate (m o : Model) : Except Err Model :=
  match checkCompat m o.vars with
  | .error e => .error e
  | .ok () =>
    .ok { m with vars := addLinAll (appendNew m.vars o.vars) o.vars,
                 quad := addQuadAll m.quad o.quad,
                 off := m.off + o.off }

/-- `BinaryQuadraticModel.update(other)` for the operator call sites (same vartype, or `other`
    has no variables): `add_linear_from`, `add_quadratic_from`, `offset +=` -/
def bqmUpdate (m o : Model) : Model :=
  { m with vars := addLinAll (appendNew m.vars (o.vars.map fun w => { w with info := bqmInfo m.bvt })) o.vars,
           quad := addQuadAll m.quad o.quad,
           off := m.off + o.off }

/-! ## multiplication of two linear models (the double loops) -/

/-- one iteration of the inner loop of `QuadraticModel.__mul__` -/
def qmMulStep (u v : Var) (acc : Model) : Except Err Model :=
  if u.l = v.l then
    match u.info.vt with
    | .binary => addLinear acc u.l (u.bias * v.bias)
    | .spin => .ok (acc.addOffset (u.bias * v.bias))
    | .integer => addQuadratic acc u.l v.l (u.bias * v.bias)
    | .real => addQuadratic acc u.l v.l (u.bias * v.bias)
  else addQuadratic acc u.l v.l (u.bias * v.bias)

/-- one iteration of the inner loop of `BinaryQuadraticModel.__mul__` (`selfvt` = `self.vartype`) -/
def bqmMulStep (selfvt : VT) (u v : Var) (acc : Model) : Except Err Model :=
  if u.l = v.l then
    if selfvt = .binary then addLinear acc u.l (u.bias * v.bias)
    else .ok (acc.addOffset (u.bias * v.bias))
  else addQuadratic acc u.l v.l (u.bias * v.bias)

def mulInner (step : Var → Var → Model → Except Err Model) (u : Var) : List Var → Model → Except Err Model
  | [], acc => .ok acc
  | v :: vs, acc =>
    match step u v acc with
    | .error e => .error e
    | .ok acc' => mulInner step u vs acc'

/-- `for u in self.linear: (for v in other.linear: …); add_linear(u, ubias*other_offset)` -/
def mulOuter (step : Var → Var → Model → Except Err Model) (others : List Var) (otherOff : Rat) :
    List Var → Model → Except Err Model
  | [], acc => .ok acc
  | u :: us, acc =>
    match mulInner step u others acc with
    | .error e => .error e
    | .ok acc1 =>
      match addLinear acc1 u.l (u.bias * otherOff) with
      | .error e => .error e
      | .ok acc2 => mulOuter step others otherOff us acc2

/-- `for v in other.linear: add_linear(v, bias*self_offset)` -/
def mulTail (selfOff : Rat) : List Var → Model → Except Err Model
  | [], acc => .ok acc
  | v :: vs, acc =>
    match addLinear acc v.l (v.bias * selfOff) with
    | .error e => .error e
    | .ok acc' => mulTail selfOff vs acc'

def addVariables : List Var → Model → Except Err Model
  | [], acc => .ok acc
  | v :: vs, acc =>
    match addVariable acc v.l v.info with
    | .error e => .error e
    | .ok acc' => addVariables vs acc'

/-- `QuadraticModel.__mul__(QuadraticModel)` -/
def qmMul (a b : Model) : Except Err Model :=
  if ¬ (a.isLinear ∧ b.isLinear) then .error .type
  else
    match addVariables a.vars emptyQM with
    | .error e => .error e
    | .ok n0 =>
    match addVariables b.vars n0 with
    | .error e => .error e
    | .ok n1 =>
    match mulOuter qmMulStep b.vars b.off a.vars n1 with
    | .error e => .error e
    | .ok n2 =>
    match mulTail a.off b.vars n2 with
    | .error e => .error e
    | .ok n3 => .ok (n3.addOffset (a.off * b.off))

/-- the same-vartype branch of `BinaryQuadraticModel.__mul__(BinaryQuadraticModel)` -/
def bqmMulSame (a b : Model) : Except Err Model :=
  match mulOuter (bqmMulStep a.bvt) b.vars b.off a.vars (emptyBQM a.bvt) with
  | .error e => .error e
  | .ok n2 =>
  match mulTail a.off b.vars n2 with
  | .error e => .error e
  | .ok n3 => .ok (n3.addOffset (a.off * b.off))

/-! ## values and operators -/

/-- what a Python sub-expression evaluates to -/
inductive Val where
  | num (q : Rat)
  | mdl (m : Model)          -- a BinaryQuadraticModel or QuadraticModel object
  | view (obj : Bool) (m : Model)   -- an ObjectiveView (`obj`) / ConstraintView with this content (`m.isQM = true`)

/-- `other.num_variables and other.vartype != self.vartype` -/
def bqmDiffer (a b : Model) : Bool := !b.vars.isEmpty && b.bvt ≠ a.bvt

/-- `qm = QuadraticModel(); qm.update(view)` -/
def viewToQM (m : Model) : Except Err Model := qmUpdate emptyQM m

/-- model + model, all four class combinations of `__add__`/`__radd__` -/
def mAdd (a b : Model) : Except Err Model :=
  match a.isQM, b.isQM with
  | false, false => if bqmDiffer a b then qmUpdate a.toQM b.toQM else .ok (bqmUpdate a b)
  | false, true => qmUpdate a.toQM b          -- QuadraticModel.from_bqm(self) + other
  | true, false => qmUpdate a b.toQM          -- BQM.__radd__: qm = other.copy(); qm += from_bqm(self)
  | true, true => qmUpdate a b

/-- `new = self.copy(); new.scale(-1); new.update(other); new.scale(-1)` -/
def mSub (a b : Model) : Except Err Model :=
  let neg (r : Except Err Model) : Except Err Model := match r with | .ok m => .ok (m.scale (-1)) | .error e => .error e
  match a.isQM, b.isQM with
  | false, false =>
    if bqmDiffer a b then neg (qmUpdate (a.toQM.scale (-1)) b.toQM)
    else .ok ((bqmUpdate (a.scale (-1)) b).scale (-1))
  | false, true => neg (qmUpdate (a.toQM.scale (-1)) b)
  | true, false => neg (qmUpdate (a.scale (-1)) b.toQM)     -- BQM.__rsub__: other - from_bqm(self)
  | true, true => neg (qmUpdate (a.scale (-1)) b)

def mMul (a b : Model) : Except Err Model :=
  match a.isQM, b.isQM with
  | false, false =>
    if ¬ (a.isLinear ∧ b.isLinear) then .error .type
    else if bqmDiffer a b then qmMul b.toQM a.toQM   -- from_bqm(self) * other → BQM.__rmul__(QM): from_bqm(other) * qm
    else bqmMulSame a b
  | false, true => qmMul a.toQM b       -- qm = from_bqm(self); qm *= other (falls back on __mul__)
  | true, false => qmMul b.toQM a       -- BQM.__rmul__(QM): from_bqm(self) * other
  | true, true => qmMul a b

def valAdd : Val → Val → Except Err Val
  | .num p, .num q => .ok (.num (p + q))
  | .mdl a, .num q => .ok (.mdl (a.addOffset q))
  | .num q, .mdl a => .ok (.mdl (a.addOffset q))
  | .mdl a, .mdl b => (mAdd a b).map .mdl
  | .view _ a, .num q => (viewToQM a).map fun m => .mdl (m.addOffset q)      -- qm += other
  | .num q, .view _ a => (viewToQM a).map fun m => .mdl (m.addOffset q)      -- other + qm
  | .view _ a, .mdl b => match viewToQM a with | .ok m => (mAdd m b).map .mdl | .error e => .error e
  | .mdl b, .view _ a => match viewToQM a with | .ok m => (mAdd b m).map .mdl | .error e => .error e
  | .view _ a, .view _ b =>   -- qm += view  →  view.__radd__(qm)  →  qm + QM(view)
    match viewToQM a, viewToQM b with
    | .ok m, .ok n => (mAdd m n).map .mdl
    | .error e, _ => .error e
    | _, .error e => .error e

def valSub : Val → Val → Except Err Val
  | .num p, .num q => .ok (.num (p - q))
  | .mdl a, .num q => .ok (.mdl (a.addOffset (-q)))
  | .num q, .mdl a => .ok (.mdl ((a.scale (-1)).addOffset q))
  | .mdl a, .mdl b => (mSub a b).map .mdl
  | .view _ a, .num q => (viewToQM a).map fun m => .mdl (m.addOffset (-q))
  | .num q, .view _ a => (viewToQM a).map fun m => .mdl ((m.scale (-1)).addOffset q)
  | .view _ a, .mdl b => match viewToQM a with | .ok m => (mSub m b).map .mdl | .error e => .error e
  | .mdl b, .view _ a => match viewToQM a with | .ok m => (mSub b m).map .mdl | .error e => .error e
  | .view _ a, .view _ b =>
    match viewToQM a, viewToQM b with
    | .ok m, .ok n => (mSub m n).map .mdl
    | .error e, _ => .error e
    | _, .error e => .error e

/-- expression views define no `__mul__`/`__rmul__` → TypeError -/
def valMul : Val → Val → Except Err Val
  | .num p, .num q => .ok (.num (p * q))
  | .mdl a, .num q => .ok (.mdl (a.scale q))
  | .num q, .mdl a => .ok (.mdl (a.scale q))
  | .mdl a, .mdl b => (mMul a b).map .mdl
  | _, _ => .error .type

def valNeg : Val → Except Err Val
  | .num q => .ok (.num (-q))
  | .mdl a => .ok (.mdl (a.scale (-1)))
  | .view _ _ => .error .type

/-- `a / q` = `a * (1 / q)` -/
def valDiv (a : Val) (q : Rat) : Except Err Val :=
  if q = 0 then (match a with | .view _ _ => .error .type | _ => .error .zerodiv)
  else match a with
    | .num p => .ok (.num (p / q))
    | .mdl m => .ok (.mdl (m.scale (1 / q)))
    | .view _ _ => .error .type

/-- `a ** n` -/
def valPow (a : Val) (n : Nat) : Except Err Val :=
  match a with
  | .num p => .ok (.num (p ^ n))
  | .view _ _ => .error .type
  | .mdl m =>
    if n ≠ 2 then .error .value
    else if ¬ m.isLinear then .error .value
    else (mMul m m).map .mdl

/-! ## expression trees -/

inductive SymExpr where
  | var (k : VT) (l : Label) (bias : Rat) (lb ub : Option Rat)   -- Binary / Spin / Integer / Real
  | const (q : Rat)
  | empty (k : VT) (off : Rat)    -- a variable-free BQM: `BQM(vartype)` / `BQM.empty(vartype)` with an offset
  | add (a b : SymExpr)
  | sub (a b : SymExpr)
  | mul (a b : SymExpr)
  | neg (a : SymExpr)
  | div (a : SymExpr) (q : Rat)
  | pow (a : SymExpr) (n : Nat)
  | iadd (a b : SymExpr)        -- t = a; t += b
  | isub (a b : SymExpr)
  | imul (a b : SymExpr)
  | idiv (a : SymExpr) (q : Rat)
  | qsum0                       -- quicksum([])
  | qsum1 (a : SymExpr)         -- quicksum([a])  (a deep copy)
  | qsum3 (a b c : SymExpr)     -- quicksum([a, b, c])
  | view (obj : Bool) (a : SymExpr)   -- CQM objective (`obj`) / constraint-lhs view of a model
  | addSelf (a : SymExpr)       -- t = a; t + t      (both operands are the same object)
  | subSelf (a : SymExpr)       -- t - t
  | mulSelf (a : SymExpr)       -- t * t
  | iaddSelf (a : SymExpr)      -- t += t
  | isubSelf (a : SymExpr)      -- t -= t

def rfloor (q : Rat) : Int := q.floor
def rceil (q : Rat) : Int := -((-q).floor)

/-- `Binary(l, bias)`, `Spin(l, bias)`, `Integer(l, bias, lower_bound=, upper_bound=)`, `Real(…)`:
    bound validation of `cyQM.add_variable` for a new variable -/
def mkVar (k : VT) (l : Label) (bias : Rat) (lb ub : Option Rat) : Except Err Model :=
  match k with
  | .spin => .ok ⟨false, .spin, [⟨l, bqmInfo .spin, bias⟩], [], 0⟩
  | .binary => .ok ⟨false, .binary, [⟨l, bqmInfo .binary, bias⟩], [], 0⟩
  | _ =>
    let lo := lb.getD (defaultLb k)
    let hi := ub.getD (defaultUb k)
    if lo < minBound k then .error .value
    else if hi > maxBound k then .error .value
    else if lo > hi then .error .value
    else if k = .integer ∧ rceil lo > rfloor hi then .error .value
    else .ok ⟨true, .binary, [⟨l, ⟨k, lo, hi⟩, bias⟩], [], 0⟩

/-- `quicksum`: deepcopy of the first item, then `+=` each further item; `QuadraticModel()` if empty.
    `copy.deepcopy` of a ConstraintView raises TypeError (its C++ pointer cannot be pickled); an
    ObjectiveView deep-copies to an ObjectiveView. -/
def qsumVals : List Val → Except Err Val
  | [] => .ok (.mdl emptyQM)
  | .view false _ :: _ => .error .type
  | v :: vs => vs.foldlM valAdd v

def build : SymExpr → Except Err Val
  | .var k l bias lb ub => (mkVar k l bias lb ub).map .mdl
  | .const q => .ok (.num q)
  | .empty k off => if k = .spin ∨ k = .binary then .ok (.mdl ⟨false, k, [], [], off⟩) else .error .value
  | .add a b => do let x ← build a; let y ← build b; valAdd x y
  | .sub a b => do let x ← build a; let y ← build b; valSub x y
  | .mul a b => do let x ← build a; let y ← build b; valMul x y
  | .neg a => do let x ← build a; valNeg x
  | .div a q => do let x ← build a; valDiv x q
  | .pow a n => do let x ← build a; valPow x n
  -- the in-place forms: `__iadd__` etc. either mutate the left operand or return NotImplemented and
  -- Python falls back on the binary operator; in both cases the bound value is the same function
  | .iadd a b => do let x ← build a; let y ← build b; valAdd x y
  | .isub a b => do let x ← build a; let y ← build b; valSub x y
  | .imul a b => do let x ← build a; let y ← build b; valMul x y
  | .idiv a q => do let x ← build a; valDiv x q
  | .qsum0 => qsumVals []
  | .qsum1 a => do let x ← build a; qsumVals [x]
  | .qsum3 a b c => do let x ← build a; let y ← build b; let z ← build c; qsumVals [x, y, z]
  | .view obj a => do
      let x ← build a
      match x with
      | .mdl m => .ok (.view obj m.toQM)
      | _ => .error .type
  | .addSelf a => do let x ← build a; valAdd x x
  | .subSelf a => do let x ← build a; valSub x x
  | .mulSelf a => do let x ← build a; valMul x x
  | .iaddSelf a => do let x ← build a; valAdd x x
  -- `t -= t`: `__isub__` is scale(-1); update(other); scale(-1) — with `other is self` guarded by a copy
  | .isubSelf a => do let x ← build a; valSub x x

/-- the arithmetic a tree denotes -/
def SymExpr.eval (x : Label → Rat) : SymExpr → Rat
  | .var _ l bias _ _ => bias * x l
  | .const q => q
  | .empty _ off => off
  | .add a b => a.eval x + b.eval x
  | .sub a b => a.eval x - b.eval x
  | .mul a b => a.eval x * b.eval x
  | .neg a => - a.eval x
  | .div a q => a.eval x * (1 / q)
  | .pow a n => a.eval x ^ n
  | .iadd a b => a.eval x + b.eval x
  | .isub a b => a.eval x - b.eval x
  | .imul a b => a.eval x * b.eval x
  | .idiv a q => a.eval x * (1 / q)
  | .qsum0 => 0
  | .qsum1 a => a.eval x
  | .qsum3 a b c => a.eval x + b.eval x + c.eval x
  | .view _ a => a.eval x
  | .addSelf a => a.eval x + a.eval x
  | .subSelf a => a.eval x - a.eval x
  | .mulSelf a => a.eval x * a.eval x
  | .iaddSelf a => a.eval x + a.eval x
  | .isubSelf a => a.eval x - a.eval x

def Val.eval (x : Label → Rat) : Val → Rat
  | .num q => q
  | .mdl m => m.eval x
  | .view _ m => m.eval x

/-! ## comparisons (`dimod.sym`): `model <= number` etc. build `Le/Ge/Eq(lhs=model, rhs=number)` -/

inductive Sense where
  | le | ge | eq
deriving DecidableEq

/-- a `Comparison` object: the left-hand side is the model itself (offset included, nothing is moved),
    the right-hand side the number -/
structure Cmp where
  lhs : Model
  sense : Sense
  rhs : Rat

/-- the six ways to write a comparison between an expression and a number -/
inductive SymCmp where
  | le (e : SymExpr) (q : Rat)     -- e <= q
  | ge (e : SymExpr) (q : Rat)     -- e >= q
  | eq (e : SymExpr) (q : Rat)     -- e == q
  | rle (q : Rat) (e : SymExpr)    -- q <= e   (reflected: `e.__ge__(q)`)
  | rge (q : Rat) (e : SymExpr)    -- q >= e   (reflected: `e.__le__(q)`)
  | req (q : Rat) (e : SymExpr)    -- q == e

def SymCmp.expr : SymCmp → SymExpr
  | .le e _ => e | .ge e _ => e | .eq e _ => e | .rle _ e => e | .rge _ e => e | .req _ e => e
def SymCmp.num : SymCmp → Rat
  | .le _ q => q | .ge _ q => q | .eq _ q => q | .rle q _ => q | .rge q _ => q | .req q _ => q
/-- `__le__`/`__ge__`/`__eq__` of the model, after Python's reflection -/
def SymCmp.sense : SymCmp → Sense
  | .le _ _ => .le | .ge _ _ => .ge | .eq _ _ => .eq | .rle _ _ => .ge | .rge _ _ => .le | .req _ _ => .eq
def SymCmp.isEq : SymCmp → Bool
  | .eq _ _ => true | .req _ _ => true | _ => false

/-- `none` = Python returned a plain bool (number vs number; `view == number` falls back on identity);
    expression views define no ordering → TypeError -/
def buildCmp (c : SymCmp) : Except Err (Option Cmp) :=
  match build c.expr with
  | .error e => .error e
  | .ok (.mdl m) => .ok (some ⟨m, c.sense, c.num⟩)
  | .ok (.num _) => .ok none
  | .ok (.view _ _) => if c.isEq then .ok none else .error .type

/-- what the written comparison means on numbers -/
def SymCmp.holds (c : SymCmp) (x : Label → Rat) : Prop :=
  match c with
  | .le e q => e.eval x ≤ q
  | .ge e q => e.eval x ≥ q
  | .eq e q => e.eval x = q
  | .rle q e => q ≤ e.eval x
  | .rge q e => q ≥ e.eval x
  | .req q e => q = e.eval x

def Cmp.holds (k : Cmp) (x : Label → Rat) : Prop :=
  match k.sense with
  | .le => k.lhs.eval x ≤ k.rhs
  | .ge => k.lhs.eval x ≥ k.rhs
  | .eq => k.lhs.eval x = k.rhs

end Sym
