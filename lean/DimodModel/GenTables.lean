import DimodModel.Generators3
import Generated.GenTables

/-! # C17 — the generator models against complete coefficient tables regenerated from the source (core Lean only)

`Generated/GenTables.lean` holds the coefficient tables of `combinations`, `multiplication_circuit`,
`anti_crossing_clique`, `anti_crossing_loops` on small arguments, read off the real return values on every run
(`harness/translators/c17_tables.py`).  `tableOK` decides that a model state has exactly a table's coefficients. -/

namespace Gen
open Pen Generated.GenTables

/-- same offset, same variables with the same linear biases, same interactions (unordered pairs) with the same biases -/
def tableOK (b : Bq Label) (t : Table) : Bool :=
  decide (b.off = t.2.2) && b.lin.length == t.1.length && b.quad.length == t.2.1.length
  && t.1.all (fun e => b.lin.any (fun f => decide (f.1 = e.1) && decide (f.2 = e.2)))
  && t.2.1.all (fun e => b.quad.any (fun f =>
        ((decide (f.1.1 = e.1.1) && decide (f.1.2 = e.1.2)) || (decide (f.1.1 = e.1.2) && decide (f.1.2 = e.1.1))) && decide (f.2 = e.2)))

def bagOK (vt : VT) (bag : Option (List (PTerm Label))) (t : Table) : Bool :=
  match bag with
  | some bag => tableOK ((Bq.empty vt : Bq Label).apply bag) t
  | none => false

def combRowOK (e : Nat × Nat × Rat × Bool × Table) : Bool :=
  let vt := if e.2.2.2.1 then VT.spin else VT.binary
  bagOK vt (combinations ((List.range e.1).map iv) (e.2.1 : Int) e.2.2.1 vt) e.2.2.2.2

def multRowOK (e : Nat × Nat × Table) : Bool := bagOK .binary (mulCircuitBag e.1 e.2.1) e.2.2

def acCliqueRowOK (e : Nat × Table) : Bool := match acClique e.1 with | some b => tableOK b e.2 | none => false

def acLoopsRowOK (e : Nat × Table) : Bool := match acLoops e.1 with | some b => tableOK b e.2 | none => false

def chimeraRowOK (e : Nat × Nat × Nat × List (Nat × Nat) × List (Nat × Nat)) : Bool :=
  decide (chimeraTileEdges e.1 e.2.1 e.2.2.1 = e.2.2.2.1) && decide (chimeraInterEdges e.1 e.2.1 e.2.2.1 = e.2.2.2.2)

end Gen
