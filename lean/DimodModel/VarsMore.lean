import DimodModel.Vars
import DimodModel.SampleSet
import Generated.VarsRules

/-! More of `dimod/cyvariables.pyx` / `dimod/variables.py` as coded: `_extend`, `copy`, the pickle
    round trip (`__reduce_cython__` / `__setstate_cython__`), `__iter__`, `__len__`, `__contains__`,
    `__getitem__` with a slice, `__eq__`, the constructor, and `_append(v=None)` written over the
    constants that `harness/translators/vars_rules.py` extracts from the source.  Core Lean only. -/

namespace VState

/-! ### `_append(v=None)` over the extracted constants -/

/-- which containment test a candidate label goes through -/
def testBy (s : VState) (useCount : Bool) (v : Label) : Bool :=
  if useCount then s.count v else (s.l2i.get? v).isSome

/-- `_append(v=None)`: first candidate `self._stop` (kept when the guard is false), otherwise the
    search `v = start; while test(v): v += step`.  `Generated.VarsRules` holds: whether the first
    candidate is `_stop`, whether the guard has the `not self._is_range()` conjunct, whether guard
    and loop test with `self.count`, the start value and the increment. -/
def autoLabelG (s : VState) : Label :=
  let first : Nat := if Generated.VarsRules.autoFirstIsStop then s.stop else 0
  let guard : Bool :=
    (if Generated.VarsRules.autoGuardNotRange then !s.isRange else true) &&
      s.testBy Generated.VarsRules.autoGuardUsesCount (.int first)
  if !guard then .int first
  else
    let rec least (fuel i : Nat) : Nat :=
      match fuel with
      | 0 => i
      | f+1 => if s.testBy Generated.VarsRules.autoLoopUsesCount (.int i) then
          least f (i + Generated.VarsRules.autoSearchStep) else i
    .int (least (s.stop + 1) Generated.VarsRules.autoSearchStart)

/-! ### `_extend`, the constructor -/

/-- `_extend(iterable, permissive)`: a fold of `_append`; a raising call keeps what was appended
    before (`false` = ValueError) -/
def extend (s : VState) : List (Option Label) → Bool → VState × Bool
  | [], _ => (s, true)
  | v :: vs, p => match s.appendP v p with
    | none => (s, false)
    | some s' => extend s' vs p

/-- `Variables(iterable)` for a general iterable: `_extend(iterable, permissive=True)` -/
def ofList (vs : List Label) : VState := (empty.extend (vs.map some) true).1

/-- `Variables(range(n))`: the fast path only sets `_stop` -/
def ofRange (n : Nat) : VState := { i2l := [], l2i := [], stop := n }

/-! ### copy and pickle -/

/-- `dict(d)` / a dict written by pickle and rebuilt by successive `d[k] = v`: the items (first
    entry of a key is the live one in an `AMap`) re-inserted -/
def copyMap [DecidableEq α] (m : AMap α β) : AMap α β := m.foldr (fun p acc => AMap.set acc p.1 p.2) []

/-- `copy()` (also `__copy__`, `__init_cyvariables__`) -/
def copy (s : VState) : VState := { i2l := copyMap s.i2l, l2i := copyMap s.l2i, stop := s.stop }

/-- `__reduce_cython__`: the state tuple `(_index_to_label, _label_to_index, _stop)` -/
def reduce (s : VState) : AMap Nat Label × AMap Label Nat × Nat := (s.i2l, s.l2i, s.stop)

/-- `__pyx_unpickle_cyVariables__set_state`: the three fields are assigned from the tuple -/
def setState (t : AMap Nat Label × AMap Label Nat × Nat) : VState := { i2l := t.1, l2i := t.2.1, stop := t.2.2 }

/-- `pickle.loads(pickle.dumps(v))`: reduce, both dicts through the item stream, set state -/
def pickleRoundTrip (s : VState) : VState :=
  let t := s.reduce
  setState (copyMap t.1, copyMap t.2.1, t.2.2)

/-- the mapping `_relabel_as_integers` returns (`self._index_to_label.copy()`), as a relabel mapping -/
def restoreMap (back : AMap Nat Label) : List (Label × Label) :=
  (copyMap back).map fun p => (Label.int (p.1 : Nat), p.2)

/-! ### readers -/

/-- `__iter__` -/
def iter (s : VState) : List Label :=
  if s.isRange then (List.range s.stop).map fun (i : Nat) => Label.int (i : Int)
  else (List.range s.stop).filterMap fun (i : Nat) => s.at? (i : Int)

/-- `__len__` -/
def len (s : VState) : Nat := s.stop

/-- `__contains__`: `bool(self.count(v))` -/
def contains (s : VState) (v : Label) : Bool := s.count v

/-- `__getitem__(slice)`: `idx.indices(size)` (`none` = ValueError for a zero step), then a new
    object filled by non-permissive `_append(self.at(i))` -/
def getSlice (s : VState) (sl : SSM.PySlice) : Option VState :=
  match SSM.sliceIndices sl s.stop with
  | none => none
  | some idx =>
    idx.foldl (fun acc (i : Nat) => acc.bind fun n => (s.at? (i : Int)).bind fun l => n.appendP (some l) false) (some empty)

/-- the right operand of `==`: a `Sequence` (list, tuple, range, another `Variables`), a `Set` that is
    not a sequence (set, frozenset, dict keys; given by its elements), anything else -/
inductive Other where
  | seq (l : List Label)
  | set (l : List Label)
  | other

/-- `Variables.__eq__` as coded: sequence branch first (`len` equal and `all(map(eq, self, other))`),
    then the set branch `not (self ^ other)` of the `abc.Set` mixin
    (`(self - other) | (other - self)` is empty), else `False` -/
def eqOther (s : VState) : Other → Bool
  | .seq o => decide (s.len = o.length) && (List.zipWith (fun a b => decide (a = b)) s.iter o).all id
  | .set o => ((s.iter.filter fun x => !o.contains x) ++ (o.filter fun x => !s.contains x)).isEmpty
  | .other => false

/-! ### the extended operation alphabet -/

inductive Op2 where
  | base (op : Op)
  | extend (vs : List (Option Label)) (permissive : Bool)
  | copy
  | pickle
  | slice (sl : SSM.PySlice)

/-- one step on the object a history works on; `copy`, `pickle` and an accepted slice continue with the
    object they return -/
def step2 (s : VState) : Op2 → VState × Bool
  | .base op => s.step op
  | .extend vs p => s.extend vs p
  | .copy => (s.copy, true)
  | .pickle => (s.pickleRoundTrip, true)
  | .slice sl => match s.getSlice sl with
    | some s' => (s', true)
    | none => (s, false)

end VState

namespace LSpec

/-- `for v in iterable: append(v)` on the list -/
def extend (l : List Label) : List (Option Label) → Bool → List Label × Bool
  | [], _ => (l, true)
  | v :: vs, p =>
    let r := step l (.append v p)
    if r.2 then extend r.1 vs p else (l, false)

/-- Python list slicing `l[sl]` (`none` = ValueError: slice step cannot be zero) -/
def slice (l : List Label) (sl : SSM.PySlice) : Option (List Label) :=
  (SSM.sliceIndices sl l.length).map (SSM.gather l)

def step2 (l : List Label) : VState.Op2 → List Label × Bool
  | .base op => step l op
  | .extend vs p => extend l vs p
  | .copy => (l, true)
  | .pickle => (l, true)
  | .slice sl => match slice l sl with
    | some l' => (l', true)
    | none => (l, false)

end LSpec

/-! ### exception classes -/

namespace VState
open Generated.VarsRules in
/-- the class of the exception a rejected operation raises, as the source names it
    (`slice.indices` of CPython raises the `ValueError` of a zero step) -/
def errClass : Op2 → Err
  | .base (.append _ _) => errAppendDuplicate
  | .base .pop => errPopEmpty
  | .base (.relabel _) => errRelabelConflict
  | .base (.remove _) => errIndexUnknown
  | .base .clear => .value
  | .base .relabelInts => .value
  | .extend _ _ => errAppendDuplicate
  | .copy => .value
  | .pickle => .value
  | .slice _ => .value

/-- readers: `v[i]` out of range, `v.index(x)` of an unknown label, `v[x]` with a non-index -/
def errAt : Generated.VarsRules.Err := Generated.VarsRules.errAtRange
def errIndex : Generated.VarsRules.Err := Generated.VarsRules.errIndexUnknown
end VState

namespace LSpec
open Generated.VarsRules in
/-- what a Python list raises for the same call (`list.pop` of an empty list and `l[i]` out of range:
    IndexError; `list.remove` / `list.index` of a missing value, a zero slice step: ValueError), and the
    ValueError the docstrings of `_append` / `_relabel` promise for a duplicate -/
def errClass : VState.Op2 → Err
  | .base .pop => .index
  | _ => .value
end LSpec
