import DimodModel.Energy
import Generated.EnergyLoops

/-! # `as_samples`: the remaining input forms and the dtype choice of `_sample_array` (round 7; shared by C01 / C14)

`DimodModel/Energy.lean` models seven forms (`SL`).  Here, as coded in `dimod/sampleset.py`:

* **any `abc.Iterator`** (`iter(...)`, a generator, a `map` object — one pass) and **a `Sequence` containing a `Mapping`** (which is
  handed on as `iter(samples_like)`): `_as_samples_iterator`, whose elements are *samples-likes themselves* (a dict, a labelled
  array with several rows, a SampleSet, …), each converted by `as_samples` lazily, re-indexed to the first element's labels and
  stacked (`np.vstack`).  `SL.dicts` is the special case "every element is a dict".
* the iterator as a **stateful one-shot object**: `asSamplesIterState` returns what is left of it.
* the deprecated **`(Mapping, labels)`** tuple: `d[v] = array_like[v] for v in labels` (`KeyError` → `ValueError`), then the
  `(array, labels)` path.
* `(iterator, labels)` → `TypeError`; a tuple whose length is not 2 → `ValueError`.
* `ChainMap`, `MappingProxyType` and other `Mapping` classes enter `_as_samples_dict` through `samples_like.items()`; they are the
  form `SL.dict items` with `items` = that list (the `Mapping` ABC contract `items() = [(k, self[k]) for k in self]`).
* **`_sample_array` without a dtype**: the smallest type of the candidate list whose `iinfo.max` holds
  `max_ = max(-arr.min(initial=0), arr.max(initial=0))`, then the cast.  Candidate list and fit test are regenerated from the source
  (`Generated.EnergyLoops.sampleWidths`, `sampleFits`).

Core Lean only. -/

namespace En

variable {R : Type}

/-! ## the general iterator path -/

/-- the loop of `_as_samples_iterator` over the elements after the first: each element is converted when the loop reaches it
    (`stack` is a generator), compared with the first labels, re-indexed when the order differs, and appended -/
def stackRest [Zero R] (firstLabels : List Label) : List (SL R) → Except Err (List (List R))
  | [] => .ok []
  | sl :: t =>
    match asSamples sl with
    | .error e => .error e
    | .ok (rows, labels) =>
      if labels = firstLabels then
        match stackRest firstLabels t with
        | .ok out => .ok (rows ++ out)
        | .error e => .error e
      else if !(sameSet labels firstLabels) then .error .value
      else
        match stackRest firstLabels t with
        | .ok out => .ok (rows.map (reindexRow firstLabels labels) ++ out)
        | .error e => .error e

/-- `_as_samples_iterator(samples_like)`: `StopIteration` on the first `next` gives the empty `(0, 0)` array and no labels -/
def asSamplesIter [Zero R] : List (SL R) → Except Err (List (List R) × List Label)
  | [] => .ok ([], [])
  | first :: rest =>
    match asSamples first with
    | .error e => .error e
    | .ok (rows0, labels0) =>
      match stackRest labels0 rest with
      | .ok out => .ok (rows0 ++ out, labels0)
      | .error e => .error e

/-- what is left of the iterator object after the loop of `stackRest` (an exception leaves the elements after the failing one) -/
def stackRestLeft [Zero R] (firstLabels : List Label) : List (SL R) → List (SL R)
  | [] => []
  | sl :: t =>
    match asSamples sl with
    | .error _ => t
    | .ok (_, labels) =>
      if labels = firstLabels then stackRestLeft firstLabels t
      else if !(sameSet labels firstLabels) then t
      else stackRestLeft firstLabels t

/-- the iterator as a stateful object: result and the state the iterator is left in -/
def asSamplesIterState [Zero R] (it : List (SL R)) : Except Err (List (List R) × List Label) × List (SL R) :=
  (asSamplesIter it,
   match it with
   | [] => []
   | first :: rest =>
     match asSamples first with
     | .error _ => rest
     | .ok (_, labels0) => stackRestLeft labels0 rest)

/-! ## the other forms -/

/-- insertion-ordered keys of `d = dict(); for v in labels: d[v] = …` -/
def dictKeys : List Label → List Label
  | [] => []
  | v :: t => v :: (dictKeys t).filter (· ≠ v)

/-- the deprecated `(Mapping, labels)` form of `_as_samples_tuple` -/
def asSamplesMappingLabels [Zero R] (items : List (Label × R)) (labels : List Label) :
    Except Err (List (List R) × List Label) :=
  if labels.all fun v => (lookupLabel items v).isSome then
    let d := dictKeys labels
    tupleCheck [d.map fun v => (lookupLabel items v).getD 0] d.length labels
  else .error .value        -- `except KeyError: raise ValueError("inconsistent labels")`

/-- every samples-like `as_samples` dispatches on -/
inductive SLF (R : Type) where
  | base (s : SL R)
  | iterOf (l : List (SL R))              -- abc.Iterator, or a Sequence containing a Mapping
  | mappingLabels (items : List (Label × R)) (labels : List Label)
  | tupleOfIterator (labels : List Label)  -- `(iterator, labels)`
  | tupleNot2                              -- a tuple of another length

def asSamplesF [Zero R] : SLF R → Except Err (List (List R) × List Label)
  | .base s => asSamples s
  | .iterOf l => asSamplesIter l
  | .mappingLabels items labels => asSamplesMappingLabels items labels
  | .tupleOfIterator _ => .error .type
  | .tupleNot2 => .error .value

/-- number of rows the elements before position `i` contribute -/
def rowOffset (l : List (SL R)) (i : Nat) : Nat := ((l.take i).map SL.numRows).sum

/-! ## `_sample_array`: the dtype picked for integer input without a dtype -/

/-- `max_ = max(-arr.min(initial=0), +arr.max(initial=0))` -/
def sampleMax (rows : List (List Int)) : Int :=
  let entries := rows.flatten
  max (-(entries.foldl min 0)) (entries.foldl max 0)

/-- `next(tp for tp in (…) if max_ <= np.iinfo(tp).max)` over the regenerated candidate list -/
def pickWidth (mx : Int) : Option Nat :=
  Generated.EnergyLoops.sampleWidths.find? fun w => Generated.EnergyLoops.sampleFits mx w

/-- the C cast of an integer to a signed type of `w` bits -/
def wrapTo (w : Nat) (z : Int) : Int := (z + 2 ^ (w - 1)) % 2 ^ w - 2 ^ (w - 1)

/-- `np.asarray` of Python ints is an int64 array exactly when every entry is within the int64 range -/
def inInt64 (rows : List (List Int)) : Bool := rows.all fun row => row.all fun z => decide (-(2 : Int) ^ 63 ≤ z ∧ z ≤ 2 ^ 63 - 1)

/-- `_sample_array(array_like)` on integer input without a dtype: `(bits of the chosen type, the array after the cast)`;
    `ValueError` when nothing fits -/
def sampleArrayInt (rows : List (List Int)) : Except Err (Nat × List (List Int)) :=
  match pickWidth (sampleMax rows) with
  | none =>
    -- `except StopIteration`: (after the fix of D-r7b1) an array that already is int64 keeps its type — NumPy gave it that type because
    -- every entry is within the int64 range; otherwise `ValueError`
    if Generated.EnergyLoops.sampleKeepsInt64 && inInt64 rows then .ok (64, rows) else .error .value
  | some w => .ok (w, rows.map fun row => row.map (wrapTo w))

/-- the rule of seeded change C01-8, `np.min_scalar_type(min(-max_, -1))`: the smallest signed type that holds the NEGATED maximum -/
def pickWidthNegated (mx : Int) : Option Nat :=
  Generated.EnergyLoops.sampleWidths.find? fun w => decide (-(2 : Int) ^ (w - 1) ≤ min (-mx) (-1))

end En
