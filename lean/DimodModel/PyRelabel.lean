import DimodModel.PyHist
import DimodModel.Vars

/-! # C02 — `pyBQM.relabel_variables(mapping)` as a whole (round 7)

```
for submap in iter_safe_relabels(mapping, self.variables):
    for old, new in submap.items():
        <one (old, new) step: LBqm.relabelOne>
```
`iter_safe_relabels` / `resolve_label_conflict` are the model of C13 (`VState.safeRelabels`, as coded) run on the `Variables` object
of the model (its labels in insertion order).  A `ValueError` of `iter_safe_relabels` is raised before anything is touched.
Core Lean only. -/

namespace En
namespace LBqm

variable {R : Type}

/-- the `Variables` object of a dict-of-dicts model: its labels appended one by one -/
def variablesOf (labels : List Label) : VState := labels.foldl VState.append VState.empty

/-- `pyBQM.relabel_variables(mapping)` -/
def relabelVariables (m : LBqm R) (mapping : List (Label × Label)) : Except Err (LBqm R) :=
  match (variablesOf (m.adj.map (·.1))).safeRelabels mapping with
  | none => .error .value
  | some subs => .ok (subs.foldl (fun d sub => sub.foldl (fun d p => d.relabelOne p.1 p.2) d) m)

end LBqm
end En
