import DimodModel.Label

/-! # C17 — `_random_cycle` of `dimod/generators/fcl.py` as coded (core Lean only)

`adj` is a dict node → set of neighbours: the iteration order of the dict keys and of every neighbour set is an oracle (the
harness records `list(adj)` and `list(adj[v])`, which do not change during the call).  The draws are the scalars the
`RandomState` hands out: `randint(len(adj))` for the start, then one `choice` index per step.

The walk: `walk = [start]`; in every step the neighbours of the last node in set order, without the previous node, `None` when
there are none (dead end); the drawn neighbour `u` closes the cycle `walk[visited[u]:]` when it was visited, else it is appended.
The walk is kept REVERSED here (`rev`, head = last node): `visited[u]` is the position of `u` in `walk`, so the returned cycle is
the part of `rev` up to and including `u`, reversed.  Outcomes: `none` = the recorded draws do not fit (index out of range, too few
draws), `some none` = `None`, `some (some c)` = the cycle `c`. -/

namespace Gen

def rcNeighbors (adj : List (Label × List Label)) (v : Label) : List Label :=
  match adj.find? (fun e => e.1 == v) with
  | some e => e.2
  | none => []

/-- the part of the reversed walk up to and including `u` -/
def rcCut (u : Label) : List Label → List Label
  | [] => []
  | a :: r => if a = u then [a] else a :: rcCut u r

/-- the `while True:` loop, one `choice` draw per iteration -/
def rcLoop (adj : List (Label × List Label)) : List Label → List Nat → Option (Option (List Label))
  | [], _ => none
  | last :: before, draws =>
    let nb := match before with
      | [] => rcNeighbors adj last
      | prev :: _ => (rcNeighbors adj last).filter (fun u => u != prev)
    if nb.isEmpty then some none
    else match draws with
      | [] => none
      | d :: ds =>
        match nb[d]? with
        | none => none
        | some u =>
          if (last :: before).contains u then some (some (rcCut u (last :: before)).reverse)
          else rcLoop adj (u :: last :: before) ds

/-- `_random_cycle(adj, random_state)` -/
def randomCycle (adj : List (Label × List Label)) (draws : List Nat) : Option (Option (List Label)) :=
  match draws with
  | [] => none
  | n :: ds =>
    match adj[n]? with
    | none => none
    | some e => rcLoop adj [e.1] ds

end Gen
