import DimodModel.DqmFile
import DimodModel.ZipBytes

/-! # The NPY array format and the `.npz` archive of the DQM arrays  (C09 / C10, round 7)

`np.savez(file, case_starts=…, …)` writes one ZIP member `<name>.npy` per array; a `.npy` file is
`\x93NUMPY`, a version (1.0: two-byte header length), the header length, a Python-literal dictionary
`{'descr': '<f8', 'fortran_order': False, 'shape': (3,), }` padded with spaces and terminated by a newline
so that the data start at a multiple of 64, then the raw little-endian items.
`np.load` → `NpzFile[name]` → `format.read_array`: `read_magic` (8 bytes, magic, version), the header length,
exactly that many header bytes (a short read is `ValueError`), the dictionary, then exactly
`count * itemsize` bytes of data (a short read is `ValueError`).

The dictionary parser here accepts the layout NumPy WRITES (these three keys in this order and spacing,
shapes of rank 0 and 1) followed by blanks; Python's general literal parser is not modelled — every
generated file is parsed by both in the correspondence run.  Core Lean only. -/

namespace FileFmt

/-- `MAGIC_PREFIX = b'\x93NUMPY'` -/
def npyMagic : Bytes := [147, 78, 85, 77, 80, 89]

/-- `repr` of a shape tuple of rank 0 or 1 (`()`, `(n,)`); higher ranks do not occur in a DQM file -/
def shapeText : List Nat → List Char
  | [] => ['(', ')']
  | n :: _ => '(' :: (natDigits n ++ [',', ')'])

def npyK1 : List Char := ['{', '\'', 'd', 'e', 's', 'c', 'r', '\'', ':', ' ', '\'']   -- "{'descr': '"
def npyK2 : List Char := ['\'', ',', ' ', '\'', 'f', 'o', 'r', 't', 'r', 'a', 'n', '_', 'o', 'r', 'd', 'e', 'r', '\'', ':', ' ']   -- "', 'fortran_order': "
def npyK3 : List Char := [',', ' ', '\'', 's', 'h', 'a', 'p', 'e', '\'', ':', ' ']   -- ", 'shape': "
def npyK4 : List Char := [',', ' ', '}']   -- ', }'
def npyFalse : List Char := ['F', 'a', 'l', 's', 'e']   -- 'False'
def npyTrue : List Char := ['T', 'r', 'u', 'e']   -- 'True'

/-- `header = "{" + "'descr': …, 'fortran_order': …, 'shape': …, " + "}"` (`_write_array_header`, keys sorted) -/
def npyDictText (descr : List Char) (shape : List Nat) : List Char :=
  npyK1 ++ (descr ++ (npyK2 ++ (npyFalse ++ (npyK3 ++ (shapeText shape ++ npyK4)))))

/-- `_wrap_header` for version 1.0: `padlen = 64 - ((6 + 2 + 2 + hlen) % 64)` with `hlen = len(header) + 1`
    — between 1 and 64 spaces — then a newline -/
def npyHeader (descr : List Char) (shape : List Nat) : Bytes :=
  let t := asciiBytes (npyDictText descr shape)
  let pad := 64 - ((10 + (t.length + 1)) % 64)
  npyMagic ++ ([1, 0] ++ (toLE 2 (t.length + pad + 1) ++ (t ++ (spaces pad ++ [10]))))

def npyFile (m : NpyMember) : Bytes := npyHeader m.descr m.shape ++ m.data

def npySuffix : List Char := ['.', 'n', 'p', 'y']

/-- the archive `np.savez` writes: member `<name>.npy` per array, in keyword order -/
def npzArchive (ms : List NpyMember) : Archive := ms.map fun m => (m.name ++ npySuffix, npyFile m)

/-! ## the reader -/

def stripPrefix : List Char → List Char → Option (List Char)
  | [], cs => some cs
  | _ :: _, [] => none
  | p :: ps, c :: cs => if p = c then stripPrefix ps cs else none

/-- the shape tuple, rank 0 or 1 -/
def parseShape (cs : List Char) : Option (List Nat × List Char) :=
  match cs with
  | '(' :: ')' :: r => some ([], r)
  | '(' :: r =>
    let ds := r.takeWhile FileFmt.isDigit
    if ds = [] then none
    else match r.dropWhile FileFmt.isDigit with
      | ',' :: ')' :: r2 => some ([digitsVal ds], r2)
      | _ => none
  | _ => none

/-- the dictionary of a `.npy` header as NumPy writes it, then blanks only: `(descr, fortran_order, shape)` -/
def parseNpyDict (cs : List Char) : Option (List Char × Bool × List Nat) :=
  (stripPrefix npyK1 cs).bind fun r1 =>
  let descr := r1.takeWhile (· ≠ '\'')
  (stripPrefix npyK2 (r1.dropWhile (· ≠ '\''))).bind fun r2 =>
  (match stripPrefix npyFalse r2 with
   | some r => some (false, r)
   | none => (stripPrefix npyTrue r2).map fun r => (true, r)).bind fun (fo, r3) =>
  (stripPrefix npyK3 r3).bind fun r4 =>
  (parseShape r4).bind fun (shape, r5) =>
  (stripPrefix npyK4 r5).bind fun r6 =>
  if r6.all isWs then some (descr, fo, shape) else none

def shapeCount : List Nat → Nat
  | [] => 1
  | n :: t => n * shapeCount t

/-- `format.read_array` on the bytes of one member: `ValueError` (here `none`) on a short magic, a wrong magic,
    an unknown version, a short header, an unreadable dictionary, Fortran order (not written by dimod), an
    unknown descriptor, or fewer than `count * itemsize` data bytes -/
def parseNpy (name : List Char) (b : Bytes) : Option NpyMember :=
  let m8 := b.take 8
  if m8.length ≠ 8 ∨ m8.take 6 ≠ npyMagic then none
  else
    let nlen := if m8.drop 6 = [1, 0] then some 2 else if m8.drop 6 = [2, 0] ∨ m8.drop 6 = [3, 0] then some 4 else none
    match nlen with
    | none => none
    | some nl =>
      let lb := (b.drop 8).take nl
      if lb.length ≠ nl then none
      else
        let hl := leNat lb
        let hdr := (b.drop (8 + nl)).take hl
        if hdr.length ≠ hl then none
        else match parseNpyDict (asciiChars hdr) with
          | none => none
          | some (descr, fo, shape) =>
            if fo then none
            else match descrSize descr with
              | none => none
              | some (_, sz) =>
                let data := (b.drop (8 + nl + hl)).take (shapeCount shape * sz)
                if data.length ≠ shapeCount shape * sz then none
                else some { name := name, descr := descr, shape := shape, data := data }

/-- the key of an archive member: `NpzFile` strips `.npy` -/
def npzKey (n : List Char) : Option (List Char) :=
  if (n.drop (n.length - 4)) = npySuffix ∧ 4 ≤ n.length then some (n.take (n.length - 4)) else none

/-- every member of the archive as an array (the DQM loader asks for all of them) -/
def npzMembersOf : Archive → Option (List NpyMember)
  | [] => some []
  | (n, b) :: rest =>
    match npzKey n with
    | none => none
    | some key =>
      match parseNpy key b, npzMembersOf rest with
      | some m, some ms => some (m :: ms)
      | _, _ => none

/-- **`np.load` on the bytes of the `BIAS` section**, as far as the DQM loader uses it: the ZIP directory and
    members (byte level), then every `.npy` member -/
def readNpzBytes (crc32 : Bytes → Nat) (inflate : Bytes → Option Bytes) (r : EndRec) (file : Bytes) : Option (List NpyMember) :=
  (readDirChars crc32 inflate r file).bind npzMembersOf

/-- what the format needs of one array: a known little-endian descriptor without a quote character, rank 0 or 1,
    and as many data bytes as shape and item size say -/
def NpyMember.OK (m : NpyMember) : Prop :=
  (∃ k sz, descrSize m.descr = some (k, sz) ∧ m.data.length = shapeCount m.shape * sz) ∧
  '\'' ∉ m.descr ∧ (∀ c ∈ m.descr, c.toNat < 128) ∧ m.shape.length ≤ 1 ∧
  (asciiBytes (npyDictText m.descr m.shape)).length + 65 < 256 ^ 2

end FileFmt
