import DimodModel.Heap

/-! # C19 — the Python `BinaryQuadraticModel` object with its instance `__dict__` caches on top of the heap of `Heap.lean`

`binary_quadratic_model.py`:

* `self.data` is a cy object, or (for the object behind `.spin` / `.binary`) a `VartypeView` around the PARENT's cy object;
* `.binary` / `.spin` (`other` below) as coded: the cached `self._binary` / `self._spin` if there is one, else
  `bqm = type(self).__new__(type(self)); bqm.data = VartypeView(self.data, …); bqm._spin = self; self._binary = bqm`;
* `@forwarding_method` (`decorators.py`): the first call stores the bound method `self.data.<name>` in `self.__dict__[name]`,
  later calls go straight to that stored method — whatever `self.data` is by then;
* `__copy__`: `new = type(self).__new__(type(self)); new.data = copy.copy(self.data)` — a NEW `__dict__` holding `data` only
  (`VartypeView.__copy__` = a copy of the viewed cy object, `change_vartype` applied in place: a detached model);
* `__deepcopy__(memo)`: the same with `copy.deepcopy(self.data, memo)`; `memo[id(self)] = new`.

`copySharingDict` is the variant a seeded change would produce (`new.__dict__.update(self.__dict__)`): the copy then holds the
original's cached view and cached bound methods.  Core Lean only. -/

namespace MHeap

/-- instance `__dict__` of a Python-level model object -/
structure PyObj where
  /-- the cy object `.data` is, or the one the `VartypeView` in `.data` is around -/
  data : Nat
  isView : Bool
  /-- `_binary` / `_spin`: id of the cached other-vartype object -/
  other : Option Nat
  /-- `forwarding_method` cache: method name ↦ the cy object the stored bound method writes -/
  fwd : List (String × Nat)

structure PyHeap where
  h : Heap
  obj : Nat → Option PyObj
  nextId : Nat

def PyHeap.newObj (p : PyHeap) (o : PyObj) : PyHeap × Nat :=
  ({ p with obj := fun i => if i = p.nextId then some o else p.obj i, nextId := p.nextId + 1 }, p.nextId)

def PyHeap.setObj (p : PyHeap) (i : Nat) (o : PyObj) : PyHeap :=
  { p with obj := fun j => if j = i then some o else p.obj j }

def PyHeap.dataOf (p : PyHeap) (i : Nat) : Option Nat := (p.obj i).map (·.data)

def fwdLookup (l : List (String × Nat)) (n : String) : Option Nat := (l.find? (·.1 = n)).map (·.2)

/-- the `.binary` / `.spin` property of the OTHER vartype, as coded -/
def pyOther (p : PyHeap) (x : Nat) : PyHeap × Nat :=
  match p.obj x with
  | none => (p, x)
  | some ox =>
    match ox.other with
    | some v => (p, v)                                     -- `return self._binary`
    | none =>
      let a := p.newObj ⟨ox.data, true, some x, []⟩        -- `bqm.data = VartypeView(self.data, …)`; `bqm._spin = self`
      (a.1.setObj x { ox with other := some a.2 }, a.2)    -- `self._binary = bqm`

/-- how a caller reaches the cy object an in-place edit writes -/
inductive Route where
  | direct                      -- an ordinary method / property of the object (`offset`, `relabel_variables`, …)
  | fwd (name : String)         -- a `@forwarding_method` (`add_linear`, `add_quadratic`, `set_linear`, `scale`, …)
  | otherDirect                 -- the same through `.binary` / `.spin`
  | otherFwd (name : String)

/-- a forwarding method of object `x`: stored bound method if any, else `self.data.<name>` is stored and used -/
def resolveFwd (p : PyHeap) (x : Nat) (n : String) : PyHeap × Nat :=
  match p.obj x with
  | none => (p, 0)
  | some ox =>
    match fwdLookup ox.fwd n with
    | some t => (p, t)
    | none => (p.setObj x { ox with fwd := (n, ox.data) :: ox.fwd }, ox.data)

/-- the Python objects after the attribute look-ups of a route, and the cy object that is written -/
def resolve (p : PyHeap) (x : Nat) : Route → PyHeap × Nat
  | .direct => (p, (p.dataOf x).getD 0)
  | .fwd n => resolveFwd p x n
  | .otherDirect => let a := pyOther p x; (a.1, (a.1.dataOf a.2).getD 0)
  | .otherFwd n => let a := pyOther p x; resolveFwd a.1 a.2 n

/-- one in-place edit of Python object `x` through a route -/
def pyEdit (p : PyHeap) (x : Nat) (r : Route) (e : Edit) : PyHeap :=
  let a := resolve p x r
  { a.1 with h := e.run a.1.h a.2 }

/-- a history of edits on two Python objects (`false` = the first), each through any route -/
def pyRunEdits (p : PyHeap) (x y : Nat) : List (Bool × Route × Edit) → PyHeap
  | [] => p
  | (side, r, e) :: t => pyRunEdits (pyEdit p (if side then y else x) r e) x y t

/-- the cy-level call behind `copy.copy(self.data)` / `copy.deepcopy(self.data, memo)`: `cyBQM.__copy__` / `__deepcopy__` for a cy
    object; for a `VartypeView`, `VartypeView.__copy__` (a copy of the viewed cy object with `change_vartype` = `tr` applied in
    place: a detached model) resp. the default deep copy of the view object (a NEW `VartypeView` around a deep copy of the viewed
    cy object; nothing of the receiver memoised yet) -/
def pyCopyCall (isView : Bool) (tr : List Rat → List Rat) (deep : Bool) : Call :=
  if deep then .deepcopy else if isView then .inplaceFalse ⟨tr, id⟩ else .copy

/-- `BinaryQuadraticModel.__copy__` (`deep = false`) / `__deepcopy__` (`deep = true`).  The new object's `__dict__` holds `data`
    only; it is a view object again only for the deep copy of a view object. -/
def pyCopy (p : PyHeap) (x : Nat) (tr : List Rat → List Rat) (deep : Bool) : PyHeap × Nat :=
  match p.obj x with
  | none => (p, x)
  | some ox =>
    let a := (pyCopyCall ox.isView tr deep).run p.h ox.data 0
    PyHeap.newObj { p with h := a.1 } ⟨a.2, deep && ox.isView, none, []⟩

/-- NOT the code: a copy that also takes over the receiver's `__dict__` (`_binary`, stored bound methods) -/
def copySharingDict (p : PyHeap) (x : Nat) : PyHeap × Nat :=
  match p.obj x with
  | none => (p, x)
  | some ox =>
    let a := Call.copy.run p.h ox.data 0
    PyHeap.newObj { p with h := a.1 } { ox with data := a.2 }

/-- every cached reference of every object leads to the object's own cy object; ids from `nextId` on are unused -/
def CacheInv (p : PyHeap) : Prop :=
  (∀ i, p.nextId ≤ i → p.obj i = none) ∧
  ∀ i o, p.obj i = some o →
    (∀ nt ∈ o.fwd, nt.2 = o.data) ∧ ∀ v, o.other = some v → ∃ ov, p.obj v = some ov ∧ ov.data = o.data ∧ v < p.nextId

end MHeap
