import DimodModel.Vars

/-! Executable model of `dimod/sampleset.py` (C14): a record array is a list of `Row`s, the
    `sample` field a list of rationals per row, labels a duplicate-free list.  Every function
    mirrors the NumPy indexing form its source uses (`gather` = integer-array indexing,
    `maskSelect` = boolean indexing, `sliceIndices` = basic slicing).  Core Lean only. -/

namespace SSM

inductive VT where
  | spin | binary | integer | real
deriving DecidableEq

structure Row where
  sample : List Rat
  energy : Rat
  occ : Int
  extra : List (List Rat)
deriving DecidableEq

structure SS where
  labels : List Label
  rows : List Row
  vt : VT
  fields : List String
deriving DecidableEq

/-- all-or-nothing: the first failing element makes the whole call raise -/
def allSome : List (Option α) → Option (List α)
  | [] => some []
  | none :: _ => none
  | some a :: t => (allSome t).map (a :: ·)

/-! ### NumPy indexing forms -/

/-- integer-array ("fancy") indexing `a[idx]` -/
def gather (l : List α) (idx : List Nat) : List α := idx.filterMap (l[·]?)

/-- boolean-mask indexing `a[mask]` -/
def maskSelect : List α → List Bool → List α
  | a :: as, b :: bs => if b then a :: maskSelect as bs else maskSelect as bs
  | _, _ => []

structure PySlice where
  start : Option Int
  stop : Option Int
  step : Option Int

/-- `range(start, stop, step)` for `step ≠ 0`, as naturals (all members are ≥ 0 when produced by
    `sliceIndices`) -/
def rangeInt (start stop step : Int) : List Nat :=
  let cnt : Int := if step > 0 then (stop - start + step - 1) / step else (start - stop - step - 1) / (-step)
  (List.range cnt.toNat).map fun (k : Nat) => (start + (k : Int) * step).toNat

/-- `slice(start, stop, step).indices(n)`: the triple `(start, stop, step)` CPython computes;
    `none` = `ValueError` (zero step) -/
def sliceBounds (s : PySlice) (n : Nat) : Option (Int × Int × Int) :=
  if s.step.getD 1 = 0 then none else
  some (
    (match s.start with
      | none => if s.step.getD 1 < 0 then (if s.step.getD 1 > 0 then (n : Int) else (n : Int) - 1) else (if s.step.getD 1 > 0 then 0 else -1)
      | some x => if x < 0 then max (x + n) (if s.step.getD 1 > 0 then 0 else -1) else min x (if s.step.getD 1 > 0 then (n : Int) else (n : Int) - 1)),
    (match s.stop with
      | none => if s.step.getD 1 < 0 then (if s.step.getD 1 > 0 then 0 else -1) else (if s.step.getD 1 > 0 then (n : Int) else (n : Int) - 1)
      | some x => if x < 0 then max (x + n) (if s.step.getD 1 > 0 then 0 else -1) else min x (if s.step.getD 1 > 0 then (n : Int) else (n : Int) - 1)),
    s.step.getD 1)

/-- the index list a basic slice selects -/
def sliceIndices (s : PySlice) (n : Nat) : Option (List Nat) :=
  (sliceBounds s n).map fun b => rangeInt b.1 b.2.1 b.2.2

/-- `np.argsort(keys, kind='stable')`: the stable sorting permutation.  (`np.argsort` with the
    default kind returns *some* sorting permutation; they coincide when `keys` has no ties.) -/
def argsortBy (le : α → α → Bool) (keys : List α) : List Nat :=
  (keys.zipIdx.mergeSort (fun a b => le a.1 b.1)).map (·.2)

def argsort (keys : List Rat) : List Nat := argsortBy (fun a b => decide (a ≤ b)) keys

def argsortNat (keys : List Nat) : List Nat := argsortBy (fun a b => decide (a ≤ b)) keys

/-! ### record fields -/

inductive Key where
  | energy | occ | extra (k : Nat)
deriving DecidableEq

def Row.key (r : Row) : Key → Rat
  | .energy => r.energy
  | .occ => (r.occ : Rat)
  | .extra k => ((r.extra.getD k []).getD 0 0)

/-! ### slice / truncate -/

/-- `SampleSet.slice(*args, sorted_by=by)` on the record; `fixed = false` is the code before the
    repair of D16 (the distinction is invisible at value level, see `DimodModel/Store.lean`) -/
def sliceRows (rows : List Row) (by_ : Option Key) (sl : PySlice) : Option (List Row) :=
  match by_ with
  | none => (sliceIndices sl rows.length).map (gather rows)
  | some k => (sliceIndices sl rows.length).map fun sel => gather rows (gather (argsort (rows.map (·.key k))) sel)

def SS.slice (s : SS) (by_ : Option Key) (sl : PySlice) : Option SS :=
  (sliceRows s.rows by_ sl).map fun r => { s with rows := r }

def SS.truncate (s : SS) (n : Int) (by_ : Option Key) : Option SS :=
  s.slice by_ ⟨none, some n, none⟩

/-! ### aggregate -/

def lexLe : List Rat → List Rat → Bool
  | [], _ => true
  | _ :: _, [] => false
  | a :: as, b :: bs => if a < b then true else if b < a then false else lexLe as bs

/-- keep the first occurrence of every element that is not in `seen` -/
def firstsAux [DecidableEq α] (seen : List α) : List α → List α
  | [] => []
  | a :: l => if a ∈ seen then firstsAux seen l else a :: firstsAux (a :: seen) l

/-- keep the first occurrence of every element -/
def firsts [DecidableEq α] (l : List α) : List α := firstsAux [] l

/-- result of `np.unique(a, axis=0, return_index=True, return_inverse=True)` -/
structure Unique where
  u : List (List Rat)
  indices : List Nat
  inverse : List Nat

/-- the executable `np.unique`: distinct rows in lexicographic order, index of the first
    occurrence of each, position of every input row among the distinct ones -/
def npUnique (xs : List (List Rat)) : Unique :=
  let u := (firsts xs).mergeSort lexLe
  { u := u, indices := u.map (xs.idxOf ·), inverse := xs.map (u.idxOf ·) }

/-- `revorder = np.empty(len(order)); revorder[order] = np.arange(len(order))` -/
def scatter (order : List Nat) : List Nat :=
  order.zipIdx.foldl (fun acc p => acc.set p.1 p.2) (List.replicate order.length 0)

def addOcc (rec : List Row) (k : Nat) (d : Int) : List Row :=
  rec.modify k fun r => { r with occ := r.occ + d }

/-- `SampleSet.aggregate` as coded, for a given result of `np.unique` -/
def aggregateWith (U : Unique) (rows : List Row) : List Row :=
  let order := argsortNat U.indices
  let indices := gather U.indices order
  let revorder := scatter order
  let inverse := gather revorder U.inverse
  let rec0 := (gather rows indices).map fun r => { r with occ := 0 }
  (inverse.zip (rows.map (·.occ))).foldl (fun rec p => addOcc rec p.1 p.2) rec0

def aggregateRows (rows : List Row) : List Row := aggregateWith (npUnique (rows.map (·.sample))) rows

def SS.aggregate (s : SS) : SS := { s with rows := aggregateRows s.rows }

/-- specification of aggregation: one row per distinct sample, in first-seen order, with the
    occurrences of all rows carrying that sample summed and the other fields of the first one -/
def aggSpecAux (seen : List (List Rat)) : List Row → List Row
  | [] => []
  | r :: rs =>
    if r.sample ∈ seen then aggSpecAux seen rs
    else { r with occ := r.occ + ((rs.filter (·.sample = r.sample)).map (·.occ)).sum }
      :: aggSpecAux (r.sample :: seen) rs

def aggSpec (rows : List Row) : List Row := aggSpecAux [] rows

/-! ### lowest / filter / first -/

def rabs (x : Rat) : Rat := if x < 0 then -x else x

/-- `np.isclose(a, b, rtol, atol)` on finite numbers -/
def isclose (a b rtol atol : Rat) : Bool := decide (rabs (a - b) ≤ atol + rtol * rabs b)

def minList : List Rat → Rat
  | [] => 0
  | a :: l => l.foldl (fun m x => if x < m then x else m) a

def lowestRows (rows : List Row) (rtol atol : Rat) : List Row :=
  if rows.isEmpty then rows
  else maskSelect rows (rows.map fun r => isclose r.energy (minList (rows.map (·.energy))) rtol atol)

def SS.lowest (s : SS) (rtol atol : Rat) : SS := { s with rows := lowestRows s.rows rtol atol }

/-- `filter(pred)`: `keep = [pred(datum) for datum in data(sorted_by=None)]; record[keep]` -/
def filterRows (rows : List Row) (pred : Row → Bool) : List Row := maskSelect rows (rows.map pred)

def SS.filter (s : SS) (pred : Row → Bool) : SS := { s with rows := filterRows s.rows pred }

/-- `first`: the first row of `data(sorted_by='energy')` -/
def SS.first (s : SS) : Option Row := (gather s.rows (argsort (s.rows.map (·.energy)))).head?

/-! ### label order of `from_samples(sort_labels=True)` -/

mutual
/-- Python's `<` on labels; `none` = `TypeError` (unlike types) -/
def labelLt? : Label → Label → Option Bool
  | .int a, .int b => some (decide (a < b))
  | .str a, .str b => some (decide (a < b))
  | .tup a, .tup b => labelLtList? a b
  | .int _, .str _ => none
  | .int _, .tup _ => none
  | .str _, .int _ => none
  | .str _, .tup _ => none
  | .tup _, .int _ => none
  | .tup _, .str _ => none
/-- tuple comparison: the first position where the elements differ decides -/
def labelLtList? : List Label → List Label → Option Bool
  | [], [] => some false
  | [], _ :: _ => some true
  | _ :: _, [] => some false
  | x :: xs, y :: ys => if x = y then labelLtList? xs ys else labelLt? x y
end

def sortable (l : List Label) : Bool := l.all fun a => l.all fun b => (labelLt? a b).isSome

/-- the column permutation computed by `from_samples`: `sorted(enumerate(variables), key=label)` when
    the labels are mutually comparable, identity otherwise (`TypeError` swallowed) or when
    sorting is off / there is nothing to sort -/
def labelOrder (labels : List Label) (sortLabels : Bool) : List Nat :=
  if sortLabels && !labels.isEmpty && sortable labels then
    argsortBy (fun a b => (labelLt? b a) != some true) labels
  else List.range labels.length

/-- `from_samples((samples, labels), …, sort_labels)` on already assembled rows -/
def fromSamples (labels : List Label) (rows : List Row) (vt : VT) (fields : List String) (sortLabels : Bool) : SS :=
  let ord := labelOrder labels sortLabels
  { labels := gather labels ord, rows := rows.map fun r => { r with sample := gather r.sample ord }, vt := vt, fields := fields }

/-! ### column operations -/

/-- `relabel_variables(mapping)` (list semantics of `Variables._relabel`, C13); `none` = `ValueError` -/
def SS.relabel (s : SS) (m : List (Label × Label)) : Option SS :=
  if LSpec.relabelOk m s.labels then some { s with labels := LSpec.subst (LSpec.dictOf m) s.labels } else none

/-- `keep_variables(sampleset, variables)`; `sortLabels` is true for a non-sequence iterable -/
def SS.keep (s : SS) (vars : List Label) (sortLabels : Bool) : Option SS :=
  if vars.all (· ∈ s.labels) && decide vars.Nodup then
    let idx := vars.map (s.labels.idxOf ·)
    some (fromSamples vars (s.rows.map fun r => { r with sample := gather r.sample idx }) s.vt s.fields sortLabels)
  else none

/-- `drop_variables(sampleset, variables)` = keep of the set difference in the original order -/
def SS.drop (s : SS) (vars : List Label) : Option SS :=
  s.keep (s.labels.filter (· ∉ vars)) false

/-- `append_variables(sampleset, (rows, labels), sort_labels)`; the new rows are either one row
    (repeated) or one per sample -/
def SS.appendVars (s : SS) (labels : List Label) (newRows : List (List Rat)) (sortLabels : Bool) : Option SS :=
  let n := s.rows.length
  let rep : Option (List (List Rat)) :=
    if newRows.length = n then some newRows
    else if newRows.length = 1 && n ≠ 0 then some (List.replicate n (newRows.headD []))
    else none
  match rep with
  | none => none
  | some nr =>
    if labels.any (· ∈ s.labels) || !decide labels.Nodup then none else
    some (fromSamples (s.labels ++ labels)
      ((s.rows.zip nr).map fun p => { p.1 with sample := p.1.sample ++ p.2 }) s.vt s.fields sortLabels)

def SS.shiftEnergy (s : SS) (off : Rat) : SS :=
  { s with rows := s.rows.map fun r => { r with energy := r.energy + off } }

def SS.mapSamples (s : SS) (f : Rat → Rat) : SS :=
  { s with rows := s.rows.map fun r => { r with sample := r.sample.map f } }

/-- `change_vartype(vartype, energy_offset)` in place, as coded: the offset is applied before the
    vartype test, so a rejected conversion still shifts the energies -/
def SS.changeVartype (s : SS) (vt : VT) (off : Rat) : SS × Bool :=
  if vt = s.vt then ((if off ≠ 0 then s.shiftEnergy off else s), true)
  else if vt = .spin ∧ s.vt = .binary then
    ({ ((if off ≠ 0 then s.shiftEnergy off else s).mapSamples fun x => 2 * x - 1) with vt := vt }, true)
  else if vt = .binary ∧ s.vt = .spin then
    ({ ((if off ≠ 0 then s.shiftEnergy off else s).mapSamples fun x => (((x + 1) / 2).floor : Rat)) with vt := vt }, true)
  else ((if off ≠ 0 then s.shiftEnergy off else s), false)

/-- `append_data_vectors(sampleset, name=vector)` -/
def SS.appendVec (s : SS) (name : String) (vals : List (List Rat)) : Option SS :=
  if vals.length ≠ s.rows.length || s.fields.contains name || name = "sample" || name = "energy" || name = "num_occurrences" then none
  else some { s with fields := s.fields ++ [name],
                     rows := (s.rows.zip vals).map fun p => { p.1 with extra := p.1.extra ++ [p.2] } }

/-- `_iter_records`: coerce one further sample set to the vartype and the column order of the first -/
def coerceTo (vt : VT) (labels : List Label) (s : SS) : Option (List Row) :=
  let s1? : Option SS := if s.vt = vt then some s else
    match s.changeVartype vt 0 with
    | (s', true) => some s'
    | (_, false) => none
  match s1? with
  | none => none
  | some s1 =>
    if s1.labels = labels then some s1.rows
    else if labels.all (· ∈ s1.labels) && s1.labels.length = labels.length then
      let order := labels.map (s1.labels.idxOf ·)
      some (s1.rows.map fun r => { r with sample := gather r.sample order })
    else none

/-- `concatenate(samplesets)` for sample sets with the same extra fields -/
def concatenate : List SS → Option SS
  | [] => none
  | first :: rest =>
    if rest.all (fun s => s.fields = first.fields) then
      (allSome (rest.map (coerceTo first.vt first.labels))).map fun rs =>
        { first with rows := first.rows ++ rs.flatten }
    else none

/-! ### `as_samples` -/

/-- one element of a samples-like sequence: a mapping (insertion-ordered) or a plain row -/
inductive SampleLike where
  | dict (items : List (Label × Rat))
  | row (vals : List Rat)

def SampleLike.labels : SampleLike → List Label
  | .dict items => items.map (·.1)
  | .row vals => (List.range vals.length).map fun i => Label.int (i : Nat)

def SampleLike.vals : SampleLike → List Rat
  | .dict items => items.map (·.2)
  | .row vals => vals

/-- one further row of `_as_samples_iterator`, brought to the label order `fl` of the first row -/
def alignTo (fixed : Bool) (fl : List Label) (s : SampleLike) : Option (List Rat) :=
  if s.labels = fl then some s.vals
  else if s.labels.all (· ∈ fl) && fl.all (· ∈ s.labels) then
    some (gather s.vals (if fixed then fl.map (s.labels.idxOf ·) else s.labels.map (fl.idxOf ·)))
  else none

/-- `_as_samples_iterator`: stack the rows in the label order of the first one.  `fixed = false` is
    the code before the repair of D1 (`reindex = [first_labels.index(v) for v in labels]`, the
    inverse of the permutation that is needed). `none` = `ValueError`. -/
def asSamplesIter (fixed : Bool) : List SampleLike → Option (List Label × List (List Rat))
  | [] => some ([], [])
  | f :: rest =>
    let fl := f.labels
    (allSome (rest.map (alignTo fixed fl))).map fun rs => (fl, f.vals :: rs)

/-- the tuple form `(array_like, labels)` -/
def asSamplesTuple (rows : List (List Rat)) (labels : List Label) : Option (List Label × List (List Rat)) :=
  if rows.all (·.length = labels.length) then some (labels, rows) else none

/-! ### deferred (future-backed) sample sets -/

inductive Hook where
  | relabel (m : List (Label × Label))
  | changeVt (vt : VT) (off : Rat)

/-- apply one deferred operation to a resolved sample set (`none` = the hook raises) -/
def Hook.run : Hook → SS → Option SS
  | .relabel m, s => s.relabel m
  | .changeVt vt off, s => match s.changeVartype vt off with
    | (s', true) => some s'
    | (_, false) => none

/-- a sample set object: resolved, or `from_future(future, hook)` where the future is either an
    external one (with its `done()` flag and eventual result) or another sample set object; `hooks`
    is the composed `_result_hook` (oldest first) -/
inductive LSS where
  | res (s : SS)
  | fut (done : Bool) (result : SS) (hooks : List Hook)
  | wrap (inner : LSS) (hooks : List Hook)

def LSS.done : LSS → Bool
  | .res _ => true
  | .fut d _ _ => d
  | .wrap inner _ => inner.done

def runHooks (hooks : List Hook) (s : Option SS) : Option SS := hooks.foldl (fun acc h => acc.bind h.run) s

/-- `resolve()`: run the hook chain on the result of the future -/
def LSS.resolve : LSS → Option SS
  | .res s => some s
  | .fut _ r hooks => runHooks hooks (some r)
  | .wrap inner hooks => runHooks hooks inner.resolve

/-- the object returned by `relabel_variables(mapping, inplace)` on a possibly unresolved object
    (`none` = raises now) -/
def LSS.relabelOp (x : LSS) (m : List (Label × Label)) (inplace : Bool) : Option LSS :=
  if x.done then
    -- `self.variables._relabel(mapping)` resp. `self.copy().relabel_variables(mapping)`: resolves
    (x.resolve.bind (·.relabel m)).map .res
  else if inplace then
    -- the receiver's `_result_hook` is replaced by `new_hook = relabel ∘ old_hook`
    match x with
    | .fut d r hooks => some (.fut d r (hooks ++ [.relabel m]))
    | .wrap inner hooks => some (.wrap inner (hooks ++ [.relabel m]))
    | .res s => some (.res s)
  else some (.wrap x [.relabel m])

/-- the object returned by `change_vartype(vartype, energy_offset, inplace)` -/
def LSS.changeVtOp (x : LSS) (vt : VT) (off : Rat) (inplace : Bool) : Option LSS :=
  if !inplace then
    -- `self.copy()` resolves the receiver, then converts the copy
    (x.resolve.bind (Hook.changeVt vt off).run).map .res
  else if !x.done then some (.wrap x [.changeVt vt off])
  else (x.resolve.bind (Hook.changeVt vt off).run).map .res

end SSM

namespace SSM

/-! ### `data()` / `samples()` -/

/-- the order in which `data(sorted_by, reverse, index=True)` yields the rows (`index=True` asks NumPy for
    the stable sort; without it any sorting permutation may come out): record order, or the stable sorting
    permutation, flipped when `reverse` -/
def dataOrder (rows : List Row) (by_ : Option Key) (reverse : Bool) : List Nat :=
  let order := match by_ with
    | none => List.range rows.length
    | some k => argsort (rows.map (·.key k))
  if reverse then order.reverse else order

/-- what `data(...)` yields: the rows in that order, each with its record index -/
def SS.data (s : SS) (by_ : Option Key) (reverse : Bool) : List (Row × Nat) :=
  (dataOrder s.rows by_ reverse).filterMap fun i => (s.rows[i]?).map (·, i)

/-- `samples(n, sorted_by)`: the sample rows in sorted order (`samples(sorted_by)[:n]` when `n` is given;
    negative `n` follows Python's slice) -/
def SS.samplesView (s : SS) (n : Option Int) (by_ : Option Key) : Option (List (List Rat)) :=
  (sliceRows s.rows by_ ⟨none, n, none⟩).map (·.map (·.sample))

/-! ### `concatenate` of sample sets with different data vectors (`stack_arrays(defaults=…)`) -/

/-- the fields of the stacked record: every field in order of first appearance -/
def unionFields (sets : List SS) : List String := firsts (sets.flatMap (·.fields))

/-- a row of `s` laid out over the union of the fields: a field the set does not have is filled with
    `fill f` (the entry of `defaults`, else NumPy's default fill value of the dtype — a parameter of the model) -/
def relayExtra (fields : List String) (fill : String → List Rat) (s : SS) (r : Row) : Row :=
  { r with extra := fields.map fun f => if f ∈ s.fields then r.extra.getD (s.fields.idxOf f) [] else fill f }

def concatenateD (fill : String → List Rat) : List SS → Option SS
  | [] => none
  | first :: rest =>
    let U := unionFields (first :: rest)
    (allSome (rest.map fun s => (coerceTo first.vt first.labels s).map (·.map (relayExtra U fill s)))).map fun rs =>
      { first with rows := first.rows.map (relayExtra U fill first) ++ rs.flatten, fields := U }

end SSM

namespace SSM

/-- `filter(pred)` with a predicate that returns numbers rather than booleans: the mask is built with
    `np.fromiter(..., dtype=bool)`, which coerces every value to its truthiness before `record[keep]` -/
def filterTruthy (rows : List Row) (val : Row → Rat) : List Row :=
  maskSelect rows (rows.map fun r => decide (val r ≠ 0))

end SSM
