import DimodModel.Cpp

/-! Checked-indexing variant of the index-level C++ model: every `operator[]` the header performs
    (`linear_biases_[v]`, `(*adj_ptr_)[u]`, `*(sample_start + v)`, `varinfo_[v]`) is a `List` lookup that
    fails (`none` = undefined behaviour) outside the vector.  `DimodProofs/NoUB.lean` proves that no lookup
    fails under the representation invariant and each method's documented precondition.  Core Lean only. -/

namespace CppM
open Bqm (modifyAt eraseIdx nbhAdd nbhCoef nbhDrop nbhShift)

/-- `vec[i] = f(vec[i])` -/
def upd? {α} (l : List α) (i : Nat) (f : α → α) : Option (List α) :=
  match l[i]? with
  | some _ => some (modifyAt l i f)
  | none => none

/-- `asymmetric_quadratic_ref(u, v) op= b` -/
def asym? (adj : List (List (Nat × Rat))) (u v : Nat) (b : Rat) (set : Bool) : Option (List (List (Nat × Rat))) :=
  upd? adj u (fun nb => nbhAdd nb v b set)

/-- `add_quadratic` / `set_quadratic`; precondition of the header: `u, v < num_variables()` -/
def quad? (m : CppM) (u v : Nat) (b : Rat) (set : Bool) : Option (CppM × Bool) :=
  if u = v then
    match m.vtOf u with
    | .binary => if set then some (m, true) else do
        let lin ← upd? m.q.lin u (· + b)
        pure ({ m with q := { m.q with lin := lin } }, false)
    | .spin => if set then some (m, true) else some (m.withOff (· + b), false)
    | _ => do
        let adj ← asym? m.q.adj u u b set
        pure ({ m with q := { m.q with adj := adj } }, false)
  else do
    let adj ← asym? m.q.adj u v b set
    let adj ← asym? adj v u b set
    pure ({ m with q := { m.q with adj := adj } }, false)

/-- `remove_interaction(u, v)` -/
def removeInteraction? (m : CppM) (u v : Nat) : Option (CppM × Bool) := do
  let nu ← m.q.adj[u]?
  match nbhCoef nu v with
  | none => pure (m, false)
  | some _ =>
    if u = v then do
      let adj ← upd? m.q.adj u (nbhDrop · u)
      pure ({ m with q := { m.q with adj := adj } }, true)
    else do
      let adj ← upd? m.q.adj u (nbhDrop · v)
      let adj ← upd? adj v (nbhDrop · u)
      pure ({ m with q := { m.q with adj := adj } }, true)

/-- the loop of `fix_variable`: `add_linear(it->v, it->bias * assignment)` for every neighbour -/
def fixLin? (a : Rat) : List (Nat × Rat) → List Rat → Option (List Rat)
  | [], lin => some lin
  | p :: t, lin => match upd? lin p.1 (· + p.2 * a) with
    | some lin' => fixLin? a t lin'
    | none => none

/-- `QuadraticModelBase::fix_variable(v, a)`; precondition `v < num_variables()` -/
def fix? (m : CppM) (v : Nat) (a : Rat) : Option CppM := do
  let nb ← m.q.adj[v]?
  let lin ← fixLin? a nb m.q.lin
  let lv ← lin[v]?
  pure (CppM.removeAt { m with q := { m.q with lin := lin, off := m.q.off + a * lv } } v)

/-- energy of one sample (`sample_start` random access), lower triangle; unchecked reference -/
def energy (m : CppM) (x : List Rat) : Rat :=
  (List.range m.q.lin.length).foldl (fun en u =>
    let xu := x.getD u 0
    let en := en + xu * m.q.lin.getD u 0
    (m.q.adj.getD u []).foldl (fun en p => if p.1 ≤ u then en + p.2 * xu * x.getD p.1 0 else en) en) m.q.off

def energyRow? (x : List Rat) (u : Nat) (xu : Rat) : List (Nat × Rat) → Rat → Option Rat
  | [], en => some en
  | p :: t, en =>
    if p.1 ≤ u then
      match x[p.1]? with
      | some xv => energyRow? x u xu t (en + p.2 * xu * xv)
      | none => none
    else energyRow? x u xu t en

def energyRows? (m : CppM) (x : List Rat) : List Nat → Rat → Option Rat
  | [], en => some en
  | u :: us, en =>
    match x[u]?, m.q.lin[u]?, m.q.adj[u]? with
    | some xu, some lu, some nb =>
      match energyRow? x u xu nb (en + xu * lu) with
      | some en' => energyRows? m x us en'
      | none => none
    | _, _, _ => none

/-- `energy(sample_start)`; precondition: the sample is `num_variables()` long -/
def energy? (m : CppM) (x : List Rat) : Option Rat := energyRows? m x (List.range m.q.lin.length) m.q.off

/-! ### more of the header with checked indexing -/

/-- `vec.erase(vec.begin() + i)` -/
def erase? {α} (l : List α) (i : Nat) : Option (List α) := if i < l.length then some (eraseIdx l i) else none

/-- `remove_variable(v)`: the two (QM: five) `erase(begin + v)`; the clean-up of the neighbourhoods works on iterators -/
def removeAt? (m : CppM) (v : Nat) : Option CppM := do
  let lin ← erase? m.q.lin v
  let adj ← erase? m.q.adj v
  match m.bvt with
  | some _ => pure { m with q := { m.q with lin := lin, adj := adj.map (nbhShift v) } }
  | none => do
    let vt ← erase? m.q.vt v
    let lb ← erase? m.q.lb v
    let ub ← erase? m.q.ub v
    pure { m with q := { m.q with vt := vt, lb := lb, ub := ub, lin := lin, adj := adj.map (nbhShift v) } }

/-- `remove_variables(sorted)`: the lookups of the re-indexing scheme — `reindex[v] = -1` for every index given and
    `reindex[term.v]` for every stored neighbour index; `reindex` has `adj.size()` entries -/
def reindexLookups? (m : CppM) (vs : List Nat) : Option Unit := do
  let reindex : List Int := List.replicate m.q.adj.length 0
  let _ ← vs.mapM fun v => reindex[v]?
  let _ ← m.q.adj.mapM fun nb => nb.mapM fun p => reindex[p.1]?
  pure ()

/-- one neighbour of the loop of `substitute_variable`, checked -/
def substStep? (v : Nat) (mult c : Rat) (acc : Qm) (p : Nat × Rat) : Option Qm :=
  if p.1 = v then do
    let lin ← upd? acc.lin v (· + 2 * p.2 * mult * c)
    let adj ← upd? acc.adj v (fun nb => nb.map fun (e : Nat × Rat) => if e.1 = v then (e.1, e.2 * (mult * mult)) else e)
    pure { acc with off := acc.off + p.2 * c * c, lin := lin, adj := adj }
  else do
    let lin ← upd? acc.lin p.1 (· + p.2 * c)
    let adj ← upd? acc.adj p.1 (fun nb => nb.map fun (e : Nat × Rat) => if e.1 = v then (e.1, e.2 * mult) else e)
    let adj ← upd? adj v (fun nb => nb.map fun (e : Nat × Rat) => if e.1 = p.1 then (e.1, e.2 * mult) else e)
    pure { acc with lin := lin, adj := adj }

/-- `substitute_variable(v, mult, c)`: `linear_biases_[v]`, `(*adj_ptr_)[v]`, then per neighbour `linear_biases_[term.v]`
    and `asymmetric_quadratic_ref(term.v, v)` -/
def substituteVariable? (m : CppM) (v : Nat) (mult c : Rat) : Option CppM := do
  let lv ← m.q.lin[v]?
  let lin ← upd? m.q.lin v (· * mult)
  let nb ← m.q.adj[v]?
  let q ← nb.foldlM (substStep? v mult c) { m.q with off := m.q.off + lv * c, lin := lin }
  pure { m with q := q }

/-- `substitute_variables(mult, c)`: the lookups `linear_biases_[v]`, `(*adj_ptr_)[v]` for `v < num_variables()` -/
def substituteAllLookups? (m : CppM) : Option Unit := do
  let _ ← (List.range m.q.lin.length).mapM fun v => do
    let _ ← m.q.lin[v]?
    let _ ← m.q.adj[v]?
    pure ()
  pure ()

/-- `add_quadratic_from_dense`, every `add_quadratic` checked -/
def addDense? (m : CppM) (k : Nat) (d : List Rat) : Option CppM :=
  (List.range k).foldlM (fun acc u => do
    let (acc, _) ← acc.quad? u u (d.getD (u * (k + 1)) 0) false
    ((List.range k).filter (u < ·)).foldlM (fun acc v =>
      let qb := d.getD (u * k + v) 0 + d.getD (v * k + u) 0
      if qb ≠ 0 then (acc.quad? u v qb false).map (·.1) else some acc) acc) m

/-- iterator `add_quadratic(rows, cols, biases)`, every `add_quadratic` checked -/
def addCoo? (m : CppM) (rows cols : List Nat) (vals : List Rat) : Option CppM :=
  (List.range rows.length).foldlM (fun acc i => (acc.quad? (rows.getD i 0) (cols.getD i 0) (vals.getD i 0) false).map (·.1))
    (m.cooBase rows cols)

end CppM
