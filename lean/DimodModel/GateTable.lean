/-! Coefficient table of a small penalty model over variables `0..n-1` (gate generators,
    `_spin_product`).  The instances are *generated from the source* (`Generated/Gates.lean`). -/

structure GateTable where
  n : Nat
  lin : List Rat
  quad : List (Nat × Nat × Rat)
  off : Rat

namespace GateTable

def linSum (x : Nat → Rat) : Nat → List Rat → Rat
  | _, [] => 0
  | i, c :: t => c * x i + linSum x (i + 1) t

def quadSum (x : Nat → Rat) : List (Nat × Nat × Rat) → Rat
  | [] => 0
  | (a, b, c) :: t => c * (x a * x b) + quadSum x t

/-- energy of the table at an assignment of its `n` variables -/
def energy (t : GateTable) (x : Nat → Rat) : Rat := t.off + linSum x 0 t.lin + quadSum x t.quad

/-- assignment given as a list (missing positions read 0) -/
def ofList (l : List Rat) : Nat → Rat := fun i => l.getD i 0

/-- all lists of length `n` over `dom` -/
def assignments (dom : List Rat) : Nat → List (List Rat)
  | 0 => [[]]
  | n+1 => dom.flatMap (fun d => (assignments dom n).map (fun l => d :: l))

def minList : List Rat → Rat
  | [] => 0
  | [a] => a
  | a :: t => let m := minList t; if a < m then a else m

/-- energy minimised over the last `naux` variables, the first ones fixed to `vis` -/
def minOverAux (t : GateTable) (dom : List Rat) (naux : Nat) (vis : List Rat) : Rat :=
  minList ((assignments dom naux).map (fun aux => t.energy (GateTable.ofList (vis ++ aux))))

end GateTable
