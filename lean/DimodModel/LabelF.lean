import DimodModel.VarsMore

/-! Labels OUTSIDE the shared `Label` type: numbers with a non-integral value (`1.5`, `np.float32(0.5)`,
    `Fraction(3, 2)`) and tuples containing them.  `cyVariables.count` sends such an object through
    `isinstance(v, Number)`, finds `int(v) != v` and falls through to the plain dictionary lookup: it is a label of its
    own that aliases no integer -- for the sparse state it is an opaque, non-`int` key.

    The shared `Label` type is not touched (a new constructor there would break every exhaustive match of the other
    property files).  Instead: a wrapper type `LabelF` (all of `Label` + `frac`), the embedding `ofLabel : Label → LabelF`
    and an INJECTIVE, `int`-preserving encoding `enc : LabelF → Label` into tagged tuples.  The model of the class over
    `LabelF` is the existing `VState` run on encoded labels (`OpF.enc`, `runF`); the compiled driver receives the
    encoded labels, so the correspondence check covers these objects as well.  Core Lean only. -/

inductive LabelF where
  | int (z : Int)
  | str (s : String)
  | frac (num : Int) (den : Nat)   -- the number `num / den`, not an integer (`den ≥ 2`, lowest terms): floats, NumPy floats, `Fraction`s
  | tup (l : List LabelF)

namespace LabelF

def fracTag : String := "#frac"
def tupTag : String := "#tup"

mutual
/-- the encoding: integers and strings stay what they are (so the `PyLong` / range fast paths of the model see exactly the
    integers), a non-integral number and a tuple become tagged tuples -/
def enc : LabelF → Label
  | .int z => .int z
  | .str s => .str s
  | .frac n d => .tup [.str fracTag, .int n, .int (d : Int)]
  | .tup l => .tup (.str tupTag :: encList l)
def encList : List LabelF → List Label
  | [] => []
  | a :: l => enc a :: encList l
end

mutual
/-- the embedding of the shared label type -/
def ofLabel : Label → LabelF
  | .int z => .int z
  | .str s => .str s
  | .tup l => .tup (ofLabelList l)
def ofLabelList : List Label → List LabelF
  | [] => []
  | a :: l => ofLabel a :: ofLabelList l
end

mutual
/-- does the label contain a non-integral number (at any depth)? -/
def hasFrac : LabelF → Bool
  | .int _ => false
  | .str _ => false
  | .frac _ _ => true
  | .tup l => hasFracList l
def hasFracList : List LabelF → Bool
  | [] => false
  | a :: l => hasFrac a || hasFracList l
end

end LabelF

/-- the mutators of the class with `LabelF` arguments -/
inductive OpF where
  | append (v : Option LabelF) (permissive : Bool)
  | pop
  | clear
  | relabel (m : List (LabelF × LabelF))
  | relabelInts
  | remove (v : LabelF)

namespace OpF

def enc : OpF → VState.Op
  | .append v p => .append (v.map LabelF.enc) p
  | .pop => .pop
  | .clear => .clear
  | .relabel m => .relabel (m.map fun p => (p.1.enc, p.2.enc))
  | .relabelInts => .relabelInts
  | .remove v => .remove v.enc

/-- the literal of a relabel is a Python dict: pairwise different keys -/
def WF : OpF → Prop
  | .relabel m => (m.map Prod.fst).Nodup
  | _ => True

end OpF

/-- the sparse state after a history over `LabelF` (from the empty object) and the ok / raise flags of the calls -/
def VState.runF (ops : List OpF) : VState := ops.foldl (fun s op => (s.step op.enc).1) VState.empty

def VState.flagsF (ops : List OpF) : List Bool :=
  (ops.foldl (fun (st : VState × List Bool) op => ((st.1.step op.enc).1, st.2 ++ [(st.1.step op.enc).2])) (VState.empty, [])).2

/-- the list specification run on the encoded history -/
def LSpec.runF (ops : List OpF) : List Label := ops.foldl (fun l op => (LSpec.step l op.enc).1) []

/-! ### the extended alphabet (`_extend`, copy, pickle round trip, slicing) over `LabelF` -/

inductive OpF2 where
  | base (op : OpF)
  | extend (vs : List (Option LabelF)) (permissive : Bool)
  | copy
  | pickle
  | slice (sl : SSM.PySlice)

namespace OpF2

def enc : OpF2 → VState.Op2
  | .base op => .base op.enc
  | .extend vs p => .extend (vs.map (Option.map LabelF.enc)) p
  | .copy => .copy
  | .pickle => .pickle
  | .slice sl => .slice sl

def WF : OpF2 → Prop
  | .base op => op.WF
  | _ => True

end OpF2

def VState.runF2 (ops : List OpF2) : VState := ops.foldl (fun s op => (s.step2 op.enc).1) VState.empty

def LSpec.runF2 (ops : List OpF2) : List Label := ops.foldl (fun l op => (LSpec.step2 l op.enc).1) []
