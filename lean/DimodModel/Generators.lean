import DimodModel.GateBag
import Generated.Gates

/-! # C17 — problem generators as term-producing functions (core Lean only)

Every generator is modelled by the bag of mutator calls it ends up making on the returned model
(`Pen.PTerm`, `Pen.Bq.apply`), in the order of the source:

* gates (`dimod/generators/gates.py`): the coefficient table comes from `Generated/Gates.lean`
  (regenerated from the source on every run); the generator instantiates it at the given labels and
  scales by `strength`;
* `multiplication_circuit`: the wiring (`AND/SUM/CARRY` naming functions and the `gate(i, j)` closure);
* `combinations` (`generators/constraints.py`): the QUBO matrix `triu(qbias) + diag(lbias)` with
  offset `strength·k²`, then `change_vartype`;
* `independent_set`, `maximum_independent_set`, `maximum_weight_independent_set` (`generators/graph.py`);
* `knapsack`, `multi_knapsack`, `bin_packing`: objective and constraints of the returned CQM. -/

namespace Gen
open Pen

/-! ## gates -/

/-- a gate generator instantiates its generated table at the labels, scaled by `strength` -/
abbrev gateBag (t : GateTable) (labels : List Label) (s : Rat) : List (PTerm Label) := tableBag t labels s

inductive GateKind | and | or | xor | halfadder | fulladder
  deriving DecidableEq, Repr

def GateKind.table : GateKind → GateTable
  | .and => Generated.Gates.andBinary
  | .or => Generated.Gates.orBinary
  | .xor => Generated.Gates.xorBinary
  | .halfadder => Generated.Gates.halfadderBinary
  | .fulladder => Generated.Gates.fulladderBinary

def hasDup : List Label → Bool
  | [] => false
  | a :: t => t.contains a || hasDup t

/-- a gate generator call: `none` = `ValueError` (non-positive strength; two equal labels reach
    `add_quadratic(u, u, ·)`, every pair of gate variables interacts) -/
def gate (k : GateKind) (labels : List Label) (s : Rat) : Option (List (PTerm Label)) :=
  if labels.length ≠ k.table.n then none
  else if hasDup labels then none
  else if s ≤ 0 then none
  else some (gateBag k.table labels s)

/-! ## multiplication circuit -/

def strLabel (s : String) : Label := .str s

def mcAND (i j : Nat) : Label := if i ≠ 0 ∨ j ≠ 0 then strLabel s!"and{i},{j}" else strLabel "p0"

def mcSUM (n : Nat) (i j : Nat) : Label :=
  if j = 0 then strLabel s!"p{i}" else if i = n - 1 then strLabel s!"p{i + j}" else strLabel s!"sum{i},{j}"

def mcCARRY (n m : Nat) (i j : Nat) : Label :=
  if i + j = n + m - 2 then strLabel s!"p{n + m - 1}" else strLabel s!"carry{i},{j}"

/-- the `inputs` list of `gate(i, j)`: the AND output, then the sum/carry wires feeding the adder -/
def mcInputs (n m i j : Nat) : List Label :=
  [mcAND i j]
  ++ (if i > 0 then
        (if j < m - 1 then [if i > 1 then mcSUM n (i - 1) (j + 1) else mcAND 0 (j + 1)]
         else if i > 1 then [mcCARRY n m (i - 1) j] else [])
        ++ (if j > 0 then [mcCARRY n m i (j - 1)] else [])
      else [])

/-- the gates of `gate(i, j)`: an AND gate and, with 2 resp. 3 inputs, a half resp. full adder -/
def mcGateOf (n m i j : Nat) (ins : List Label) : List (GateKind × List Label) :=
  let andG := (GateKind.and, [strLabel s!"a{i}", strLabel s!"b{j}", mcAND i j])
  if ins.length = 2 then [andG, (GateKind.halfadder, ins ++ [mcSUM n i j, mcCARRY n m i j])]
  else if ins.length = 3 then [andG, (GateKind.fulladder, ins ++ [mcSUM n i j, mcCARRY n m i j])]
  else [andG]

def mcGate (n m i j : Nat) : List (GateKind × List Label) := mcGateOf n m i j (mcInputs n m i j)

/-- `multiplication_circuit(n, m)`: gates in `product(range(n), range(m))` order; `m = 0` means `m = n`
    (`num_arg2_bits or num_arg1_bits`); `none` = `ValueError` -/
def mulCircuit (n : Nat) (m : Nat) : Option (List (GateKind × List Label)) :=
  if n < 1 then none else
  let m := if m = 0 then n else m
  some ((List.range n).flatMap (fun i => (List.range m).flatMap (fun j => mcGate n m i j)))

def circuitBag (gs : List (GateKind × List Label)) : List (PTerm Label) :=
  gs.flatMap (fun g => gateBag g.1.table g.2 1)

/-! ## combinations -/

/-- BINARY bag of `combinations(labels, k, strength)`: QUBO `diag = strength·(1 − 2k)`,
    strict upper triangle `2·strength`, offset `strength·k²` -/
def combBinaryBag (labels : List Label) (k : Int) (s : Rat) : List (PTerm Label) :=
  labels.map (fun v => PTerm.lin v (s * (1 - 2 * (k : Rat))))
  ++ (pairsLt labels).map (fun p => PTerm.quad p.1 p.2 (2 * s))
  ++ [PTerm.const (s * ((k : Rat) * (k : Rat)))]

/-- `change_vartype(SPIN)` of a BINARY bag, term by term (`x = (s + 1) / 2`) -/
def toSpinBag (b : List (PTerm Label)) : List (PTerm Label) := b.flatMap (viewTerm .binary)

/-- `none` = `ValueError("cannot select k from n variables")` -/
def combinations (labels : List Label) (k : Int) (s : Rat) (vt : VT) : Option (List (PTerm Label)) :=
  if k > labels.length ∨ k < 0 then none
  else match vt with
    | .binary => some (combBinaryBag labels k s)
    | .spin => some (toSpinBag (combBinaryBag labels k s))

/-! ## independent-set family -/

/-- `independent_set(edges, nodes)`; `none` = `ValueError` (self-loop edge) -/
def independentSet (edges : List (Label × Label)) (nodes : List Label) : Option (List (PTerm Label)) :=
  if edges.any (fun e => e.1 = e.2) then none
  else some (edges.map (fun e => PTerm.quad e.1 e.2 1) ++ nodes.map (fun v => PTerm.lin v 0))

/-- variables of the edge list in first-appearance order -/
def edgeVars (edges : List (Label × Label)) : List Label :=
  edges.foldl (fun acc e =>
    let acc := if acc.contains e.1 then acc else acc ++ [e.1]
    if acc.contains e.2 then acc else acc ++ [e.2]) []

/-- `objective.linear` after `add_linear_from((v, 1) …)` and `set_linear(v, weight)` for the given nodes -/
def mwisWeights (edges : List (Label × Label)) (nodes : List (Label × Rat)) : List (Label × Rat) :=
  nodes.foldl (fun m p =>
      if m.any (fun q => q.1 = p.1) then m.map (fun q => if q.1 = p.1 then (q.1, p.2) else q) else m ++ [p])
    ((edgeVars edges).map (fun v => (v, 1)))

def maxRat : List Rat → Rat
  | [] => 1            -- `max(default=1)`
  | [a] => a
  | a :: t => let m := maxRat t; if m < a then a else m

/-- `maximum_weight_independent_set(edges, nodes, strength=…, strength_multiplier=…)`;
    `nodes = none` ⇒ every weight 1 and `max_weight = 1`. -/
def mwis (edges : List (Label × Label)) (nodes : Option (List (Label × Rat))) (strength : Option Rat) (mult : Rat) :
    Option (List (PTerm Label)) :=
  if edges.any (fun e => e.1 = e.2) then none else
  let w := match nodes with | none => (edgeVars edges).map (fun v => (v, (1 : Rat))) | some ns => mwisWeights edges ns
  let maxw : Rat := match nodes with | none => 1 | some _ => maxRat (w.map (·.2))
  let s := match strength with | some s => s | none => maxw * mult
  some (edges.map (fun e => PTerm.quad e.1 e.2 s) ++ w.map (fun p => PTerm.lin p.1 (-p.2)))

/-! ## knapsack, multi_knapsack, bin_packing -/

structure GCons where
  label : String
  lhs : List (PTerm Label)
  sense : Sense
  rhs : Rat

structure GCqm where
  vars : List Label
  obj : List (PTerm Label)
  cons : List GCons

def xI (i : Nat) : Label := strLabel s!"x_{i}"
def xIJ (i j : Nat) : Label := strLabel s!"x_{i}_{j}"
def yJ (j : Nat) : Label := strLabel s!"y_{j}"

def enumFrom {α : Type} (l : List α) : List (Nat × α) := (List.range l.length).zip l

/-- `knapsack(values, weights, capacity)`; `none` = shapes differ -/
def knapsack (values weights : List Rat) (capacity : Rat) : Option GCqm :=
  if values.length ≠ weights.length then none else
  some { vars := (List.range values.length).map xI,
         obj := (enumFrom values).map (fun p => PTerm.lin (xI p.1) (-p.2)),
         cons := [{ label := "capacity",
                    lhs := (enumFrom weights).map (fun p => PTerm.lin (xI p.1) p.2) ++ [PTerm.const (-capacity)],
                    sense := .le, rhs := 0 }] }

def multiKnapsack (values weights capacities : List Rat) : Option GCqm :=
  if values.length ≠ weights.length then none else
  let n := values.length
  let m := capacities.length
  some { vars := (List.range n).flatMap (fun i => (List.range m).map (fun j => xIJ i j)),
         obj := (enumFrom values).flatMap (fun p => (List.range m).map (fun j => PTerm.lin (xIJ p.1 j) (-p.2))),
         cons := (List.range n).map (fun i =>
                   ({ label := s!"item_placing_{i}",
                      lhs := (List.range m).map (fun j => PTerm.lin (xIJ i j) 1) ++ [PTerm.const (-1)],
                      sense := .le, rhs := 0 } : GCons))
                 ++ (enumFrom capacities).map (fun c =>
                   ({ label := s!"capacity_bin_{c.1}",
                      lhs := (enumFrom weights).map (fun p => PTerm.lin (xIJ p.1 c.1) p.2) ++ [PTerm.const (-c.2)],
                      sense := .le, rhs := 0 } : GCons)) }

def binPacking (weights : List Rat) (capacity : Rat) : GCqm :=
  let n := weights.length
  { vars := (List.range n).map yJ ++ (List.range n).flatMap (fun i => (List.range n).map (fun j => xIJ i j)),
    obj := (List.range n).map (fun j => PTerm.lin (yJ j) 1),
    cons := (List.range n).map (fun i =>
              ({ label := s!"item_placing_{i}",
                 lhs := (List.range n).map (fun j => PTerm.lin (xIJ i j) 1) ++ [PTerm.const (-1)],
                 sense := .eq, rhs := 0 } : GCons))
            ++ (List.range n).map (fun j =>
              ({ label := s!"capacity_bin_{j}",
                 lhs := (enumFrom weights).map (fun p => PTerm.lin (xIJ p.1 j) p.2) ++ [PTerm.lin (yJ j) (-capacity)],
                 sense := .le, rhs := 0 } : GCons)) }

/-- a constraint holds at a sample: `lhs(x) sense rhs` (the definition of feasibility, C08) -/
def GCons.holds (c : GCons) (x : Label → Rat) : Prop :=
  match c.sense with
  | .le => evalBag x c.lhs ≤ c.rhs
  | .ge => evalBag x c.lhs ≥ c.rhs
  | .eq => evalBag x c.lhs = c.rhs

def GCqm.feasible (q : GCqm) (x : Label → Rat) : Prop := ∀ c ∈ q.cons, c.holds x

end Gen
