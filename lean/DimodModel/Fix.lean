import DimodModel.Convert

/-! # C03 — fixing variables, as coded

* `abc.h: remove_variable`, `fix_variable`                     → `QMB.removeVariable`, `QMB.fixVariable`
* `views/quadratic.py: QuadraticViewsMixin.fix_variable`        → `LBqm.fixVariable` (dict back-end), and the
  same algorithm over index-based storage is `QMB.fixVariable` (cyBQM / cyQM: `iter_neighborhood`,
  `add_linear`, `offset +=`, `remove_variable` are thin wrappers of the C++ calls)
* `expression.h: fix_variable`, `reindex_variables`            → `Expr.fixVariable`, `Expr.reindexVariables`
* `constrained_quadratic_model.h: fix_variable` (in place = `substitute_variable(v, 0, a)` + `remove_variable`),
  `fix_variables` / `fix_variables_expr` (copying)              → `CqmC.fixVariable(Old)`, `CqmC.fixVariables`
* `cyconstrained.pyx: fix_variable(s)` (discrete marks, labels) → `CqmL.*`
* `higherordercomposites.py: fix_variables`                     → `polyFixVariables(Old)`

`Expression` keeps `indices_` (the inverse of `variables_`) next to `variables_`; here the lookup
searches `vars` directly (the consistency of the two is C05's invariant). -/

namespace En

variable {R : Type}

namespace QMB

/-- the backwards walk of `remove_variable` over one neighbourhood, on the reversed list:
    `if it->v > v: --it->v  elif it->v == v: erase, break  else: break` -/
def removeBack (v : Nat) : Nbh R → Nbh R
  | [] => []
  | (w, b) :: t =>
    if w > v then (w - 1, b) :: removeBack v t
    else if w = v then t
    else (w, b) :: t

def removeFromNbh (v : Nat) (nb : Nbh R) : Nbh R := (removeBack v nb.reverse).reverse

/-- `QuadraticModelBase::remove_variable(v)` -/
def removeVariable (m : QMB R) (v : Nat) : QMB R :=
  { lin := m.lin.eraseIdx v
    adj := m.adj.map fun a => (a.eraseIdx v).map (removeFromNbh v)
    off := m.off }

/-- `QuadraticModelBase::fix_variable(v, assignment)`:
    neighbours get `bias*assignment` on their linear bias (a self-loop adds to `v`'s own), then
    `offset += assignment * linear(v)`, then the variable is removed -/
def fixVariable [Add R] [Mul R] [Zero R] (m : QMB R) (v : Nat) (a : R) : QMB R :=
  let lin1 := (m.nbh v).foldl (fun l p => l.modify p.1 (· + p.2 * a)) m.lin
  let off1 := m.off + a * lin1.getD v 0
  ({ m with lin := lin1, off := off1 } : QMB R).removeVariable v

/-- `add_variable()` -/
def addVariable [Zero R] (m : QMB R) : QMB R :=
  { m with lin := m.lin ++ [0], adj := m.adj.map (· ++ [[]]) }

/-- `enforce_adj()` -/
def enforceAdj (m : QMB R) : QMB R :=
  match m.adj with
  | some _ => m
  | none => { m with adj := some (m.lin.map fun _ => []) }

/-- `add_quadratic_back(u, v, bias)` with the vartype of `u` supplied -/
def addQuadraticBack [Add R] (m : QMB R) (vtu : VT4) (u v : Nat) (b : R) : QMB R :=
  let m := m.enforceAdj
  if u = v then
    match vtu with
    | .binary => { m with lin := m.lin.modify u (· + b) }
    | .spin => { m with off := m.off + b }
    | _ => { m with adj := m.adj.map fun a => a.modify u (· ++ [(v, b)]) }
  else
    { m with adj := m.adj.map fun a => (a.modify u (· ++ [(v, b)])).modify v (· ++ [(u, b)]) }

end QMB

namespace Expr

def empty [Zero R] : Expr R := { vars := [], qb := { lin := [], adj := none, off := 0 } }

/-- `Expression::fix_variable(v, assignment)` -/
def fixVariable [Add R] [Mul R] [Zero R] (e : Expr R) (g : Nat) (a : R) : Expr R :=
  match e.localOf? g with
  | none => e
  | some i => { vars := e.vars.eraseIdx i, qb := e.qb.fixVariable i a }

/-- `Expression::reindex_variables(v)`: drop `v` if present, global indices above `v` move down -/
def reindexVariables (e : Expr R) (g : Nat) : Expr R :=
  let e' : Expr R := match e.localOf? g with
    | some i => { vars := e.vars.eraseIdx i, qb := e.qb.removeVariable i }
    | none => e
  { e' with vars := e'.vars.map fun u => if u > g then u - 1 else u }

/-- `enforce_variable(v)` -/
def enforce [Zero R] (e : Expr R) (g : Nat) : Expr R × Nat :=
  match e.localOf? g with
  | some i => (e, i)
  | none => ({ vars := e.vars ++ [g], qb := e.qb.addVariable }, e.vars.length)

def addLinear [Add R] [Zero R] (e : Expr R) (g : Nat) (b : R) : Expr R :=
  let (e, i) := e.enforce g
  { e with qb := { e.qb with lin := e.qb.lin.modify i (· + b) } }

def addOffset [Add R] (e : Expr R) (b : R) : Expr R := { e with qb := { e.qb with off := e.qb.off + b } }

/-- `Expression::add_quadratic_back(u, v, bias)`; `vt` is the parent's vartype of a global index -/
def addQuadraticBack [Add R] [Zero R] (e : Expr R) (vt : Nat → VT4) (gu gv : Nat) (b : R) : Expr R :=
  let (e, ui) := e.enforce gu
  let (e, vi) := e.enforce gv
  { e with qb := e.qb.addQuadraticBack (vt gu) ui vi b }

end Expr

namespace CqmC

/-- `ConstrainedQuadraticModel::remove_variable(v)` -/
def removeVariable (m : CqmC R) (v : Nat) : CqmC R :=
  { m.mapExprs (·.reindexVariables v) with info := m.info.eraseIdx v }

/-- in-place `fix_variable(v, a)`: `substitute_variable(v, 0, a)` then `remove_variable(v)` -/
def fixVariable [Add R] [Mul R] [Zero R] [One R] (m : CqmC R) (v : Nat) (a : R) : CqmC R :=
  (m.substituteVariable v 0 a).removeVariable v

/-- the same with `substitute_variable` as it was before D4 -/
def fixVariableOld [Add R] [Mul R] [Zero R] (m : CqmC R) (v : Nat) (a : R) : CqmC R :=
  (m.substituteVariableOld v 0 a).removeVariable v

/-- `fix_variables_expr(src, dst, old_to_new, assignments)` with `dst` empty -/
def fixVariablesExpr [Add R] [Mul R] [Zero R] (src : Expr R) (o2n : List (Option Nat)) (asg : List R)
    (vtNew : Nat → VT4) : Expr R :=
  let dst : Expr R := Expr.empty.addOffset src.qb.off
  -- linear biases and variables
  let dst := (src.vars.zip src.qb.lin).foldl (fun (dst : Expr R) (p : Nat × R) =>
    match o2n.getD p.1 none with
    | none => dst.addOffset (p.2 * asg.getD p.1 0)
    | some nv => dst.addLinear nv p.2) dst
  -- quadratic, in the order of `cbegin_quadratic`
  src.qb.iterQuadratic.foldl (fun (dst : Expr R) (t : Nat × Nat × R) =>
    let u := src.vars.getD t.1 0
    let v := src.vars.getD t.2.1 0
    let bias := t.2.2
    match o2n.getD u none, o2n.getD v none with
    | none, none => dst.addOffset (asg.getD u 0 * asg.getD v 0 * bias)
    | none, some nv => dst.addLinear nv (asg.getD u 0 * bias)
    | some nu, none => dst.addLinear nu (asg.getD v 0 * bias)
    | some nu, some nv => dst.addQuadraticBack vtNew nu nv bias) dst

/-- `Constraint::is_onehot()` -/
def isOnehot [Zero R] [DecidableEq R] (info : List (VarInfo R)) (c : Cons R) : Bool :=
  (c.e.qb.iterQuadratic.isEmpty) && decide (c.e.vars.length ≥ 2) && decide (c.sense = .eq) && decide (c.e.qb.off = 0) &&
  c.e.vars.all (fun g => (info[g]?.map (·.vt)) = some .binary) && c.e.qb.lin.all (fun l => decide (l = c.rhs))

/-- copying `fix_variables(first, last, assignment)` -/
def fixVariables [Add R] [Mul R] [Zero R] [DecidableEq R] (m : CqmC R) (fixed : List (Nat × R)) : CqmC R :=
  let n := m.info.length
  let isFixed (i : Nat) : Bool := fixed.any (·.1 = i)
  -- `assignments[*it] = *assignment`: the last occurrence wins
  let asg : List R := (List.range n).map fun i => ((fixed.reverse.find? (·.1 = i)).map (·.2)).getD 0
  let kept := (List.range n).filter (fun i => !isFixed i)
  let o2n : List (Option Nat) := (List.range n).map fun i => if isFixed i then none else some (kept.idxOf i)
  let info := kept.map fun i => m.info.getD i { vt := .binary, lb := 0, ub := 0 }
  let vtNew (g : Nat) : VT4 := (info[g]?.map (·.vt)).getD .binary
  let obj := fixVariablesExpr m.obj o2n asg vtNew
  let cons := m.cons.map fun c =>
    let e := fixVariablesExpr c.e o2n asg vtNew
    let c' : Cons R := { c with e }
    { c' with discrete := c.discrete && isOnehot info c' }
  { obj, cons, info }

end CqmC

/-! ## the Python layer of the CQM (`cyconstrained.pyx`): labels and discrete marks -/

structure CqmL (R : Type) where
  c : CqmC R
  labels : List Label
  clabels : List Label

namespace CqmL

/-- `fix_variable(v, assignment)` in place; `none` = unknown label (`ValueError`) -/
def fixVariable [Add R] [Mul R] [Zero R] [One R] [DecidableEq R] (m : CqmL R) (v : Label) (a : R) : Option (CqmL R) := do
  let vi ← indexOf? m.labels v
  let c := if (m.c.info[vi]?.map (·.vt)) = some .binary ∧ a ≠ 0 then
      { m.c with cons := m.c.cons.map fun k =>
          if k.discrete && (k.e.localOf? vi).isSome then { k with discrete := false } else k }
    else m.c
  pure { m with c := c.fixVariable vi a, labels := m.labels.eraseIdx vi }

def fixVariableOld [Add R] [Mul R] [Zero R] [DecidableEq R] (m : CqmL R) (v : Label) (a : R) : Option (CqmL R) := do
  let vi ← indexOf? m.labels v
  let c := if (m.c.info[vi]?.map (·.vt)) = some .binary ∧ a ≠ 0 then
      { m.c with cons := m.c.cons.map fun k =>
          if k.discrete && (k.e.localOf? vi).isSome then { k with discrete := false } else k }
    else m.c
  pure { m with c := c.fixVariableOld vi a, labels := m.labels.eraseIdx vi }

/-- `fix_variables(fixed, inplace=True)`: one `fix_variable` after the other; stops at the first error
    with what was done so far kept -/
def fixVariablesInplace [Add R] [Mul R] [Zero R] [One R] [DecidableEq R] (m : CqmL R) (fixed : List (Label × R)) : CqmL R × Bool :=
  match fixed with
  | [] => (m, true)
  | (v, a) :: rest =>
    match m.fixVariable v a with
    | none => (m, false)
    | some m' => fixVariablesInplace m' rest

/-- `fix_variables(fixed, inplace=False)`: indices looked up first, C++ copy, then relabelling in order -/
def fixVariablesCopy [Add R] [Mul R] [Zero R] [DecidableEq R] (m : CqmL R) (fixed : List (Label × R)) : Option (CqmL R) := do
  let idx ← fixed.mapM fun p => (indexOf? m.labels p.1).map fun i => (i, p.2)
  let names := fixed.map (·.1)
  pure { c := m.c.fixVariables idx, labels := m.labels.filter (fun l => !names.contains l), clabels := m.clabels }

end CqmL

/-! ## the generic Python path on an array back-end (`views/quadratic.py: QuadraticViewsMixin.fix_variable(s)`)

For `cyBQM` / `cyQM` the methods the mixin calls are index-level operations of the C++ model: `iter_neighborhood(v)` walks
`adj[v]` in order, `add_linear(u, x)` adds to `linear_biases_[u]`, `get_linear`, the `offset` setter, `remove_variable`. -/

namespace QMB

/-- `fix_variable(v, value)`: `for u, bias in iter_neighborhood(v): add_linear(u, value*bias)` (a squared term adds to `v`'s own
    bias), `offset += value*get_linear(v)`, `remove_variable(v)` -/
def fixVariableMixin [Add R] [Mul R] [Zero R] (m : QMB R) (v : Nat) (a : R) : QMB R :=
  let lin1 := (m.nbh v).foldl (fun l p => l.modify p.1 (· + a * p.2)) m.lin
  let off1 := m.off + a * lin1.getD v 0
  ({ m with lin := lin1, off := off1 } : QMB R).removeVariable v

end QMB

/-- a BQM / QM with its labels (and, for a QM, the per-variable vartype/bounds table) -/
structure QmL (R : Type) where
  qb : QMB R
  info : List (VarInfo R)
  labels : List Label

namespace QmL

/-- `fix_variable(v, value)` by label; `none` = `ValueError` (unknown variable), nothing changed -/
def fixVariable [Add R] [Mul R] [Zero R] (m : QmL R) (v : Label) (a : R) : Option (QmL R) := do
  let vi ← indexOf? m.labels v
  pure { qb := m.qb.fixVariableMixin vi a, info := m.info.eraseIdx vi, labels := m.labels.eraseIdx vi }

/-- `fix_variables(fixed)`: `for v, val in fixed: fix_variable(v, val)`; stops at the first error with what was done kept -/
def fixVariables [Add R] [Mul R] [Zero R] (m : QmL R) (fixed : List (Label × R)) : QmL R × Bool :=
  match fixed with
  | [] => (m, true)
  | (v, a) :: rest =>
    match m.fixVariable v a with
    | none => (m, false)
    | some m' => fixVariables m' rest

end QmL

/-! ## generic Python path on the dict back-end (`views/quadratic.py`) -/

namespace LBqm

/-- `QuadraticViewsMixin.fix_variable(v, value)` on a `pyBQM` -/
def fixVariable [Add R] [Mul R] [Zero R] (m : LBqm R) (v : Label) (a : R) : Except Err (LBqm R) := do
  let nb ← m.neighborhood v
  let m1 := nb.foldl (fun m p => m.addLinear p.1 (a * p.2)) m
  let l ← m1.getLinear v
  let m2 := { m1 with off := m1.off + a * l }
  m2.removeVariable v

end LBqm

/-! ## polynomial fixing (`higherordercomposites.py: fix_variables`) -/

/-- remove the fixed variables from one term, multiplying their values into the bias
    (`for var, value in fixed_variables.items(): if var in k: k -= {var}; v *= value`) -/
def fixTerm [Mul R] (fixed : List (Nat × R)) (t : List Nat) (b : R) : List Nat × R :=
  fixed.foldl (fun (tb : List Nat × R) (f : Nat × R) =>
    if tb.1.contains f.1 then (tb.1.filter (· ≠ f.1), tb.2 * f.2) else tb) (t, b)

/-- `fix_variables(poly, fixed_variables)` after D5: the constant term is taken once -/
def polyFixVariables [Add R] [Mul R] [Zero R] (p : Poly R) (fixed : List (Nat × R)) : Poly R :=
  let offset0 : R := (p.get? []).getD 0
  let st := p.foldl (fun (st : Poly R × R) (tb : List Nat × R) =>
    if tb.1.isEmpty then st else
    let (k, v) := fixTerm fixed tb.1 tb.2
    if k.length > 0 then (st.1.accum k v, st.2) else (st.1, st.2 + v)) ([], offset0)
  st.1 ++ [([], st.2)]

/-- the function as it was: the constant term is read into `offset` first and then met again in the loop -/
def polyFixVariablesOld [Add R] [Mul R] [Zero R] (p : Poly R) (fixed : List (Nat × R)) : Poly R :=
  let offset0 : R := (p.get? []).getD 0
  let st := p.foldl (fun (st : Poly R × R) (tb : List Nat × R) =>
    let (k, v) := fixTerm fixed tb.1 tb.2
    if k.length > 0 then (st.1.accum k v, st.2) else (st.1, st.2 + v)) ([], offset0)
  st.1 ++ [([], st.2)]

end En
