import DimodModel.Pack

/-! The dict `serialize_ndarray(arr, use_bytes)` returns and the branch `deserialize_ndarray` takes on it (C11), for the
    integer-like dtypes (bool, int8 … uint64 — also the uint32 words of bit-packed samples).  Core Lean only. -/

namespace Pack

/-- the value under the key `data`: `arr.tobytes(order='C')` or `arr.tolist()` -/
inductive ArrPayload
  | bytes (b : List Nat)
  | list (v : PV)

/-- `dict(type='array', data=…, data_type=arr.dtype.name, shape=arr.shape, use_bytes=bool(use_bytes))` -/
structure ArrDoc where
  type : String
  data : ArrPayload
  dataType : IntType
  shape : List Nat
  useBytes : Bool

/-- an integer-like array: dtype, shape, flat C-order data -/
structure IntArr where
  t : IntType
  shape : List Nat
  data : List Int

/-- `serialize_ndarray(arr, use_bytes)` -/
def serializeArrDoc (a : IntArr) (useBytes : Bool) : ArrDoc :=
  { type := "array",
    data := if useBytes then .bytes (tobytesInt a.t a.data) else .list (serializeData ⟨.int, a.shape, a.data.map fun (z : Int) => (z : Rat)⟩),
    dataType := a.t, shape := a.shape, useBytes := useBytes }

/-- `deserialize_ndarray(obj)`: `obj['use_bytes']` selects `np.frombuffer(obj['data'], dtype)` (as many items as the buffer
    holds) or `np.asarray(obj['data'], dtype)`; then `.reshape(obj['shape'])`, which refuses a wrong item count.
    `none` = an exception (a list handed to `frombuffer`, a size mismatch in `reshape`).  A bytes object under
    `use_bytes=False` (`np.asarray(bytes, dtype)`: never produced by `serialize_ndarray`) is outside the model and mapped to `none`. -/
def deserializeArrDoc (d : ArrDoc) : Option IntArr :=
  if d.useBytes then
    match d.data with
    | .bytes b =>
      let count := b.length / d.dataType.size
      if count = prod d.shape then some ⟨d.dataType, d.shape, frombufferInt d.dataType b count⟩ else none
    | .list _ => none
  else
    match d.data with
    | .list v => some ⟨d.dataType, d.shape, (deserializeNd .int d.shape v).data.map fun (q : Rat) => q.floor⟩
    | .bytes _ => none

end Pack
