import DimodModel.Cqm

/-! Property C18 — `is_equal` / `is_almost_equal` / `==` / `!=` between BQMs, QMs, CQM expression
    views, CQMs and numbers, as coded in
    `binary_quadratic_model.py`, `quadratic_model.py`, `constrained/expression.py`,
    `constrained/constrained.py`, with the mapping equality of `views/quadratic.py`
    (`Linear`, `Adjacency`, `Neighborhood` are `collections.abc.Mapping`s: equal iff equal as dicts).

    A model is what those methods can observe of it: its class, its own variable list, linear and
    quadratic biases, offset, and what `vartype(v)`, `get_linear(v)`, `get_quadratic(u, v)` answer
    (value or `ValueError`) for *any* label — which for an expression view depends on the parent CQM's
    variables, not only on the expression's own.

    Outcomes are `Except Exc Bool`: `.error` = the call raises.  The `…With` functions take the flags
    that distinguish the code before / after the repairs of D15, D26, D38, D39; the plain names are the
    code as it is now (all repairs in).  Core Lean only. -/

namespace Eqm

inductive Exc | value | attr
  deriving DecidableEq, Repr

abbrev M := Except Exc

inductive Kind
  | bqm (vt : VT4)    -- `BinaryQuadraticModel`: one vartype for every label
  | qm                -- `QuadraticModel`
  | view              -- `ObjectiveView` / `ConstraintView`
  deriving DecidableEq

/-- what the equality methods can see of a BQM / QM / expression view -/
structure QModel where
  kind : Kind
  vars : List Label                      -- own variables, in order
  lin : List Rat                         -- parallel to `vars`
  quad : List (Label × Label × Rat)      -- `iter_quadratic()`
  off : Rat
  types : List (Label × VT4)             -- `vartype(v)` table: own variables (qm), parent's variables (view), unused for bqm

structure CCons where
  label : Label
  sense : Sense
  rhs : Rat
  lhs : QModel

structure CqmVal where
  vars : List (Label × VT4)
  obj : QModel
  cons : List CCons

inductive Obj
  | num (x : Rat)
  | model (m : QModel)
  | cqm (c : CqmVal)
  | foreign                              -- any other Python object (no `vartype`, no `objective`)

namespace QModel

def lookup {α} (l : List (Label × α)) (v : Label) : Option α :=
  match l with
  | [] => none
  | (k, a) :: t => if k = v then some a else lookup t v

/-- `m.vartype(v)`; a BQM's `vartype` is a `Vartype` member, which is callable and returns itself -/
def vartypeOf (m : QModel) (v : Label) : M VT4 :=
  match m.kind with
  | .bqm vt => pure vt
  | _ => match lookup m.types v with
    | some t => pure t
    | none => throw .value

def linAssoc (m : QModel) : List (Label × Rat) := m.vars.zip m.lin

/-- `m.get_linear(v)`: a view answers 0 for a parent variable the expression does not contain -/
def getLinear (m : QModel) (v : Label) : M Rat :=
  match lookup m.linAssoc v with
  | some b => pure b
  | none => match m.kind with
    | .view => if (lookup m.types v).isSome then pure 0 else throw .value
    | _ => throw .value

def quadLookup (q : List (Label × Label × Rat)) (u v : Label) : Option Rat :=
  match q with
  | [] => none
  | (a, b, x) :: t => if (a = u ∧ b = v) ∨ (a = v ∧ b = u) then some x else quadLookup t u v

/-- `m.get_quadratic(u, v)` without a default: `ValueError` when there is no such interaction -/
def getQuadratic (m : QModel) (u v : Label) : M Rat :=
  match quadLookup m.quad u v with
  | some b => pure b
  | none => throw .value

def shape (m : QModel) : Nat × Nat := (m.vars.length, m.quad.length)

/-- `dict(m.linear.items())` as an association list; dict equality = same size and every key of the
    left is a key of the right with an equal value -/
def dictEq {β} [DecidableEq β] (a b : List (Label × β)) : Bool :=
  a.length = b.length && a.all fun p => lookup b p.1 = some p.2

def linearEq (a b : QModel) : Bool := dictEq a.linAssoc b.linAssoc

/-- `dict(Neighborhood(m, v).items())` -/
def nbh (m : QModel) (v : Label) : List (Label × Rat) :=
  m.quad.filterMap fun (a, b, x) => if a = v then some (b, x) else if b = v then some (a, x) else none

/-- `a.adj == b.adj`: same keys (the variables) and equal neighbourhood dicts -/
def adjEq (a b : QModel) : Bool :=
  a.vars.length = b.vars.length && a.vars.all fun v => b.vars.contains v && dictEq (a.nbh v) (b.nbh v)

end QModel

open QModel

/-- Python's `all(f(v) for v in l)`: stops at the first `False`; an exception before that propagates -/
def allM (l : List Label) (f : Label → M Bool) : M Bool :=
  match l with
  | [] => pure true
  | v :: t => do if (← f v) then allM t f else pure false

/-- the part of `is_equal` after the vartype test: `shape`, `offset`, `linear`, `adj` -/
def restEq (a b : QModel) : Bool :=
  a.shape = b.shape && a.off = b.off && linearEq a b && adjEq a b

/-- body of `BinaryQuadraticModel.is_equal` inside the `try` -/
def bqmEqBody (vt : VT4) (self : QModel) (other : Obj) : M Bool :=
  match other with
  | .num x => pure (self.vars.isEmpty && self.off = x)
  | .foreign => throw .attr                                   -- `other.vartype`
  | .model o => do
    if (← allM o.vars fun v => do pure ((← o.vartypeOf v) = vt)) then pure (restEq self o) else pure false
  | .cqm c =>
    if c.vars.all (fun p => p.2 = vt) then throw .attr       -- `other.shape`
    else pure false

/-- body of `QuadraticModel.is_equal` / `_ExpressionMixin.is_equal` inside the `try` -/
def qmEqBody (self : QModel) (other : Obj) : M Bool :=
  match other with
  | .num x => pure (self.vars.isEmpty && self.off = x)
  | .foreign => throw .attr
  | .model o => do
    if (← allM self.vars fun v => do pure ((← self.vartypeOf v) = (← o.vartypeOf v))) then pure (restEq self o) else pure false
  | .cqm c => do
    if (← allM self.vars fun v => do
          match lookup c.vars v with
          | some t => pure ((← self.vartypeOf v) = t)
          | none => throw .value) then throw .attr
    else pure false

/-- `except AttributeError: return False` (and `ValueError` too when `catchValue`) -/
def catching (catchValue : Bool) (r : M Bool) : M Bool :=
  match r with
  | .ok b => .ok b
  | .error .attr => .ok false
  | .error .value => if catchValue then .ok false else .error .value

/-- `m.is_equal(other)` for a BQM / QM / view; `catchValue` = D15 repaired -/
def modelIsEqualWith (catchValue : Bool) (self : QModel) (other : Obj) : M Bool :=
  match self.kind with
  | .bqm vt => catching false (bqmEqBody vt self other)      -- the BQM method only catches AttributeError
  | _ => catching catchValue (qmEqBody self other)

def keysEq (a b : List CCons) : Bool :=
  a.all (fun c => b.any (·.label = c.label)) && b.all (fun c => a.any (·.label = c.label))

def findCons (l : List CCons) (lbl : Label) : Option CCons := l.find? (·.label = lbl)

def allConsM (l : List CCons) (f : CCons → M Bool) : M Bool :=
  match l with
  | [] => pure true
  | c :: t => do if (← f c) then allConsM t f else pure false

/-- `set(a.variables) == set(b.variables)` and equal types (the repair of D39) -/
def varsEq (a b : CqmVal) : Bool :=
  a.vars.all (fun p => lookup b.vars p.1 = some p.2) && b.vars.all (fun p => (lookup a.vars p.1).isSome)

/-- `ConstrainedQuadraticModel.is_equal(other)`; `guard` = the `isinstance` test of the D15 repair,
    `checkVars` = D39 repair -/
def cqmIsEqualWith (catchValue guard checkVars : Bool) (self : CqmVal) (other : Obj) : M Bool :=
  match other with
  | .cqm o => do
    if !(← modelIsEqualWith catchValue self.obj (.model o.obj)) then pure false else
    if checkVars && !(varsEq self o) then pure false else
    if !(keysEq self.cons o.cons) then pure false else
    allConsM self.cons fun c =>
      match findCons o.cons c.label with
      | some d => do
        if c.sense ≠ d.sense then pure false else
        if !(← modelIsEqualWith catchValue c.lhs (.model d.lhs)) then pure false else pure (c.rhs = d.rhs)
      | none => throw .value     -- unreachable after `keysEq` (KeyError)
  | _ => if guard then pure false else throw .attr            -- `other.objective`

/-- `a.is_equal(b)` for any receiver that has the method -/
def isEqualWith (catchValue guard checkVars : Bool) (a b : Obj) : M Bool :=
  match a with
  | .model m => modelIsEqualWith catchValue m b
  | .cqm c => cqmIsEqualWith catchValue guard checkVars c b
  | _ => throw .attr      -- numbers and other objects have no `is_equal`

def isEqual (a b : Obj) : M Bool := isEqualWith true true true a b

/-! ### `is_almost_equal` -/

def absR (x : Rat) : Rat := if x < 0 then -x else x

def pow10 : Nat → Rat
  | 0 => 1
  | n + 1 => 10 * pow10 n

/-- `not round(d, places)` for a float `d` that holds the exact value `d`: Python rounds the exact
    binary value half-to-even, so the result is 0 iff |d|·10^places ≤ 1/2 -/
def roundsToZero (places : Int) (d : Rat) : Bool :=
  if places ≥ 0 then decide (absR d * pow10 places.toNat ≤ 1 / 2)
  else decide (absR d ≤ pow10 (-places).toNat / 2)

def labelsEq (a b : QModel) : Bool :=
  a.vars.all (fun v => b.vars.contains v) && b.vars.all (fun v => a.vars.contains v)

def allQuadM (l : List (Label × Label × Rat)) (f : Label × Label × Rat → M Bool) : M Bool :=
  match l with
  | [] => pure true
  | q :: t => do if (← f q) then allQuadM t f else pure false

/-- tail of every `is_almost_equal`: shape, [label sets — D38 repair], offset, linear, quadratic -/
def restAlmost (labelCheck : Bool) (places : Int) (self o : QModel) : M Bool := do
  if self.shape ≠ o.shape then pure false else
  if labelCheck && !(labelsEq self o) then pure false else
  if !(roundsToZero places (self.off - o.off)) then pure false else
  if !(← allM self.vars fun v => do pure (roundsToZero places ((← self.getLinear v) - (← o.getLinear v)))) then pure false else
  allQuadM self.quad fun (u, v, b) => do pure (roundsToZero places (b - (← o.getQuadratic u v)))

/-- `BinaryQuadraticModel.is_almost_equal`; `callableTest` = D26 repaired (`callable(other.vartype)`
    instead of `isinstance(other, QuadraticModel)`) -/
def bqmAlmostBody (callableTest labelCheck : Bool) (places : Int) (vt : VT4) (self : QModel) (other : Obj) : M Bool :=
  match other with
  | .num x => pure (self.vars.isEmpty && roundsToZero places (self.off - x))
  | .foreign => throw .attr
  | .model o => do
    if (← (if callableTest || o.kind = .qm then allM o.vars fun v => do pure ((← o.vartypeOf v) = vt)
           else match o.kind with
             | .bqm vt' => pure (decide (vt = vt'))      -- `self.vartype == other.vartype`
             | _ => pure false))                          -- a Vartype never equals a bound method
    then restAlmost labelCheck places self o else pure false
  | .cqm c =>
    if callableTest then (if c.vars.all (fun p => p.2 = vt) then throw .attr else pure false)
    else pure false

def qmAlmostBody (labelCheck : Bool) (places : Int) (self : QModel) (other : Obj) : M Bool :=
  match other with
  | .num x => pure (self.vars.isEmpty && roundsToZero places (self.off - x))
  | .foreign => throw .attr
  | .model o => do
    if (← allM self.vars fun v => do pure ((← self.vartypeOf v) = (← o.vartypeOf v))) then restAlmost labelCheck places self o
    else pure false
  | .cqm c => do
    if (← allM self.vars fun v => do
          match lookup c.vars v with
          | some t => pure ((← self.vartypeOf v) = t)
          | none => throw .value) then throw .attr
    else pure false

/-- every `is_almost_equal` catches `(AttributeError, ValueError)` -/
def modelAlmostWith (callableTest labelCheck : Bool) (places : Int) (self : QModel) (other : Obj) : M Bool :=
  match self.kind with
  | .bqm vt => catching true (bqmAlmostBody callableTest labelCheck places vt self other)
  | _ => catching true (qmAlmostBody labelCheck places self other)

def cqmAlmostWith (callableTest labelCheck guard checkVars : Bool) (places : Int) (self : CqmVal) (other : Obj) : M Bool :=
  match other with
  | .cqm o => do
    if !(← modelAlmostWith callableTest labelCheck places self.obj (.model o.obj)) then pure false else
    if checkVars && !(varsEq self o) then pure false else
    if !(keysEq self.cons o.cons) then pure false else
    allConsM self.cons fun c =>
      match findCons o.cons c.label with
      | some d => do
        if c.sense ≠ d.sense then pure false else
        if !(← modelAlmostWith callableTest labelCheck places c.lhs (.model d.lhs)) then pure false
        else pure (roundsToZero places (c.rhs - d.rhs))
      | none => throw .value
  | _ => if guard then pure false else throw .attr

def isAlmostEqualWith (callableTest labelCheck guard checkVars : Bool) (places : Int) (a b : Obj) : M Bool :=
  match a with
  | .model m => modelAlmostWith callableTest labelCheck places m b
  | .cqm c => cqmAlmostWith callableTest labelCheck guard checkVars places c b
  | _ => throw .attr

def isAlmostEqual (places : Int) (a b : Obj) : M Bool := isAlmostEqualWith true true true true places a b

/-! ### `==` and `!=`.
    `BinaryQuadraticModel.__eq__(other)`: a number builds the comparison `Eq(self, other)`, anything else is
    `self.is_equal(other)`; `__ne__` is `not self.is_equal(other)`.  `QuadraticModel.__eq__` builds `Eq(self, other)` for a
    number and answers `NotImplemented` otherwise; it has no `__ne__` (Python's default inverts `__eq__`).  Views and CQMs
    define neither.  When the left operand answers `NotImplemented` — a number on the left always does — Python tries the
    reflected method of the right operand and finally falls back to identity (`same`).
    The *truth value* of `Eq(lhs, rhs)` (`sym.Eq.__bool__`) is `lhs.is_equal(rhs)`; that is what `opEq` reports for the
    number forms `model == 3`, `3 == model` (NumPy scalars on the left go the same way through NumPy's object loop). -/

def isBqm : Obj → Bool
  | .model m => match m.kind with | .bqm _ => true | _ => false
  | _ => false

def isQm : Obj → Bool
  | .model m => match m.kind with | .qm => true | _ => false
  | _ => false

def isNum : Obj → Bool
  | .num _ => true
  | _ => false

def opEq (same : Bool) (a b : Obj) : M Bool :=
  if isBqm a then isEqual a b                       -- also `bqm == 3`: truth value of `Eq(bqm, 3)`
  else if isBqm b then isEqual b a                  -- reflected (`3 == bqm`, `qm == bqm`, `view == bqm`)
  else if isQm a && isNum b then isEqual a b        -- `qm == 3`
  else if isNum a && isQm b then isEqual b a        -- `3 == qm`
  else pure same

def opNe (same : Bool) (a b : Obj) : M Bool :=
  if isBqm a then (isEqual a b).map (!·)
  else if isBqm b then (isEqual b a).map (!·)
  else if isQm a && isNum b then (isEqual a b).map (!·)     -- default `__ne__`: `not (qm == 3)`
  else if isNum a && isQm b then (isEqual b a).map (!·)
  else pure (!same)

/-! ### `==` / `!=` on the mapping views `m.linear`, `m.adj`, `m.adj[v]`, `m.quadratic` (`dimod/views/quadratic.py`).
    `Linear`, `Adjacency`, `Neighborhood` inherit `Mapping.__eq__`: `dict(self.items()) == dict(other.items())` (the values
    of an `Adjacency` are `Neighborhood`s, compared the same way).  `Quadratic.__eq__(self, other)` is its own:
    `len(self) == len(other) and all(self[key] == value for key, value in other.items())`, `KeyError` → `False`, where
    `self[(u, v)]` finds the interaction in either orientation.  None of them defines `__ne__`: `!=` inverts `==`.
    A plain `dict` on either side goes through the same method (reflected). -/

inductive VKind
  | linear | adj | quadratic
  | nbh (v : Label)          -- `m.adj[v]`

/-- `Quadratic.__eq__(self, other)` as coded -/
def quadraticEq (self other : QModel) : Bool :=
  self.quad.length = other.quad.length && other.quad.all fun q => quadLookup self.quad q.1 q.2.1 = some q.2.2

def viewEq (k : VKind) (a b : QModel) : Bool :=
  match k with
  | .linear => linearEq a b
  | .adj => adjEq a b
  | .quadratic => quadraticEq a b
  | .nbh v => dictEq (a.nbh v) (b.nbh v)

def viewNe (k : VKind) (a b : QModel) : Bool := !(viewEq k a b)

end Eqm
