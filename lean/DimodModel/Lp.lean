import DimodModel.Label
import Generated.LpLabels

/-! # C12 — LP text writer, line breaking, label validation, and a specification-level reader

Mirror of `dimod/lp.py` (`dump`, `_WidthLimitedFile`, `_validate_label`, `_sign`, `_abs`, `_sense`) and
of the conversion `dimod/cylp.pyx` (`copy_expression`, `model_to_cqm`) applies to what the parser
delivers.  The C++ parser itself (`extern/filereaderlp`) is *not* modelled: `read` below is a
specification-level reader for exactly the token grammar `dump` emits.

The writer is a token emitter: every `f.write(s)` of `dump` is one `Tok`; `Tok.render` is the text
of that write; `emit` is `_WidthLimitedFile.write` folded over the writes.  Core Lean only. -/

namespace Lp

inductive VT where
  | spin | binary | integer | real
deriving DecidableEq

inductive Sense where
  | le | ge | eq
deriving DecidableEq

structure LVar where
  name : Label
  vt : VT
  lb : Rat
  ub : Rat

/-- an expression in its own variable order: what `iter_linear` / `iter_quadratic` / `offset` report -/
structure LExpr where
  lin : List (Label × Rat)
  quad : List (Label × Label × Rat)
  off : Rat

structure LCon where
  label : Label
  lhs : LExpr
  sense : Sense
  rhs : Rat
  soft : Bool

structure LCqm where
  vars : List LVar
  obj : LExpr
  cons : List LCon

/-! ## label validation -/

/-- `c in LABEL_VALID_CHARS` (the set is extracted from `dimod/lp.py` into `Generated.LpLabels`) -/
def validChar (c : Char) : Bool := Generated.LpLabels.validChars.contains c

/-- `label.startswith(c) for c in LABEL_INVALID_FIRST_CHARS` -/
def invalidFirst (c : Char) : Bool := Generated.LpLabels.invalidFirstChars.contains c

/-- `str.lower()` on the label alphabet (only ASCII letters have case there) -/
def lowerStr (s : String) : String := String.ofList (s.toList.map Char.toLower)

/-- `label.lower() in LABEL_RESERVED_WORDS or label.lower().startswith(LABEL_INVALID_PREFIXES)` -/
def reserved (s : String) : Bool :=
  let l := lowerStr s
  Generated.LpLabels.reservedWords.contains l || Generated.LpLabels.invalidPrefixes.any (fun p => p.toList.isPrefixOf l.toList)

/-- `_validate_label`: a string, non-empty, at most 255 characters, valid characters only, valid first
    character, not a word or prefix the LP reader takes for something else -/
def validLabel : Label → Bool
  | .str s =>
    let cs := s.toList
    match cs with
    | [] => false
    | c :: _ => cs.length ≤ 255 && cs.all validChar && !invalidFirst c && !reserved s
  | _ => false

/-! ## number formatting -/

def digitChar (n : Nat) : Char := Char.ofNat (48 + n % 10)

def natDigits : Nat → List Char
  | n => if n < 10 then [digitChar n] else natDigits (n / 10) ++ [digitChar n]

def showNat (n : Nat) : String := String.ofList (natDigits n)

/-- number of decimal places needed to write `q` exactly (fuel-bounded), for `q ≥ 0` -/
def decPlaces (q : Rat) : Nat → Nat → Nat
  | 0, k => k
  | fuel+1, k => if (q * (10 : Rat) ^ k).den = 1 then k else decPlaces q fuel (k + 1)

def padLeft (n : Nat) (cs : List Char) : List Char := List.replicate (n - cs.length) '0' ++ cs

/-- positional decimal expansion of a non-negative rational with a terminating expansion
    (what `repr(float)` prints for the dyadic values used here, `1e-4 ≤ q < 1e16`) -/
def showPosDecimal (q : Rat) : String :=
  let k := decPlaces q 60 0
  let n := (q * (10 : Rat) ^ k).num.toNat
  let ip := n / 10 ^ k
  let fp := n % 10 ^ k
  if k = 0 then showNat ip ++ ".0" else showNat ip ++ "." ++ String.ofList (padLeft k (natDigits fp))

/-- the double nearest to 1e30 (`vartype_limits<double, REAL>::max()`), printed by Python as `1e+30` -/
def realMax : Rat := 1000000000000000019884624838656
def intMax : Rat := 9007199254740991

/-- `repr(float(x))` / `str(np.float64(x))` -/
def showFloat (q : Rat) : String :=
  if q = realMax then "1e+30" else if q = -realMax then "-1e+30"
  else if q < 0 then "-" ++ showPosDecimal (-q) else showPosDecimal q

/-- `_abs(bias)`: `repr(abs(int(bias)))` if integral else `repr(abs(float(bias)))` -/
def showAbs (q : Rat) : String :=
  let a := if q < 0 then -q else q
  if a.den = 1 then showNat a.num.toNat else showPosDecimal a

/-! ## tokens = the individual `f.write(...)` calls of `dump` -/

def labelText : Label → String
  | .str s => s
  | _ => "?"

inductive Tok where
  | minimize                      -- "Minimize\n"
  | objLabel                      -- " obj: "
  | lin (b : Rat) (v : Label)     -- f"{_sign(b)} {_abs(b)} {v} "
  | qopen                         -- "+ [ "
  | qterm (b : Rat) (u v : Label) -- f"{_sign(b)} {_abs(b)} {u} * {v} "
  | qcloseHalf                    -- "]/2 "
  | qclose                        -- "] "
  | const (b : Rat)               -- f"{_sign(b)} {_abs(b)} "
  | blank2                        -- "\n\n"
  | subjectTo                     -- "Subject To \n"
  | clabel (l : Label)            -- f" {l}: "
  | cmp (s : Sense) (rhs : Rat)   -- f" {_sense(s)} {rhs}\n"
  | nl                            -- "\n"
  | bounds                        -- "Bounds\n"
  | bound (lb : Rat) (v : Label) (ub : Rat)   -- f" {lb} <= {v} <= {ub}\n"
  | section (general : Bool)      -- "Binary\n" / "General\n"
  | name (v : Label)              -- f" {v}"
  | end_                          -- "End"

def signText (b : Rat) : String := if b < 0 then "-" else "+"
def senseText : Sense → String
  | .le => "<=" | .ge => ">=" | .eq => "="

def Tok.render : Tok → String
  | .minimize => "Minimize\n"
  | .objLabel => " obj: "
  | .lin b v => signText b ++ " " ++ showAbs b ++ " " ++ labelText v ++ " "
  | .qopen => "+ [ "
  | .qterm b u v => signText b ++ " " ++ showAbs b ++ " " ++ labelText u ++ " * " ++ labelText v ++ " "
  | .qcloseHalf => "]/2 "
  | .qclose => "] "
  | .const b => signText b ++ " " ++ showAbs b ++ " "
  | .blank2 => "\n\n"
  | .subjectTo => "Subject To \n"
  | .clabel l => " " ++ labelText l ++ ": "
  | .cmp s rhs => " " ++ senseText s ++ " " ++ showFloat rhs ++ "\n"
  | .nl => "\n"
  | .bounds => "Bounds\n"
  | .bound lb v ub => " " ++ showFloat lb ++ " <= " ++ labelText v ++ " <= " ++ showFloat ub ++ "\n"
  | .section g => if g then "General\n" else "Binary\n"
  | .name v => " " ++ labelText v
  | .end_ => "End"

/-! ## the writer -/

inductive Refusal where
  | soft | label | spin
deriving DecidableEq

def linToks (l : List (Label × Rat)) : List Tok :=
  (l.filter (fun p => p.2 ≠ 0)).map fun p => Tok.lin p.2 p.1

/-- the objective part; the header is written by whichever of the three parts comes first -/
def objToks (e : LExpr) : List Tok :=
  let lt := linToks e.lin
  let qt := if e.quad.isEmpty then [] else
    [Tok.qopen] ++ e.quad.map (fun (u, v, b) => Tok.qterm (2 * b) u v) ++ [Tok.qcloseHalf]
  let ot := if e.off = 0 then [] else [Tok.const e.off]
  let body := lt ++ qt ++ ot
  if body.isEmpty then [] else [Tok.minimize, Tok.objLabel] ++ body

def conToks (c : LCon) : List Tok :=
  [Tok.clabel c.label] ++ linToks c.lhs.lin ++
  (if c.lhs.quad.isEmpty then [] else [Tok.qopen] ++ c.lhs.quad.map (fun (u, v, b) => Tok.qterm b u v) ++ [Tok.qclose]) ++
  [Tok.cmp c.sense (c.rhs - c.lhs.off)]

def boundToks (vs : List LVar) : List Tok :=
  (vs.filter fun v => v.vt = .integer ∨ v.vt = .real).map fun v => Tok.bound v.lb v.name v.ub

def sectionToks (vs : List LVar) : List Tok :=
  [Tok.nl, Tok.section false] ++ ((vs.filter (·.vt = .binary)).map fun v => Tok.name v.name) ++
  [Tok.nl, Tok.section true] ++ ((vs.filter (·.vt = .integer)).map fun v => Tok.name v.name)

/-- `dump`: the checks come first, in the code's order, before anything is written -/
def dumpToks (m : LCqm) : Except Refusal (List Tok) :=
  if m.cons.any (·.soft) then .error .soft
  else if ¬ m.cons.all (fun c => validLabel c.label) then .error .label
  else
    -- `for v, vartype in vartypes.items(): _validate_label(v); if vartype == SPIN: raise`
    let rec chk : List LVar → Option Refusal
      | [] => none
      | v :: vs => if ¬ validLabel v.name then some .label else if v.vt = .spin then some .spin else chk vs
    match chk m.vars with
    | some r => .error r
    | none =>
      .ok (objToks m.obj ++ [Tok.blank2, Tok.subjectTo] ++ m.cons.flatMap conToks ++
           [Tok.nl, Tok.bounds] ++ boundToks m.vars ++ sectionToks m.vars ++ [Tok.nl, Tok.end_])

/-! ## `_WidthLimitedFile` -/

def firstNl (cs : List Char) : Nat := (cs.findIdx? (· = '\n')).getD cs.length
/-- characters after the last newline, if there is one -/
def afterLastNl (cs : List Char) : Option Nat :=
  if cs.contains '\n' then some ((cs.reverse.findIdx? (· = '\n')).getD 0) else none

/-- one `write(s)`: returns (break inserted before?, new line length) -/
def writeStep (lineLen : Nat) (s : String) : Bool × Nat :=
  let cs := s.toList
  let brk := lineLen + firstNl cs > Generated.LpLabels.targetLineLen - 1
  let ll := if brk then 1 else lineLen
  match afterLastNl cs with
  | some k => (brk, k)
  | none => (brk, ll + cs.length)

/-- all writes: each write paired with "was `\n ` emitted before it" -/
def wrapWrites : Nat → List String → List (Bool × String)
  | _, [] => []
  | ll, s :: rest => let (b, ll') := writeStep ll s; (b, s) :: wrapWrites ll' rest

def joinWrites (ws : List (Bool × String)) : String :=
  String.join (ws.map fun (b, s) => (if b then "\n " else "") ++ s)

/-- `lp.dumps(cqm)` -/
def dumps (m : LCqm) : Except Refusal String :=
  match dumpToks m with
  | .error r => .error r
  | .ok ts => .ok (joinWrites (wrapWrites 0 (ts.map Tok.render)))

/-! ## specification-level reader of the writer's token grammar, composed with `model_to_cqm` -/

/-- what the parser hands to `model_to_cqm` (per variable: first-occurrence order) -/
structure PVar where
  name : Label
  general : Bool := false
  binary : Bool := false
  lb : Rat := 0
  ub : Option Rat := none      -- none = +infinity (the LP default)

inductive Mode where
  | start | objHdr | obj | objQ | preCons | cons | con | conQ | preBounds | bnds | preBin | bin | preGen | gen | preEnd | done | bad
deriving DecidableEq

structure RState where
  mode : Mode := .start
  vars : List PVar := []
  obj : LExpr := ⟨[], [], 0⟩
  cons : List LCon := []
  cur : LExpr := ⟨[], [], 0⟩                -- the constraint left-hand side being read
  curLabel : Label := .str ""
  qacc : List (Label × Label × Rat) := []   -- terms read since `[`

def touch (vs : List PVar) (v : Label) : List PVar :=
  if vs.any (·.name = v) then vs else vs ++ [{ name := v }]

def updVar (vs : List PVar) (v : Label) (f : PVar → PVar) : List PVar :=
  (touch vs v).map fun p => if p.name = v then f p else p

/-- repeated keys are kept as separate terms (summed later by `add_linear` / `add_quadratic` in
    `copy_expression`) -/
def LExpr.addLin (e : LExpr) (v : Label) (b : Rat) : LExpr := { e with lin := e.lin ++ [(v, b)] }

def halve (qs : List (Label × Label × Rat)) : List (Label × Label × Rat) := qs.map fun (u, v, b) => (u, v, b / 2)

/-- one token of the writer's grammar; inside `[ … ]/2` the stored bias is half the written one
    (`copy_expression(is_objective=true)`) -/
def rstep (st : RState) (t : Tok) : RState :=
  match st.mode, t with
  | .start, .minimize => { st with mode := .objHdr }
  | .objHdr, .objLabel => { st with mode := .obj }
  | .obj, .lin b v => { st with vars := touch st.vars v, obj := st.obj.addLin v b }
  | .obj, .qopen => { st with mode := .objQ, qacc := [] }
  | .objQ, .qterm b u v => { st with vars := touch (touch st.vars u) v, qacc := st.qacc ++ [(u, v, b)] }
  | .objQ, .qcloseHalf => { st with mode := .obj, obj := { st.obj with quad := st.obj.quad ++ halve st.qacc }, qacc := [] }
  | .obj, .const b => { st with obj := { st.obj with off := st.obj.off + b } }
  | .start, .blank2 => { st with mode := .preCons }
  | .obj, .blank2 => { st with mode := .preCons }
  | .preCons, .subjectTo => { st with mode := .cons }
  | .cons, .clabel l => { st with mode := .con, cur := ⟨[], [], 0⟩, curLabel := l }
  | .con, .lin b v => { st with vars := touch st.vars v, cur := st.cur.addLin v b }
  | .con, .qopen => { st with mode := .conQ, qacc := [] }
  | .conQ, .qterm b u v => { st with vars := touch (touch st.vars u) v, qacc := st.qacc ++ [(u, v, b)] }
  | .conQ, .qclose => { st with mode := .con, cur := { st.cur with quad := st.cur.quad ++ st.qacc }, qacc := [] }
  | .con, .cmp s rhs => { st with mode := .cons, cons := st.cons ++ [⟨st.curLabel, st.cur, s, rhs, false⟩] }
  | .cons, .nl => { st with mode := .preBounds }
  | .preBounds, .bounds => { st with mode := .bnds }
  | .bnds, .bound lb v ub => { st with vars := updVar st.vars v fun p => { p with lb := lb, ub := some ub } }
  | .bnds, .nl => { st with mode := .preBin }
  | .preBin, .section false => { st with mode := .bin }
  | .bin, .name v => { st with vars := updVar st.vars v fun p => { p with binary := true } }
  | .bin, .nl => { st with mode := .preGen }
  | .preGen, .section true => { st with mode := .gen }
  | .gen, .name v => { st with vars := updVar st.vars v fun p => { p with general := true } }
  | .gen, .nl => { st with mode := .preEnd }
  | .preEnd, .end_ => { st with mode := .done }
  | _, _ => { st with mode := .bad }

def minBound : VT → Rat
  | .spin => -1 | .binary => 0 | .integer => -intMax | .real => -realMax
def maxBound : VT → Rat
  | .spin => 1 | .binary => 1 | .integer => intMax | .real => realMax

def clamp (vt : VT) (x : Rat) : Rat := if x < minBound vt then minBound vt else if x > maxBound vt then maxBound vt else x

/-- `model_to_cqm` on one variable: type from the sections, bounds clamped to the vartype's limits
    (`+inf` clamps to the maximum); BINARY ignores its bounds -/
def toLVar (p : PVar) : LVar :=
  let vt := if p.binary then VT.binary else if p.general then VT.integer else VT.real
  match vt with
  | .binary => ⟨p.name, vt, 0, 1⟩
  | _ => ⟨p.name, vt, clamp vt p.lb, match p.ub with | some u => clamp vt u | none => maxBound vt⟩

/-- the reader: a left fold of `rstep`; accepted iff it ends in `done` -/
def readToks (ts : List Tok) : Option LCqm :=
  let st := ts.foldl rstep {}
  if st.mode = .done then some ⟨st.vars.map toLVar, st.obj, st.cons⟩ else none

/-! ## lexical layer: the text of a dump back to the writer's tokens

Words are separated by blanks and newlines, so the `"\n "` inserted by `_WidthLimitedFile` between two
writes never changes them.  This layer is executable and validated by the correspondence run (the
model's text equals `lp.dumps`, its reading equals `lp.loads`); it is not part of the theorems. -/

def isWs (c : Char) : Bool := c = ' ' || c = '\n'

/-- blank/newline separated words of a character list; `cur` = the current word, reversed -/
def wordsAux : List Char → List Char → List (List Char)
  | [], cur => if cur.isEmpty then [] else [cur.reverse]
  | c :: cs, cur =>
    if isWs c then (if cur.isEmpty then wordsAux cs [] else cur.reverse :: wordsAux cs [])
    else wordsAux cs (c :: cur)

def wordsL (cs : List Char) : List (List Char) := wordsAux cs []

def words (s : String) : List String := (wordsL s.toList).map String.ofList

def parseDigits (cs : List Char) : Option Nat :=
  if cs.isEmpty || !cs.all Char.isDigit then none else some (cs.foldl (fun n c => 10 * n + (c.toNat - 48)) 0)

/-- decimal literal `[-]ddd[.ddd]`, or `[-]1e+30` -/
def parseDec (w : String) : Option Rat :=
  if w = "1e+30" then some realMax else if w = "-1e+30" then some (-realMax) else
  let neg : Bool := w.toList.head? = some '-'
  let cs := if neg then w.toList.drop 1 else w.toList
  let ip := cs.takeWhile (· ≠ '.')
  let fp := (cs.dropWhile (· ≠ '.')).drop 1
  match parseDigits ip, (if cs.contains '.' then parseDigits fp else some 0) with
  | some a, some b =>
    let q : Rat := (a : Rat) + (if cs.contains '.' then (b : Rat) / (10 : Rat) ^ fp.length else 0)
    some (if neg then -q else q)
  | _, _ => none

/-- the words with a meaning of their own in the writer's grammar -/
inductive WClass where
  | minimize | obj | subject | to | bounds | binary | general | end_
  | plus | minus | lbr | rbrHalf | rbr | star | le | ge | eq | other
deriving DecidableEq

def wordTable : List (String × WClass) :=
  [("Minimize", .minimize), ("obj:", .obj), ("Subject", .subject), ("To", .to), ("Bounds", .bounds), ("Binary", .binary),
   ("General", .general), ("End", .end_), ("+", .plus), ("-", .minus), ("[", .lbr), ("]/2", .rbrHalf), ("]", .rbr),
   ("*", .star), ("<=", .le), (">=", .ge), ("=", .eq)]

def classify (w : String) : WClass := ((wordTable.find? (fun p => p.1 = w)).map (·.2)).getD .other

inductive LMode where
  | start | objective | constraints | bnds | bin | gen | done | bad
deriving DecidableEq

structure LState where
  mode : LMode := .start
  out : List Tok := []
  subj : Bool := false
  neg : Option Bool := none
  num : Option Rat := none
  inQ : Bool := false
  qu : Option Label := none
  cmpS : Option Sense := none
  bstage : Nat := 0
  b1 : Rat := 0
  bn : Label := .str ""

def LState.emit (st : LState) (ts : List Tok) : LState := { st with out := st.out ++ ts }

/-- a pending `sign number` with no variable after it is the objective's constant -/
def LState.flush (st : LState) : LState :=
  match st.neg, st.num with
  | some n, some q => { st with out := st.out ++ [Tok.const (if n then -q else q)], neg := none, num := none }
  | _, _ => st

def signed (st : LState) : Rat := let q := st.num.getD 0; if st.neg.getD false then -q else q

def lastIsColon (w : String) : Bool := w.toList.getLast? = some ':'

/-- a word that is not a symbol, inside an objective or constraint expression -/
def exprWord (st : LState) (w : String) : LState :=
  match st.cmpS with
  | some sn => match parseDec w with
    | some q => { st.emit [Tok.cmp sn q] with cmpS := none }
    | none => { st with mode := .bad }
  | none =>
    if st.neg.isSome ∧ st.num.isNone then
      match parseDec w with | some q => { st with num := some q } | none => { st with mode := .bad }
    else if st.neg.isSome ∧ st.num.isSome then
      if st.inQ then
        match st.qu with
        | none => { st with qu := some (.str w) }
        | some u => { st.emit [Tok.qterm (signed st) u (.str w)] with qu := none, neg := none, num := none }
      else { st.emit [Tok.lin (signed st) (.str w)] with neg := none, num := none }
    else if st.mode = .constraints ∧ lastIsColon w then st.emit [Tok.clabel (.str (String.ofList (w.toList.dropLast)))]
    else { st with mode := .bad }

/-- one word inside an objective (`.objective`) or the constraints (`.constraints`) -/
def exprStep (st : LState) (w : String) : LState :=
  match classify w with
  | .plus => { st.flush with neg := some false }
  | .minus => { st.flush with neg := some true }
  | .lbr => { st.emit [Tok.qopen] with inQ := true, neg := none, num := none }
  | .rbrHalf => { st.emit [Tok.qcloseHalf] with inQ := false }
  | .rbr => { st.emit [Tok.qclose] with inQ := false }
  | .star => st
  | .le => if st.mode = .constraints then { st with cmpS := some .le } else exprWord st w
  | .ge => if st.mode = .constraints then { st with cmpS := some .ge } else exprWord st w
  | .eq => if st.mode = .constraints then { st with cmpS := some .eq } else exprWord st w
  | _ => exprWord st w

/-- the bounds section: `lb <= name <= ub` -/
def boundStep (st : LState) (w : String) : LState :=
  match st.bstage with
  | 0 => match parseDec w with | some q => { st with b1 := q, bstage := 1 } | none => { st with mode := .bad }
  | 1 => if w = "<=" then { st with bstage := 2 } else { st with mode := .bad }
  | 2 => { st with bn := .str w, bstage := 3 }
  | 3 => if w = "<=" then { st with bstage := 4 } else { st with mode := .bad }
  | _ => match parseDec w with
    | some q => { st.emit [Tok.bound st.b1 st.bn q] with bstage := 0, b1 := 0, bn := .str "" }
    | none => { st with mode := .bad }

def lstep (st : LState) (w : String) : LState :=
  match st.mode with
  | .done => { st with mode := .bad }
  | .bad => st
  | .start =>
    match classify w with
    | .minimize => st.emit [Tok.minimize]
    | .obj => { st.emit [Tok.objLabel] with mode := .objective }
    | .subject => { st.flush with subj := true }
    | .to => if st.subj then { st.emit [Tok.blank2, Tok.subjectTo] with subj := false, mode := .constraints } else { st with mode := .bad }
    | _ => { st with mode := .bad }
  | .objective =>
    match classify w with
    | .subject => { st.flush with subj := true }
    | .to => if st.subj then { st.emit [Tok.blank2, Tok.subjectTo] with subj := false, mode := .constraints } else exprStep st w
    | _ => exprStep st w
  | .constraints =>
    match classify w with
    | .bounds => { st.emit [Tok.nl, Tok.bounds] with mode := .bnds }
    | _ => exprStep st w
  | .bnds =>
    if classify w = .binary ∧ st.bstage = 0 then { st.emit [Tok.nl, Tok.section false] with mode := .bin }
    else boundStep st w
  | .bin => if classify w = .general then { st.emit [Tok.nl, Tok.section true] with mode := .gen } else st.emit [Tok.name (.str w)]
  | .gen => if classify w = .end_ then { st.emit [Tok.nl, Tok.end_] with mode := .done } else st.emit [Tok.name (.str w)]

/-- text → tokens -/
def lex (s : String) : Option (List Tok) :=
  let st := (words s).foldl lstep {}
  if st.mode = .done then some st.out else none

/-- `lp.loads` at specification level -/
def loads (s : String) : Option LCqm := (lex s).bind readToks

/-! ## evaluation (what the round trip must preserve) -/

def linE (x : Label → Rat) : List (Label × Rat) → Rat
  | [] => 0
  | (v, b) :: t => b * x v + linE x t

def quadE (x : Label → Rat) : List (Label × Label × Rat) → Rat
  | [] => 0
  | (u, v, b) :: t => b * x u * x v + quadE x t

def LExpr.eval (e : LExpr) (x : Label → Rat) : Rat := e.off + linE x e.lin + quadE x e.quad

/-- `lhs(x) - rhs` -/
def LCon.activity (c : LCon) (x : Label → Rat) : Rat := c.lhs.eval x - c.rhs

end Lp
