import DimodModel.BqmFile

/-! # Expression files, the CQM v2 archive layout, label (de)serialisation, DQM framing (C09)

Mirrors `cyexpression.pyx:_into_file/_from_file/_iindices_load/_ilinear_load/_iquadratic_load`,
`constrained.py:to_file/from_file`, `cyconstrained.pyx:_ivarinfo_load`,
`variables.py:serialize_variable/deserialize_variable`,
`discrete_quadratic_model.py:to_file/from_file` (header, `BIAS` framing, `VARS`).

The zip container is abstract: an archive is the list of its members `(name, bytes)` in
`namelist()` order; `zf.read(name)` is a lookup that raises `KeyError`.  `np.savez/np.load`
(the DQM body) is a parameter. -/

namespace FileFmt

/-! ## labels as JSON values -/

/-- a variable / constraint label as dimod accepts it for serialisation -/
inductive FLabel where
  | int (z : Int)
  | flt (repr : String)          -- a non-integral number, carried as the text `float.__repr__` gives
  | str (s : String)
  | tup (l : List FLabel)

/-- a JSON value as `json.loads` returns it for a label -/
inductive JVal where
  | int (z : Int)
  | flt (repr : String)
  | str (s : String)
  | arr (l : List JVal)

mutual
/-- `serialize_variable` followed by what `json.dumps` makes of a tuple (an array) -/
def serializeLabel : FLabel → JVal
  | .int z => .int z
  | .flt r => .flt r
  | .str s => .str s
  | .tup l => .arr (serializeLabels l)
def serializeLabels : List FLabel → List JVal
  | [] => []
  | x :: xs => serializeLabel x :: serializeLabels xs
end

mutual
/-- `deserialize_variable`: every non-string collection becomes a tuple -/
def deserializeLabel : JVal → FLabel
  | .int z => .int z
  | .flt r => .flt r
  | .str s => .str s
  | .arr l => .tup (deserializeLabels l)
def deserializeLabels : List JVal → List FLabel
  | [] => []
  | x :: xs => deserializeLabel x :: deserializeLabels xs
end

/-! ## `json.dumps` of a label (ensure_ascii) and the archive path of a constraint -/

def hexDigit (n : Nat) : Char := if n < 10 then Char.ofNat (48 + n) else Char.ofNat (87 + n)

def u4 (n : Nat) : List Char :=
  ['\\', 'u', hexDigit (n / 4096 % 16), hexDigit (n / 256 % 16), hexDigit (n / 16 % 16), hexDigit (n % 16)]

/-- `json.encoder.py_encode_basestring_ascii` on one character -/
def escapeChar (c : Char) : List Char :=
  if c = '"' then ['\\', '"']
  else if c = '\\' then ['\\', '\\']
  else if c = '\n' then ['\\', 'n']
  else if c = '\r' then ['\\', 'r']
  else if c = '\t' then ['\\', 't']
  else if c.toNat = 8 then ['\\', 'b']
  else if c.toNat = 12 then ['\\', 'f']
  else if 32 ≤ c.toNat ∧ c.toNat ≤ 126 then [c]
  else if c.toNat < 65536 then u4 c.toNat
  else  -- surrogate pair
    let v := c.toNat - 65536
    u4 (55296 + v / 1024) ++ u4 (56320 + v % 1024)

def dumpsStr (s : String) : List Char := '"' :: (s.toList.flatMap escapeChar) ++ ['"']

/-- decimal digits of a natural number (`int.__repr__`) -/
def natDigits (n : Nat) : List Char :=
  if n < 10 then [Char.ofNat (48 + n)] else natDigits (n / 10) ++ [Char.ofNat (48 + n % 10)]
decreasing_by omega

def intDigits (z : Int) : List Char := if z < 0 then '-' :: natDigits z.natAbs else natDigits z.natAbs

mutual
def dumpsJ : JVal → List Char
  | .int z => intDigits z
  | .flt r => r.toList
  | .str s => dumpsStr s
  | .arr l => '[' :: dumpsJs l ++ [']']
def dumpsJs : List JVal → List Char
  | [] => []
  | [x] => dumpsJ x
  | x :: y :: t => dumpsJ x ++ [',', ' '] ++ dumpsJs (y :: t)
end

/-- `str.replace('/', <the six characters backslash u 0 0 2 f>)`: the D11 repair -/
def escapeSlash (cs : List Char) : List Char :=
  cs.flatMap fun c => if c = '/' then ['\\', 'u', '0', '0', '2', 'f'] else [c]

/-- `lstr` in `ConstrainedQuadraticModel.to_file`; `fixed = false` is the text before the D11
    repair (`json.dumps(serialize_variable(label))` verbatim) -/
def labelText (fixed : Bool) (l : FLabel) : List Char :=
  let t := dumpsJ (serializeLabel l)
  if fixed then escapeSlash t else t

def pathSafe (lstr : List Char) : Prop := '/' ∉ lstr

/-- member names of the archive, as character lists -/
def conPrefix : List Char := ['c', 'o', 'n', 's', 't', 'r', 'a', 'i', 'n', 't', 's', '/']
def nmVarinfo : List Char := ['v', 'a', 'r', 'i', 'n', 'f', 'o']
def nmLabels : List Char := ['v', 'a', 'r', 'i', 'a', 'b', 'l', 'e', '_', 'l', 'a', 'b', 'e', 'l', 's', '.', 'j', 's', 'o', 'n']
def nmObjective : List Char := ['o', 'b', 'j', 'e', 'c', 't', 'i', 'v', 'e']
def fLhs : List Char := ['l', 'h', 's']
def fRhs : List Char := ['r', 'h', 's']
def fSense : List Char := ['s', 'e', 'n', 's', 'e']
def fDiscrete : List Char := ['d', 'i', 's', 'c', 'r', 'e', 't', 'e']
def fWeight : List Char := ['w', 'e', 'i', 'g', 'h', 't']
def fPenalty : List Char := ['p', 'e', 'n', 'a', 'l', 't', 'y']

def constraintPath (lstr : List Char) (file : List Char) : List Char :=
  conPrefix ++ (lstr ++ '/' :: file)

/-- `re.match("constraints/([^/]+)/", arch)` → `group(1)` -/
def matchConstraint (arch : List Char) : Option (List Char) :=
  if conPrefix.isPrefixOf arch then
    let rest := arch.drop conPrefix.length
    let g := rest.takeWhile (· ≠ '/')
    if g.isEmpty then none
    else match rest.drop g.length with
      | '/' :: _ => some g
      | _ => none
  else none

/-! ## expressions -/

structure ExprContent where
  indices : List Nat                 -- index of each expression variable in the parent model
  offset : Bytes
  linear : List Bytes
  quad : List (Nat × Nat × Bytes)    -- `cbegin_quadratic()` order, expression-local indices
  deriving Repr, DecidableEq

def encQuadRec (isz : Nat) (t : Nat × Nat × Bytes) : Bytes := toLE isz t.1 ++ toLE isz t.2.1 ++ t.2.2

/-- `_cyExpression._into_file` -/
def exprEncode (hdrText : Bytes) (isz : Nat) (e : ExprContent) : Bytes :=
  makeHeader exprPrefix Gen.cqmVersionMajor Gen.cqmVersionMinor hdrText ++
  sectionDumps magINDX nlb4 (e.indices.map (toLE isz)).flatten ++
  sectionDumps magOFFS nlb4 e.offset ++
  sectionDumps magLINB nlb4 e.linear.flatten ++
  sectionDumps magQUAD nlb8 (e.quad.map (encQuadRec isz)).flatten

/-- number of distinct entries (how many variables `add_linear(indices[vi], 0)` created) -/
def countDistinct : List Nat → Nat
  | [] => 0
  | x :: xs => (if xs.contains x then 0 else 1) + countDistinct xs

/-- `_ilinear_load(arr, n, dtype)`: `arr` is already an array of biases (possibly shorter) -/
def ilinearLoad (guard : Bool) (numVars : Nat) (arr : List Bytes) (n : Nat) : Res (List Bytes) :=
  if numVars ≠ n then .err .runtime
  else if arr.length = n then .ok arr
  else if guard then .err .value
  else .ub

def decQuadRec (isz : Nat) (r : Bytes) : Nat × Nat × Bytes :=
  ((leInt (r.take isz)).toNat, (leInt ((r.drop isz).take isz)).toNat, r.drop (2 * isz))

def exprBody (guard : Bool) (h : QHeader J) : Prog ExprContent :=
  (sectionLoadWith magINDX nlb4 fun d => rawRecords guard h.isize d h.nvars).bind fun irecs =>
  (sectionLoadWith magOFFS nlb4 (offsLoads h.dsize)).bind fun off =>
  (sectionLoadWith magLINB nlb4 fun d => (linbLoads h.dsize h.nvars d).bind fun arr =>
      ilinearLoad guard (countDistinct (irecs.map fun r => (leInt r).toNat)) arr h.nvars).bind fun lin =>
  (sectionLoadWith magQUAD nlb8 fun d => rawRecords guard (2 * h.isize + h.dsize) d h.ninter).bind fun qrecs =>
  .ret { indices := irecs.map fun r => (leInt r).toNat, offset := off, linear := lin, quad := qrecs.map (decQuadRec h.isize) }

/-- `_cyExpression._from_file` on a fresh expression -/
def exprDecode (guard : Bool) (parse : Bytes → Option (QHeader J)) : Prog (QHeader J × ExprContent) :=
  (readHeader exprPrefix parse).bind fun vh =>
  (exprBody guard vh.2).bind fun e => .ret (vh.2, e)

/-! ## the CQM archive -/

abbrev Archive := List (List Char × Bytes)

def Archive.read (a : Archive) (name : List Char) : Res Bytes :=
  match a.find? (fun m => m.1 = name) with
  | some m => .ok m.2
  | none => .err .key

structure CqmConstraint where
  lstr : List Char                 -- the label as JSON text (directory name)
  lhsHdrText : Bytes
  lhs : ExprContent
  rhs : Bytes                      -- float64
  sense : Bytes                    -- b"==", b"<=", b">="
  discrete : Bool
  soft : Option (Bytes × Bytes)    -- (weight as float64, penalty name)
  deriving Repr, DecidableEq

structure CqmContent where
  varinfo : VarInfo
  labelsText : Option Bytes        -- `variable_labels.json` when the labels are not range(n)
  objHdrText : Bytes
  objective : ExprContent
  constraints : List CqmConstraint
  deriving Repr, DecidableEq

def constraintMembers (isz : Nat) (c : CqmConstraint) : Archive :=
  [(constraintPath c.lstr fLhs, exprEncode c.lhsHdrText isz c.lhs),
   (constraintPath c.lstr fRhs, c.rhs),
   (constraintPath c.lstr fSense, c.sense)] ++
  (if c.discrete then [(constraintPath c.lstr fDiscrete, [1])] else []) ++
  (match c.soft with
   | some (w, p) => [(constraintPath c.lstr fWeight, w), (constraintPath c.lstr fPenalty, p)]
   | none => [])

/-- `variable_labels.json`, written only when the labels are not `range(n)` -/
def labelsMember : Option Bytes → Archive
  | some t => [(nmLabels, t)]
  | none => []

/-- the members `ConstrainedQuadraticModel.to_file` writes, in order -/
def cqmMembers (isz : Nat) (m : CqmContent) : Archive :=
  [(nmVarinfo, sectionDumps magVTYP nlb4 (encVarInfo m.varinfo))] ++
  labelsMember m.labelsText ++
  [(nmObjective, exprEncode m.objHdrText isz m.objective)] ++
  (m.constraints.map (constraintMembers isz)).flatten

/-- run a reader program on the bytes of one archive member (`zf.open(name)`) -/
def onMember (a : Archive) (name : List Char) (p : Prog α) : Res α :=
  (a.read name).bind fun b =>
    match p.run b with
    | .ok (x, _) => .ok x
    | .err e => .err e
    | .ub => .ub

/-- `np.frombuffer(zf.read(...), np.float64)[0]` -/
def readF64 (a : Archive) (name : List Char) : Res Bytes :=
  (a.read name).bind fun b =>
    match frombuffer 8 b with
    | .ok [] => .err .index
    | .ok (x :: _) => .ok x
    | .err e => .err e
    | .ub => .ub

def dedup : List (List Char) → List (List Char)
  | [] => []
  | x :: xs => x :: (dedup xs).filter (· ≠ x)

/-- the constraint directory names found by the regular expression, first occurrence order
    (the code collects them in a `set`; order is not part of the result) -/
def constraintDirs (a : Archive) : List (List Char) := dedup (a.filterMap fun m => matchConstraint m.1)

def loadConstraint (guard : Bool) (parse : Bytes → Option (QHeader J)) (okLabel : List Char → Bool)
    (a : Archive) (d : List Char) : Res CqmConstraint :=
  if !okLabel d then .err .json else            -- json.loads(constraint)
  (readF64 a (constraintPath d fRhs)).bind fun rhs =>
  (a.read (constraintPath d fSense)).bind fun sense =>
  (match readF64 a (constraintPath d fWeight) with
   | .err .key => .ok none                         -- except KeyError: weight = penalty = None
   | .err e => .err e
   | .ub => .ub
   | .ok w => match a.read (constraintPath d fPenalty) with
     | .ok p => .ok (some (w, p))
     | _ => .ok none : Res (Option (Bytes × Bytes))).bind fun soft =>
  (onMember a (constraintPath d fLhs) (exprDecode guard parse)).bind fun (_, lhs) =>
  let disc := match a.read (constraintPath d fDiscrete) with
    | .ok b => b.any (· ≠ 0)
    | _ => false
  .ok { lstr := d, lhsHdrText := [], lhs := lhs, rhs := rhs, sense := sense, discrete := disc, soft := soft }

def loadConstraints (guard : Bool) (parse : Bytes → Option (QHeader J)) (okLabel : List Char → Bool)
    (a : Archive) : List (List Char) → Res (List CqmConstraint)
  | [] => .ok []
  | d :: ds => (loadConstraint guard parse okLabel a d).bind fun c =>
      (loadConstraints guard parse okLabel a ds).bind fun cs => .ok (c :: cs)

/-- `try: zf.read(name) except KeyError: pass` -/
def optRead : Res Bytes → Option Bytes
  | .ok t => some t
  | _ => none

/-- `ConstrainedQuadraticModel.from_file` after `read_header`, version 2.0, on an opened archive.
    `okLabel` says whether `json.loads` accepts a directory name. -/
def cqmDecode (guard : Bool) (dsz : Nat) (numVariables : Nat) (parse : Bytes → Option (QHeader J))
    (okLabel : List Char → Bool) (a : Archive) : Res CqmContent :=
  (onMember a nmVarinfo (sectionLoadWith magVTYP nlb4 fun d => ivartypesLoad guard dsz d numVariables)).bind fun vi =>
  (onMember a nmObjective (exprDecode guard parse)).bind fun (_, obj) =>
  (loadConstraints guard parse okLabel a (constraintDirs a)).bind fun cs =>
  .ok { varinfo := vi, labelsText := optRead (a.read nmLabels), objHdrText := [], objective := obj, constraints := cs }

/-! ### the header consistency check (`check_header=True`) -/

def exprDegreePos (e : ExprContent) (v : Nat) : Bool := e.quad.any fun t => t.1 = v || t.2.1 = v

/-- local positions `0 .. n-1` of an expression's variables -/
def exprPositions (e : ExprContent) : List Nat := List.range e.indices.length

def exprNumQuadVars (vi : VarInfo) (only : Option UInt8) (e : ExprContent) : Nat :=
  ((exprPositions e).filter fun p =>
    exprDegreePos e p && (match only with
      | none => true
      | some t => ((vi.getD (e.indices.getD p 0) (0, [], [])).1 = t))).length

def exprNumBiases (e : ExprContent) : Nat := e.indices.length + e.quad.length

def exprNumLinearOf (vi : VarInfo) (t : UInt8) (e : ExprContent) : Nat :=
  (e.indices.filter fun g => (vi.getD g (0, [], [])).1 = t).length

/-- vartype code of REAL in `dimod::Vartype` -/
def vtREAL : UInt8 := 3

/-- the seven numbers of the CQM header dictionary, recomputed from the loaded model -/
structure CqmCounts where
  numVariables : Nat
  numConstraints : Nat
  numBiases : Nat
  numQuadVars : Nat
  numQuadVarsReal : Nat
  numLinearReal : Nat
  numWeighted : Nat
  deriving Repr, DecidableEq

def cqmCounts (m : CqmContent) : CqmCounts :=
  let lhss := m.constraints.map (·.lhs)
  { numVariables := m.varinfo.length
    numConstraints := m.constraints.length
    numBiases := exprNumBiases m.objective + (lhss.map exprNumBiases).sum
    numQuadVars := (lhss.map (exprNumQuadVars m.varinfo none)).sum
    numQuadVarsReal := (lhss.map (exprNumQuadVars m.varinfo (some vtREAL))).sum
                        + exprNumQuadVars m.varinfo (some vtREAL) m.objective
    numLinearReal := exprNumLinearOf m.varinfo vtREAL m.objective + (lhss.map (exprNumLinearOf m.varinfo vtREAL)).sum
    numWeighted := (m.constraints.filter fun c => c.soft.isSome).length }

def cqmDecodeChecked (guard : Bool) (dsz : Nat) (hdr : CqmCounts) (parse : Bytes → Option (QHeader J))
    (okLabel : List Char → Bool) (a : Archive) : Res CqmContent :=
  (cqmDecode guard dsz hdr.numVariables parse okLabel a).bind fun m =>
    if cqmCounts m = hdr then .ok m else .err .value

/-! ## a header followed by a container that is read to the end of the file (the CQM zip) -/

/-- `read_header`, a version test, then `zipfile.ZipFile(file_like)` on everything that follows.
    `openBody` stands for opening the archive (`None`: `BadZipFile`). -/
def containerLoad (pre : Bytes) (parse : Bytes → Option H) (verOk : List Nat → Bool) (openBody : Bytes → Option β)
    (bytes : Bytes) : Res (H × β) :=
  match (readHeader pre parse).run bytes with
  | .err e => .err e
  | .ub => .ub
  | .ok ((ver, h), rest) =>
    if !verOk ver then .err .value
    else match openBody rest with
      | none => .err .zip
      | some a => .ok (h, a)

/-- the versions `ConstrainedQuadraticModel.from_file` reads with the 2.0 layout -/
def cqmVerOk (ver : List Nat) : Bool := !tupleLt ver [2, 0] && !tupleLt [2, 0] ver

/-- `ConstrainedQuadraticModel.from_file` on a version-2.0 file (the legacy 1.x layout is not
    modelled; bundled 1.x files are decoded member by member by the harness) -/
def cqmFileLoad (guard : Bool) (dsz : Nat) (parseHdr : Bytes → Option CqmCounts) (openZip : Bytes → Option Archive)
    (parse : Bytes → Option (QHeader J)) (okLabel : List Char → Bool) (bytes : Bytes) : Res CqmContent :=
  (containerLoad cqmPrefix parseHdr cqmVerOk openZip bytes).bind fun ha =>
    cqmDecodeChecked guard dsz ha.1 parse okLabel ha.2

/-! ## DQM framing: header, `BIAS` + length + npz blob, optional `VARS` -/

/-- `DiscreteQuadraticModel.to_file`; `npz` is what `np.savez` wrote -/
def dqmEncode (hdrText : Bytes) (labelled : Bool) (npz : Bytes) (varsText : Bytes) : Bytes :=
  makeHeader dqmPrefix 1 1 hdrText ++ magBIAS ++ toLE 4 npz.length ++ npz ++
  (if labelled then sectionDumps magVARS nlb4 varsText else [])

/-- after the blob: build the model, then the optional `VARS` section -/
def dqmFinish (parseVars : Bytes → Option (List J)) (npLoad : Bytes → Option D) (nvarsOf : D → Nat) (labelled : Bool) (h : H)
    (blob : Bytes) : Prog (H × D × Option (List J)) :=
  match npLoad blob with
  | none => .fail .zip
  | some d =>
    if labelled then
      (varsLoad parseVars).bind fun l =>
        if l.length ≠ nvarsOf d then .fail .value else .ret (h, d, some l)
    else .ret (h, d, none)

/-- `BIAS` magic, length, blob -/
def dqmBody (parseVars : Bytes → Option (List J)) (npLoad : Bytes → Option D) (nvarsOf : D → Nat) (labelled : Bool) (h : H) :
    Prog (H × D × Option (List J)) :=
  (Prog.expect magBIAS).bind fun _ =>
  (Prog.readLen 4).bind fun n =>
  (Prog.readN n).bind fun blob =>
  dqmFinish parseVars npLoad nvarsOf labelled h blob

/-- `from_file`: `npLoad` stands for `np.load` + `from_numpy_vectors` on the blob (it sees the
    rest of the file, as `np.load(file_like)` does); `nvarsOf` is `obj.num_variables()` -/
def dqmDecode (parse : Bytes → Option (Bool × H)) (parseVars : Bytes → Option (List J))
    (npLoad : Bytes → Option D) (nvarsOf : D → Nat) : Prog (H × D × Option (List J)) :=
  (readHeader dqmPrefix parse).bind fun vh =>
  if !tupleLt vh.1 [2, 0] then .fail .value else
  dqmBody parseVars npLoad nvarsOf vh.2.1 vh.2.2

end FileFmt
