import DimodModel.JsonValue
import DimodModel.HeaderDicts

/-! # Header dictionaries as JSON text: `json.dumps(data, sort_keys=True)` and `json.loads`

The header dictionaries are flat: string keys; values are integers, strings, arrays (the `shape`
pair, the format-1 label list) or booleans (the `variables` flag).  `dumpsDict` writes them the way
`json.dumps` does (`", "` and `": "` separators, keys in the order given — the header builders give
them sorted, which `keysSorted` checks), `scanDict` mirrors `json.decoder.JSONObject`. -/

namespace FileFmt

inductive HField where
  | val (v : JVal)
  | bool (b : Bool)

abbrev HDict := List (String × HField)

def cTrue : List Char := ['t', 'r', 'u', 'e']
def cFalse : List Char := ['f', 'a', 'l', 's', 'e']

def dumpsField : HField → List Char
  | .val v => dumpsJ v
  | .bool true => cTrue
  | .bool false => cFalse

def dumpsItems : HDict → List Char
  | [] => []
  | [kv] => dumpsStr kv.1 ++ ([':', ' '] ++ dumpsField kv.2)
  | kv :: kv2 :: t => dumpsStr kv.1 ++ ([':', ' '] ++ (dumpsField kv.2 ++ ([',', ' '] ++ dumpsItems (kv2 :: t))))

def dumpsDict (d : HDict) : List Char := '{' :: (dumpsItems d ++ ['}'])

/-- `sort_keys=True` leaves the order alone when the keys are already increasing -/
def keysSorted : HDict → Bool
  | kv :: kv2 :: t => decide (kv.1 < kv2.1) && keysSorted (kv2 :: t)
  | _ => true

/-- one value of a dictionary: `true`, `false`, or a value `scanOnce` knows -/
def scanField (fuel : Nat) (cs : List Char) : Option (HField × List Char) :=
  if cTrue.isPrefixOf cs then some (.bool true, cs.drop 4)
  else if cFalse.isPrefixOf cs then some (.bool false, cs.drop 5)
  else match scanOnce fuel cs with
    | some (v, r) => some (.val v, r)
    | none => none

/-- the items of a non-empty object, from the opening quote of the first key -/
def scanItems (cap : Nat) : Nat → List Char → Option (HDict × List Char)
  | 0, _ => none
  | _, [] => none
  | f + 1, c :: t =>
    if c ≠ '"' then none else
    match scanString t with
    | none => none
    | some (k, r) =>
      match skipWs r with
      | [] => none
      | d :: r2 =>
        if d ≠ ':' then none else
        match scanField cap (skipWs r2) with
        | none => none
        | some (v, r3) =>
          match skipWs r3 with
          | [] => none
          | e :: r4 =>
            if e = ',' then
              match scanItems cap f (skipWs r4) with
              | some (kvs, r5) => some ((String.ofList k, v) :: kvs, r5)
              | none => none
            else if e = '}' then some ([(String.ofList k, v)], r4)
            else none

/-- `JSONObject` from the opening brace -/
def scanDict (fuel : Nat) : List Char → Option (HDict × List Char)
  | [] => none
  | c :: t =>
    if c ≠ '{' then none else
    match skipWs t with
    | [] => none
    | d :: t2 => if d = '}' then some ([], t2) else scanItems fuel fuel (d :: t2)

/-- `json.loads` of a header text -/
def loadsDict (cs : List Char) : Option HDict :=
  match scanDict (cs.length + 1) (skipWs cs) with
  | some (d, r) => if (skipWs r).isEmpty then some d else none
  | none => none

/-! ## header dictionaries as `HDict`, and back -/

def varsField : VarsField JVal → HField
  | .flag b => .bool b
  | .labels l => .val (.arr l)

/-- the dictionary of a BQM header (keys in sorted order) -/
def bqmDict (h : HeaderDict) : HDict :=
  [("dtype", .val (.str h.dtype)), ("itype", .val (.str h.itype)), ("ntype", .val (.str (h.ntype.getD ""))),
   ("shape", .val (.arr [.int h.shape.1, .int h.shape.2])), ("type", .val (.str h.type)),
   ("variables", varsField h.variables), ("vartype", .val (.str (h.vartype.getD "")))]

/-- the dictionary of a QM header -/
def qmDict (h : HeaderDict) : HDict :=
  [("dtype", .val (.str h.dtype)), ("itype", .val (.str h.itype)),
   ("shape", .val (.arr [.int h.shape.1, .int h.shape.2])), ("type", .val (.str h.type)),
   ("variables", varsField h.variables)]

/-- the dictionary of an expression header (no `variables`) -/
def exprDict (h : HeaderDict) : HDict :=
  [("dtype", .val (.str h.dtype)), ("itype", .val (.str h.itype)),
   ("shape", .val (.arr [.int h.shape.1, .int h.shape.2])), ("type", .val (.str h.type))]

def HDict.get? (d : HDict) (k : String) : Option HField :=
  match d.find? (fun kv => kv.1 = k) with
  | some kv => some kv.2
  | none => none

def sizeOfDtype (s : String) : Option Nat :=
  if s = "float32" then some 4 else if s = "float64" then some 8 else none

def sizeOfItype (s : String) : Option Nat :=
  if s = "int32" then some 4 else if s = "int64" then some 8 else none

/-- what `from_file` reads out of the parsed dictionary: `data['shape']`, `np.dtype(data['dtype'])`, … -/
def qheaderOfDict (needNtype needVartype needVars : Bool) (d : HDict) : Option (QHeader JVal) :=
  match d.get? "shape", d.get? "dtype", d.get? "itype" with
  | some (.val (.arr [.int n, .int m])), some (.val (.str dt)), some (.val (.str it)) =>
    match sizeOfDtype dt, sizeOfItype it with
    | some dsz, some isz =>
      let nsz : Option Nat := if needNtype then (match d.get? "ntype" with | some (.val (.str s)) => sizeOfItype s | _ => none) else some isz
      let vt : Option Nat := if needVartype then (match d.get? "vartype" with
          | some (.val (.str s)) => if s = "SPIN" then some 0 else if s = "BINARY" then some 1 else none
          | _ => none) else some 0
      let vars : Option (VarsField JVal) := if needVars then (match d.get? "variables" with
          | some (.bool b) => some (.flag b)
          | some (.val (.arr l)) => some (.labels l)
          | _ => none) else some (.flag false)
      match nsz, vt, vars with
      | some nsz, some vt, some vars =>
        some { nvars := n.toNat, ninter := m.toNat, dsize := dsz, isize := isz, nsize := nsz, vartype := vt, vars := vars }
      | _, _, _ => none
    | _, _ => none
  | _, _, _ => none

def asciiChars (b : Bytes) : List Char := b.map fun x => Char.ofNat x.toNat
def asciiBytes (cs : List Char) : Bytes := cs.map fun c => UInt8.ofNat c.toNat

/-- `json.loads(bytes.decode('ascii'))` + the field extraction of the BQM loader -/
def parseBqmHeader (b : Bytes) : Option (QHeader JVal) := (loadsDict (asciiChars b)).bind (qheaderOfDict true true true)
def parseQmHeader (b : Bytes) : Option (QHeader JVal) := (loadsDict (asciiChars b)).bind (qheaderOfDict false false true)
def parseExprHeader (b : Bytes) : Option (QHeader JVal) := (loadsDict (asciiChars b)).bind (qheaderOfDict false false false)

/-- `json.loads(data.decode('ascii'))` of a `VARS` section: a list of labels -/
def parseVarsReal (b : Bytes) : Option (List JVal) :=
  match loadsJ (asciiChars b) with
  | some (.arr l) => some l
  | _ => none

end FileFmt
