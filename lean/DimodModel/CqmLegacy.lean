import DimodModel.CqmFile

/-! # The legacy CQM layout (serialization versions 1.0 – 1.3): `_from_file_legacy`  (C09)

An archive with the member `objective` and, per constraint, `constraints/<label>/{lhs, rhs, sense,
discrete[, weight, penalty]}` where `objective` and every `lhs` are complete QM or BQM *files*
(loaded through `fileview.load`, which dispatches on the magic prefix).  `set_objective` /
`add_constraint`, which merge the loaded models into one CQM, are dimod's model operations (C05);
here the result of the loader is the list of loaded models with their attributes, and the header
consistency check is recomputed from them (the number of variables of the merged CQM is the number
of distinct variable labels). -/

namespace FileFmt

/-- what `fileview.load` returns for a member -/
inductive LoadedModel (J : Type) where
  | qm (m : QmLoaded J)
  | bqm (m : QLoaded J)

/-- `fileview.load(bytes)`: try the registered prefixes by length (7: `DIMODQM`; 8: `DIMODBQM`, and
    the CQM/DQM prefixes, which cannot be an objective or a left-hand side: `TypeError` downstream) -/
def loadModel (guard : Bool) (parse : Bytes → Option (QHeader J)) (parseVars : Bytes → Option (List J)) (b : Bytes) :
    Res (LoadedModel J) :=
  if b.take qmPrefix.length = qmPrefix then
    match (qmDecode guard parse parseVars).run b with
    | .ok (m, _) => .ok (.qm m)
    | .err e => .err e
    | .ub => .ub
  else if b.take bqmPrefix.length = bqmPrefix then
    match (bqmDecode parse parseVars).run b with
    | .ok (m, _) => .ok (.bqm m)
    | .err e => .err e
    | .ub => .ub
  else if b.take cqmPrefix.length = cqmPrefix ∨ b.take dqmPrefix.length = dqmPrefix then .err .type
  else .err .value

structure LegacyConstraint (J : Type) where
  lstr : List Char
  lhs : LoadedModel J
  rhs : Bytes
  sense : Bytes
  discrete : Bool
  soft : Option (Bytes × Bytes)

structure LegacyContent (J : Type) where
  objective : LoadedModel J
  constraints : List (LegacyConstraint J)

def legacyLoadConstraint (guard : Bool) (parse : Bytes → Option (QHeader J)) (parseVars : Bytes → Option (List J))
    (okLabel : List Char → Bool) (a : Archive) (d : List Char) : Res (LegacyConstraint J) :=
  ((a.read (constraintPath d fLhs)).bind (loadModel guard parse parseVars)).bind fun lhs =>
  (readF64 a (constraintPath d fRhs)).bind fun rhs =>
  (a.read (constraintPath d fSense)).bind fun sense =>
  (a.read (constraintPath d fDiscrete)).bind fun disc =>       -- no `except KeyError` in the legacy loader
  if !okLabel d then .err .json else
  (match readF64 a (constraintPath d fWeight) with
   | .err .key => .ok none
   | .err e => .err e
   | .ub => .ub
   | .ok w => match a.read (constraintPath d fPenalty) with
     | .ok p => .ok (some (w, p))
     | _ => .ok none : Res (Option (Bytes × Bytes))).bind fun soft =>
  .ok { lstr := d, lhs := lhs, rhs := rhs, sense := sense, discrete := disc.any (· ≠ 0), soft := soft }

def legacyLoadConstraints (guard : Bool) (parse : Bytes → Option (QHeader J)) (parseVars : Bytes → Option (List J))
    (okLabel : List Char → Bool) (a : Archive) : List (List Char) → Res (List (LegacyConstraint J))
  | [] => .ok []
  | d :: ds => (legacyLoadConstraint guard parse parseVars okLabel a d).bind fun c =>
      (legacyLoadConstraints guard parse parseVars okLabel a ds).bind fun cs => .ok (c :: cs)

/-- `_from_file_legacy` on an opened archive, before the header check -/
def legacyDecode (guard : Bool) (parse : Bytes → Option (QHeader J)) (parseVars : Bytes → Option (List J))
    (okLabel : List Char → Bool) (a : Archive) : Res (LegacyContent J) :=
  ((a.read nmObjective).bind (loadModel guard parse parseVars)).bind fun obj =>
  (legacyLoadConstraints guard parse parseVars okLabel a (constraintDirs a)).bind fun cs =>
  .ok { objective := obj, constraints := cs }

/-! ## the header consistency check of the legacy versions -/

def LoadedModel.nvars : LoadedModel J → Nat
  | .qm m => m.content.linear.length
  | .bqm m => m.content.linear.length

def LoadedModel.lower : LoadedModel J → List (List (Nat × Bytes))
  | .qm m => m.content.lower
  | .bqm m => m.content.lower

def rowsTotal : List (List (Nat × Bytes)) → Nat
  | [] => 0
  | r :: t => r.length + rowsTotal t

/-- the variable labels of a loaded model (`idx i` is the label of an index-labelled variable) -/
def LoadedModel.labels (idx : Nat → J) : LoadedModel J → List J
  | .qm m => match m.labels with | some l => l | none => (List.range m.content.linear.length).map idx
  | .bqm m => match m.labels with | some l => l | none => (List.range m.content.linear.length).map idx

/-- is variable `i` REAL (code 3)?  BQM variables never are -/
def LoadedModel.isReal : LoadedModel J → Nat → Bool
  | .qm m, i => (m.varinfo.getD i (0, [], [])).1 = vtREAL
  | .bqm _, _ => false

def LoadedModel.numBiases (m : LoadedModel J) : Nat := m.nvars + rowsTotal m.lower

/-- `degree(v) > 0` -/
def degreePos (lower : List (List (Nat × Bytes))) (i : Nat) : Bool :=
  !(lower.getD i []).isEmpty || lower.any fun row => row.any fun p => p.1 = i

def LoadedModel.numQuadVars (m : LoadedModel J) (onlyReal : Bool) : Nat :=
  ((List.range m.nvars).filter fun i => degreePos m.lower i && (!onlyReal || m.isReal i)).length

def LoadedModel.numLinearReal (m : LoadedModel J) : Nat := ((List.range m.nvars).filter fun i => m.isReal i).length

def dedupJ [DecidableEq J] : List J → List J
  | [] => []
  | x :: xs => x :: (dedupJ xs).filter (· ≠ x)

/-- the header dictionary of a legacy file: the later keys exist from 1.1, 1.2, 1.3 on -/
structure LegacyCounts where
  numVariables : Nat
  numConstraints : Nat
  numBiases : Nat
  numQuadVars : Option Nat
  numQuadVarsReal : Option Nat
  numLinearReal : Option Nat
  numWeighted : Option Nat
  deriving Repr, DecidableEq

def legacyCounts [DecidableEq J] (idx : Nat → J) (ver : List Nat) (m : LegacyContent J) : LegacyCounts :=
  let lhss := m.constraints.map (·.lhs)
  let all := m.objective :: lhss
  let ge (v : List Nat) : Bool := !tupleLt ver v
  { numVariables := (dedupJ (all.map (LoadedModel.labels idx)).flatten).length
    numConstraints := m.constraints.length
    numBiases := (all.map LoadedModel.numBiases).sum
    numQuadVars := if ge [1, 1] then some (lhss.map (·.numQuadVars false)).sum else none
    numQuadVarsReal := if ge [1, 2] then some (all.map (·.numQuadVars true)).sum else none
    numLinearReal := if ge [1, 2] then some (all.map LoadedModel.numLinearReal).sum else none
    numWeighted := if ge [1, 3] then some (m.constraints.filter fun c => c.soft.isSome).length else none }

def legacyDecodeChecked [DecidableEq J] (guard : Bool) (idx : Nat → J) (ver : List Nat) (hdr : LegacyCounts)
    (parse : Bytes → Option (QHeader J)) (parseVars : Bytes → Option (List J)) (okLabel : List Char → Bool) (a : Archive) :
    Res (LegacyContent J) :=
  (legacyDecode guard parse parseVars okLabel a).bind fun m =>
    if legacyCounts idx ver m = hdr then .ok m else .err .value

/-! ## what a legacy writer produced (the layout of the bundled 1.x files) -/

/-- a model to be written as a member: its complete QM / BQM file bytes are produced by the
    encoders of `BqmFile.lean` -/
inductive MemberModel (J : Type) where
  | qm (hdrText : Bytes) (h : QHeader J) (vi : VarInfo) (c : QContent) (varsText : Bytes)
  | bqm (maj : UInt8) (hdrText : Bytes) (h : QHeader J) (c : QContent) (varsText : Bytes)

def MemberModel.bytes : MemberModel J → Bytes
  | .qm t h vi c vt => qmEncode t h vi c vt
  | .bqm maj t h c vt => bqmEncode maj t h c vt

structure LegacySrcConstraint (J : Type) where
  lstr : List Char
  lhs : MemberModel J
  rhs : Bytes
  sense : Bytes
  discrete : Bool
  soft : Option (Bytes × Bytes)

def legacyConstraintMembers (c : LegacySrcConstraint J) : Archive :=
  [(constraintPath c.lstr fLhs, c.lhs.bytes), (constraintPath c.lstr fRhs, c.rhs), (constraintPath c.lstr fSense, c.sense),
   (constraintPath c.lstr fDiscrete, [if c.discrete then 1 else 0])] ++
  (match c.soft with
   | some (w, p) => [(constraintPath c.lstr fWeight, w), (constraintPath c.lstr fPenalty, p)]
   | none => [])

def legacyMembers (obj : MemberModel J) (cs : List (LegacySrcConstraint J)) : Archive :=
  (nmObjective, obj.bytes) :: (cs.map legacyConstraintMembers).flatten

end FileFmt
