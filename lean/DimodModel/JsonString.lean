import DimodModel.CqmFile

/-! # JSON string literals: what `json.loads` does with the text `json.dumps` (and the D11 repair)
    produced for a string label

`scanString` mirrors `json.decoder.py_scanstring` (strict mode) after the opening quote: plain
characters, the two-character escapes, and `\uXXXX` with surrogate pairs.  A lone surrogate (which
Python keeps as a code point that is not a character) is outside the model (`none`). -/

namespace FileFmt

def hexVal? (c : Char) : Option Nat :=
  if 48 ≤ c.toNat ∧ c.toNat ≤ 57 then some (c.toNat - 48)
  else if 97 ≤ c.toNat ∧ c.toNat ≤ 102 then some (c.toNat - 87)
  else if 65 ≤ c.toNat ∧ c.toNat ≤ 70 then some (c.toNat - 55)
  else none

def hex4? (a b c d : Char) : Option Nat :=
  match hexVal? a, hexVal? b, hexVal? c, hexVal? d with
  | some x, some y, some z, some w => some (((x * 16 + y) * 16 + z) * 16 + w)
  | _, _, _, _ => none

/-- the character after a backslash (other than `u`) -/
def unescapeSimple (e : Char) : Option Char :=
  if e = '"' then some '"'
  else if e = '\\' then some '\\'
  else if e = '/' then some '/'
  else if e = 'b' then some (Char.ofNat 8)
  else if e = 'f' then some (Char.ofNat 12)
  else if e = 'n' then some '\n'
  else if e = 'r' then some '\r'
  else if e = 't' then some '\t'
  else none

def consTo (c : Char) : Option (List Char × List Char) → Option (List Char × List Char)
  | some (s, r) => some (c :: s, r)
  | none => none

/-- `py_scanstring` after the opening quote: the decoded string and what follows the closing quote -/
def scanString : List Char → Option (List Char × List Char)
  | [] => none
  | c :: rest =>
    if c = '"' then some ([], rest)
    else if c = '\\' then
      match rest with
      | [] => none
      | e :: rest1 =>
        if e = 'u' then
          match rest1 with
          | a :: b :: c2 :: d :: rest2 =>
            match hex4? a b c2 d with
            | none => none
            | some n =>
              if 55296 ≤ n ∧ n ≤ 56319 then
                match rest2 with
                | b1 :: u1 :: e1 :: f1 :: g1 :: h1 :: rest3 =>
                  if b1 = '\\' ∧ u1 = 'u' then
                    match hex4? e1 f1 g1 h1 with
                    | some n2 =>
                      if 56320 ≤ n2 ∧ n2 ≤ 57343 then
                        consTo (Char.ofNat (65536 + (n - 55296) * 1024 + (n2 - 56320))) (scanString rest3)
                      else none
                    | none => none
                  else none
                | _ => none
              else if 56320 ≤ n ∧ n ≤ 57343 then none
              else consTo (Char.ofNat n) (scanString rest2)
          | _ => none
        else match unescapeSimple e with
          | some x => consTo x (scanString rest1)
          | none => none
    else if c.toNat < 32 then none
    else consTo c (scanString rest)

/-- `json.loads` of a string literal: opening quote, `scanString`, nothing after the closing quote -/
def loadsStr : List Char → Option (List Char)
  | '"' :: t => match scanString t with
    | some (s, []) => some s
    | _ => none
  | _ => none

end FileFmt
