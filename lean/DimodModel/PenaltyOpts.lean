import DimodModel.Penalty
import Generated.SlackRule

/-! Round 7 (C16): the slack count as the source computes it (over `Generated.SlackRule`, extracted by
    `harness/translators/slack_rule.py`), and the options of `BinaryQuadraticModel.add_linear_inequality_constraint`
    that `Pen.bqmIneq` leaves out: `penalization_method` (`'slack'` / `'unbalanced'` / anything else), the shape of
    `lagrange_multiplier` the unbalanced method needs, the non-integer warning, and the returned slack terms.
    Core Lean only. -/

namespace Pen
open Generated.SlackRule

/-- `floor(log2 S)` as the source computes it: exactly, or through the float pipeline, which is NOT modelled — it is
    the parameter `fl` (any function) -/
def numSlackBy (impl : Log2Impl) (fl : Nat → Nat) (S : Nat) : Nat :=
  match impl with
  | .bitLength => Nat.log2 S
  | .floatFloorLog2 => fl S

/-- `slack_coefficients = [2 ** j for j in range(n)]`, and `S - 2 ** n + 1` appended `if S - 2 ** n >= 0` -/
def slackCoeffsBy (n S : Nat) : List Nat := pows n ++ (if 2^n ≤ S then [S - 2^n + 1] else [])

/-- the coefficient list of the BQM slack method / the DQM log2 method / `binary_encoding` over the extracted rule -/
def slackLog2Bqm (fl : Nat → Nat) (S : Nat) : List Nat := slackCoeffsBy (numSlackBy bqmNumSlack fl S) S
def slackLog2Dqm (fl : Nat → Nat) (S : Nat) : List Nat := slackCoeffsBy (numSlackBy dqmNumSlack fl S) S

/-- `binary_encoding` computes its most significant coefficient as `ub - ((1 << max_pow) - 1)` in Python integers:
    it can be `0` or negative when `max_pow` overshoots -/
def encCoeffsBy (n : Nat) (ub : Nat) : List Int :=
  (pows n).map (fun (c : Nat) => (c : Int)) ++ [(ub : Int) - ((2^n : Nat) : Int) + 1]

def encCoeffs (fl : Nat → Nat) (ub : Nat) : List Int := encCoeffsBy (numSlackBy encMaxPow fl ub) ub

/-- the coefficient of the extra `cross_zero` slack variable, over the extracted rule -/
def zeroCoefBy (z : ZeroCoef) (ubc : Int) (S : Nat) : Int :=
  match z with
  | .ubcMinusS => ubc - (S : Int)
  | .ubc => ubc

/-- `zero_constraint` over the extracted guards -/
def zeroConstraintBy (needsPositive : Bool) (crossZero : Bool) (ubc lbc : Int) (S : Nat) : Bool :=
  crossZero && (decide (lbc > 0) || decide (ubc < 0)) && (!needsPositive || decide (ubc - (S : Int) > 0))

/-- the arguments beyond `Pen.bqmIneq` -/
inductive PMethod where
  | slack
  | unbalanced
  | other (name : String)

/-- what is passed as `lagrange_multiplier` -/
inductive Lagrange where
  | scalar (lam : Rat)              -- a number: not iterable
  | pair (l0 l1 : Rat)              -- a list / tuple of two numbers

/-- outcome of the full method -/
inductive IneqFull where
  | skipped                                   -- warning, `[]`, nothing added (checked BEFORE the method is looked at)
  | infeasible                                -- ValueError
  | typeError                                 -- unbalanced with a non-iterable multiplier; slack with a list
  | badMethod                                 -- ValueError: not a valid method
  | ok (bag : List (PTerm Label)) (slack : List (Label × Int))

/-- `add_linear_inequality_constraint(terms, lagrange_multiplier, label, constant, lb, ub, cross_zero, penalization_method)`
    on a BINARY model, as coded: bound tightening, the always-satisfied / infeasible exits, THEN the method dispatch.
    `unbalanced`: `add_linear(v, λ₀·bias)` for every term, `offset += -ub_c`, the equality constraint with `λ₁` and
    `-ub_c`; returns `[]`. -/
def bqmIneqFull (label : String) (terms : List (Label × Int)) (lam : Lagrange) (c lb ub : Int) (cross : Bool)
    (method : PMethod) : IneqFull :=
  match ineqPlan (terms.map (·.2)) c lb ub with
  | .skip => .skipped
  | .infeasible => .infeasible
  | plan =>
    match method with
    | .other _ => .badMethod
    | .slack =>
      match lam with
      | .pair _ _ => .typeError     -- `float(lagrange_multiplier + 0.0)` of a list raises TypeError
      | .scalar l =>
        match bqmIneq label terms l c lb ub cross with
        | .ok bag sl => .ok bag sl
        | _ => .skipped             -- unreachable: the plan is neither skip nor infeasible
    | .unbalanced =>
      match lam with
      | .scalar _ => .typeError
      | .pair l0 l1 =>
        let ubc : Int := match plan with
          | .equality u => u
          | .slack u _ _ => u
          | _ => 0
        .ok (terms.map (fun t => PTerm.lin t.1 (l0 * (t.2 : Rat))) ++ [PTerm.const (((-ubc : Int)) : Rat)]
              ++ eqTermsCy .binary (ratTerms terms) l1 (((-ubc : Int)) : Rat)) []

/-- the warning about fractional data: `int(x) != x` for the constant, a bound or a bias -/
def warnsFractional (terms : List (Label × Rat)) (c lb ub : Rat) : Bool :=
  !(c.den == 1 && lb.den == 1 && ub.den == 1 && terms.all (fun t => t.2.den == 1))

end Pen
