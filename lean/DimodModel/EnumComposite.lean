import DimodModel.Enumerate
import DimodModel.EnumPost

/-! # C07 — the remaining branches of the polynomial composites, as coded

Mirror of `dimod/reference/composites/higherordercomposites.py` and `truncatecomposite.py`:
* `PolyScaleComposite.sample_poly` with `scalar=None`: `BinaryPolynomial.normalize(bias_range, poly_range,
  ignored_terms)` (`parse_range`, the min/max loop, `inv_scalar`, `ZeroDivisionError` on a range end that is 0),
  the recovery of the scalar `poly[v] / original[v]` from the first non-zero non-ignored term (`StopIteration` →
  1) and the division / recomputation of the child's energies;
* `PolyFixedVariableComposite.sample_poly` with every branch: `fixed_variables=None`, a non-empty child answer
  (`append_variables`), an empty child answer with no free variable left (`from_samples_bqm(fixed, poly)`), an
  empty child answer otherwise (empty sample set over child + fixed labels);
* `TruncateComposite.__init__` / `PolyTruncateComposite.__init__`: `n < 1` is a `ValueError`.
Core Lean only. -/

namespace Enum

/-! ## `BinaryPolynomial.normalize` and `PolyScaleComposite.sample_poly(scalar=None)` -/

/-- a `bias_range` / `poly_range` argument: a number or a pair -/
inductive RangeArg where
  | num (r : Rat)
  | pair (lo hi : Rat)

/-- `parse_range`: a number `r` stands for `(-abs(r), abs(r))`, a pair is taken as it is -/
def parseRange : RangeArg → Rat × Rat
  | .num r => (-(if r < 0 then -r else r), if r < 0 then -r else r)
  | .pair lo hi => (lo, hi)

def ratMin (a b : Rat) : Rat := if a ≤ b then a else b
def ratMax (a b : Rat) : Rat := if a ≤ b then b else a

/-- the loop over `self.items()`: `(lmin, lmax, pmin, pmax)`, all starting at 0; ignored terms and the constant term
    are skipped -/
def biasRanges (ignored : List (List Label)) : Poly → Rat × Rat × Rat × Rat
  | [] => (0, 0, 0, 0)
  | (k, b) :: rest =>
    let (lmin, lmax, pmin, pmax) := biasRanges ignored rest
    if ignored.any (sameSet k) then (lmin, lmax, pmin, pmax)
    else if k.length = 1 then (ratMin b lmin, ratMax b lmax, pmin, pmax)
    else if k.length > 1 then (lmin, lmax, ratMin b pmin, ratMax b pmax)
    else (lmin, lmax, pmin, pmax)

/-- `inv_scalar = max(lmin / lin_range[0], lmax / lin_range[1], pmin / poly_range[0], pmax / poly_range[1])`;
    a range end equal to 0 is a `ZeroDivisionError` (`none`) -/
def invScalar (linR polyR : Rat × Rat) (ignored : List (List Label)) (p : Poly) : Option Rat :=
  let (lmin, lmax, pmin, pmax) := biasRanges ignored p
  if linR.1 = 0 ∨ linR.2 = 0 ∨ polyR.1 = 0 ∨ polyR.2 = 0 then none
  else some (ratMax (ratMax (lmin / linR.1) (lmax / linR.2)) (ratMax (pmin / polyR.1) (pmax / polyR.2)))

/-- `BinaryPolynomial.normalize(bias_range, poly_range, ignored_terms)`: `poly_range=None` means both ranges are
    `bias_range`; `if inv_scalar != 0: self.scale(1 / inv_scalar, ignored_terms)` -/
def polyNormalize (biasRange : RangeArg) (polyRange : Option RangeArg) (ignored : List (List Label)) (p : Poly) : Option Poly :=
  let linR := parseRange biasRange
  let polyR := match polyRange with | none => parseRange biasRange | some r => parseRange r
  match invScalar linR polyR ignored p with
  | none => none
  | some inv => if inv ≠ 0 then some (polyScale (1 / inv) ignored p) else some p

/-- `poly[v]` on the (scaled) copy: the entry stored under the same key -/
def polyLookup (p : Poly) (k : List Label) : Rat := ((p.find? (fun t => t.1 = k)).map (·.2)).getD 0

/-- `next(v for v, bias in original.items() if bias and v not in ignored_terms)` → `scalar = poly[v] / original[v]`;
    `StopIteration` → `scalar = 1` -/
def recoveredScalar (ignored : List (List Label)) (original scaled : Poly) : Rat :=
  match original.find? (fun t => t.2 ≠ 0 ∧ ¬ ignored.any (sameSet t.1)) with
  | none => 1
  | some (k, b) => polyLookup scaled k / b

/-- `PolyScaleComposite.sample_poly(poly, scalar=None, bias_range=…, poly_range=…, ignored_terms=…)`:
    `none` = `ZeroDivisionError` of `normalize`; the child gets the normalised copy; its energies are recomputed from
    the original when terms were ignored and divided by the recovered scalar otherwise -/
def polyNormalizeSample (child : Poly → List Row) (p : Poly) (biasRange : RangeArg) (polyRange : Option RangeArg)
    (ignored : List (List Label)) : Option (List Row) :=
  match polyNormalize biasRange polyRange ignored p with
  | none => none
  | some scaled =>
    let scalar := recoveredScalar ignored p scaled
    let rows := child scaled
    if ignored.isEmpty then some (rows.map fun r => { r with energy := r.energy / scalar })
    else some (rows.map fun r => { r with energy := polyEnergy r.val p })

/-- both ways into `PolyScaleComposite.sample_poly`: `scalar is not None` → `poly.scale(scalar, …)` (a scalar of 0 is
    accepted by the code and divides the energies by zero — outside this model, `polyScaleSample` is used for `s ≠ 0`),
    otherwise the normalisation -/
def polyScaleComposite (child : Poly → List Row) (p : Poly) (scalar : Option Rat) (biasRange : RangeArg)
    (polyRange : Option RangeArg) (ignored : List (List Label)) : Option (List Row) :=
  match scalar with
  | some s => some (polyScaleSample child p s ignored)
  | none => polyNormalizeSample child p biasRange polyRange ignored

/-! ## `PolyFixedVariableComposite.sample_poly`, every branch -/

/-- `not poly_copy.variables`: every key of the polynomial is the empty term -/
def polyNoVars (p : Poly) : Bool := p.all (·.1.isEmpty)

/-- value of a `dict` sample under a label (0 for a label it does not have: not reached by `polyFixedFull`,
    which evaluates the polynomial at the fixed assignment only when that covers every variable) -/
def assignVal (x : List (Label × Rat)) (l : Label) : Rat := ((x.find? (fun p => p.1 = l)).map (·.2)).getD 0

/-- `PolyFixedVariableComposite.sample_poly(poly, fixed_variables)` as coded:
    * `fixed_variables is None` → the child's answer to the polynomial itself;
    * non-empty child answer → `append_variables(sampleset, fixed_variables)`;
    * empty answer, `fixed_variables` non-empty, no variable left in `poly_copy` →
      `from_samples_bqm(fixed_variables, bqm=poly)`: the one row of the fixed values with the polynomial's energy;
    * empty answer, `fixed_variables` non-empty, free variables remain → no rows;
    * `fixed_variables == {}` and an empty answer → the child's (empty) answer -/
def polyFixedFull (child : Poly → List Row) (p : Poly) (fixed : Option (List (Label × Rat))) : List Row :=
  match fixed with
  | none => child p
  | some fx =>
    let q := fixVariables true p fx
    let rows := child q
    if rows.length ≠ 0 then rows.map (·.append fx)
    else if !fx.isEmpty && polyNoVars q then [⟨fx, polyEnergy (assignVal fx) p⟩]
    else if !fx.isEmpty then []
    else rows

/-! ## `TruncateComposite.__init__` / `PolyTruncateComposite.__init__` -/

/-- `if n < 1: raise ValueError`; afterwards `sample` is `truncateComposite` with `n` as a natural number -/
def truncateInit (n : Int) (byEnergy agg : Bool) (childRows : List ORow) : Except Unit (List ORow) :=
  if n < 1 then .error () else .ok (truncateComposite n.toNat byEnergy agg childRows)

/-! ## `ExactSolver.sample` / `ExactPolySolver.sample_poly` as coded -/

/-- value a gray-code bit stands for: `samples = 2*samples - 1` for SPIN -/
def bitVal (spin : Bool) (b : Nat) : Rat := if spin then 2 * (b : Rat) - 1 else (b : Rat)

/-- `if not len(bqm.variables): return` an empty sample set; otherwise the `_graycode` rows (converted for SPIN) under
    `list(bqm.variables)` (`vars`: an input — for a polynomial it is the iteration order of a set) with the energies
    `from_samples_bqm` computes from the problem (`energy`) -/
def exactRows (spin : Bool) (vars : List Label) (energy : (Label → Rat) → Rat) : List Row :=
  if vars.length = 0 then []
  else (graycode vars.length).map fun bits =>
    ⟨vars.zip (bits.map (bitVal spin)), energy (assignVal (vars.zip (bits.map (bitVal spin))))⟩

/-- `ExactPolySolver.sample_poly(polynomial)` = `ExactSolver().sample(polynomial)` -/
def exactPolySolver (spin : Bool) (vars : List Label) (p : Poly) : List Row := exactRows spin vars (fun x => polyEnergy x p)

/-- `ExactSolver.sample(bqm)` -/
def exactBqmSolver (vars : List Label) (m : Bqm) : List Row := exactRows m.spin vars m.energy

/-! ## `PolyScaleComposite.sample_poly` with the refusal of `scalar = 0` (repository fix cca1a20) -/

/-- the two exceptions of `PolyScaleComposite.sample_poly` -/
inductive PolyScaleErr where
  /-- `if not scalar: raise ValueError("scalar must be non-zero")` (reached only when `scalar is not None`) -/
  | scalarZero
  /-- `ZeroDivisionError` of `BinaryPolynomial.normalize` (a range end is 0; reached only when `scalar is None`) -/
  | rangeZero
  deriving DecidableEq, Repr

/-- `PolyScaleComposite.sample_poly` as coded now, total over `scalar`: `scalar is not None` → `if not scalar: raise
    ValueError` (before anything is scaled and before the child is called, whatever `ignored_terms` is), else
    `poly.scale(scalar, …)`; `scalar is None` → the normalisation with its `ZeroDivisionError` -/
def polyScaleCompositeFull (child : Poly → List Row) (p : Poly) (scalar : Option Rat) (biasRange : RangeArg)
    (polyRange : Option RangeArg) (ignored : List (List Label)) : Except PolyScaleErr (List Row) :=
  match scalar with
  | some s => if s = 0 then .error .scalarZero else .ok (polyScaleSample child p s ignored)
  | none =>
    match polyNormalizeSample child p biasRange polyRange ignored with
    | none => .error .rangeZero
    | some rows => .ok rows

/-- the exception of an outcome, if any -/
def polyScaleErrOf : Except PolyScaleErr (List Row) → Option PolyScaleErr
  | .error e => some e
  | .ok _ => none

/-! ## `TrackingComposite`: all three entry points and the log accessors (tracking.py) -/

/-- the `inpt` dict of the `tracking` decorator: the positional arguments under the names of the wrapped method -/
inductive TrackedInput where
  | bqm (m : Bqm)
  | ising (h : List (Label × Rat)) (J : List (Label × Label × Rat))
  | qubo (lin : List (Label × Rat)) (quad : List (Label × Label × Rat))

/-- the two lists `_inputs` / `_outputs` (always appended together, so one list of pairs) -/
abbrev TrackLog := List (TrackedInput × List Row)

/-- `TrackingComposite.sample / sample_ising / sample_qubo` as coded: `self.child.<same method>(…)` — for a child class that
    implements only one of the three methods (`impl`, `child`) that is the mixin conversion — and the log extended by this
    input and this output.  (`copy=True` stores deep copies: values here, so both settings are this function.) -/
def trackingCall (impl : Impl) (child : Bqm → List Row) (log : TrackLog) (inp : TrackedInput) : List Row × TrackLog :=
  let out := match inp with
    | .bqm m => mixinSample impl child m
    | .ising h J => mixinIsing impl child h J
    | .qubo lin quad => mixinQubo impl child lin quad
  (out, log ++ [(inp, out)])

/-- `TrackingComposite.output` / `.input`: the most recent entry, `ValueError` (none) on an empty log -/
def trackingOutput (log : TrackLog) : Option (List Row) := log.getLast?.map (·.2)
def trackingInput (log : TrackLog) : Option TrackedInput := log.getLast?.map (·.1)

/-- `TrackingComposite.clear` -/
def trackingClear (_log : TrackLog) : TrackLog := []

end Enum
