import DimodModel.Label

/-! Text forms used by the line protocol between the Python harness and the model drivers.
    label  ::= "i:" int | "s:" hex(utf8) | "t:[" label ("+" label)* "]" | "t:[]"
    number ::= int | int "/" nat -/

namespace Wire

def hexVal (c : Char) : Nat :=
  if c.isDigit then c.toNat - '0'.toNat else c.toNat - 'a'.toNat + 10

def hexBytes : List Char → List UInt8
  | a :: b :: t => (UInt8.ofNat (hexVal a * 16 + hexVal b)) :: hexBytes t
  | _ => []

def hexString (cs : List Char) : String :=
  match String.fromUTF8? (ByteArray.mk (hexBytes cs).toArray) with
  | some s => s
  | none => "?"

def hexDigit (n : Nat) : Char := if n < 10 then Char.ofNat (48 + n) else Char.ofNat (87 + n)

def toHex (s : String) : String :=
  String.ofList (s.toUTF8.toList.flatMap fun b => [hexDigit (b.toNat / 16), hexDigit (b.toNat % 16)])

/-- split the inside of a tuple at top-level '+' -/
def splitTop (cs : List Char) : List (List Char) :=
  let rec go (cs : List Char) (depth : Nat) (cur : List Char) (acc : List (List Char)) : List (List Char) :=
    match cs with
    | [] => (cur.reverse :: acc).reverse
    | c :: t =>
      if c = '[' then go t (depth + 1) (c :: cur) acc
      else if c = ']' then go t (depth - 1) (c :: cur) acc
      else if c = '+' && depth = 0 then go t depth [] (cur.reverse :: acc)
      else go t depth (c :: cur) acc
  go cs 0 [] []

partial def parseLabelChars (cs : List Char) : Option Label :=
  match cs with
  | 'i' :: ':' :: t => (String.ofList t).toInt?.map Label.int
  | 's' :: ':' :: t => some (Label.str (hexString t))
  | 't' :: ':' :: '[' :: t =>
    match t.reverse with
    | ']' :: r =>
      let inner := r.reverse
      if inner.isEmpty then some (Label.tup [])
      else (splitTop inner).mapM parseLabelChars |>.map Label.tup
    | _ => none
  | _ => none

def parseLabel? (s : String) : Option Label := parseLabelChars s.toList

def parseOptLabel? (s : String) : Option (Option Label) :=
  if s = "-" then some none else (parseLabel? s).map some

partial def showLabel : Label → String
  | .int z => s!"i:{z}"
  | .str s => "s:" ++ toHex s
  | .tup l => "t:[" ++ String.intercalate "+" (l.map showLabel) ++ "]"

def parseRat? (s : String) : Option Rat :=
  match s.splitOn "/" with
  | [p] => p.toInt?.map (fun z => (z : Rat))
  | [p, q] => match p.toInt?, q.toNat? with
    | some z, some d => if d = 0 then none else some ((z : Rat) / (d : Rat))
    | _, _ => none
  | _ => none

def showRat (r : Rat) : String := if r.den = 1 then s!"{r.num}" else s!"{r.num}/{r.den}"

def csv (s : String) : List String := if s = "-" then [] else s.splitOn ","

end Wire
