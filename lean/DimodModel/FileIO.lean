import DimodModel.HeaderDicts
import DimodModel.Vars

/-! # The file objects around the formats: `SpooledTemporaryFile`, bytes-or-file input, `ignore_labels`,
    object dtype  (C09)

`to_file` writes its pieces one `file.write` at a time into a `SpooledTemporaryFile(max_size=spool_size)`
and returns it after `seek(0)`; `from_file` accepts a bytes-like object (wrapped in `_BytesIO`) or a
file object positioned anywhere.  These are parameters of the model here, so that "they do not
matter" is a statement. -/

namespace FileFmt

/-- `tempfile.SpooledTemporaryFile`: in memory until more than `maxSize` bytes were written, then
    rolled over to disk; the content is the same either way -/
structure Spooled where
  maxSize : Nat
  data : Bytes
  rolled : Bool

def Spooled.empty (maxSize : Nat) : Spooled := { maxSize := maxSize, data := [], rolled := false }

def Spooled.write (f : Spooled) (b : Bytes) : Spooled :=
  { f with data := f.data ++ b, rolled := f.rolled || decide (f.maxSize < (f.data ++ b).length) }

/-- `file.seek(0); file.read()` -/
def Spooled.readAll (f : Spooled) : Bytes := f.data

def writeChunks (spool : Nat) (chunks : List Bytes) : Spooled := chunks.foldl Spooled.write (Spooled.empty spool)

/-- the `file.write` calls of `BinaryQuadraticModel.to_file`, in order -/
def bqmChunks (maj : UInt8) (hdrText : Bytes) (h : QHeader J) (c : QContent) (varsText : Bytes) : List Bytes :=
  [makeHeader bqmPrefix maj 0 hdrText, c.offset, (linDeg h.nsize 0 (allNeigh c.lower) c.linear).flatten] ++
  (allNeigh c.lower).map (encNeigh h.isize) ++
  [if maj ≥ 2 && h.vars.truthy then sectionDumps magVARS nlb4 varsText else []]

def bqmToFile (spool : Nat) (maj : UInt8) (hdrText : Bytes) (h : QHeader J) (c : QContent) (varsText : Bytes) : Spooled :=
  writeChunks spool (bqmChunks maj hdrText h c varsText)

def neigSectionList (isz : Nat) (rows : List (List (Nat × Bytes))) : List Bytes :=
  rows.map fun row => sectionDumps magNEIG nlb4 (neigData isz row)

/-- the `file.write` calls of `QuadraticModel.to_file` -/
def qmChunks (hdrText : Bytes) (h : QHeader J) (vi : VarInfo) (c : QContent) (varsText : Bytes) : List Bytes :=
  [makeHeader qmPrefix 1 0 hdrText, sectionDumps magVTYP nlb4 (encVarInfo vi), sectionDumps magOFFS nlb4 c.offset,
   sectionDumps magLINB nlb4 c.linear.flatten] ++ neigSectionList h.isize c.lower ++
  [if h.vars.truthy then sectionDumps magVARS nlb4 varsText else []]

def qmToFile (spool : Nat) (hdrText : Bytes) (h : QHeader J) (vi : VarInfo) (c : QContent) (varsText : Bytes) : Spooled :=
  writeChunks spool (qmChunks hdrText h vi c varsText)

/-- CQM: the header, then everything `zipfile` appends -/
def cqmToFile (spool : Nat) (hdrText zipBytes : Bytes) : Spooled :=
  writeChunks spool [makeHeader cqmPrefix 2 0 hdrText, zipBytes]

/-- DQM: header, `BIAS`, length (written last, over the placeholder), blob, optional `VARS` -/
def dqmToFile (spool : Nat) (hdrText : Bytes) (labelled : Bool) (npz varsText : Bytes) : Spooled :=
  writeChunks spool [makeHeader dqmPrefix 1 1 hdrText, magBIAS, toLE 4 npz.length, npz,
    if labelled then sectionDumps magVARS nlb4 varsText else []]

/-- what `from_file` is given: a bytes-like object, or a file object at some position -/
inductive Input where
  | bytes (b : Bytes)
  | file (content : Bytes) (pos : Nat)

/-- the bytes `file_like.read` will deliver -/
def Input.stream : Input → Bytes
  | .bytes b => b
  | .file c p => c.drop p

def bqmFromFile (parse : Bytes → Option (QHeader J)) (parseVars : Bytes → Option (List J)) (inp : Input) : Res (QLoaded J × Bytes) :=
  (bqmDecode parse parseVars).run inp.stream

def qmFromFile (guard : Bool) (parse : Bytes → Option (QHeader J)) (parseVars : Bytes → Option (List J)) (inp : Input) :
    Res (QmLoaded J × Bytes) :=
  (qmDecode guard parse parseVars).run inp.stream

/-- the variable labels of a loaded model: the stored list, or `0 .. n-1` -/
def loadedLabels (idx : Nat → L) (n : Nat) : Option (List L) → List L
  | some l => l
  | none => (List.range n).map idx

/-- the dtype of a BQM: the object back-end is written as its float64 copy -/
inductive BqmDtype | float32 | float64 | object

/-- the content `to_file` writes for a BQM of the given dtype; `asF64` is `BinaryQuadraticModel(self, dtype=np.float64)` -/
def bqmWritten (dt : BqmDtype) (asF64 : QContent → QContent) (c : QContent) : QContent :=
  match dt with
  | .object => asF64 c
  | _ => c

end FileFmt
