import DimodModel.SampleSet
import Generated.SampleArray

/-! # `as_samples`: every accepted form, overload by overload (C14)

`dimod/sampleset.py` registers `as_samples` with `functools.singledispatch`:

* `as_samples` itself (the fall-back): a `Sequence` holding at least one `Mapping` is handed to the
  iterator overload through `iter(...)`; everything else is array-like → `_sample_array`, labels
  `labels_type(range(arr.shape[1]))`;
* `_as_samples_iterator` (`abc.Iterator`: generators, `iter(...)`): every element goes through
  `as_samples(sl, dtype=, copy=, order=)` (WITHOUT `labels_type`: the inner labels are lists), the
  first element fixes the label order, later ones are re-indexed (`labels.index(v) for v in
  first_labels`) or refused (`ValueError`) when their label SET differs, `np.vstack`; an empty iterator
  gives `np.empty((0, 0), int8), []` (a list whatever `labels_type`);
* `_as_samples_dict` (`abc.Mapping`): `zip(*items)` → the tuple overload; empty → `np.empty((1, 0))`;
* `_as_samples_tuple` (`tuple`): length ≠ 2 → `ValueError`; the deprecated `(mapping, labels)`
  (`KeyError` → `ValueError`, then `as_samples(d)` with default arguments); an iterator in first place
  → `TypeError`; `_sample_array`; `labels_type(labels)`; a size-0 array is reshaped to
  `(shape[0], len(labels))`; `len(labels) != shape[1]` → `ValueError`;
* `_as_samples_sampleset` (`SampleSet`): `record.sample` (as it is, `np.copy` or `astype`),
  `labels_type(variables)`;
* `_sample_array`: `dtype` argument or the `dtype` attribute of the input; ≤ 1-d inputs become one row
  (or shape `(0, 0)` when empty), > 2-d raises; when no dtype was given or found and NumPy inferred an
  integer type, the smallest of int8/16/32/64 whose `iinfo.max` is ≥ `max(-min, max)` is taken
  (`ValueError` if none).

Values are exact rationals.  A `dtype` given by the caller is recorded in the result; the cast of the
VALUES NumPy then performs is the identity on representable values, which is all the harness
generates (C14's model is about which value ends up under which label, not about rounding).
`copy` / `order` select NumPy memory layouts and are carried through the calls as coded; no branch of
the code reads them (`copy_order_irrelevant`).  Core Lean only. -/

namespace SSM
namespace Dispatch

inductive DT where
  | bool | int8 | int16 | int32 | int64 | float32 | float64
deriving DecidableEq, Repr

inductive Err where
  | value   -- ValueError
  | type    -- TypeError
deriving DecidableEq, Repr

def DT.isInteger : DT → Bool
  | .int8 | .int16 | .int32 | .int64 => true
  | _ => false

/-- `np.iinfo(tp).max` -/
def DT.iinfoMax : DT → Int
  | .int8 => 127 | .int16 => 32767 | .int32 => 2147483647 | .int64 => 9223372036854775807
  | _ => 0

def DT.ofName : String → Option DT
  | "int8" => some .int8 | "int16" => some .int16 | "int32" => some .int32 | "int64" => some .int64
  | "float32" => some .float32 | "float64" => some .float64 | "bool" => some .bool
  | _ => none

/-- the candidate list of `_sample_array` (`(np.int8, np.int16, np.int32, np.int64)`), as `harness/translators/sample_array.py`
    reads it off the source on every run -/
def intCandidates : List DT := Generated.SampleArray.intCandidateNames.filterMap DT.ofName

/-- NumPy's `result_type` of two of the dtypes above (what `np.vstack` gives its result) -/
def DT.promote : DT → DT → DT
  | .bool, d => d
  | d, .bool => d
  | .float64, _ => .float64
  | _, .float64 => .float64
  | .float32, .float32 => .float32
  | .float32, .int8 => .float32
  | .float32, .int16 => .float32
  | .int8, .float32 => .float32
  | .int16, .float32 => .float32
  | .float32, _ => .float64
  | _, .float32 => .float64
  | .int64, _ => .int64
  | _, .int64 => .int64
  | .int32, _ => .int32
  | _, .int32 => .int32
  | .int16, _ => .int16
  | _, .int16 => .int16
  | .int8, .int8 => .int8

/-- where the element type of an array-like comes from -/
inductive Src where
  | py (inferred : DT)   -- a (nested) list / tuple: no `dtype` attribute; NumPy infers `inferred`
  | nd (dt : DT)         -- an ndarray: has a `dtype` attribute
deriving DecidableEq

/-- an array-like by its number of dimensions; `d2` carries `shape[1]` (there may be no rows) -/
inductive Shape where
  | d0 (x : Rat)
  | d1 (row : List Rat)
  | d2 (rows : List (List Rat)) (width : Nat)
  | d3                    -- more than two dimensions

structure ArrLike where
  src : Src
  shape : Shape

/-- keyword arguments of `as_samples` -/
structure Args where
  dtype : Option DT := none
  copy : Bool := false
  fOrder : Bool := false
  /-- `labels_type=Variables` (an ordered SET: its constructor drops repeated labels) instead of `list` -/
  labelsVariables : Bool := false

/-- what `as_samples` returns: the array (rows, `shape[1]`, dtype) and the labels with their container -/
structure Out where
  rows : List (List Rat)
  width : Nat
  dtype : DT
  labels : List Label
  labelsAreVariables : Bool
deriving DecidableEq

/-- every input `as_samples` is dispatched on -/
inductive Form where
  /-- a `Mapping`; `flt`: some value is a Python float (so NumPy infers float64) -/
  | mapping (items : List (Label × Rat)) (flt : Bool)
  /-- array-like: ndarray, list, list of lists, scalar -/
  | array (a : ArrLike)
  /-- `(array_like, labels)` -/
  | tuple (a : ArrLike) (labels : List Label)
  /-- `(mapping, labels)` (deprecated) -/
  | tupleMapping (items : List (Label × Rat)) (flt : Bool) (labels : List Label)
  /-- `(iterator, labels)` -/
  | tupleIterator (labels : List Label)
  /-- a tuple whose length is not 2 -/
  | tupleLen (k : Nat)
  /-- a `SampleSet` with its `variables`, `record.sample` and the dtype of that array -/
  | sampleset (labels : List Label) (rows : List (List Rat)) (dt : DT)
  /-- an `Iterator` (generator, `iter(...)`) of samples-likes -/
  | iterator (l : List Form)
  /-- a non-tuple `Sequence` (list) of samples-likes -/
  | sequence (l : List Form)

/-! ### `_sample_array` -/

/-- `-arr.min(initial=0)` and `arr.max(initial=0)` -/
def minInit0 (xs : List Rat) : Rat := xs.foldl (fun m x => if x < m then x else m) 0
def maxInit0 (xs : List Rat) : Rat := xs.foldl (fun m x => if m < x then x else m) 0

/-- `next(tp for tp in (int8, int16, int32, int64) if max_ <= np.iinfo(tp).max)`; `StopIteration` → `ValueError` -/
def smallestInt (xs : List Rat) : Except Err DT :=
  let max_ := if maxInit0 xs < -minInit0 xs then -minInit0 xs else maxInit0 xs
  -- the comparison of the source (`<=`), extracted
  match intCandidates.find? (fun tp => if Generated.SampleArray.candidateTestIsLe then decide (max_ ≤ (tp.iinfoMax : Rat))
                                         else decide (max_ < (tp.iinfoMax : Rat))) with
  | some tp => .ok tp
  | none => .error .value

/-- `_sample_array(array_like, dtype=dtype, copy=copy, order=order)`: rows, `shape[1]`, dtype -/
def sampleArray (a : ArrLike) (args : Args) : Except Err (List (List Rat) × Nat × DT) :=
  -- `if dtype is None: dtype = getattr(array_like, 'dtype', None)`
  let dtype : Option DT := match args.dtype with
    | some d => some d
    | none => match a.src with | .nd d => some d | .py _ => none
  -- `np.array(..., copy=True)` / `np.asarray(...)`: the element type
  let elem : DT := match dtype with
    | some d => d
    | none => match a.src with | .nd d => d | .py d => d
  match a.shape with
  | .d3 => .error .value                                   -- `arr.ndim > 2`
  | .d0 x => finish dtype elem [[x]] 1                      -- size 1: `np.atleast_2d`
  | .d1 row => if row.isEmpty then finish dtype elem [] 0   -- `arr.reshape((0, 0))`
               else finish dtype elem [row] row.length
  | .d2 rows w =>
    if rows.all (·.length = w) then finish dtype elem rows w
    else .error .value                                      -- NumPy: inhomogeneous shape
where
  finish (dtype : Option DT) (elem : DT) (rows : List (List Rat)) (w : Nat) : Except Err (List (List Rat) × Nat × DT) :=
    if dtype.isNone && elem.isInteger then
      match smallestInt rows.flatten with
      | .ok tp => .ok (rows, w, tp)
      -- `except StopIteration: if arr.dtype != np.int64: raise ValueError(...); dtype = np.int64`
      -- (only -2**63 gets here with an int64 array: it already is an int64, repair ecd6256)
      | .error e => if elem = .int64 then .ok (rows, w, .int64) else .error e
    else .ok (rows, w, elem)

/-- `labels_type(labels)`: a list keeps everything, `Variables` keeps the first occurrence of each label -/
def asLabels (variables : Bool) (labels : List Label) : List Label := if variables then firsts labels else labels

def rangeLabels (k : Nat) : List Label := (List.range k).map fun i => Label.int (i : Nat)

/-- the body of `_as_samples_tuple` from `arr = _sample_array(...)` on -/
def tupleTail (args : Args) (a : ArrLike) (labels : List Label) : Except Err Out :=
  match sampleArray a args with
  | .error e => .error e
  | .ok (rows, w, dt) =>
    let labels := asLabels args.labelsVariables labels
    -- `if not arr.size: arr.shape = (arr.shape[0], len(labels))` (only a size-0 shape is accepted)
    if rows.length * w = 0 then
      if rows.length * labels.length = 0 then
        .ok ⟨rows.map fun _ => [], labels.length, dt, labels, args.labelsVariables⟩
      else .error .value
    else if labels.length ≠ w then .error .value
    else .ok ⟨rows, w, dt, labels, args.labelsVariables⟩

/-- `_as_samples_dict` -/
def dictForm (args : Args) (items : List (Label × Rat)) (flt : Bool) : Except Err Out :=
  if items.isEmpty then
    -- `np.empty((1, 0), dtype=dtype, order=order), labels_type()`
    .ok ⟨[[]], 0, args.dtype.getD .float64, [], args.labelsVariables⟩
  else
    -- `labels, samples = zip(*samples_like.items())`; a tuple of Python numbers has no dtype attribute
    tupleTail args ⟨.py (if flt then .float64 else .int64), .d1 (items.map (·.2))⟩ (items.map (·.1))

def lookup (items : List (Label × Rat)) (v : Label) : Option Rat := (items.find? (·.1 = v)).map (·.2)

/-- the deprecated `(mapping, labels)` branch of `_as_samples_tuple` -/
def tupleMappingForm (args : Args) (items : List (Label × Rat)) (flt : Bool) (labels : List Label) : Except Err Out :=
  -- `for v in labels: d[v] = array_like[v]`; `KeyError` → `ValueError("inconsistent labels")`
  if labels.all (fun v => (lookup items v).isSome) then
    -- `array_like, _ = as_samples(d)`: default arguments
    -- (`d` keeps the first position of every label; a repeated label is assigned the same value `array_like[v]` again)
    match dictForm {} ((firsts labels).map fun v => (v, (lookup items v).getD 0)) flt with
    | .error e => .error e
    | .ok o => tupleTail args ⟨.nd o.dtype, .d2 o.rows o.width⟩ labels
  else .error .value

/-- `_as_samples_sampleset` -/
def samplesetForm (args : Args) (labels : List Label) (rows : List (List Rat)) (dt : DT) : Except Err Out :=
  .ok ⟨rows, labels.length, args.dtype.getD dt, asLabels args.labelsVariables labels, args.labelsVariables⟩

def sameSet (a b : List Label) : Bool := a.all (· ∈ b) && b.all (· ∈ a)

/-- the `for samples, labels in stack` loop of `_as_samples_iterator` (elements after the first);
    the generator is lazy, so the first failing element (conversion or label set) decides the exception -/
def stackRest (fl : List Label) : List (Except Err Out) → Except Err (List (List Rat) × Option DT)
  | [] => .ok ([], none)
  | .error e :: _ => .error e
  | .ok o :: rest =>
    if o.labels ≠ fl && !(sameSet o.labels fl) then .error .value     -- `if set(labels) ^ first_set: raise ValueError`
    else
      -- `reindex = [labels.index(v) for v in first_labels]; samples = samples[:, reindex]`
      let rows := if o.labels = fl then o.rows else o.rows.map fun row => gather row (fl.map (o.labels.idxOf ·))
      match stackRest fl rest with
      | .error e => .error e
      | .ok (more, dt) => .ok (rows ++ more, some (match dt with | none => o.dtype | some d => o.dtype.promote d))

/-- `_as_samples_iterator` on the already converted elements -/
def stackOuts (variables : Bool) : List (Except Err Out) → Except Err Out
  | [] => .ok ⟨[], 0, .int8, [], false⟩              -- `return np.empty((0, 0), dtype=np.int8), []`
  | .error e :: _ => .error e
  | .ok first :: rest =>
    match stackRest first.labels rest with
    | .error e => .error e
    | .ok (more, dt) =>
      .ok ⟨first.rows ++ more, first.width, (match dt with | none => first.dtype | some d => first.dtype.promote d),
           asLabels variables first.labels, variables⟩

def Form.isMapping : Form → Bool
  | .mapping _ _ => true
  | _ => false

/-- a list without mappings is array-like: its rows (or scalars) as NumPy reads them -/
def seqAsArray (l : List Form) : Option ArrLike :=
  let rows := l.filterMap fun f => match f with
    | .array ⟨_, .d1 row⟩ => some row
    | _ => none
  let dts := l.filterMap fun f => match f with
    | .array ⟨.py d, _⟩ => some d
    | .array ⟨.nd d, _⟩ => some d
    | _ => none
  if rows.length = l.length then
    match dts with
    | [] => some ⟨.py .float64, .d1 []⟩                       -- `[]`
    | d :: ds => some ⟨.py (ds.foldl DT.promote d), .d2 rows ((rows.head?.map (·.length)).getD 0)⟩
  else none

mutual
/-- `as_samples(samples_like, dtype=, copy=, order=, labels_type=)` -/
def run (args : Args) : Form → Except Err Out
  | .mapping items flt => dictForm args items flt
  | .array a =>
    match sampleArray a args with
    | .error e => .error e
    | .ok (rows, w, dt) => .ok ⟨rows, w, dt, rangeLabels w, args.labelsVariables⟩
  | .tuple a labels => tupleTail args a labels
  | .tupleMapping items flt labels => tupleMappingForm args items flt labels
  | .tupleIterator _ => .error .type
  | .tupleLen _ => .error .value
  | .sampleset labels rows dt => samplesetForm args labels rows dt
  | .iterator l => stackOuts args.labelsVariables (runAll { args with labelsVariables := false } l)
  | .sequence l =>
    if l.any Form.isMapping then stackOuts args.labelsVariables (runAll { args with labelsVariables := false } l)
    else match seqAsArray l with
      | some a =>
        match sampleArray a args with
        | .error e => .error e
        | .ok (rows, w, dt) => .ok ⟨rows, w, dt, rangeLabels w, args.labelsVariables⟩
      | none => .error .value      -- lists of other things than rows: NumPy's business, not generated
/-- the generator `(as_samples(sl, **kwargs) for sl in samples_like)` -/
def runAll (args : Args) : List Form → List (Except Err Out)
  | [] => []
  | f :: fs => run args f :: runAll args fs
end

/-! ### what an input SAYS: one association list per row, read off the input's structure alone -/

def zipRow (labels : List Label) (row : List Rat) : List (Label × Rat) := labels.zip row

def ArrLike.rows2d (a : ArrLike) : List (List Rat) × Nat :=
  match a.shape with
  | .d0 x => ([[x]], 1)
  | .d1 row => if row.isEmpty then ([], 0) else ([row], row.length)
  | .d2 rows w => (rows, w)
  | .d3 => ([], 0)

mutual
/-- the rows an input denotes, each as `label ↦ value` -/
def Form.denote : Form → List (List (Label × Rat))
  | .mapping items _ => [items]
  | .array a => a.rows2d.1.map (zipRow (rangeLabels a.rows2d.2))
  | .tuple a labels => a.rows2d.1.map (zipRow labels)
  | .tupleMapping items _ labels => [labels.map fun v => (v, (lookup items v).getD 0)]
  | .tupleIterator _ => []
  | .tupleLen _ => []
  | .sampleset labels rows _ => rows.map (zipRow labels)
  | .iterator l => Form.denoteAll l
  | .sequence l =>
    if l.any Form.isMapping then Form.denoteAll l
    else match seqAsArray l with      -- a list of rows is ONE array: `[[], []]` has two (empty) rows
      | some a => a.rows2d.1.map (zipRow (rangeLabels a.rows2d.2))
      | none => []
def Form.denoteAll : List Form → List (List (Label × Rat))
  | [] => []
  | f :: fs => f.denote ++ Form.denoteAll fs
end

mutual
/-- label lists without repetitions, sample-set rows as wide as the variables: what the inputs of the property are -/
def Form.Clean : Form → Prop
  | .mapping items _ => (items.map (·.1)).Nodup
  | .array _ => True
  | .tuple _ labels => labels.Nodup
  | .tupleMapping _ _ labels => labels.Nodup
  | .tupleIterator _ => True
  | .tupleLen _ => True
  | .sampleset labels rows _ => labels.Nodup ∧ ∀ row ∈ rows, row.length = labels.length
  | .iterator l => Form.CleanAll l
  | .sequence l => Form.CleanAll l
def Form.CleanAll : List Form → Prop
  | [] => True
  | f :: fs => f.Clean ∧ Form.CleanAll fs
end

/-- `append_variables(sampleset, samples_like, sort_labels)` for ANY samples-like: `samples, labels = as_samples(samples_like)` (default
    arguments), then the row-count / label-clash tests and `from_samples` of `SS.appendVars` -/
def appendVariablesForm (s : SS) (f : Form) (sortLabels : Bool) : Option SS :=
  match run {} f with
  | .ok o => s.appendVars o.labels o.rows sortLabels
  | .error _ => none

/-! ### the standard encodings of one table -/

/-- all the ways a caller can write the table `labels × rows` (one permutation of the keys per row for
    the mapping forms, `perms[j]` being a list of positions): used by the harness and by
    `as_samples_all_forms_agree` -/
def labelledForms (labels : List Label) (rows : List (List Rat)) (perms : List (List Nat)) (dt : DT) : List Form :=
  let dicts : List Form := (rows.zip perms).map fun (row, p) => .mapping (gather (labels.zip row) p) false
  [ .sequence dicts,                                                        -- list of dicts
    .iterator dicts,                                                        -- generator of dicts
    .tuple ⟨.py .int64, .d2 rows labels.length⟩ labels,                     -- (list of lists, labels)
    .tuple ⟨.nd dt, .d2 rows labels.length⟩ labels,                         -- (ndarray, labels)
    .sampleset labels rows dt,                                              -- SampleSet
    .iterator (rows.map fun row => .tuple ⟨.py .int64, .d1 row⟩ labels),    -- generator of (row, labels)
    .iterator (rows.map fun row => .sampleset labels [row] dt) ]            -- generator of one-row sample sets

end Dispatch
end SSM
