import DimodModel.SymStore

/-! # C06 — comparisons between two arbitrary operands, the constraint a CQM stores for a comparison,
    and operator programs observed also when they are rejected

Mirror of `__eq__` / `__le__` / `__ge__` of `BinaryQuadraticModel` and `QuadraticModel`
(`dimod/binary/binary_quadratic_model.py`, `dimod/quadratic/quadratic_model.py`): only a `Number` on the
other side builds a `Comparison` (`dimod/sym.py`: `Eq/Le/Ge(self, other)` — the left-hand side *is* the
model object, nothing is moved across); for any other operand `__le__`/`__ge__` return `NotImplemented`
on both sides, so Python raises TypeError, and `==` falls back on `is_equal` (BQM) or on identity (QM,
expression views), i.e. a plain bool.  The expression views (`dimod/constrained/expression.py`) define no
comparison at all.  `ConstrainedQuadraticModel.add_constraint_from_comparison` requires a numeric rhs and
stores a `QuadraticModel` copy of the lhs (offset kept on the left), the sense and the rhs.

Core Lean only. -/

namespace Sym

/-- Python's reflection of an ordering: `q <= e` is answered by `e.__ge__(q)` -/
def Sense.flip : Sense → Sense
  | .le => .ge | .ge => .le | .eq => .eq

/-- `x ⋈ y` on two evaluated operands.  `none` = a plain bool (number with number, `==` between two
    models / views: `is_equal` or identity); an ordering between two models, or with a view, is a TypeError. -/
def cmpVals (s : Sense) : Val → Val → Except Err (Option Cmp)
  | .mdl m, .num q => .ok (some ⟨m, s, q⟩)
  | .num q, .mdl m => .ok (some ⟨m, s.flip, q⟩)
  | .num _, .num _ => .ok none
  | _, _ => if s = .eq then .ok none else .error .type

/-- `a ⋈ b` for two expression trees (both operands are evaluated first, left to right) -/
def buildCmp2 (s : Sense) (a b : SymExpr) : Except Err (Option Cmp) :=
  match build a with
  | .error e => .error e
  | .ok x =>
    match build b with
    | .error e => .error e
    | .ok y => cmpVals s x y

/-- what the written comparison `p ⋈ q` means on numbers -/
def Sense.rel (s : Sense) (p q : Rat) : Prop :=
  match s with
  | .le => p ≤ q
  | .ge => p ≥ q
  | .eq => p = q

/-- a constraint as a CQM stores it -/
structure Con where
  lhs : Model
  sense : Sense
  rhs : Rat

/-- `cqm.add_constraint(comparison)` → `add_constraint_from_model(comp.lhs, comp.sense, rhs=comp.rhs, copy=True)`:
    a QM copy of the left-hand side (its offset stays on the left), the sense and the right-hand side as given -/
def conOfCmp (k : Cmp) : Con := ⟨k.lhs.toQM, k.sense, k.rhs⟩

/-- activity of a stored constraint at a sample: `lhs(x) − rhs` -/
def Con.activity (c : Con) (x : Label → Rat) : Rat := c.lhs.eval x - c.rhs

def Con.holds (c : Con) (x : Label → Rat) : Prop := c.sense.rel (c.lhs.eval x) c.rhs

/-! ## object level -/

/-- building a `Comparison` allocates and mutates no model: `Le(self, other)` keeps a reference -/
def progCompare : List Instr := []
/-- `cqm.add_constraint(comparison)` with `copy=True`: one allocation (the QM copy), no mutation -/
def progAddConstraint (a : Nat) : List Instr := [.fromBqm a]

/-- `exec` that also reports the store at the moment an instruction raised: a raising instruction
    (`update`'s compatibility check comes before any write; a product is built in a fresh object) changes
    nothing, the instructions before it have already run -/
def execT (h : Store) : List Instr → Store × Option Err
  | [] => (h, none)
  | i :: is => match step h i with | .ok h' => execT h' is | .error e => (h, some e)

end Sym
