import DimodModel.Label
import DimodModel.Vars
import DimodModel.Bqm
import DimodModel.Cqm
import DimodModel.BqmFile
