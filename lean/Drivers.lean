import Drivers.PenShow
