import DimodModel.Penalty
import DimodModel.Wire
open Wire Pen

/-! Text helpers shared by the C15/C16/C17 model drivers: canonical (sorted) rendering of a coefficient
    state, term-list parsers. -/

namespace PenShow

def insertSorted (s : String) : List String → List String
  | [] => [s]
  | h :: t => if s < h then s :: h :: t else h :: insertSorted s t

def sortStrings (l : List String) : List String := l.foldl (fun acc s => insertSorted s acc) []

def parseTerms (s : String) : Option (List (Label × Rat)) :=
  (csv s).mapM fun kv =>
    match kv.splitOn "=" with
    | [k, v] => do let k ← parseLabel? k; let v ← parseRat? v; pure (k, v)
    | _ => none

def parseQuad (s : String) : Option (List ((Label × Label) × Rat)) :=
  (csv s).mapM fun kv =>
    match kv.splitOn "=" with
    | [k, v] =>
      match k.splitOn "~" with
      | [a, b] => do let a ← parseLabel? a; let b ← parseLabel? b; let v ← parseRat? v; pure ((a, b), v)
      | _ => none
    | _ => none

def vtOf? (s : String) : Option VT := if s = "SPIN" then some .spin else if s = "BINARY" then some .binary else none

def other : VT → VT | .spin => .binary | .binary => .spin

def pairKey (a b : String) : String := if a < b then a ++ "~" ++ b else b ++ "~" ++ a

def showBq (b : Bq Label) (dropZero : Bool) : String :=
  let lin := sortStrings (b.lin.map fun p => s!"{showLabel p.1}={showRat p.2}")
  let quad := sortStrings ((b.quad.filter fun p => !(dropZero && p.2 = 0)).map fun p =>
    s!"{pairKey (showLabel p.1.1) (showLabel p.1.2)}={showRat p.2}")
  s!"{String.intercalate "," lin};{String.intercalate "," quad};{showRat b.off}"

end PenShow
