import DimodModel.Store
import DimodModel.Wire
open Wire SSM Store

/-! Line-protocol driver for the store model (C19).
    `ss <rows> <nested> <op> [args…]`: build a sample-set object over a fresh record of `<rows>` rows with
    `<nested>` mutable containers below `info`, run the copy-producing function, report the alias bits of
    the result against the receiver and the rows the result holds.
    `model <op>`: the identity bits of a model-producing call. -/

def splitOr (sep : String) (s : String) : List String := if s = "-" then [] else s.splitOn sep
def parseOptInt? (s : String) : Option (Option Int) := if s = "-" then some none else s.toInt?.map some
def b01 (b : Bool) : String := if b then "1" else "0"
def parseMask (s : String) : List Bool := (splitOr "," s).map (· = "1")
def parseNats (s : String) : List Nat := (splitOr "," s).filterMap (·.toNat?)

def initial (rows nested : Nat) : St × Obj :=
  let st0 : St := { mem := fun _ _ => 0, next := 0 }
  let (st1, rec) := alloc st0 ((List.range rows).map fun (i : Nat) => ((i : Int) : Rat))
  let (st2, v) := newId st1
  let (st3, t) := newId st2
  let (st4, ns) := newIds st3 nested
  (st4, { record := rec, variables := v, infoTop := t, infoNested := ns })

def parseOp? : List String → Option Op
  | ["copy"] => some .copy
  | ["deepcopy"] => some .deepcopy
  | ["slicenone", f, a, b, c] => do
    let a ← parseOptInt? a; let b ← parseOptInt? b; let c ← parseOptInt? c
    pure (.sliceNone (f = "1") ⟨a, b, c⟩)
  | ["slicesorted", sel] => some (.sliceSorted (parseNats sel))
  | ["lowest", m] => some (.lowest (parseMask m))
  | ["filter", f, m] => some (.filter (f = "1") (parseMask m))
  | ["aggregate", idx] => some (.aggregate (parseNats idx))
  | ["relabelcopy"] => some .relabelCopy
  | ["cvcopy"] => some .changeVartypeCopy
  | ["appendvec", f] => some (.appendVectors (f = "1"))
  | ["fromsamples"] => some .fromSamples
  | ["concatone", f] => some (.concatOne (f = "1"))
  | ["concatmany"] => some .concatMany
  | _ => none

def parseMOp? : List String → Option MOp
  | ["copy"] => some .copy | ["deepcopy"] => some .deepcopy | ["pickle"] => some .pickle
  | ["construct"] => some .construct | ["arithmetic"] => some .arithmetic | ["neg"] => some .neg
  | ["pos", f] => some (.pos (f = "1")) | ["inplacefalse"] => some .inplaceFalse
  | ["addtocqm"] => some .addToCqmCopy | ["view"] => some .view
  | _ => none

def step (line : String) : String :=
  match line.trimAscii.toString.splitOn " " with
  | "ss" :: rows :: nested :: rest => match rows.toNat?, nested.toNat?, parseOp? rest with
    | some rows, some nested, some op =>
      let (st, o) := initial rows nested
      match op.run st o with
      | none => "err"
      | some (st', r) =>
        let vals := String.intercalate "," ((readAll st' r.record).map showRat)
        s!"ok record={b01 (sharesMemory r.record o.record)} variables={b01 (r.variables = o.variables)} infotop={b01 (r.infoTop = o.infoTop)} nested={b01 (r.infoNested.any (· ∈ o.infoNested))} rows={if vals = "" then "-" else vals}"
    | _, _, _ => "bad-op"
  | ["concatin", nfirst, spec] => match nfirst.toNat? with
    | some nf =>
      -- inputs: `<rows>:<vartype differs>:<label order differs>` separated by `;`
      let st0 : St := { mem := fun _ _ => 0, next := 0 }
      let (st1, first) := alloc st0 ((List.range nf).map fun (i : Nat) => ((i : Int) : Rat))
      let step2 := fun (acc : St × List (Arr × (Rat → Rat) × Bool × Bool) × Nat) (t : String) =>
        match t.splitOn ":" with
        | [n, v, o] =>
          let (s, a) := alloc acc.1 ((List.range (n.toNat?.getD 0)).map fun (i : Nat) => (((100 * (acc.2.2 + 1) + i : Nat) : Int) : Rat))
          let f : Rat → Rat := fun x => 2 * x - 1
          (s, acc.2.1 ++ [(a, f, decide (v = "1"), decide (o = "1"))], acc.2.2 + 1)
        | _ => acc
      let (st2, others, _) := (splitOr ";" spec).foldl step2 (st1, [], 0)
      let (st3, res) := concatInputs st2 first others
      let inputs := first :: others.map (·.1)
      let unchanged := inputs.all fun a => readAll st3 a == readAll st2 a
      let shared := inputs.any fun a => sharesMemory res a
      s!"ok shared={b01 shared} inputs_unchanged={b01 unchanged} rows={res.len}"
    | none => "bad-op"
  | "mcall" :: rest =>
    let call? : Option MCall := match rest with
      | ["copy"] => some .copy | ["deepcopy"] => some .deepcopy | ["pickle"] => some .pickle
      | ["construct"] => some .construct | ["frommodel"] => some .fromModel
      | ["relabelcopy"] => some .relabelCopy | ["relabelintscopy"] => some .relabelIntsCopy
      | ["changevartypecopy"] => some .changeVartypeCopy | ["fixvariablescopy"] => some .fixVariablesCopy
      | ["spintobinarycopy", s] => some (.spinToBinaryCopy (s = "1"))
      | ["arith"] => some .arith | ["radd", z] => some (.radd (z = "1")) | ["neg"] => some .neg | ["pos"] => some .pos
      | ["view"] => some .view
      | _ => none
    match call? with
    | some c =>
      let st : MSt := { native := fun k => [((k : Nat) : Int)], vars := fun k => [k], next := 2 }
      let o : Mdl := { handle := 0, variables := 1 }
      let (st', r) := c.run st o (fun x => x) (fun x => x)
      s!"ok data={b01 (r.handle = o.handle)} variables={b01 (r.variables = o.variables)} receiver_unchanged={b01 (st'.native 0 == st.native 0 && st'.vars 1 == st.vars 1)}"
    | none => "bad-op"
  | ["addcqm", kind, copy, co] =>
    let st : MSt := { native := fun k => [((k : Nat) : Int) + 5], vars := fun k => [k], next := 2 }
    let src : Mdl := { handle := 0, variables := 1 }
    let (st', h) := if kind = "discrete" then addDiscreteFromComparison st src (copy = "1") (co = "1") else addConstraint st src (copy = "1")
    s!"ok source_unchanged={b01 (st'.native 0 == st.native 0)} source_cleared={b01 (st'.native 0 == [])} constraint_holds_data={b01 (st'.native h == st.native 0)}"
  | "model" :: rest => match parseMOp? rest with
    | some op =>
      let o : MObj := { data := 0, variables := 1 }
      let (_, r) := op.run 2 o
      s!"ok data={b01 (r.data = o.data)} variables={b01 (r.variables = o.variables)}"
    | none => "bad-op"
  | _ => "bad-op"

partial def loop (h : IO.FS.Stream) : IO Unit := do
  let line ← h.getLine
  if line.isEmpty then return ()
  IO.println (step line)
  loop h

def main : IO Unit := do loop (← IO.getStdin)
