import DimodModel.Store
import DimodModel.Heap
import DimodModel.HeapCache
import DimodModel.Wire
open Wire SSM Store

/-! Line-protocol driver for the store model (C19).
    `ss <rows> <nested> <op> [args…]`: build a sample-set object over a fresh record of `<rows>` rows with
    `<nested>` mutable containers below `info`, run the copy-producing function, report the alias bits of
    the result against the receiver and the rows the result holds.
    `model <op>`: the identity bits of a model-producing call. -/

def splitOr (sep : String) (s : String) : List String := if s = "-" then [] else s.splitOn sep
def parseOptInt? (s : String) : Option (Option Int) := if s = "-" then some none else s.toInt?.map some
def b01 (b : Bool) : String := if b then "1" else "0"
def parseMask (s : String) : List Bool := (splitOr "," s).map (· = "1")
def parseNats (s : String) : List Nat := (splitOr "," s).filterMap (·.toNat?)

def initial (rows nested : Nat) : St × Obj :=
  let st0 : St := { mem := fun _ _ => 0, next := 0 }
  let (st1, rec) := alloc st0 ((List.range rows).map fun (i : Nat) => ((i : Int) : Rat))
  let (st2, v) := newId st1
  let (st3, t) := newId st2
  let (st4, ns) := newIds st3 nested
  (st4, { record := rec, variables := v, infoTop := t, infoNested := ns })

def parseOp? : List String → Option Op
  | ["copy"] => some .copy
  | ["deepcopy"] => some .deepcopy
  | ["slicenone", f, a, b, c] => do
    let a ← parseOptInt? a; let b ← parseOptInt? b; let c ← parseOptInt? c
    pure (.sliceNone (f = "1") ⟨a, b, c⟩)
  | ["slicesorted", sel] => some (.sliceSorted (parseNats sel))
  | ["lowest", m] => some (.lowest (parseMask m))
  | ["filter", f, m] => some (.filter (f = "1") (parseMask m))
  | ["aggregate", idx] => some (.aggregate (parseNats idx))
  | ["relabelcopy"] => some .relabelCopy
  | ["cvcopy"] => some .changeVartypeCopy
  | ["appendvec", f] => some (.appendVectors (f = "1"))
  | ["fromsamples"] => some .fromSamples
  | ["concatone", f] => some (.concatOne (f = "1"))
  | ["concatmany"] => some .concatMany
  | _ => none

def parseMOp? : List String → Option MOp
  | ["copy"] => some .copy | ["deepcopy"] => some .deepcopy | ["pickle"] => some .pickle
  | ["construct"] => some .construct | ["arithmetic"] => some .arithmetic | ["neg"] => some .neg
  | ["pos", f] => some (.pos (f = "1")) | ["inplacefalse"] => some .inplaceFalse
  | ["addtocqm"] => some .addToCqmCopy | ["view"] => some .view
  | _ => none


/-! ### heap model of BQM / QM / CQM objects (`DimodModel/Heap.lean`) -/
namespace HeapDrv
open MHeap

/-- a BQM at cells 0–2 (cy object 2), a second one at 3–5 (cy object 5) -/
def hB : Heap := { cell := fun a => match a with
    | 0 => .coeffs [1, 2] | 1 => .labels [7, 8] | 2 => .cy 0 1
    | 3 => .coeffs [5] | 4 => .labels [7] | 5 => .cy 3 4 | _ => .free, next := 6 }

/-- a BQM at 0–2 and a CQM: objective 3, C++ CQM 4 (one constraint, cell 8), constraint labels 5, variables 6, cy CQM 7 -/
def hCcell : Nat → Cell
  | 0 => .coeffs [1, 2] | 1 => .labels [7, 8] | 2 => .cy 0 1
  | 3 => .coeffs [4] | 4 => .cqm 3 [8] | 5 => .labels [100] | 6 => .labels [7] | 7 => .cycqm 4 6 5 | 8 => .coeffs [6]
  | _ => .free
def hC : Heap := { cell := hCcell, next := 9 }

def mg : Merge := ⟨fun a b => a ++ b, fun a b => a ++ b.filter (fun x => !a.contains x)⟩
def neg : Post := ⟨fun c => c.map (fun x => -x), id⟩

def parseCall? : List String → Option Call
  | ["copy"] => some .copy | ["pos"] => some .copy | ["deepcopy"] => some .deepcopy
  | ["pickle"] => some (.pickle mg) | ["construct"] => some (.construct mg) | ["frommodel"] => some (.fromBqm mg)
  | ["relabelcopy"] => some (.inplaceFalse ⟨id, fun l => l.map (· + 1)⟩) | ["relabelintscopy"] => some (.inplaceFalse ⟨id, fun l => List.range l.length⟩)
  | ["changevartypecopy"] => some (.inplaceFalse neg) | ["fixvariablescopy"] => some (.inplaceFalse ⟨fun c => c.drop 1, fun l => l.drop 1⟩)
  | ["spintobinarycopy", _] => some (.inplaceFalse neg)
  | ["arith"] => some (.arithNum ⟨fun c => c ++ [3], id⟩) | ["radd", _] => some (.arithNum ⟨fun c => c ++ [0], id⟩) | ["neg"] => some (.arithNum neg)
  | ["addmodel"] => some (.addModel mg) | ["submodel"] => some (.subModel mg neg) | ["mulmodel"] => some (.mulModel mg)
  | ["addpromote"] => some (.addPromote mg mg mg)
  | ["view"] => some .view | ["iadd"] => some (.iadd mg)
  | _ => none

def b01 (b : Bool) : String := if b then "1" else "0"

def step (ws : List String) : String :=
  match ws with
  | "hcall" :: rest => match parseCall? rest with
    | some c =>
      let r := c.run hB 2 5
      let unchanged := obs r.1 2 == obs hB 2 && obs r.1 5 == obs hB 5
      s!"ok data={b01 (r.2 == 2)} variables={b01 (varsOf r.1 r.2 == varsOf hB 2)} receiver_unchanged={b01 (unchanged || r.2 == 2)}"
    | none => "bad-op"
  | ["hadd", kind, copy, co] =>
    let cp := copy == "1"
    let src := obs hC 2
    let fin (h' : Heap) (held : List Rat) : String :=
      s!"ok source_unchanged={b01 (obs h' 2 == src)} source_cleared={b01 (obs h' 2 == ([], []))} constraint_holds_data={b01 (held == src.1)}"
    match kind with
    | "constraint" => let r := addConstraintFromModel hC 7 2 cp id mg (· ++ [101]); fin r.1 (coeffsAt r.1 r.2)
    | "comparison" => let r := addConstraint hC 7 2 cp id mg (· ++ [101]); fin r.1 (coeffsAt r.1 r.2)
    | "discrete" => let r := addDiscreteFromComparison hC 7 2 cp (co == "1") id id mg (· ++ [101]); fin r.1 (coeffsAt r.1 r.2)
    | "discretemodel" => let r := addDiscreteFromModel hC 7 2 cp (co == "1") id id mg (· ++ [101]); fin r.1 (coeffsAt r.1 r.2)
    | "objective" => let h' := setObjective hC 7 2 (co == "1") id mg; fin h' (objectiveViewRead h' 7)
    | "fromqm" => let r := fromQuadraticModel hC 2 (co == "1") id mg; fin r.1 (objectiveViewRead r.1 r.2)
    | _ => "bad-op"
  | ["hcqm", op] =>
    let r? : Option (Heap × Nat) := match op with
      | "deepcopy" => some (cqmDeepcopy hC 7)
      | "fixvariablescopy" => some (CCall.run hC 7 (.fixVariablesCopy (·.drop 1) (·.drop 1) (·.drop 1)))
      | "inplacefalse" => some (CCall.run hC 7 (.inplaceFalse [.vars (·.map (· + 1)), .objective (·.map (fun x => -x)), .constraint 0 (·.map (fun x => -x))]))
      | _ => none
    match r? with
    | some r =>
      let fp (h : Heap) (d : Nat) : List Nat := d :: cppOf h d :: varsOf h d :: clabelsOf h d :: objectiveOf h (cppOf h d) :: constraintsOf h (cppOf h d)
      let shared := (fp r.1 r.2).any fun a => (fp r.1 7).contains a
      s!"ok variables={b01 (varsOf r.1 r.2 == varsOf hC 7)} clabels={b01 (clabelsOf r.1 r.2 == clabelsOf hC 7)} shared={b01 shared} receiver_unchanged={b01 (cobs r.1 7 == cobs hC 7)}"
    | none => "bad-op"
  | _ => "bad-op"

end HeapDrv

/-! ### Python-level objects with their `__dict__` caches (`DimodModel/HeapCache.lean`)
    `pyc <names> <ops>`: ops separated by `;` run on (`names`: forwarding methods already stored by the constructor) a heap holding one model (Python object 0): `O<x>` = read `.spin`/`.binary` of
    object x, `D<x>` / `F<x>:<name>` / `W<x>` / `V<x>:<name>` = an in-place edit of x directly / through a forwarding method /
    through its other-vartype object / through that object's forwarding method, `C<x>` = `copy.copy`, `K<x>` = `copy.deepcopy`, `S<x>` = the variant sharing
    the `__dict__` (not the code).  Answer: after every op, which Python objects read differently than before it
    (`ch=`), then for every object `data,isView,other,fwd-names` with cy objects numbered by first appearance. -/

open MHeap in
def pyInit (names : List String) : PyHeap :=
  let a := cyNew { cell := fun _ => .free, next := 0 }
  -- the constructor itself goes through `self.add_linear` / `self.add_quadratic`: their bound methods are already stored
  { h := mutate a.1 a.2 (fun _ => [1]) (fun _ => [1]), obj := fun i => if i = 0 then some ⟨a.2, false, none, names.map fun n => (n, a.2)⟩ else none,
    nextId := 1 }

open MHeap in
def pyShow (p : PyHeap) : String :=
  let objs := (List.range p.nextId).filterMap fun i => (p.obj i).map fun o => (i, o)
  let datas := (objs.map (·.2.data)).eraseDups
  String.intercalate "|" (objs.map fun (_, o) =>
    s!"{datas.idxOf o.data},{b01 o.isView},{match o.other with | some v => toString v | none => "-"},{String.intercalate "+" ((o.fwd.map (·.1)).mergeSort (· ≤ ·))}")

open MHeap in
def pyReads (p : PyHeap) : List (List Rat × List Nat) :=
  (List.range p.nextId).map fun i => match p.obj i with | some o => obs p.h o.data | none => ([], [])

open MHeap in
def pyStep (p : PyHeap) (op : String) : Option PyHeap :=
  let bump : Edit := .coeffs (fun c => 1 :: c)
  let body := (op.drop 1).toString
  match op.take 1 |>.toString, body.splitOn ":" with
  | "O", [x] => x.toNat?.map fun x => (pyOther p x).1
  | "D", [x] => x.toNat?.map fun x => pyEdit p x .direct bump
  | "W", [x] => x.toNat?.map fun x => pyEdit p x .otherDirect bump
  | "F", [x, n] => x.toNat?.map fun x => pyEdit p x (.fwd n) bump
  | "V", [x, n] => x.toNat?.map fun x => pyEdit p x (.otherFwd n) bump
  | "C", [x] => x.toNat?.map fun x => (pyCopy p x (fun c => 0 :: c) false).1
  | "K", [x] => x.toNat?.map fun x => (pyCopy p x (fun c => 0 :: c) true).1
  | "S", [x] => x.toNat?.map fun x => (copySharingDict p x).1
  | _, _ => none

open MHeap in
def pyScript (names ops : List String) : String :=
  let rec go (p : PyHeap) (acc : List String) : List String → Option (PyHeap × List String)
    | [] => some (p, acc.reverse)
    | op :: t =>
      match pyStep p op with
      | none => none
      | some q =>
        let before := pyReads p
        let after := pyReads q
        let ch := (List.range p.nextId).filter fun i => before.getD i ([], []) != after.getD i ([], [])
        go q ((if ch.isEmpty then "-" else String.intercalate "," (ch.map toString)) :: acc) t
  match go (pyInit names) [] ops with
  | some (p, chs) => s!"ok ch={String.intercalate "/" chs} {pyShow p}"
  | none => "bad-op"

def step (line : String) : String :=
  match line.trimAscii.toString.splitOn " " with
  | ["pyc", names, ops] => pyScript (splitOr "+" names) (ops.splitOn ";")
  | "hcall" :: rest => HeapDrv.step ("hcall" :: rest)
  | "hadd" :: rest => HeapDrv.step ("hadd" :: rest)
  | "hcqm" :: rest => HeapDrv.step ("hcqm" :: rest)
  | "ss" :: rows :: nested :: rest => match rows.toNat?, nested.toNat?, parseOp? rest with
    | some rows, some nested, some op =>
      let (st, o) := initial rows nested
      match op.run st o with
      | none => "err"
      | some (st', r) =>
        let vals := String.intercalate "," ((readAll st' r.record).map showRat)
        s!"ok record={b01 (sharesMemory r.record o.record)} variables={b01 (r.variables = o.variables)} infotop={b01 (r.infoTop = o.infoTop)} nested={b01 (r.infoNested.any (· ∈ o.infoNested))} rows={if vals = "" then "-" else vals}"
    | _, _, _ => "bad-op"
  | ["concatin", nfirst, spec] => match nfirst.toNat? with
    | some nf =>
      -- inputs: `<rows>:<vartype differs>:<label order differs>` separated by `;`
      let st0 : St := { mem := fun _ _ => 0, next := 0 }
      let (st1, first) := alloc st0 ((List.range nf).map fun (i : Nat) => ((i : Int) : Rat))
      let step2 := fun (acc : St × List (Arr × (Rat → Rat) × Bool × Bool) × Nat) (t : String) =>
        match t.splitOn ":" with
        | [n, v, o] =>
          let (s, a) := alloc acc.1 ((List.range (n.toNat?.getD 0)).map fun (i : Nat) => (((100 * (acc.2.2 + 1) + i : Nat) : Int) : Rat))
          let f : Rat → Rat := fun x => 2 * x - 1
          (s, acc.2.1 ++ [(a, f, decide (v = "1"), decide (o = "1"))], acc.2.2 + 1)
        | _ => acc
      let (st2, others, _) := (splitOr ";" spec).foldl step2 (st1, [], 0)
      let (st3, res) := concatInputs st2 first others
      let inputs := first :: others.map (·.1)
      let unchanged := inputs.all fun a => readAll st3 a == readAll st2 a
      let shared := inputs.any fun a => sharesMemory res a
      s!"ok shared={b01 shared} inputs_unchanged={b01 unchanged} rows={res.len}"
    | none => "bad-op"
  | "mcall" :: rest =>
    let call? : Option MCall := match rest with
      | ["copy"] => some .copy | ["deepcopy"] => some .deepcopy | ["pickle"] => some .pickle
      | ["construct"] => some .construct | ["frommodel"] => some .fromModel
      | ["relabelcopy"] => some .relabelCopy | ["relabelintscopy"] => some .relabelIntsCopy
      | ["changevartypecopy"] => some .changeVartypeCopy | ["fixvariablescopy"] => some .fixVariablesCopy
      | ["spintobinarycopy", s] => some (.spinToBinaryCopy (s = "1"))
      | ["arith"] => some .arith | ["radd", z] => some (.radd (z = "1")) | ["neg"] => some .neg | ["pos"] => some .pos
      | ["view"] => some .view
      | _ => none
    match call? with
    | some c =>
      let st : MSt := { native := fun k => [((k : Nat) : Int)], vars := fun k => [k], next := 2 }
      let o : Mdl := { handle := 0, variables := 1 }
      let (st', r) := c.run st o (fun x => x) (fun x => x)
      s!"ok data={b01 (r.handle = o.handle)} variables={b01 (r.variables = o.variables)} receiver_unchanged={b01 (st'.native 0 == st.native 0 && st'.vars 1 == st.vars 1)}"
    | none => "bad-op"
  | ["addcqm", kind, copy, co] =>
    let st : MSt := { native := fun k => [((k : Nat) : Int) + 5], vars := fun k => [k], next := 2 }
    let src : Mdl := { handle := 0, variables := 1 }
    let (st', h) := if kind = "discrete" then addDiscreteFromComparison st src (copy = "1") (co = "1") else addConstraint st src (copy = "1")
    s!"ok source_unchanged={b01 (st'.native 0 == st.native 0)} source_cleared={b01 (st'.native 0 == [])} constraint_holds_data={b01 (st'.native h == st.native 0)}"
  | "model" :: rest => match parseMOp? rest with
    | some op =>
      let o : MObj := { data := 0, variables := 1 }
      let (_, r) := op.run 2 o
      s!"ok data={b01 (r.data = o.data)} variables={b01 (r.variables = o.variables)}"
    | none => "bad-op"
  | _ => "bad-op"

partial def loop (h : IO.FS.Stream) : IO Unit := do
  let line ← h.getLine
  if line.isEmpty then return ()
  IO.println (step line)
  loop h

def main : IO Unit := do loop (← IO.getStdin)
