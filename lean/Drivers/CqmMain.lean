import DimodModel.Cqm
import DimodModel.Feasibility
import DimodModel.FeasOptions
import DimodModel.FeasMore
import DimodModel.Wire
open Wire

/-! Line-protocol driver for the CQM model (property C05).  One operation per stdin line, answer
    `<ok|err:CLASS> <state>` with
    state = `vars # objective # constraints`,
    vars  = csv of `label:VT:lb:ub`, expression = `[labels in private order|linear|u:v:bias lower triangle|offset]`,
    constraint = `label SENSE rhs;weight|inf;quadratic?;is_discrete;is_onehot;expr`. -/

def vt4? (s : String) : Option VT4 :=
  match s with
  | "BINARY" => some .binary | "SPIN" => some .spin | "INTEGER" => some .integer | "REAL" => some .real
  | _ => none

def showVT : VT4 → String
  | .binary => "BINARY" | .spin => "SPIN" | .integer => "INTEGER" | .real => "REAL"

def sense? (s : String) : Option Sense :=
  match s with
  | "<=" => some .le | ">=" => some .ge | "==" => some .eq | _ => none

def optRat? (s : String) : Option (Option Rat) :=
  if s = "-" then some none else (parseRat? s).map some

def parseModel? (a b c d : String) : Option Cqm.ModelIn := do
  let items ← (csv a).mapM fun t =>
    match t.splitOn "~" with
    | [l, vt, lb, ub] => do pure ((← parseLabel? l), (← vt4? vt), (← parseRat? lb), (← parseRat? ub))
    | _ => none
  let vars := items.map (·.1)
  let info := items.map fun t => (t.2.1, t.2.2.1, t.2.2.2)
  let lin ← (csv b).mapM parseRat?
  let quad ← (csv c).mapM fun t =>
    match t.splitOn ":" with
    | [u, v, x] => do pure ((← u.toNat?), (← v.toNat?), (← parseRat? x))
    | _ => none
  let off ← parseRat? d
  pure { vars, info, lin, quad, off }

def parseTerms? (s : String) : Option (List Cqm.Term) :=
  (csv s).mapM fun t =>
    match t.splitOn "@" with
    | [vs, b] => do
      let vs ← (if vs = "" then some [] else (vs.splitOn "&").mapM parseLabel?)
      pure { vs, bias := (← parseRat? b) }
    | _ => none

def parsePairs? (s : String) : Option (List (Label × Rat)) :=
  (csv s).mapM fun kv =>
    match kv.splitOn "=" with
    | [k, v] => do pure ((← parseLabel? k), (← parseRat? v))
    | _ => none

def parseMapping? (s : String) : Option (List (Label × Label)) :=
  (csv s).mapM fun kv =>
    match kv.splitOn "=" with
    | [k, v] => do pure ((← parseLabel? k), (← parseLabel? v))
    | _ => none

def parseWhich? (s : String) : Option (Option Label) := parseOptLabel? s

def showExpr (m : Cqm) (e : Expr) : String :=
  let vars := String.intercalate "," (e.vars.map fun g => showLabel (m.labels.getD g (.int (-1))))
  let lin := String.intercalate "," (e.qb.lin.map showRat)
  let quad := e.qb.lower.map fun t => s!"{t.1}:{t.2.1}:{showRat t.2.2}"
  -- `indices_` must be the inverse of `variables_` (checked here so that a broken map shows up)
  let idxOk := e.idx.length = e.vars.length &&
    (List.range e.vars.length).all fun i => e.idx.get? (e.vars.getD i 0) = some i
  s!"[{vars}|{lin}|{String.intercalate "," quad}|{showRat e.qb.off}]" ++ (if idxOk then "" else "!idx")

def showSense : Sense → String
  | .le => "<=" | .ge => ">=" | .eq => "=="

def showState (m : Cqm) : String :=
  let vars := String.intercalate "," ((List.range m.numVars).map fun i =>
    s!"{showLabel (m.labels.getD i (.int (-1)))}:{showVT (m.vt.getD i .binary)}:{showRat (m.lb.getD i 0)}:{showRat (m.ub.getD i 0)}")
  let cons := (m.cons.zip m.clabels).map fun (c, l) =>
    let w := match c.weight with | none => "inf" | some w => showRat w
    s!"{showLabel l}{showSense c.sense}{showRat c.rhs};{w};{c.weight.isSome && c.quadPenalty};{c.isDiscrete m.vt};{c.isOnehot m.vt};{showExpr m c.e}"
  s!"{vars} # {showExpr m m.obj} # {String.intercalate " " cons}"

def showErr : ErrC → String
  | .value => "value" | .type => "type" | .index => "index" | .runtime => "runtime"

def fin (r : Cqm.Res) : Cqm × String :=
  match r.2 with
  | none => (r.1, "ok " ++ showState r.1)
  | some c => (r.1, s!"err:{showErr c} " ++ showState r.1)

def parseOp? (line : String) : Option Cqm.Op :=
  match line.trimAscii.toString.splitOn " " with
  | ["addvar", vt, l, lb, ub] => do pure (.addVariable (← vt4? vt) (← parseOptLabel? l) (← optRat? lb) (← optRat? ub))
  | ["objm", a, b, c, d] => do pure (.setObjectiveModel (← parseModel? a b c d))
  | ["objt", ts] => do pure (.setObjectiveTerms (← parseTerms? ts))
  | ["conm", lbl, sense, rhs, copy, w, pen, a, b, c, d] => do
    pure (.addConstraintModel (← parseModel? a b c d) (← sense? sense) (← parseRat? rhs) (← parseLabel? lbl) (copy = "1")
      (← optRat? w) (← pen.toNat?))
  | ["cont", lbl, sense, rhs, w, pen, ts] => do
    pure (.addConstraintTerms (← parseTerms? ts) (← sense? sense) (← parseRat? rhs) (← parseLabel? lbl) (← optRat? w) (← pen.toNat?))
  | ["discm", lbl, copy, chk, a, b, c, d] => do
    pure (.addDiscreteModel (← parseModel? a b c d) (← parseLabel? lbl) (copy = "1") (chk = "1"))
  | ["discc", lbl, sense, rhs, copy, chk, a, b, c, d] => do
    pure (.addDiscreteComparison (← parseModel? a b c d) (← sense? sense) (← parseRat? rhs) (← parseLabel? lbl) (copy = "1") (chk = "1"))
  | ["discv", lbl, chk, vs] => do pure (.addDiscreteVars (← (csv vs).mapM parseLabel?) (← parseLabel? lbl) (chk = "1"))
  | ["rmvar", l] => do pure (.removeVariable (← parseLabel? l))
  | ["fix", l, a] => do pure (.fixVariable (← parseLabel? l) (← parseRat? a))
  | ["fixmany", ps] => do pure (.fixVariables (← parsePairs? ps))
  | ["flip", l] => do pure (.flipVariable (← parseLabel? l))
  | ["cvt", vt, l] => do pure (.changeVartype (← vt4? vt) (← parseLabel? l))
  | ["s2b"] => some .spinToBinary
  | ["rmcon", l, cas] => do pure (.removeConstraint (← parseLabel? l) (cas = "1"))
  | ["relv", mp] => do pure (.relabelVariables (← parseMapping? mp))
  | ["relc", mp] => do pure (.relabelConstraints (← parseMapping? mp))
  | ["setlb", l, x] => do pure (.setLowerBound (← parseLabel? l) (← parseRat? x))
  | ["setub", l, x] => do pure (.setUpperBound (← parseLabel? l) (← parseRat? x))
  | ["vaddl", w, l, b] => do pure (.viewAddLinear (← parseWhich? w) (← parseLabel? l) (← parseRat? b))
  | ["vsetl", w, l, b] => do pure (.viewSetLinear (← parseWhich? w) (← parseLabel? l) (← parseRat? b))
  | ["vaddq", w, u, v, b] => do pure (.viewAddQuadratic (← parseWhich? w) (← parseLabel? u) (← parseLabel? v) (← parseRat? b))
  | ["vrmi", w, u, v] => do pure (.viewRemoveInteraction (← parseWhich? w) (← parseLabel? u) (← parseLabel? v))
  | ["vrmv", w, l] => do pure (.viewRemoveVariable (← parseWhich? w) (← parseLabel? l))
  | ["voff", w, b] => do pure (.viewSetOffset (← parseWhich? w) (← parseRat? b))
  | ["vmark", l, k] => do pure (.viewMarkDiscrete (← parseLabel? l) (k = "1"))
  | ["vweight", l, w, pen] => do pure (.viewSetWeight (← parseLabel? l) (← optRat? w) (← pen.toNat?))
  | ["deepcopy"] => some .deepcopy
  | _ => none

/-- every mutation goes through `Cqm.step` — the function the history theorems of `Properties/C05.lean` are about -/
def step (m : Cqm) (line : String) : Cqm × String :=
  match line.trimAscii.toString.splitOn " " with
  | ["new"] => fin ({}, none)
  | ["fixcopy", ps] => match parsePairs? ps with
    | some ps => match m.fixVariablesCopy ps with
      | some m' => (m, "ok " ++ showState m')
      | none => (m, "err:value " ++ showState m)
    | none => (m, "bad-op")
  | _ => match parseOp? line with
    | some op =>
      -- model-taking calls also report what is left of the source object: #variables : offset : #interactions
      let src := match m.sourceAfter op with
        | some mi => s!" src={mi.vars.length}:{showRat mi.off}:{mi.quad.length}"
        | none => ""
      ((fin (m.step op)).1, (fin (m.step op)).2 ++ src)
    | none => (m, "bad-op")

/-! ### C08: `feas atol rtol rows` evaluates every report path on the current model -/

def parseRows? (s : String) : Option (List (List Rat)) :=
  if s = "none" then some [] else
  (s.splitOn ";").mapM fun row => (csv row).mapM parseRat?

def bit (b : Bool) : String := if b then "1" else "0"

def showFeas (m : Cqm) (atol rtol : Rat) (rowsL : List (List Rat)) : String :=
  let rows : Nat → Nat → Rat := fun r g => (rowsL.getD r []).getD g 0
  let n := rowsL.length
  let cs := Feas.evalCons m rows
  let obj := Feas.evalObj m rows
  let perRow := (List.range n).map fun r =>
    let data := (Feas.iterConstraintData cs r).map fun d =>
      s!"{showRat d.lhsEnergy}:{showRat d.rhsEnergy}:{showSense d.sense}:{showRat d.activity}:{showRat d.violation}"
    let vl (l : List (Label × Rat)) := String.intercalate "," (l.map fun p => s!"{showLabel p.1}={showRat p.2}")
    -- every option combination (skip_satisfied, clip) of `iter_violations`, then of `violations` (the dict)
    let combos := [(false, false), (true, false), (false, true), (true, true)]
    let its := String.intercalate "|" (combos.map fun (sk, cl) => vl (Feas.iterViolations sk cl cs r))
    let dicts := String.intercalate "/" (combos.map fun (sk, cl) => vl (Feas.violationsDict sk cl cs r))
    s!"{String.intercalate "," data}|{its}|{dicts}|{bit (Feas.checkFeasible atol rtol cs r)}"
  let vec (g : Bool) :=
    let res := Feas.fromSamplesCqm n atol rtol (fun _ _ => g) obj cs
    let sat := (List.range n).map fun r => String.join (res.isSatisfied.map fun col => bit (col r))
    let fe := String.join ((List.range n).map fun r => bit (res.isFeasible r))
    let en := String.intercalate "," ((List.range n).map fun r => showRat (res.energies r))
    s!"{String.intercalate "," sat}|{fe}|{en}"
  s!"P {String.intercalate " ; " perRow} V {vec false} W {vec true}"

/-- `feasl <labels|none|-> <row>`: `iter_constraint_data` and the four option combinations of `iter_violations` with `labels=` -/
def showFeasL (m : Cqm) (labels : Option (List Label)) (row : List Rat) : String :=
  let rows : Nat → Nat → Rat := fun _ g => row.getD g 0
  let cs := Feas.evalCons m rows
  let vl (l : List (Label × Rat)) := String.intercalate "," (l.map fun p => s!"{showLabel p.1}={showRat p.2}")
  let sh (x : List (Label × Rat) × Bool) := if x.2 then "raise:value" else vl x.1
  let d := Feas.iterConstraintDataL labels cs 0
  let data := if d.2 then "raise:value" else String.intercalate "," (d.1.map fun d =>
      s!"{showLabel d.label}:{showRat d.lhsEnergy}:{showRat d.rhsEnergy}:{showSense d.sense}:{showRat d.activity}:{showRat d.violation}")
  s!"L {data}|{sh (Feas.iterViolationsL false false labels cs 0)}|{sh (Feas.iterViolationsL true false labels cs 0)}|{sh (Feas.iterViolationsL false true labels cs 0)}|{sh (Feas.iterViolationsL true true labels cs 0)}"

/-- `exact <atol> <rtol>`: `ExactCQMSolver().sample_cqm(cqm, rtol, atol)` on the current model — column labels (`d_vars +
    var_list`), the enumerated rows IN ORDER, `is_satisfied` per row, `is_feasible`, energies -/
def showExact (m : Cqm) (atol rtol : Rat) : String :=
  match Feas.exactSolve m atol rtol (fun _ _ => true), Feas.exactSolve m atol rtol (fun _ _ => false) with
  | .noFields, _ => "X nofields"
  | .raises, _ => "X raise:value"
  | .result cases res lbl, .result _ res2 _ =>
    let n := cases.length
    let cols := String.intercalate "," ((Feas.exactColumns m).map fun g => showLabel (m.labels.getD g (.int (-1))))
    let rows := String.intercalate ";" (cases.map fun row => String.intercalate "," (row.map fun (a : Int) => toString a))
    let sh (res : Feas.VResult) :=
      let sat := (List.range n).map fun r => String.join (res.isSatisfied.map fun col => bit (col r))
      let fe := String.join ((List.range n).map fun r => bit (res.isFeasible r))
      let en := String.intercalate "," ((List.range n).map fun r => showRat (res.energies r))
      s!"{String.intercalate "," sat}|{fe}|{en}"
    if sh res = sh res2 then s!"X {cols}|{rows}|{sh res}|{bit lbl}" else "X garbage-dependent"
  | _, _ => "X garbage-dependent"

/-- `feas0 <lenArg>`: `from_samples_cqm` given an argument of length `lenArg` that holds no rows -/
def showFeas0 (m : Cqm) (lenArg : Nat) : String :=
  let rows : Nat → Nat → Rat := fun _ _ => 0
  let res := Feas.fromSamplesCqmTop lenArg 0 0 0 (fun _ _ => true) (Feas.evalObj m rows) (Feas.evalCons m rows)
  s!"Z {res.1.isSatisfied.length} {bit res.2}"

/-- `feas0m <isMapping> <lenArg> <atol> <rtol>`: `from_samples_cqm` (repaired first branch) given ONE sample as a mapping / an argument
    without rows, on a model whose expressions are evaluated at the all-zero row (for a model without variables: the constants) -/
def showFeas0M (m : Cqm) (isMapping : Bool) (lenArg : Nat) (atol rtol : Rat) : String :=
  let rows : Nat → Nat → Rat := fun _ _ => 0
  let sh (g : Bool) :=
    let res := Feas.fromSamplesCqmArg isMapping lenArg 1 atol rtol (fun _ _ => g) (Feas.evalObj m rows) (Feas.evalCons m rows)
    if res.2 then s!"R {String.join (res.1.isSatisfied.map fun col => bit (col 0))}|{bit (res.1.isFeasible 0)}|{showRat (res.1.energies 0)}"
    else s!"Z {res.1.isSatisfied.length} 0"
  if sh true = sh false then sh true else "R garbage-dependent"

def stepAll (m : Cqm) (line : String) : Cqm × String :=
  match line.trimAscii.toString.splitOn " " with
  | ["feas0m", im, k, atol, rtol] => match k.toNat?, parseRat? atol, parseRat? rtol with
    | some k, some atol, some rtol => (m, showFeas0M m (im = "1") k atol rtol)
    | _, _, _ => (m, "bad-op")
  | ["exact", atol, rtol] => match parseRat? atol, parseRat? rtol with
    | some atol, some rtol => (m, showExact m atol rtol)
    | _, _ => (m, "bad-op")
  | ["feasw", labels, row] =>
    -- energies of the objective and of every lhs for ONE row of a labelled sample array (any column order, superfluous columns)
    match (if labels = "-" then some [] else (csv labels).mapM parseLabel?), (if row = "-" then some [] else (csv row).mapM parseRat?) with
    | some ls, some rw =>
      let en (e : Expr) := showRat (Feas.exprEnergyOfSample m.labels ls rw e)
      let miss := (m.obj :: m.cons.map (·.e)).any (Feas.gatherMissing m.labels ls)
      (m, s!"W {en m.obj}|{String.intercalate "," (m.cons.map fun c => en c.e)}|{bit miss}")
    | _, _ => (m, "bad-op")
  | ["feasg", k] => match k.toNat? with
    | some k =>
      let cs := Feas.evalCons m (fun _ _ => 0)
      let a := (Feas.iterConstraintDataG k none cs 0).2
      let b := (Feas.iterViolationsG k false false none cs 0).2
      let c := (Feas.checkFeasibleG k 0 0 cs 0).isNone
      (m, s!"G {bit a}{bit b}{bit c}")
    | none => (m, "bad-op")
  | ["feas0", k] => match k.toNat? with
    | some k => (m, showFeas0 m k)
    | none => (m, "bad-op")
  | ["feas", atol, rtol, rows] => match parseRat? atol, parseRat? rtol, parseRows? rows with
    | some atol, some rtol, some rows => (m, showFeas m atol rtol rows)
    | _, _, _ => (m, "bad-op")
  | ["feasl", labels, row] =>
    match (if labels = "none" then some none else (csv labels).mapM parseLabel? |>.map some), (csv row).mapM parseRat? with
    | some ls, some row => (m, showFeasL m ls row)
    | _, _ => (m, "bad-op")
  | _ => step m line

partial def loop (h : IO.FS.Stream) (m : Cqm) : IO Unit := do
  let line ← h.getLine
  if line.isEmpty then return ()
  let (m', out) := stepAll m line
  IO.println out
  loop h m'

def main : IO Unit := do loop (← IO.getStdin) {}
