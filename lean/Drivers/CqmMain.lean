import DimodModel.Cqm

def parseLabel? (s : String) : Option Label :=
  if s.startsWith "i:" then (s.drop 2).toString.toInt?.map Label.int
  else if s.startsWith "s:" then some (Label.str (s.drop 2).toString)
  else none

def parseRat? (s : String) : Option Rat :=
  match s.splitOn "/" with
  | [p] => p.toInt?.map (fun z => (z : Rat))
  | [p, q] => match p.toInt?, q.toNat? with
    | some z, some d => if d = 0 then none else some ((z : Rat) / (d : Rat))
    | _, _ => none
  | _ => none

def showRat (r : Rat) : String := if r.den = 1 then s!"{r.num}" else s!"{r.num}/{r.den}"

def showLabel : Label → String
  | .int z => s!"i:{z}"
  | .str s => s!"s:{s}"
  | .tup _ => "t:?"

def csv (s : String) : List String := if s = "-" then [] else s.splitOn ","

def vt4? (s : String) : Option VT4 :=
  match s with
  | "BINARY" => some .binary | "SPIN" => some .spin | "INTEGER" => some .integer | "REAL" => some .real
  | _ => none

def parseModel? (a b c d : String) : Option Cqm.ModelIn := do
  let items ← (csv a).mapM fun t =>
    match t.splitOn "~" with
    | [l, vt, lb, ub] => do pure ((← parseLabel? l), (← vt4? vt), (← parseRat? lb), (← parseRat? ub))
    | _ => none
  let vars := items.map (·.1)
  let info := items.map fun t => (t.2.1, t.2.2.1, t.2.2.2)
  let lin ← (csv b).mapM parseRat?
  let quad ← (csv c).mapM fun t =>
    match t.splitOn ":" with
    | [u, v, x] => do pure ((← u.toNat?), (← v.toNat?), (← parseRat? x))
    | _ => none
  let off ← parseRat? d
  pure { vars, info, lin, quad, off }

def showVT : VT4 → String
  | .binary => "BINARY" | .spin => "SPIN" | .integer => "INTEGER" | .real => "REAL"

def showExpr (m : Cqm) (e : Expr) : String :=
  let vars := String.intercalate "," (e.vars.map fun g => showLabel (m.labels.getD g (.int (-1))))
  let lin := String.intercalate "," (e.qb.lin.map showRat)
  let quad := (List.range e.qb.adj.length).flatMap fun u =>
    ((e.qb.adj.getD u []).filter (fun p => p.1 ≤ u)).map fun p => s!"{u}:{p.1}:{showRat p.2}"
  s!"[{vars}|{lin}|{String.intercalate "," quad}|{showRat e.qb.off}]"

def showState (m : Cqm) : String :=
  let vars := String.intercalate "," ((List.range m.numVars).map fun i =>
    s!"{showLabel (m.labels.getD i (.int (-1)))}:{showVT (m.vt.getD i .binary)}:{showRat (m.lb.getD i 0)}:{showRat (m.ub.getD i 0)}")
  let cons := (m.cons.zip m.clabels).map fun (c, l) =>
    let s := match c.sense with | .le => "<=" | .ge => ">=" | .eq => "=="
    let w := match c.weight with | none => "inf" | some w => showRat w
    s!"{showLabel l}{s}{showRat c.rhs};{w};{c.quadPenalty};{m.isDiscrete c};{showExpr m c.e}"
  s!"{vars} # {showExpr m m.obj} # {String.intercalate " " cons}"

def fin (m : Cqm) (r : Option Cqm) : Cqm × String :=
  match r with
  | some m' => (m', "ok " ++ showState m')
  | none => (m, "err " ++ showState m)

def step (m : Cqm) (line : String) : Cqm × String :=
  let bad := (m, "bad-op")
  match line.trimAscii.toString.splitOn " " with
  | ["new"] => fin m (some {})
  | ["addvar", vt, l, lb, ub] => match vt4? vt, parseLabel? l, parseRat? lb, parseRat? ub with
    | some vt, some l, some lb, some ub =>
      let (m', ok) := m.addVariable vt l lb ub
      if ok then fin m (some m') else fin m none
    | _, _, _, _ => bad
  | ["obj", a, b, c, d] => match parseModel? a b c d with
    | some mi => fin m (m.setObjective mi) | none => bad
  | ["con", lbl, sense, rhs, w, qp, a, b, c, d] =>
    match parseLabel? lbl, parseRat? rhs, parseModel? a b c d with
    | some lbl, some rhs, some mi =>
      let sense := if sense = "<=" then Sense.le else if sense = ">=" then Sense.ge else Sense.eq
      let w := if w = "inf" then none else parseRat? w
      fin m (m.addConstraint mi sense rhs lbl w (qp = "1"))
    | _, _, _ => bad
  | ["rmvar", l] => match parseLabel? l with | some l => fin m (m.removeVariable l) | none => bad
  | ["fix", l, a] => match parseLabel? l, parseRat? a with
    | some l, some a => fin m (m.fixVariable l a) | _, _ => bad
  | ["flip", l] => match parseLabel? l with | some l => fin m (m.flipVariable l) | none => bad
  | ["cvt", vt, l] => match vt4? vt, parseLabel? l with
    | some vt, some l => fin m (m.changeVartype vt l) | _, _ => bad
  | ["rmcon", l] => match parseLabel? l with | some l => fin m (m.removeConstraint l) | none => bad
  | _ => bad

partial def loop (h : IO.FS.Stream) (m : Cqm) : IO Unit := do
  let line ← h.getLine
  if line.isEmpty then return ()
  let (m', out) := step m line
  IO.println out
  loop h m'

def main : IO Unit := do loop (← IO.getStdin) {}
