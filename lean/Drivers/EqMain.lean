import DimodModel.Equality
import DimodModel.Wire
open Wire Eqm

/-! Line-protocol driver for the equality model (property C18).
    `eq A B` | `aeq PLACES A B` | `opeq SAME A B` | `opne SAME A B` | `veq KIND A B` | `vne KIND A B`  →  `T` | `F` | `raise:value` | `raise:attr`
    object ::= `num=<rat>` | `other` | model | `cqm!<types>!<model>!<cons>`
    model  ::= `<kind>|<vars>|<lin>|<quad>|<off>|<types>`, kind = `bqm.SPIN` … | `qm` | `view`,
               quad item `u&v&bias`, types item `label~VT`
    cons   ::= `-` | `label^sense^rhs^model` joined by `%` -/

def vt4? (s : String) : Option VT4 :=
  match s with
  | "BINARY" => some .binary | "SPIN" => some .spin | "INTEGER" => some .integer | "REAL" => some .real
  | _ => none

def sense? (s : String) : Option Sense :=
  match s with
  | "<=" => some .le | ">=" => some .ge | "==" => some .eq | _ => none

def parseTypes? (s : String) : Option (List (Label × VT4)) :=
  (csv s).mapM fun t => match t.splitOn "~" with
    | [l, vt] => do pure ((← parseLabel? l), (← vt4? vt))
    | _ => none

def parseModel? (s : String) : Option QModel :=
  match s.splitOn "|" with
  | [k, vars, lin, quad, off, types] => do
    let kind ← (if k = "qm" then some Kind.qm else if k = "view" then some Kind.view
                else match k.splitOn "." with
                  | ["bqm", vt] => (vt4? vt).map Kind.bqm
                  | _ => none)
    let vars ← (csv vars).mapM parseLabel?
    let lin ← (csv lin).mapM parseRat?
    let quad ← (csv quad).mapM fun t => match t.splitOn "&" with
      | [u, v, x] => do pure ((← parseLabel? u), (← parseLabel? v), (← parseRat? x))
      | _ => none
    pure { kind, vars, lin, quad, off := (← parseRat? off), types := (← parseTypes? types) }
  | _ => none

def parseObj? (s : String) : Option Obj :=
  if s = "other" then some .foreign
  else if s.startsWith "num=" then (parseRat? (s.drop 4).toString).map .num
  else if s.startsWith "cqm!" then
    match s.splitOn "!" with
    | [_, types, obj, cons] => do
      let cons ← (if cons = "-" then some [] else (cons.splitOn "%").mapM fun c =>
        match c.splitOn "^" with
        | [l, sn, rhs, m] => do pure ({ label := (← parseLabel? l), sense := (← sense? sn), rhs := (← parseRat? rhs), lhs := (← parseModel? m) } : CCons)
        | _ => none)
      pure (.cqm { vars := (← parseTypes? types), obj := (← parseModel? obj), cons })
    | _ => none
  else (parseModel? s).map .model

def parseVKind? (s : String) : Option VKind :=
  if s = "linear" then some .linear else if s = "adj" then some .adj else if s = "quadratic" then some .quadratic
  else if s.startsWith "nbh=" then (parseLabel? (s.drop 4).toString).map .nbh
  else none

def showOut : M Bool → String
  | .ok true => "T" | .ok false => "F"
  | .error .value => "raise:value" | .error .attr => "raise:attr"

def step (line : String) : String :=
  match line.trimAscii.toString.splitOn " " with
  | ["eq", a, b] => match parseObj? a, parseObj? b with
    | some a, some b => showOut (isEqual a b) | _, _ => "bad-op"
  | ["aeq", p, a, b] => match p.toInt?, parseObj? a, parseObj? b with
    | some p, some a, some b => showOut (isAlmostEqual p a b) | _, _, _ => "bad-op"
  | ["opeq", s, a, b] => match parseObj? a, parseObj? b with
    | some a, some b => showOut (opEq (s = "1") a b) | _, _ => "bad-op"
  | ["opne", s, a, b] => match parseObj? a, parseObj? b with
    | some a, some b => showOut (opNe (s = "1") a b) | _, _ => "bad-op"
  -- mapping views: `veq <linear|adj|quadratic|nbh=<label>> A B` (A is the receiver of `__eq__`)
  | ["veq", k, a, b] => match parseVKind? k, parseModel? a, parseModel? b with
    | some k, some a, some b => if viewEq k a b then "T" else "F" | _, _, _ => "bad-op"
  | ["vne", k, a, b] => match parseVKind? k, parseModel? a, parseModel? b with
    | some k, some a, some b => if viewNe k a b then "T" else "F" | _, _, _ => "bad-op"
  -- the code before the repairs (for the record; not used by the check)
  | ["eq0", a, b] => match parseObj? a, parseObj? b with
    | some a, some b => showOut (isEqualWith false false false a b) | _, _ => "bad-op"
  | ["aeq0", p, a, b] => match p.toInt?, parseObj? a, parseObj? b with
    | some p, some a, some b => showOut (isAlmostEqualWith false false false false p a b) | _, _, _ => "bad-op"
  | _ => "bad-op"

partial def loop (h : IO.FS.Stream) : IO Unit := do
  let line ← h.getLine
  if line.isEmpty then return ()
  IO.println (step line)
  loop h

def main : IO Unit := do loop (← IO.getStdin)
