import DimodModel.Vars
import DimodModel.Wire
open Wire

/-! Line-protocol driver for the `Variables` model.  Every line is one operation; the answer is
    `<ok|err> <labels>;<sparse index→label entries>;<size of label→index>;<stop> | <ok|err> <spec list>`
    where the second half is the *list specification* run on the same history. -/

def showLabels (l : List Label) : String := String.intercalate "," (l.map showLabel)

def showState (s : VState) : String :=
  let i2l := (List.range s.stop).filterMap fun i => (s.i2l.get? i).map fun l => s!"{i}={showLabel l}"
  s!"{showLabels s.abs};{String.intercalate "," i2l};{s.l2i.length};{s.stop}"

def parseMapping (s : String) : Option (List (Label × Label)) :=
  if s = "-" then some [] else
  (s.splitOn ",").mapM fun kv =>
    match kv.splitOn "=" with
    | [k, v] => do let k ← parseLabel? k; let v ← parseLabel? v; pure (k, v)
    | _ => none

def parseOp (line : String) : Option VState.Op :=
  match line.trimAscii.toString.splitOn " " with
  | ["clear"] => some .clear
  | ["append", l, p] => (parseOptLabel? l).map fun v => .append v (p = "1")
  | ["pop"] => some .pop
  | ["relabel", m] => (parseMapping m).map .relabel
  | ["relabelints"] => some .relabelInts
  | ["remove", l] => (parseLabel? l).map .remove
  | _ => none

def tag (b : Bool) : String := if b then "ok" else "err"

def step (st : VState × List Label) (line : String) : (VState × List Label) × String :=
  match line.trimAscii.toString.splitOn " " with
  | ["index", l] => match parseLabel? l with
    | some v => (st, match st.1.index? v with | some i => s!"ok {i}" | none => "err")
    | none => (st, "bad-op")
  | ["at", i] => match i.toInt? with
    | some i => (st, match st.1.at? i with | some l => s!"ok {showLabel l}" | none => "err")
    | none => (st, "bad-op")
  | _ =>
    match parseOp line with
    | none => (st, "bad-op")
    | some op =>
      let (s', ok) := st.1.step op
      let (l', ok') := LSpec.step st.2 op
      ((s', l'), s!"{tag ok} {showState s'} | {tag ok'} {showLabels l'}")

partial def loop (h : IO.FS.Stream) (st : VState × List Label) : IO Unit := do
  let line ← h.getLine
  if line.isEmpty then return ()
  let (st', out) := step st line
  IO.println out
  loop h st'

def main : IO Unit := do loop (← IO.getStdin) (VState.empty, [])
