import DimodModel.Vars
import DimodModel.VarsMore
import DimodModel.VarsKeys
import DimodModel.VarsObj
import DimodModel.Wire
open Wire

/-! Line-protocol driver for the `Variables` model.  Every line is one operation; the answer is
    `<ok|err> <labels>;<sparse index→label entries>;<size of label→index>;<stop> | <ok|err> <spec list>[ | <exception class>]`
    where the second part is the *list specification* run on the same history and the third (only for a raising
    call) the exception class the model names (from `Generated.VarsRules`).  Reader lines (`index`, `at`,
    `contains`, `iter`, `autolabel`, `eqseq`, `eqset`, `restore`) answer without changing the state. -/

def showLabels (l : List Label) : String := String.intercalate "," (l.map showLabel)

def showState (s : VState) : String :=
  let i2l := (List.range s.stop).filterMap fun i => (s.i2l.get? i).map fun l => s!"{i}={showLabel l}"
  s!"{showLabels s.abs};{String.intercalate "," i2l};{s.l2i.length};{s.stop}"

def parseMapping (s : String) : Option (List (Label × Label)) :=
  if s = "-" then some [] else
  (s.splitOn ",").mapM fun kv =>
    match kv.splitOn "=" with
    | [k, v] => do let k ← parseLabel? k; let v ← parseLabel? v; pure (k, v)
    | _ => none

def parseOp (line : String) : Option VState.Op :=
  match line.trimAscii.toString.splitOn " " with
  | ["clear"] => some .clear
  | ["append", l, p] => (parseOptLabel? l).map fun v => .append v (p = "1")
  | ["pop"] => some .pop
  | ["relabel", m] => (parseMapping m).map .relabel
  | ["relabelints"] => some .relabelInts
  | ["remove", l] => (parseLabel? l).map .remove
  | _ => none

def tag (b : Bool) : String := if b then "ok" else "err"

def parseOptInt (s : String) : Option (Option Int) := if s = "-" then some none else s.toInt?.map some

def parseLabels (s : String) : Option (List Label) := (csv s).mapM parseLabel?

def parseOptLabels (s : String) : Option (List (Option Label)) :=
  (csv s).mapM fun x => if x = "~" then some none else (parseLabel? x).map some

def parseOp2 (line : String) : Option VState.Op2 :=
  match line.trimAscii.toString.splitOn " " with
  | ["extend", p, ls] => (parseOptLabels ls).map fun vs => .extend vs (p = "1")
  | ["copy"] => some .copy
  | ["pickle"] => some .pickle
  | ["slice", a, b, c] => do
      let a ← parseOptInt a; let b ← parseOptInt b; let c ← parseOptInt c
      pure (.slice ⟨a, b, c⟩)
  | _ => (parseOp line).map .base

def showErr : Generated.VarsRules.Err → String
  | .value => "ValueError" | .index => "IndexError" | .type => "TypeError" | .key => "KeyError" | .runtime => "RuntimeError"

/-- Python objects: `I:`int `B:`0|1 `F:`integral float `NI:`numpy int `NF:`numpy float `s:`hex `T:[..+..]` -/
partial def parsePyKeyChars (cs : List Char) : Option PyKey :=
  match cs with
  | 'I' :: ':' :: t => (String.ofList t).toInt?.map PyKey.int
  | 'B' :: ':' :: t => (String.ofList t).toInt?.map fun z => PyKey.bool (z != 0)
  | 'F' :: ':' :: t => (String.ofList t).toInt?.map PyKey.float
  | 'N' :: 'I' :: ':' :: t => (String.ofList t).toInt?.map PyKey.npInt
  | 'N' :: 'F' :: ':' :: t => (String.ofList t).toInt?.map PyKey.npFloat
  | 's' :: ':' :: t => some (PyKey.str (hexString t))
  | 'T' :: ':' :: '[' :: t =>
    match t.reverse with
    | ']' :: r =>
      let inner := r.reverse
      if inner.isEmpty then some (PyKey.tup [])
      else (splitTop inner).mapM parsePyKeyChars |>.map PyKey.tup
    | _ => none
  | _ => none

def parsePyKey? (s : String) : Option PyKey := parsePyKeyChars s.toList

/-- the object-level state after `Variables(objs)` (permissive appends as coded) -/
def kOfList (objs : List PyKey) : KState :=
  objs.foldl (fun k o => if k.count o then k else k.append o) { i2l := [], l2i := [], stop := 0 }

/-- alias lines: `canon o`, `pyeq a b`, `kcount o1,o2,… q` (count / index of `q` in `Variables([o1, o2, …])`
    computed on the object-level model, and the label-level state it abstracts to) -/
def aliasLine (line : String) : Option String :=
  match line.trimAscii.toString.splitOn " " with
  | ["canon", o] => (parsePyKey? o).map fun k => s!"ok {showLabel (PyKey.canon k)}"
  | ["pyeq", a, b] => do
      let a ← parsePyKey? a; let b ← parsePyKey? b
      pure s!"ok {if PyKey.pyEq a b then 1 else 0}"
  | ["kcount", os, q] => do
      let objs ← (csv os).mapM parsePyKey?
      let q ← parsePyKey? q
      let k := kOfList objs
      let c := k.count q
      pure s!"ok {if c then 1 else 0} {if c then toString (k.idxOf q) else "-"} {showState k.toV}"
  | ["khist", ops] => do
      -- object-level history: `+o`/`?o` append (strict / permissive), `+~` auto-append, `p` pop, `c` clear,
      -- `r` relabel-as-integers, `xo` remove, `R:k>v|k>v…` relabel (`R:` alone = empty mapping)
      let parsed ← (csv ops).mapM fun (t : String) =>
        match t.toList with
        | ['p'] => some (KState.KOp2.base .pop)
        | ['c'] => some (KState.KOp2.base .clear)
        | ['r'] => some (KState.KOp2.base .relabelInts)
        | '+' :: '~' :: [] => some (KState.KOp2.base (.append none false))
        | '+' :: r => (parsePyKeyChars r).map fun o => KState.KOp2.base (.append (some o) false)
        | '?' :: r => (parsePyKeyChars r).map fun o => KState.KOp2.base (.append (some o) true)
        | 'x' :: r => (parsePyKeyChars r).map KState.KOp2.remove
        | 'R' :: ':' :: r =>
          if r.isEmpty then some (KState.KOp2.relabel []) else
          ((String.ofList r).splitOn "|").mapM (fun (kv : String) => match kv.splitOn ">" with
            | [a, b] => do let a ← parsePyKey? a; let b ← parsePyKey? b; pure (a, b)
            | _ => none) |>.map KState.KOp2.relabel
        | _ => none
      let (k, flags) := parsed.foldl (fun (acc : KState × List Bool) op => ((acc.1.step2 op).1, acc.2 ++ [(acc.1.step2 op).2]))
        ({ i2l := [], l2i := [], stop := 0 }, [])
      let objs := (List.range k.stop).map fun i => showLabel (PyKey.canon (k.labelAt i))
      pure s!"ok {String.intercalate "" (flags.map fun b => if b then "1" else "0")} {showState k.toV} {String.intercalate "," objs}"
  | _ => none


/-! ### round 7: the whole object-level alphabet (`khist3`) and the inherited mixin methods (`kmix`) -/

/-- an object in protocol form, type kept: `I:`int `B:`bool `F:`float `NI:`/`NF:` NumPy `s:`hex `T:[..+..]` -/
partial def showPyKey : PyKey → String
  | .int z => s!"I:{z}"
  | .bool b => s!"B:{if b then 1 else 0}"
  | .float z => s!"F:{z}"
  | .npInt z => s!"NI:{z}"
  | .npFloat z => s!"NF:{z}"
  | .str s => "s:" ++ toHex s
  | .tup l => "T:[" ++ String.intercalate "+" (l.map showPyKey) ++ "]"

def showObjs (l : List PyKey) : String := String.intercalate "," (l.map showPyKey)

def parseObjList (s : String) (sep : String) : Option (List (Option PyKey)) :=
  if s.isEmpty then some [] else
  (s.splitOn sep).mapM fun x => if x = "~" then some none else (parsePyKey? x).map some

/-- tokens of `khist`, plus `E0:o|o|~` / `E1:…` extend (strict / permissive), `C` copy, `K` pickle, `D` deepcopy,
    `S:a:b:c` slice (`-` = None) -/
def parseKOp3 (t : String) : Option KState.KOp3 :=
  match t.toList with
  | ['p'] => some (.base (.base .pop))
  | ['c'] => some (.base (.base .clear))
  | ['r'] => some (.base (.base .relabelInts))
  | ['C'] => some .copy
  | ['K'] => some .pickle
  | ['D'] => some .deepcopy
  | '+' :: '~' :: [] => some (.base (.base (.append none false)))
  | '+' :: r => (parsePyKeyChars r).map fun o => .base (.base (.append (some o) false))
  | '?' :: r => (parsePyKeyChars r).map fun o => .base (.base (.append (some o) true))
  | 'x' :: r => (parsePyKeyChars r).map fun o => .base (.remove o)
  | 'E' :: p :: ':' :: r => (parseObjList (String.ofList r) "|").map fun vs => .extend vs (p = '1')
  | 'S' :: ':' :: r =>
    match (String.ofList r).splitOn ":" with
    | [a, b, c] => do
        let a ← parseOptInt a; let b ← parseOptInt b; let c ← parseOptInt c
        pure (.slice ⟨a, b, c⟩)
    | _ => none
  | 'R' :: ':' :: r =>
    if r.isEmpty then some (.base (.relabel [])) else
    ((String.ofList r).splitOn "|").mapM (fun (kv : String) => match kv.splitOn ">" with
      | [a, b] => do let a ← parsePyKey? a; let b ← parsePyKey? b; pure (a, b)
      | _ => none) |>.map fun m => .base (.relabel m)
  | _ => none

def runK3 (ops : String) : Option (KState × String) := do
  let parsed ← (if ops = "-" then some [] else (csv ops).mapM parseKOp3)
  let (k, flags) := parsed.foldl (fun (acc : KState × List Bool) op => ((acc.1.step3 op).1, acc.2 ++ [(acc.1.step3 op).2]))
    (KState.empty, [])
  pure (k, String.intercalate "" (flags.map fun b => if b then "1" else "0"))

def b01 (b : Bool) : String := if b then "1" else "0"

def objLine (line : String) : Option String :=
  match line.trimAscii.toString.splitOn " " with
  | ["khist3", ops] => do
      let (k, flags) ← runK3 ops
      pure s!"ok {flags} {showState k.toV} {showObjs k.iterObjs}"
  | ["kmix", ops, o, od] => do
      let (k, _) ← runK3 ops
      let o ← (if o = "-" then some [] else (csv o).mapM parsePyKey?)
      let od ← (if od = "-" then some [] else (csv od).mapM parsePyKey?)
      pure (s!"ok rev={showObjs k.reversedObjs} dj={b01 (k.isdisjoint o)} le={b01 (k.le od)} lt={b01 (k.lt od)} " ++
        s!"ge={b01 (k.ge od)} gt={b01 (k.gt od)} and={showObjs (k.and o).iterObjs} or={showObjs (k.or o).iterObjs} " ++
        s!"sub={showObjs (k.sub o).iterObjs} xor={showObjs (k.xor o).iterObjs} " ++
        s!"eqseq={b01 (k.eqOther (.seq o))} eqset={b01 (k.eqOther (.set od))} " ++
        s!"rsub={showObjs (k.rsub o).iterObjs} ror={showObjs (k.ror o).iterObjs} neseq={b01 (k.neOther (.seq o))}")
  | _ => none

def step (st : VState × List Label) (line : String) : (VState × List Label) × String :=
  match line.trimAscii.toString.splitOn " " with
  | ["index", l] => match parseLabel? l with
    | some v => (st, match st.1.index? v with | some i => s!"ok {i}" | none => s!"err {showErr VState.errIndex}")
    | none => (st, "bad-op")
  | ["at", i] => match i.toInt? with
    | some i => (st, match st.1.at? i with | some l => s!"ok {showLabel l}" | none => s!"err {showErr VState.errAt}")
    | none => (st, "bad-op")
  | ["contains", l] => match parseLabel? l with
    | some v => (st, s!"ok {if st.1.contains v then 1 else 0}")
    | none => (st, "bad-op")
  | ["iter"] => (st, s!"ok {showLabels st.1.iter};{st.1.len}")
  | ["autolabel"] => (st, s!"ok {showLabel st.1.autoLabelG}")
  | ["eqseq", ls] => match parseLabels ls with
    | some o => (st, s!"ok {if st.1.eqOther (.seq o) then 1 else 0}")
    | none => (st, "bad-op")
  | ["eqset", ls] => match parseLabels ls with
    | some o => (st, s!"ok {if st.1.eqOther (.set o) then 1 else 0}")
    | none => (st, "bad-op")
  | ["restore"] =>
    -- m = v._relabel_as_integers(); v._relabel(m): state in between, returned mapping, state after
    let (s1, back) := st.1.relabelAsIntegers
    let m := VState.restoreMap back
    let ms := String.intercalate "," (m.map fun p => s!"{showLabel p.1}={showLabel p.2}")
    match s1.relabel m with
    | some s2 => (st, s!"ok {showState s1} / {ms} / {showState s2}")
    | none => (st, s!"err {showState s1} / {ms}")
  | _ =>
    match aliasLine line with
    | some out => (st, out)
    | none =>
    match objLine line with
    | some out => (st, out)
    | none =>
    match parseOp2 line with
    | none => (st, "bad-op")
    | some op =>
      let (s', ok) := st.1.step2 op
      let (l', ok') := LSpec.step2 st.2 op
      let cls := if ok then "" else " | " ++ showErr (VState.errClass op)
      ((s', l'), s!"{tag ok} {showState s'} | {tag ok'} {showLabels l'}{cls}")

partial def loop (h : IO.FS.Stream) (st : VState × List Label) : IO Unit := do
  let line ← h.getLine
  if line.isEmpty then return ()
  let (st', out) := step st line
  IO.println out
  loop h st'

def main : IO Unit := do loop (← IO.getStdin) (VState.empty, [])
