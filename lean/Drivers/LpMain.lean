import DimodModel.Lp
import DimodModel.LpReader
import DimodModel.Wire
open Wire Lp

/-! Line-protocol driver for the C12 model (`DimodModel/Lp.lean`).

    dump <cqm>      → `ok <hex of the LP text>` | `err soft|label|spin`
    load <hex text> → `ok <canonical cqm>` | `err`
    lpread <hex text> → the C++ reader as coded (`LpCpp.loads`): `ok <canonical cqm>` | `err refused|unmodelled|assertion`
    dbl <rat>       → `roundDouble`: the nearest binary64 as a rational | `inf` | `-inf`
    valid <label>   → `1` | `0`
    wrap <hex>,<hex>,…  → hex of `_WidthLimitedFile` applied to these writes
    cqm  = vars ; objective ; constraint ; constraint …     (fields separated by `;`)
    vars = `label~vt~lb~ub,…` (vt ∈ S B I R)   expression = `lin|quad|off` with lin = `l=b,…`, quad = `u&v=b,…`
    constraint = `label|sense|rhs|soft|lin|quad|off`  (sense ∈ le ge eq; soft ∈ 0 1)
    canonical cqm (answer of `load`) has the same shape. -/

def sepBy (c : String) (s : String) : List String := if s = "" ∨ s = "-" then [] else s.splitOn c

def parseVT : String → Option VT
  | "S" => some .spin | "B" => some .binary | "I" => some .integer | "R" => some .real | _ => none
def showVT : VT → String
  | .spin => "S" | .binary => "B" | .integer => "I" | .real => "R"

def parseLin (s : String) : Option (List (Label × Rat)) :=
  (sepBy "," s).mapM fun kv => match kv.splitOn "=" with
    | [k, v] => do let k ← parseLabel? k; let v ← parseRat? v; pure (k, v)
    | _ => none

def parseQuad (s : String) : Option (List (Label × Label × Rat)) :=
  (sepBy "," s).mapM fun kv => match kv.splitOn "=" with
    | [k, v] => match k.splitOn "&" with
      | [a, b] => do let a ← parseLabel? a; let b ← parseLabel? b; let v ← parseRat? v; pure (a, b, v)
      | _ => none
    | _ => none

def parseExpr3 (l q o : String) : Option LExpr := do
  let l ← parseLin l; let q ← parseQuad q; let o ← parseRat? o; pure ⟨l, q, o⟩

def parseSense : String → Option Sense
  | "le" => some .le | "ge" => some .ge | "eq" => some .eq | _ => none
def showSense : Sense → String
  | .le => "le" | .ge => "ge" | .eq => "eq"

def parseVars (s : String) : Option (List LVar) :=
  (sepBy "," s).mapM fun v => match v.splitOn "~" with
    | [l, k, lo, hi] => do
        let l ← parseLabel? l; let k ← parseVT k; let lo ← parseRat? lo; let hi ← parseRat? hi
        pure ⟨l, k, lo, hi⟩
    | _ => none

def parseCqm (fields : List String) : Option LCqm :=
  match fields with
  | vs :: obj :: cons => do
    let vs ← parseVars vs.trimAscii.toString
    let obj ← match obj.trimAscii.toString.splitOn "|" with | [l, q, o] => parseExpr3 l q o | _ => none
    let cons ← cons.mapM fun c => match c.trimAscii.toString.splitOn "|" with
      | [lb, sn, rhs, soft, l, q, o] => do
          let lb ← parseLabel? lb; let sn ← parseSense sn; let rhs ← parseRat? rhs; let e ← parseExpr3 l q o
          pure (LCon.mk lb e sn rhs (soft = "1"))
      | _ => none
    pure ⟨vs, obj, cons⟩
  | _ => none

def showLin (l : List (Label × Rat)) : String :=
  if l.isEmpty then "-" else String.intercalate "," (l.map fun (v, b) => showLabel v ++ "=" ++ showRat b)
def showQuad (l : List (Label × Label × Rat)) : String :=
  if l.isEmpty then "-" else String.intercalate "," (l.map fun (u, v, b) => showLabel u ++ "&" ++ showLabel v ++ "=" ++ showRat b)
def showExpr (e : LExpr) : String := showLin e.lin ++ "|" ++ showQuad e.quad ++ "|" ++ showRat e.off

def showCqm (m : LCqm) : String :=
  let vs := if m.vars.isEmpty then "-" else
    String.intercalate "," (m.vars.map fun v => showLabel v.name ++ "~" ++ showVT v.vt ++ "~" ++ showRat v.lb ++ "~" ++ showRat v.ub)
  String.intercalate ";" ([vs, showExpr m.obj] ++ m.cons.map fun c =>
    showLabel c.label ++ "|" ++ showSense c.sense ++ "|" ++ showRat c.rhs ++ "|" ++ (if c.soft then "1" else "0") ++ "|" ++ showExpr c.lhs)

def answer (line : String) : String :=
  match line.splitOn " " with
  | "dump" :: rest =>
    match parseCqm ((String.intercalate " " rest).splitOn ";") with
    | some m => match dumps m with
      | .ok t => "ok " ++ toHex t
      | .error .soft => "err soft" | .error .label => "err label" | .error .spin => "err spin"
    | none => "bad"
  | ["load", h] => match loads (hexString h.toList) with
    | some m => "ok " ++ showCqm m
    | none => "err"
  | ["lpread", h] => match LpCpp.loads (hexString h.toList) with
    | .ok m => "ok " ++ showCqm m
    | .error .refused => "err refused" | .error .unmodelled => "err unmodelled" | .error .assertion => "err assertion"
  | ["lpread"] => match LpCpp.loads "" with
    | .ok m => "ok " ++ showCqm m
    | .error .refused => "err refused" | .error .unmodelled => "err unmodelled" | .error .assertion => "err assertion"
  | ["dbl", q] => match parseRat? q with
    | some q => (match LpCpp.roundDouble q with | .fin r => showRat r | .inf b => if b then "-inf" else "inf")
    | none => "bad"
  | ["valid", l] => match parseLabel? l with
    | some l => if validLabel l then "1" else "0"
    | none => "bad"
  | ["wrap", hs] => toHex (joinWrites (wrapWrites 0 ((hs.splitOn ",").map fun h => hexString h.toList)))
  | _ => "bad-line"

partial def loop (h : IO.FS.Stream) : IO Unit := do
  let line ← h.getLine
  if line.isEmpty then return ()
  IO.println (answer line.trimAscii.toString)
  loop h

def main : IO Unit := do loop (← IO.getStdin)
