import DimodModel.Sym
import DimodModel.SymCmp
import DimodModel.Wire
open Wire Sym

/-! Line-protocol driver for the C06 model.  One expression tree per line, prefix notation:
    `V <S|B|I|R> <label> <bias> <lb|-> <ub|->`, `C <q>`, `E <S|B> <offset>` (variable-free BQM), `ADD a b`, `SUB a b`, `MUL a b`, `NEG a`,
    `DIV <q> a`, `POW <n> a`, `IADD a b`, `ISUB a b`, `IMUL a b`, `IDIV <q> a`, `Q0`, `Q1 a`,
    `CMP <LE|GE|EQ|RLE|RGE|REQ> <q> a` (comparison with a number),
    `CMP2 <LE|GE|EQ> a b` (comparison of two arbitrary operands), `CON <LE|GE|EQ> a b` (the constraint a CQM stores for it:
    `ok con <sense> <rhs> qm …`),
    `Q3 a b c`, `VIEWO a` / `VIEWC a` (objective / constraint view), `ADDS a` … (`t op t`).
    Answer: `err <class>` | `ok num <q>` | `ok <bqm:S|bqm:B|qm|view> <vars>;<quad>;<offset>` with
    vars = `label:vt:lb:ub:bias,…` in model order and quad = `i:j:bias,…` (variable positions, i ≤ j,
    sorted). -/

def parseVT : String → Option VT
  | "S" => some .spin | "B" => some .binary | "I" => some .integer | "R" => some .real | _ => none

def parseOptRat (s : String) : Option (Option Rat) :=
  if s = "-" then some none else (parseRat? s).map some

partial def parseExpr : List String → Option (SymExpr × List String)
  | "V" :: k :: l :: b :: lo :: hi :: rest => do
      let k ← parseVT k; let l ← parseLabel? l; let b ← parseRat? b
      let lo ← parseOptRat lo; let hi ← parseOptRat hi
      pure (.var k l b lo hi, rest)
  | "C" :: q :: rest => do let q ← parseRat? q; pure (.const q, rest)
  | "E" :: k :: q :: rest => do let k ← parseVT k; let q ← parseRat? q; pure (.empty k q, rest)
  | "NEG" :: rest => do let (a, r) ← parseExpr rest; pure (.neg a, r)
  | "VIEWO" :: rest => do let (a, r) ← parseExpr rest; pure (.view true a, r)
  | "VIEWC" :: rest => do let (a, r) ← parseExpr rest; pure (.view false a, r)
  | "ADDS" :: rest => do let (a, r) ← parseExpr rest; pure (.addSelf a, r)
  | "SUBS" :: rest => do let (a, r) ← parseExpr rest; pure (.subSelf a, r)
  | "MULS" :: rest => do let (a, r) ← parseExpr rest; pure (.mulSelf a, r)
  | "IADDS" :: rest => do let (a, r) ← parseExpr rest; pure (.iaddSelf a, r)
  | "ISUBS" :: rest => do let (a, r) ← parseExpr rest; pure (.isubSelf a, r)
  | "Q0" :: rest => pure (.qsum0, rest)
  | "Q1" :: rest => do let (a, r) ← parseExpr rest; pure (.qsum1 a, r)
  | "Q3" :: rest => do
      let (a, r) ← parseExpr rest; let (b, r) ← parseExpr r; let (c, r) ← parseExpr r
      pure (.qsum3 a b c, r)
  | "DIV" :: q :: rest => do let q ← parseRat? q; let (a, r) ← parseExpr rest; pure (.div a q, r)
  | "IDIV" :: q :: rest => do let q ← parseRat? q; let (a, r) ← parseExpr rest; pure (.idiv a q, r)
  | "POW" :: n :: rest => do let n ← n.toNat?; let (a, r) ← parseExpr rest; pure (.pow a n, r)
  | op :: rest => do
      let (a, r) ← parseExpr rest; let (b, r) ← parseExpr r
      match op with
      | "ADD" => pure (.add a b, r) | "SUB" => pure (.sub a b, r) | "MUL" => pure (.mul a b, r)
      | "IADD" => pure (.iadd a b, r) | "ISUB" => pure (.isub a b, r) | "IMUL" => pure (.imul a b, r)
      | _ => none
  | [] => none

def showVT : VT → String
  | .spin => "S" | .binary => "B" | .integer => "I" | .real => "R"

def idxOf (vs : List Var) (l : Label) : Nat := (vs.findIdx? (fun v => v.l = l)).getD vs.length

def insTriple (t : Nat × Nat × Rat) : List (Nat × Nat × Rat) → List (Nat × Nat × Rat)
  | [] => [t]
  | h :: r => if t.1 < h.1 ∨ (t.1 = h.1 ∧ t.2.1 ≤ h.2.1) then t :: h :: r else h :: insTriple t r

def showModel (m : Model) : String :=
  let vs := m.vars.map fun v =>
    s!"{showLabel v.l}:{showVT v.info.vt}:{showRat v.info.lb}:{showRat v.info.ub}:{showRat v.bias}"
  let ts := m.quad.map fun t =>
    let i := idxOf m.vars t.u; let j := idxOf m.vars t.v
    (min i j, max i j, t.b)
  let ts := ts.foldr insTriple []
  let qs := ts.map fun t => s!"{t.1}:{t.2.1}:{showRat t.2.2}"
  s!"{String.intercalate "," vs};{String.intercalate "," qs};{showRat m.off}"

def showVal : Val → String
  | .num q => s!"num {showRat q}"
  | .mdl m => (if m.isQM then "qm " else s!"bqm:{showVT m.bvt} ") ++ showModel m
  | .view _ m => "view " ++ showModel m

def showErr : Err → String
  | .type => "type" | .value => "value" | .zerodiv => "zerodiv"

def showSense : Sense → String
  | .le => "le" | .ge => "ge" | .eq => "eq"

def answerCmp (kind q : String) (rest : List String) : String :=
  match parseRat? q, parseExpr rest with
  | some q, some (e, []) =>
    let c : Option SymCmp := match kind with
      | "LE" => some (.le e q) | "GE" => some (.ge e q) | "EQ" => some (.eq e q)
      | "RLE" => some (.rle q e) | "RGE" => some (.rge q e) | "REQ" => some (.req q e) | _ => none
    match c with
    | none => "bad-line"
    | some c => match buildCmp c with
      | .ok (some k) => s!"ok cmp {showSense k.sense} {showRat k.rhs} " ++ showVal (.mdl k.lhs)
      | .ok none => "ok bool"
      | .error er => "err " ++ showErr er
  | _, _ => "bad-line"

def answerCmp2 (con : Bool) (kind : String) (rest : List String) : String :=
  let s : Option Sense := match kind with | "LE" => some .le | "GE" => some .ge | "EQ" => some .eq | _ => none
  match s, parseExpr rest with
  | some s, some (a, r) =>
    match parseExpr r with
    | some (b, []) =>
      match buildCmp2 s a b with
      | .ok (some k) =>
        if con then
          let c := conOfCmp k
          s!"ok con {showSense c.sense} {showRat c.rhs} " ++ showVal (.mdl c.lhs)
        else s!"ok cmp {showSense k.sense} {showRat k.rhs} " ++ showVal (.mdl k.lhs)
      | .ok none => "ok bool"
      | .error er => "err " ++ showErr er
    | _ => "bad-line"
  | _, _ => "bad-line"

def answer (line : String) : String :=
  match (line.trimAscii.toString.splitOn " ").filter (· ≠ "") with
  | "CMP" :: kind :: q :: rest => answerCmp kind q rest
  | "CMP2" :: kind :: rest => answerCmp2 false kind rest
  | "CON" :: kind :: rest => answerCmp2 true kind rest
  | _ =>
  match parseExpr ((line.trimAscii.toString.splitOn " ").filter (· ≠ "")) with
  | some (e, []) =>
    match build e with
    | .ok v => "ok " ++ showVal v
    | .error er => "err " ++ showErr er
  | _ => "bad-line"

partial def loop (h : IO.FS.Stream) : IO Unit := do
  let line ← h.getLine
  if line.isEmpty then return ()
  IO.println (answer line)
  loop h

def main : IO Unit := do loop (← IO.getStdin)
