import DimodModel.Qm
import DimodModel.Wire
open Wire

/-! Line-protocol driver for the QuadraticModel model (C04).
    state ::= labels;vartypes;lower bounds;upper bounds;linear;u:v:bias…;offset   (v ≤ u, index order) -/

namespace QmDriver

def showVT : QVT → String | .spin => "SPIN" | .binary => "BINARY" | .integer => "INTEGER" | .real => "REAL"

def vt? (s : String) : Option QVT :=
  match s with
  | "SPIN" => some .spin | "BINARY" => some .binary | "INTEGER" => some .integer | "REAL" => some .real | _ => none

def showState (m : Qm) : String :=
  let j (l : List String) := String.intercalate "," l
  let q := m.lowerTriples.map fun t => s!"{t.1}:{t.2.1}:{showRat t.2.2}"
  s!"{j (m.labels.map showLabel)};{j (m.vt.map showVT)};{j (m.lb.map showRat)};{j (m.ub.map showRat)};{j (m.lin.map showRat)};{j q};{showRat m.off}"

def optRat? (s : String) : Option (Option Rat) := if s = "-" then some none else (parseRat? s).map some

def parseMapping (s : String) : Option (List (Label × Label)) :=
  (csv s).mapM fun kv =>
    match kv.splitOn "=" with
    | [k, v] => do let k ← parseLabel? k; let v ← parseLabel? v; pure (k, v)
    | _ => none

def parseTriples (s : String) : Option (List (Nat × Nat × Rat)) :=
  (csv s).mapM fun t =>
    match t.splitOn ":" with
    | [u, v, x] => do pure ((← u.toNat?), (← v.toNat?), (← parseRat? x))
    | _ => none

/-- `l~VT~lb~ub,…  linear  triples  offset` -/
def parseModel (m0 : Qm) (vars lin q off : String) : Option Qm := do
  let items ← (csv vars).mapM fun t =>
    match t.splitOn "~" with
    | [l, vt, lb, ub] => do pure ((← parseLabel? l), (← vt? vt), (← parseRat? lb), (← parseRat? ub))
    | _ => none
  let lin ← (csv lin).mapM parseRat?
  let q ← parseTriples q
  let off ← parseRat? off
  if items.length ≠ lin.length then none else
  let m : Qm := { imax := m0.imax, rmax := m0.rmax, labels := items.map (·.1), vt := items.map (·.2.1),
                  lb := items.map (·.2.2.1), ub := items.map (·.2.2.2), lin := lin, adj := items.map fun _ => [], off := off }
  pure (q.foldl (fun acc t => acc.addQ t.1 t.2.1 t.2.2 false) m)

def dflt? (vt lb ub : String) : Option (Option (QVT × Option Rat × Option Rat)) :=
  if vt = "-" then some none else do
    pure (some ((← vt? vt), (← optRat? lb), (← optRat? ub)))

def parseOp (m : Qm) (ws : List String) : Option Qm.Op :=
  match ws with
  | ["av", vt, l, lb, ub] => do pure (.addVariable (← vt? vt) (← parseOptLabel? l) (← optRat? lb) (← optRat? ub))
  | ["al", l, b, vt, lb, ub] => do pure (.addLinear (← parseOptLabel? l) (← parseRat? b) (← dflt? vt lb ub))
  | ["sl", l, b] => do pure (.setLinear (← parseOptLabel? l) (← parseRat? b))
  | ["aq", u, v, b] => do pure (.addQuadratic (← parseOptLabel? u) (← parseOptLabel? v) (← parseRat? b))
  | ["sq", u, v, b] => do pure (.setQuadratic (← parseOptLabel? u) (← parseOptLabel? v) (← parseRat? b))
  | ["ri", u, v] => do pure (.removeInteraction (← parseLabel? u) (← parseLabel? v))
  | ["rv", l] => do pure (.removeVariable (← parseOptLabel? l))
  | ["sc", s] => (parseRat? s).map .scale
  | ["of", s] => (parseRat? s).map .setOffset
  | ["cv", vt, l] => do pure (.changeVartype (← vt? vt) (← parseLabel? l))
  | ["fx", l, a] => do pure (.fixVariable (← parseLabel? l) (← parseRat? a))
  | ["fl", l] => (parseLabel? l).map .flip
  | ["rl", mp] => (parseMapping mp).map .relabel
  | ["rli"] => some .relabelInts
  | ["cl"] => some .clear
  | ["slb", l, x] => do pure (.setLowerBound (← parseLabel? l) (← parseRat? x))
  | ["sub", l, x] => do pure (.setUpperBound (← parseLabel? l) (← parseRat? x))
  | ["stb"] => some .spinToBinary
  | ["up", vars, lin, q, off] => (parseModel m vars lin q off).map .update
  | ["alf", vt, lb, ub, items] => do
    let d ← dflt? vt lb ub
    let l ← (csv items).mapM fun it =>
      match it.splitOn "=" with
      | [l, b] => do pure ((← parseOptLabel? l), (← parseRat? b))
      | _ => none
    pure (.addLinearFrom d l)
  | ["aqf", items] => do
    let l ← (csv items).mapM fun it =>
      match it.splitOn "~" with
      | [u, v, b] => do pure ((← parseOptLabel? u), (← parseOptLabel? v), (← parseRat? b))
      | _ => none
    pure (.addQuadraticFrom l)
  | ["avf", vt, ls] => do pure (.addVariablesFrom (← vt? vt) (← (csv ls).mapM parseOptLabel?) false)
  | ["avf", vt, ls, "!"] => do pure (.addVariablesFrom (← vt? vt) (← (csv ls).mapM parseOptLabel?) true)
  | ["xx"] => some .malformed
  | _ => none

def reply (r : Qm × Option ErrC) : Qm × String :=
  match r.2 with
  | none => (r.1, "ok " ++ showState r.1)
  | some _ => (r.1, "err " ++ showState r.1)

def step (m : Qm) (line : String) : Qm × String :=
  let bad := (m, "bad-op")
  match line.trimAscii.toString.splitOn " " with
  | ["newqm", imax, rmax] => match parseRat? imax, parseRat? rmax with
    | some a, some b => reply (Qm.empty a b, none)
    | _, _ => bad
  | ["load", vars, lin, q, off] => match parseModel m vars lin q off with | some m' => reply (m', none) | none => bad
  | ws => match parseOp m ws with
    | some op => reply (m.step op)
    | none => bad

partial def loop (h : IO.FS.Stream) (m : Qm) : IO Unit := do
  let line ← h.getLine
  if line.isEmpty then return ()
  let (m', out) := step m line
  IO.println out
  loop h m'

end QmDriver

def main : IO Unit := do QmDriver.loop (← IO.getStdin) (Qm.empty 0 0)
