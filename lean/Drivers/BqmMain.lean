import DimodModel.Bqm

def parseLabel? (s : String) : Option Label :=
  if s.startsWith "i:" then (s.drop 2).toString.toInt?.map Label.int
  else if s.startsWith "s:" then some (Label.str (s.drop 2).toString)
  else none

def parseOptLabel? (s : String) : Option (Option Label) :=
  if s = "-" then some none else (parseLabel? s).map some

def parseRat? (s : String) : Option Rat :=
  match s.splitOn "/" with
  | [p] => p.toInt?.map (fun z => (z : Rat))
  | [p, q] => match p.toInt?, q.toNat? with
    | some z, some d => if d = 0 then none else some ((z : Rat) / (d : Rat))
    | _, _ => none
  | _ => none

def showRat (r : Rat) : String := if r.den = 1 then s!"{r.num}" else s!"{r.num}/{r.den}"

def showLabel : Label → String
  | .int z => s!"i:{z}"
  | .str s => s!"s:{s}"
  | .tup _ => "t:?"

def showState (m : Bqm) : String :=
  let vt := match m.vt with | .spin => "SPIN" | .binary => "BINARY"
  let labels := String.intercalate "," (m.labels.map showLabel)
  let lin := String.intercalate "," (m.lin.map showRat)
  let quad := (List.range m.adj.length).flatMap fun u =>
    ((m.adj.getD u []).filter (fun p => p.1 < u)).map fun p => s!"{u}:{p.1}:{showRat p.2}"
  s!"{vt};{labels};{lin};{String.intercalate "," quad};{showRat m.off}"

def vtOf? (s : String) : Option VT := if s = "SPIN" then some .spin else if s = "BINARY" then some .binary else none

def reply (r : Bqm × Option ErrC) : Bqm × String :=
  match r.2 with
  | none => (r.1, "ok " ++ showState r.1)
  | some _ => (r.1, "err " ++ showState r.1)

def step (m : Bqm) (line : String) : Bqm × String :=
  let bad := (m, "bad-op")
  match line.trimAscii.toString.splitOn " " with
  | ["new", vt] => match vtOf? vt with | some v => reply (Bqm.empty v, none) | none => bad
  | ["al", l, b] => match parseLabel? l, parseRat? b with
    | some l, some b => reply (m.addLinear l b, none) | _, _ => bad
  | ["sl", l, b] => match parseLabel? l, parseRat? b with
    | some l, some b => reply (m.setLinear l b, none) | _, _ => bad
  | ["aq", u, v, b] => match parseLabel? u, parseLabel? v, parseRat? b with
    | some u, some v, some b => reply (m.quadOp u v b false) | _, _, _ => bad
  | ["sq", u, v, b] => match parseLabel? u, parseLabel? v, parseRat? b with
    | some u, some v, some b => reply (m.quadOp u v b true) | _, _, _ => bad
  | ["ri", u, v] => match parseLabel? u, parseLabel? v with
    | some u, some v => reply (m.removeInteraction u v) | _, _ => bad
  | ["rv", l] => match parseOptLabel? l with
    | some l => reply (m.removeVariable l) | none => bad
  | ["av", l, b] => match parseOptLabel? l, parseRat? b with
    | some l, some b => reply (m.addVariable l b, none) | _, _ => bad
  | ["rs", k] => match k.toInt? with | some k => reply (m.resize k) | none => bad
  | ["sc", s] => match parseRat? s with | some s => reply (m.scale s, none) | none => bad
  | ["of", s] => match parseRat? s with | some s => reply ({ m with off := s }, none) | none => bad
  | ["cv", vt] => match vtOf? vt with | some v => reply (m.changeVartype v, none) | none => bad
  | ["fx", l, a] => match parseLabel? l, parseRat? a with
    | some l, some a => reply (m.fixVariable l a) | _, _ => bad
  | ["en", xs] =>
    let vals := (xs.splitOn ",").filterMap parseRat?
    (m, "ok " ++ showRat (m.energy vals))
  | _ => bad

partial def loop (h : IO.FS.Stream) (m : Bqm) : IO Unit := do
  let line ← h.getLine
  if line.isEmpty then return ()
  let (m', out) := step m line
  IO.println out
  loop h m'

def main : IO Unit := do loop (← IO.getStdin) (Bqm.empty .spin)
