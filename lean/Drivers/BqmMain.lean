import DimodModel.Bqm
import DimodModel.PyBqm
import DimodModel.BqmScaleIgn
import DimodModel.BqmDense
import DimodModel.Wire
open Wire

/-! Line-protocol driver for the BQM model (C04 / C20).
    line   ::= "new" VT | via op args…           via ::= "d" | "vs" | "vb"  (direct, through a SPIN view, through a BINARY view)
    answer ::= ("ok"|"err") " " state            state ::= VT;labels;linear;u:v:bias…;offset   (lower triangle, index order)
    "read" via  → the reads of that view as coded: linear;u:v:bias…;offset
    "rd"        → all readers of the model (see `showReaders`)
    via "sci" scalar IV II IO  → `scale(scalar, ignored_variables, ignored_interactions, ignore_offset)` (`Bqm.vScaleIgnoring`)
    via "nz" lmin lmax qmin qmax IV II IO → `normalize(...)` with the parsed ranges (`Bqm.vNormalize`)
    "d" "aqdc" k dense → `add_quadratic_from_dense` as coded, with its `is_linear()` fast path (`Bqm.addQuadraticFromDenseCoded`)
        IV ::= "N" (None) | "-" (empty) | label,…     II ::= "N" | "-" | label~label,…     IO ::= "0" | "1"
    dict back-end (`PyB`, a second state): "pnew" VT | "pload" VT offset rows | "p" op args…   (data-level primitives only)
    answer ::= ("ok"|"err") " " VT;offset;label>key=bias&key=bias…;…   (dict order) | "unsupported" -/

namespace BqmDriver

def showVT : VT → String | .spin => "SPIN" | .binary => "BINARY"

def showTriples (ts : List (Nat × Nat × Rat)) : String :=
  String.intercalate "," (ts.map fun t => s!"{t.1}:{t.2.1}:{showRat t.2.2}")

def showState (m : Bqm) : String :=
  let labels := String.intercalate "," (m.labels.map showLabel)
  let lin := String.intercalate "," (m.lin.map showRat)
  s!"{showVT m.vt};{labels};{lin};{showTriples m.lowerTriples};{showRat m.off}"

def showRead (m : Bqm) (tv : VT) : String :=
  let lin := String.intercalate "," ((List.range m.lin.length).map fun i => showRat (m.vGetLinear tv i))
  let q := m.lowerTriples.map fun t => (t.1, t.2.1, m.vQuadFactor tv * t.2.2)
  s!"{showVT tv};{lin};{showTriples q};{showRat (m.vOffset tv)}"

/-- every reader of the model (`Bqm.getLinear`, `getQuadratic`, `iterNeighborhood`, `iterQuadratic`, `iterLinear`, `degree`,
    `shape`/`numInteractions`, `isLinear`, `toNumpyVectors`) as text -/
def showReaders (m : Bqm) : String :=
  let ls := m.labels
  let opt (o : Option Rat) : String := match o with | some x => showRat x | none => "-"
  let shape := s!"{m.shape.1},{m.shape.2}"
  let degs := String.intercalate "," (ls.map fun l => match m.degree l with | some d => toString d | none => "x")
  let lin := String.intercalate "," (m.iterLinear.map fun p => showLabel p.1 ++ "=" ++ showRat p.2)
  let getl := String.intercalate "," (ls.map fun l => opt (m.getLinear l))
  let quad := String.intercalate "," (m.iterQuadratic.map fun t => showLabel t.1 ++ "~" ++ showLabel t.2.1 ++ "~" ++ showRat t.2.2)
  let nbh := String.intercalate ";" (ls.map fun l =>
    match m.iterNeighborhood l with
    | some items => String.intercalate "&" (items.map fun p => showLabel p.1 ++ "=" ++ showRat p.2)
    | none => "x")
  let getq := String.intercalate "," (ls.flatMap fun a => ls.map fun b => opt (m.getQuadratic a b))
  let nv := m.toNumpyVectors
  let vec := String.intercalate "," (nv.1.map showRat) ++ ";" ++ showTriples nv.2.1 ++ ";" ++ showRat nv.2.2
  String.intercalate "|" [shape, if m.isLinear then "T" else "F", degs, lin, getl, quad, nbh, getq, vec]

def vtOf? (s : String) : Option VT := if s = "SPIN" then some .spin else if s = "BINARY" then some .binary else none

def via? (s : String) : Option Bqm.Via :=
  match s with
  | "d" => some .direct | "vs" => some (.view .spin) | "vb" => some (.view .binary) | _ => none

def parseMapping (s : String) : Option (List (Label × Label)) :=
  (csv s).mapM fun kv =>
    match kv.splitOn "=" with
    | [k, v] => do let k ← parseLabel? k; let v ← parseLabel? v; pure (k, v)
    | _ => none

def parseTriples (s : String) : Option (List (Nat × Nat × Rat)) :=
  (csv s).mapM fun t =>
    match t.splitOn ":" with
    | [u, v, x] => do pure ((← u.toNat?), (← v.toNat?), (← parseRat? x))
    | _ => none

/-- a model literal `VT labels linear triples offset`, built through the model's own adders -/
def parseModel (vt ls lin q off : String) : Option Bqm := do
  let vt ← vtOf? vt
  let ls ← (csv ls).mapM parseLabel?
  let lin ← (csv lin).mapM parseRat?
  let q ← parseTriples q
  let off ← parseRat? off
  if ls.length ≠ lin.length then none else
  let m : Bqm := { vt, labels := ls, lin := lin, adj := ls.map fun _ => [], off := off }
  pure (q.foldl (fun acc t => acc.addQ t.1 t.2.1 t.2.2) m)

def parseOp (ws : List String) : Option Bqm.Op :=
  match ws with
  | ["al", l, b] => do pure (.addLinear (← parseOptLabel? l) (← parseRat? b))
  | ["sl", l, b] => do pure (.setLinear (← parseOptLabel? l) (← parseRat? b))
  | ["aq", u, v, b] => do pure (.addQuadratic (← parseOptLabel? u) (← parseOptLabel? v) (← parseRat? b))
  | ["sq", u, v, b] => do pure (.setQuadratic (← parseOptLabel? u) (← parseOptLabel? v) (← parseRat? b))
  | ["ri", u, v] => do pure (.removeInteraction (← parseLabel? u) (← parseLabel? v))
  | ["rv", l] => do pure (.removeVariable (← parseOptLabel? l))
  | ["av", l, b] => do pure (.addVariable (← parseOptLabel? l) (← parseRat? b))
  | ["rs", k] => k.toInt?.map .resize
  | ["sc", s] => (parseRat? s).map .scale
  | ["of", s] => (parseRat? s).map .setOffset
  | ["cv", vt] => (vtOf? vt).map .changeVartype
  | ["fx", l, a] => do pure (.fixVariable (← parseLabel? l) (← parseRat? a))
  | ["ct", u, v] => do pure (.contract (← parseLabel? u) (← parseLabel? v))
  | ["fl", l] => (parseLabel? l).map .flip
  | ["rl", mp] => (parseMapping mp).map .relabel
  | ["rli"] => some .relabelInts
  | ["cl"] => some .clear
  | ["up", vt, ls, lin, q, off] => (parseModel vt ls lin q off).map .update
  | ["alf", items] => do
    let l ← (csv items).mapM fun it =>
      match it.splitOn "=" with
      | [l, b] => do pure ((← parseOptLabel? l), (← parseRat? b))
      | _ => none
    pure (.addLinearFrom l)
  | ["aqf", items] => do
    let l ← (csv items).mapM fun it =>
      match it.splitOn "~" with
      | [u, v, b] => do pure ((← parseOptLabel? u), (← parseOptLabel? v), (← parseRat? b))
      | _ => none
    pure (.addQuadraticFrom l)
  | ["ala", xs] => ((csv xs).mapM parseRat?).map .addLinearFromArray
  | ["aqd", k, xs] => do pure (.addQuadraticFromDense (← k.toNat?) (← (csv xs).mapM parseRat?))
  | ["xx"] => some .malformed
  | _ => none

def showP (p : PyB) : String :=
  let rows := String.intercalate ";" (p.adj.map fun r =>
    showLabel r.1 ++ ">" ++ String.intercalate "&" (r.2.map fun e => showLabel e.1 ++ "=" ++ showRat e.2))
  s!"{showVT p.vt};{showRat p.off};{rows}"

def parseRows (s : String) : Option (List (Label × List (Label × Rat))) :=
  if s = "-" then some [] else
  (s.splitOn ";").mapM fun r =>
    match r.splitOn ">" with
    | [l, es] => do
      let l ← parseLabel? l
      let es ← (if es = "" then some [] else (es.splitOn "&").mapM fun e =>
        match e.splitOn "=" with
        | [k, x] => do pure ((← parseLabel? k), (← parseRat? x))
        | _ => none)
      pure (l, es)
    | _ => none

def stepP (p : PyB) (ws : List String) : PyB × String :=
  match ws with
  | ["pnew", vt] => match vtOf? vt with | some v => (PyB.empty v, "ok " ++ showP (PyB.empty v)) | none => (p, "bad-op")
  | ["pload", vt, off, rows] =>
    match vtOf? vt, parseRat? off, parseRows rows with
    | some v, some o, some r => let q : PyB := { vt := v, adj := r, off := o }; (q, "ok " ++ showP q)
    | _, _, _ => (p, "bad-op")
  | "p" :: rest =>
    match parseOp rest with
    | some op =>
      match p.step op with
      | some (q, none) => (q, "ok " ++ showP q)
      | some (q, some _) => (q, "err " ++ showP q)
      | none => (p, "unsupported")
    | none => (p, "bad-op")
  | _ => (p, "bad-op")

def parseIgnVars (s : String) : Option (Option (List Label)) :=
  if s = "N" then some none else ((csv s).mapM parseLabel?).map some

def parseIgnPairs (s : String) : Option (Option (List (Label × Label))) :=
  if s = "N" then some none else
  ((csv s).mapM fun (it : String) =>
    match it.splitOn "~" with
    | [u, v] => do pure ((← parseLabel? u), (← parseLabel? v))
    | _ => none).map some

def reply (r : Bqm × Option ErrC) : Bqm × String :=
  match r.2 with
  | none => (r.1, "ok " ++ showState r.1)
  | some _ => (r.1, "err " ++ showState r.1)

def step (m : Bqm) (line : String) : Bqm × String :=
  let bad := (m, "bad-op")
  match line.trimAscii.toString.splitOn " " with
  | ["new", vt] => match vtOf? vt with | some v => reply (Bqm.empty v, none) | none => bad
  | ["load", vt, ls, lin, q, off] => match parseModel vt ls lin q off with | some m' => reply (m', none) | none => bad
  | ["read", v] => match via? v with | some via => (m, "ok " ++ showRead m (via.tv m)) | none => bad
  | ["rd"] => (m, "ok " ++ showReaders m)
  | ["en", xs] =>
    let vals := (xs.splitOn ",").filterMap parseRat?
    (m, "ok " ++ showRat (m.energy vals))
  | [v, "sci", sc, iv, ii, io] =>
    match via? v, parseRat? sc, parseIgnVars iv, parseIgnPairs ii with
    | some via, some sc, some iv, some ii => reply (m.vScaleIgnoring (via.tv m) via.isView sc iv ii (io == "1"), none)
    | _, _, _, _ => bad
  | [v, "nz", l0, l1, q0, q1, iv, ii, io] =>
    match via? v, parseRat? l0, parseRat? l1, parseRat? q0, parseRat? q1, parseIgnVars iv, parseIgnPairs ii with
    | some via, some l0, some l1, some q0, some q1, some iv, some ii =>
      let r := m.vNormalize (via.tv m) via.isView (l0, l1) (q0, q1) iv ii (io == "1")
      reply (r.1.1, r.2)
    | _, _, _, _, _, _, _ => bad
  | ["d", "aqdc", k, xs] =>
    -- `add_quadratic_from_dense` with the branch on `is_linear()` as coded (`Bqm.addQuadraticFromDenseCoded`)
    match k.toNat?, (csv xs).mapM parseRat? with
    | some k, some d => reply (m.addQuadraticFromDenseCoded k d)
    | _, _ => bad
  | v :: rest =>
    match via? v, parseOp rest with
    | some via, some op => reply (m.step via op)
    | _, _ => bad
  | _ => bad

partial def loop (h : IO.FS.Stream) (m : Bqm) (p : PyB) : IO Unit := do
  let line ← h.getLine
  if line.isEmpty then return ()
  let ws := line.trimAscii.toString.splitOn " "
  match ws with
  | w :: _ =>
    if w = "pnew" || w = "pload" || w = "p" then
      let (p', out) := stepP p ws
      IO.println out
      loop h m p'
    else
      let (m', out) := step m line
      IO.println out
      loop h m' p
  | [] =>
    IO.println "bad-op"
    loop h m p

end BqmDriver

def main : IO Unit := do BqmDriver.loop (← IO.getStdin) (Bqm.empty .spin) (PyB.empty .spin)
