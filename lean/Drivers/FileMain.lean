import DimodModel.JsonValue
import DimodModel.DqmFile
import DimodModel.CqmLegacy
import DimodModel.HeaderDicts
import DimodModel.JsonObject
import DimodModel.ZipEnd
import DimodModel.CountDicts
import DimodModel.ZipBytes
import DimodModel.Npy

/-! Line-protocol driver of the file-format models (C09 / C10).  One operation per line:

    mkhdr   <prefixHex> <maj> <min> <textHex>                      -> hex
    section <magicHex> <nlb> <dataHex>                             -> hex
    rdhdr   <prefixHex> <textHex> <bytesHex>                       -> ok <v0,v1> rest=<n> | err c
    rdsect  <magicHex> <nlb> <bytesHex>                            -> ok <dataHex> rest=<n> | err c
    encbqm  <maj> <hdrText> <H> <off> <lin> <low> <varsText>       -> hex
    decbqm  <mode> <hdrText> <H> <varsText> <nlabels> <bytes>      -> canonical | classes
    encqm   <hdrText> <H> <vi> <off> <lin> <low> <varsText>        -> hex
    decqm   <mode> <hdrText> <H> <varsText> <nlabels> <bytes>      -> canonical | classes
    encexpr <hdrText> <isz> <expr>                                 -> hex
    decexpr <mode> <hdrText> <H> <bytes>                           -> canonical | classes
    raw     <which> <guard> <a> <b> <n> <buffHex>                  -> ok <k> | err c | ub
    labeltext <fixed> <label>                                      -> hex of the JSON text
    roundlabel <label>                                             -> label (serialize, deserialize)
    matchpath <hex>                                                -> hex | -
    loadsstr  <hex of a JSON string literal>                       -> hex of the string | none
    loadsj    <hex of a JSON text>                                 -> value (i: f: s: a:[..]) | none
    enccqm  <isz> <vi> <labelsText> <objHdrText> <objExpr> <constraints>   -> members
    deccqm  <dsz> <counts> <oracle> <dirs> <members>               -> canonical
    declegacy <ver> <counts> <oracle> <varsOracle> <dirs> <members> -> loaded members + attributes (legacy 1.x CQM)
    deccqmhdr <hdrText> <bytes>                                    -> classes (header exact, archive by contract)
    encdqm  <hdrText> <labelled> <npz> <varsText>                  -> hex
    hdrbqm <ver> <ign> <vartype> <dsz> <isz> <lin> <low> <labels>  -> header dictionary as values; also hdrqm, hdrexpr, hdrdqm
    hdrtextbqm / hdrtextqm / hdrtextexpr (same arguments as hdr*)  -> hex of the header JSON text the model writes
    parsehdr <bqm|qm|expr> <textHex>                               -> header fields as the loader reads them | none
    encdqmm <starts|lin|low|off>                                   -> npz members + header counts
    decdqmm <members>                                              -> content | err
    decdqm  <mode> <hdrText> <labelled> <varsText> <nlabels> <npzlen> <nvars> <bytes> -> canonical | classes

    eocd <bytes>                                                   -> none | <location>,<size_cd>,<offset_cd>,<entries>  (zipfile._EndRecData)
    eocdall <bytes>                                                -> `j:location` for every prefix length j at which a record is found | -
    dqmz <hdrText> <labelled> <varsText> <nlabels> <bytes>         -> ok labels=… | err c   (dqmLoad, np.load's view as in the source under test)
    hdrtextcqm <7 counts>  /  hdrtextdqm <4 counts> <T|F>          -> hex of the header JSON text the model writes
    parsecnt <cqm|dqm> <textHex>                                   -> the counts / the flag as the loader reads them | none

    zipwrite <base> <entries>                                      -> hex of the archive bytes (local entries, central directory, end record)
    zipread <bytes> <inflate oracle>                               -> none | members   (zipOpen over the byte-level directory/member reader, real CRC-32)
    zipreadall <bytes> <inflate oracle>                            -> prefix lengths at which the archive opens | -
    ziptiledall <start> <bytes> <inflate oracle>                   -> prefix lengths at which the tiled opener (_open_archive + all members) succeeds | -
    ziplocalok <entries>                                           -> per entry 1 | 0: does the local header record the size of the stored bytes (side condition `ZEntry.LocalOK`)
    ziptiledstrictall <start> <bytes> <inflate oracle>             -> the same for the round-8 opener (local headers must agree with the directory)
    npyhdr <descr> <shape>                                         -> hex of the .npy header (magic, version, length, padded dictionary)
    npyparse <bytes>                                               -> none | descr:shape:dataHex
    npyparseall <bytes>                                            -> prefix lengths at which the member parses, as first..last ranges | -

  `mode` = full (decode the bytes) | all (outcome class of every prefix, then the prefixes on which
  the *unguarded* raw loaders would read out of bounds).  Hex of the empty string is `-`. -/

open FileFmt

def hexVal (c : Char) : Nat :=
  if c.isDigit then c.toNat - '0'.toNat else c.toNat - 'a'.toNat + 10

/-- tail recursive: members of large DQM files are megabytes of hex -/
def hexBytesAcc : List Char → Bytes → Bytes
  | a :: b :: t, acc => hexBytesAcc t ((UInt8.ofNat (hexVal a * 16 + hexVal b)) :: acc)
  | _, acc => acc.reverse

def hexBytes (cs : List Char) : Bytes := hexBytesAcc cs []

def unhex (s : String) : Bytes := if s = "-" then [] else hexBytes s.toList

def hexD (n : Nat) : Char := if n < 10 then Char.ofNat (48 + n) else Char.ofNat (87 + n)

def toHex (b : Bytes) : String :=
  if b.isEmpty then "-" else String.ofList (b.flatMap fun x => [hexD (x.toNat / 16), hexD (x.toNat % 16)])

def charsToHex (cs : List Char) : String := toHex (String.ofList cs).toUTF8.toList

def hexToChars (s : String) : List Char :=
  match String.fromUTF8? (ByteArray.mk (unhex s).toArray) with
  | some t => t.toList
  | none => ['?']

def splitList (s : String) (sep : String) : List String := if s = "-" then [] else s.splitOn sep

/-- H = nvars,ninter,dsize,isize,nsize,vartype,vars   (vars: T | F | L<k>) -/
def parseH (s : String) : QHeader Nat :=
  match s.splitOn "," with
  | [a, b, c, d, e, f, g] =>
    let vars : VarsField Nat :=
      if g = "T" then .flag true else if g = "F" then .flag false
      else .labels (List.range (g.drop 1).toString.toNat!)
    { nvars := a.toNat!, ninter := b.toNat!, dsize := c.toNat!, isize := d.toNat!, nsize := e.toNat!,
      vartype := f.toNat!, vars := vars }
  | _ => { nvars := 0, ninter := 0, dsize := 8, isize := 4, nsize := 4, vartype := 0, vars := .flag false }

/-- rows `r<idx>:<hex>,<idx>:<hex>` joined by ';' -/
def parseRow (s : String) : List (Nat × Bytes) :=
  let body := (s.drop 1).toString
  if body.isEmpty then [] else
  body.splitOn "," |>.map fun e => match e.splitOn ":" with
    | [i, h] => (i.toNat!, unhex h)
    | _ => (0, [])

def parseLower (s : String) : List (List (Nat × Bytes)) := (splitList s ";").map parseRow

def showRow (r : List (Nat × Bytes)) : String :=
  "r" ++ String.intercalate "," (r.map fun p => s!"{p.1}:{toHex p.2}")

def showLower (l : List (List (Nat × Bytes))) : String :=
  if l.isEmpty then "-" else String.intercalate ";" (l.map showRow)

def showBytesList (l : List Bytes) : String := if l.isEmpty then "-" else String.intercalate "," (l.map toHex)

def parseBytesList (s : String) : List Bytes := (splitList s ",").map unhex

def parseVarInfo (s : String) : VarInfo :=
  (splitList s ",").map fun e => match e.splitOn ":" with
    | [t, l, u] => (UInt8.ofNat t.toNat!, unhex l, unhex u)
    | _ => (0, [], [])

def showVarInfo (v : VarInfo) : String :=
  if v.isEmpty then "-" else String.intercalate "," (v.map fun t => s!"{t.1.toNat}:{toHex t.2.1}:{toHex t.2.2}")

def showContent (c : QContent) : String :=
  s!"off={toHex c.offset} lin={showBytesList c.linear} low={showLower c.lower}"

def showLabels : Option (List Nat) → String
  | none => "none"
  | some l => toString l.length

def errStr {α : Type} (r : Res α) (okf : α → String) : String :=
  match r with
  | .ok a => "ok " ++ okf a
  | .err e => "err " ++ e.name
  | .ub => "ub"

/-- outcome class of a prefix relative to the full decode: `=` same value, `!` different value -/
def classOf {α β : Type} [DecidableEq β] (key : α → β) (full : Res (α × Bytes)) (r : Res (α × Bytes)) : String :=
  match r with
  | .err e => "e:" ++ e.name
  | .ub => "ub"
  | .ok (d, _) => match full with
    | .ok (d0, _) => if key d = key d0 then "=" else "!"
    | _ => "?"

def allPrefixes {α β : Type} [DecidableEq β] (key : α → β) (p pUnguarded : Prog α) (bytes : Bytes) : String :=
  let full := p.run bytes
  let ks := List.range (bytes.length + 1)
  let cls := ks.map fun k => classOf key full (p.run (bytes.take k))
  let ubs := ks.filter fun k => (pUnguarded.run (bytes.take k)).isUb
  String.intercalate ";" cls ++ " U:" ++ (if ubs.isEmpty then "-" else String.intercalate "," (ubs.map toString))

/-! labels -/

def splitTop (cs : List Char) : List (List Char) :=
  let rec go (cs : List Char) (depth : Nat) (cur : List Char) (acc : List (List Char)) : List (List Char) :=
    match cs with
    | [] => (cur.reverse :: acc).reverse
    | c :: t =>
      if c = '[' then go t (depth + 1) (c :: cur) acc
      else if c = ']' then go t (depth - 1) (c :: cur) acc
      else if c = '+' && depth = 0 then go t depth [] (cur.reverse :: acc)
      else go t depth (c :: cur) acc
  go cs 0 [] []

instance : Inhabited FLabel := ⟨.int 0⟩

partial def parseFLabel (cs : List Char) : FLabel :=
  match cs with
  | 'i' :: ':' :: t => .int ((String.ofList t).toInt?.getD 0)
  | 'f' :: ':' :: t => .flt (String.ofList (hexToChars (String.ofList t)))
  | 's' :: ':' :: t => .str (String.ofList (hexToChars (String.ofList t)))
  | 't' :: ':' :: '[' :: t =>
    let inner := t.dropLast
    if inner.isEmpty then .tup [] else .tup ((splitTop inner).map parseFLabel)
  | _ => .str "?"

partial def showFLabel : FLabel → String
  | .int z => s!"i:{z}"
  | .flt r => "f:" ++ charsToHex r.toList
  | .str s => "s:" ++ charsToHex s.toList
  | .tup l => "t:[" ++ String.intercalate "+" (l.map showFLabel) ++ "]"

partial def showJVal : JVal → String
  | .int z => s!"i:{z}"
  | .flt r => "f:" ++ charsToHex r.toList
  | .str s => "s:" ++ charsToHex s.toList
  | .arr l => "a:[" ++ String.intercalate "+" (l.map showJVal) ++ "]"

/-! expressions -/

/-- expr = idx|off|lin|quad with idx = n,n  lin = hex,hex  quad = u:v:hex,... -/
def parseExpr (s : String) : ExprContent :=
  match s.splitOn "|" with
  | [i, o, l, q] =>
    { indices := (splitList i ",").map String.toNat!, offset := unhex o, linear := parseBytesList l,
      quad := (splitList q ",").map fun e => match e.splitOn ":" with
        | [u, v, h] => (u.toNat!, v.toNat!, unhex h)
        | _ => (0, 0, []) }
  | _ => { indices := [], offset := [], linear := [], quad := [] }

def showNats (l : List Nat) : String := if l.isEmpty then "-" else String.intercalate "," (l.map toString)

def showExpr (e : ExprContent) : String :=
  showNats e.indices ++ "|" ++ toHex e.offset ++ "|" ++ showBytesList e.linear ++ "|" ++
  (if e.quad.isEmpty then "-" else String.intercalate "," (e.quad.map fun t => s!"{t.1}:{t.2.1}:{toHex t.2.2}"))

/-- the JSON oracle over a table of known texts -/
def oracleTable {α : Type} (tbl : List (Bytes × α)) (b : Bytes) : Option α :=
  match tbl.find? (fun e => (oracleParse e.1 () b).isSome) with
  | some e => some e.2
  | none => none

def parseOracle (s : String) : List (Bytes × QHeader Nat) :=
  (splitList s ";").map fun e => match e.splitOn "=" with
    | [t, h] => (unhex t, parseH h)
    | _ => ([], parseH "")

def parseConstraint (s : String) : CqmConstraint × FLabel :=
  match s.splitOn "~" with
  | [lab, ht, ex, rhs, sense, disc, soft] =>
    let l := parseFLabel lab.toList
    ({ lstr := labelText true l, lhsHdrText := unhex ht, lhs := parseExpr ex, rhs := unhex rhs, sense := unhex sense,
       discrete := disc = "1",
       soft := if soft = "-" then none else match soft.splitOn ":" with
         | [w, p] => some (unhex w, unhex p)
         | _ => none }, l)
  | _ => ({ lstr := [], lhsHdrText := [], lhs := parseExpr "", rhs := [], sense := [], discrete := false, soft := none }, .int 0)

def showMembers (a : Archive) : String :=
  if a.isEmpty then "-" else String.intercalate "," (a.map fun m => charsToHex m.1 ++ "=" ++ toHex m.2)

def parseMembers (s : String) : Archive :=
  (splitList s ",").map fun e => match e.splitOn "=" with
    | [n, d] => (hexToChars n, unhex d)
    | _ => ([], [])

def showConstraint (c : CqmConstraint) : String :=
  charsToHex c.lstr ++ "~" ++ showExpr c.lhs ++ "~" ++ toHex c.rhs ++ "~" ++ toHex c.sense ++ "~" ++
  (if c.discrete then "1" else "0") ++ "~" ++
  (match c.soft with | some (w, p) => toHex w ++ ":" ++ toHex p | none => "-")

def showCqm (m : CqmContent) : String :=
  "vi=" ++ showVarInfo m.varinfo ++ " labels=" ++ (match m.labelsText with | some t => toHex t | none => "none") ++
  " obj=" ++ showExpr m.objective ++ " cons=" ++
  (if m.constraints.isEmpty then "-" else String.intercalate "^" (m.constraints.map showConstraint))

def parseCounts (s : String) : CqmCounts :=
  match (s.splitOn ",").map String.toNat! with
  | [a, b, c, d, e, f, g] => { numVariables := a, numConstraints := b, numBiases := c, numQuadVars := d,
                                numQuadVarsReal := e, numLinearReal := f, numWeighted := g }
  | _ => { numVariables := 0, numConstraints := 0, numBiases := 0, numQuadVars := 0, numQuadVarsReal := 0,
           numLinearReal := 0, numWeighted := 0 }

/-! DQM member lists:  name:descr:shape:hex ; …   (shape: `-` scalar, else dims joined by `.`) -/

def showMember (m : NpyMember) : String :=
  String.ofList m.name ++ ":" ++ String.ofList m.descr ++ ":" ++
  (if m.shape.isEmpty then "-" else String.intercalate "." (m.shape.map toString)) ++ ":" ++ toHex m.data

def parseMember (s : String) : NpyMember :=
  match s.splitOn ":" with
  | [n, d, sh, h] => { name := n.toList, descr := d.toList, shape := if sh = "-" then [] else (sh.splitOn ".").map String.toNat!, data := unhex h }
  | _ => { name := [], descr := [], shape := [], data := [] }

/-- content = starts|lin|low|off -/
def parseDqm (s : String) : DqmContent :=
  match s.splitOn "|" with
  | [st, l, lo, o] => { caseStarts := (splitList st ",").map String.toNat!, linear := parseBytesList l, lower := parseLower lo, offset := unhex o }
  | _ => { caseStarts := [], linear := [], lower := [], offset := [] }

def showDqm (c : DqmContent) : String :=
  showNats c.caseStarts ++ "|" ++ showBytesList c.linear ++ "|" ++ showLower c.lower ++ "|" ++ toHex c.offset

def showDqmCounts (k : DqmCounts) : String :=
  s!"{k.numVariables},{k.numCases},{k.numCaseInteractions},{k.numVariableInteractions}"

/-! legacy CQM -/

def showCodes : Option (List Nat) → String
  | none => "none"
  | some l => if l.isEmpty then "-" else String.intercalate "," (l.map toString)

def showLoaded : LoadedModel Nat → String
  | .qm m => "qm/vi=" ++ showVarInfo m.varinfo ++ "/" ++ toHex m.content.offset ++ "/" ++ showBytesList m.content.linear ++ "/" ++
      showLower m.content.lower ++ "/" ++ showCodes m.labels
  | .bqm m => s!"bqm/vt={m.hdr.vartype}/" ++ toHex m.content.offset ++ "/" ++ showBytesList m.content.linear ++ "/" ++
      showLower m.content.lower ++ "/" ++ showCodes m.labels

def showLegacyConstraint (c : LegacyConstraint Nat) : String :=
  charsToHex c.lstr ++ "~" ++ showLoaded c.lhs ++ "~" ++ toHex c.rhs ++ "~" ++ toHex c.sense ++ "~" ++
  (if c.discrete then "1" else "0") ++ "~" ++ (match c.soft with | some (w, p) => toHex w ++ ":" ++ toHex p | none => "-")

def parseOptNat (s : String) : Option Nat := if s = "-" then none else some s.toNat!

def parseLegacyCounts (s : String) : LegacyCounts :=
  match s.splitOn "," with
  | [a, b, c, d, e, f, g] => { numVariables := a.toNat!, numConstraints := b.toNat!, numBiases := c.toNat!, numQuadVars := parseOptNat d,
                                numQuadVarsReal := parseOptNat e, numLinearReal := parseOptNat f, numWeighted := parseOptNat g }
  | _ => { numVariables := 0, numConstraints := 0, numBiases := 0, numQuadVars := none, numQuadVarsReal := none, numLinearReal := none,
           numWeighted := none }

/-- vars oracle table: textHex=code.code.code ; … -/
def parseVarsOracle (s : String) : List (Bytes × List Nat) :=
  (splitList s ";").map fun e => match e.splitOn "=" with
    | [t, c] => (unhex t, (splitList c ".").map String.toNat!)
    | _ => ([], [])

def showHeaderDict (d : HeaderDict) : String :=
  s!"shape={d.shape.1},{d.shape.2} dtype={d.dtype} itype={d.itype} ntype={d.ntype.getD "-"} vartype={d.vartype.getD "-"} type={d.type} variables=" ++
  (match d.variables with
   | .flag b => if b then "T" else "F"
   | .labels l => "[" ++ String.intercalate "+" (l.map fun v => showFLabel (deserializeLabel v)) ++ "]")

def parseLabels (s : String) : List FLabel := (splitList s ";").map fun l => parseFLabel l.toList

def qmKey (d : QmLoaded Nat) : VarInfo × QContent × Option (List Nat) := (d.varinfo, d.content, d.labels)
def bqmKey (d : QLoaded Nat) : QContent × Option (List Nat) := (d.content, d.labels)

/-! ZIP entries:  name=content=stored=method=crc=lver=cver=flags=time=date=lcsize=lusize=lextra=cextra=iattr=eattr ; …
    (hex fields; `stored` = `s` when it is the content itself) -/

def parseZEntry (s : String) : ZEntry :=
  match s.splitOn "=" with
  | [n, c, st, me, crc, lv, cv, fl, ti, da, lcs, lus, lex, cex, ia, ea] =>
    { name := unhex n, content := unhex c, stored := if st = "s" then unhex c else unhex st, method := me.toNat!, crc := crc.toNat!,
      lver := lv.toNat!, cver := cv.toNat!, flags := fl.toNat!, time := ti.toNat!, date := da.toNat!, lcsize := lcs.toNat!,
      lusize := lus.toNat!, lextra := unhex lex, cextra := unhex cex, iattr := ia.toNat!, eattr := ea.toNat! }
  | _ => { name := [], content := [], stored := [], method := 0, crc := 0, lver := 0, cver := 0, flags := 0, time := 0, date := 0,
           lcsize := 0, lusize := 0, lextra := [], cextra := [], iattr := 0, eattr := 0 }

/-- CRC-32 (IEEE 802.3, reflected, as `zlib.crc32`) -/
def crc32Byte (c : UInt32) (b : UInt8) : UInt32 := Id.run do
  let mut x := c ^^^ b.toUInt32
  for _ in [0:8] do
    x := if x &&& 1 = 1 then (x >>> 1) ^^^ 0xEDB88320 else x >>> 1
  return x

def crc32 (bs : Bytes) : Nat := ((bs.foldl crc32Byte 0xFFFFFFFF) ^^^ 0xFFFFFFFF).toNat

/-- the deflate codec as a table: stored bytes -> content -/
def parseInflate (s : String) : Bytes → Option Bytes :=
  let tbl := (splitList s ",").map fun e => match e.splitOn ":" with
    | [a, b] => (unhex a, unhex b)
    | _ => ([], [])
  fun st => (tbl.find? fun e => e.1 = st).map (·.2)

def showBMembers (a : List (Bytes × Bytes)) : String :=
  if a.isEmpty then "-" else String.intercalate "," (a.map fun m => toHex m.1 ++ "=" ++ toHex m.2)

def rangesOf (hits : List Nat) : String :=
  let rec go : List Nat → Option (Nat × Nat) → List String → List String
    | [], none, acc => acc.reverse
    | [], some (a, b), acc => (s!"{a}..{b}" :: acc).reverse
    | j :: t, none, acc => go t (some (j, j)) acc
    | j :: t, some (a, b), acc => if j = b + 1 then go t (some (a, j)) acc else go t (some (j, j)) (s!"{a}..{b}" :: acc)
  let r := go hits none []
  if r.isEmpty then "-" else String.intercalate "," r

def handle (toks : List String) : String :=
  match toks with
  | ["mkhdr", pre, maj, min, text] =>
    toHex (makeHeader (unhex pre) (UInt8.ofNat maj.toNat!) (UInt8.ofNat min.toNat!) (unhex text))
  | ["section", mg, nlb, data] => toHex (sectionDumps (unhex mg) nlb.toNat! (unhex data))
  | ["rdhdr", pre, text, bytes] =>
    errStr ((readHeader (unhex pre) (oracleParse (unhex text) ())).run (unhex bytes))
      fun (r : (List Nat × Unit) × Bytes) => String.intercalate "," (r.1.1.map toString) ++ s!" rest={r.2.length}"
  | ["rdsect", mg, nlb, bytes] =>
    errStr ((sectionLoad (unhex mg) nlb.toNat!).run (unhex bytes)) fun r => toHex r.1 ++ s!" rest={r.2.length}"
  | ["encbqm", maj, ht, h, off, lin, low, vt] =>
    let c : QContent := { offset := unhex off, linear := parseBytesList lin, lower := parseLower low }
    toHex (bqmEncode (UInt8.ofNat maj.toNat!) (unhex ht) (parseH h) c (unhex vt))
  | ["decbqm", mode, ht, h, vt, nl, bytes] =>
    let p := bqmDecode (oracleParse (unhex ht) (parseH h)) (oracleParse (unhex vt) (List.range nl.toNat!))
    if mode = "full" then
      errStr (p.run (unhex bytes)) fun r => showContent r.1.content ++ " labels=" ++ showLabels r.1.labels ++ s!" rest={r.2.length}"
    else allPrefixes bqmKey p p (unhex bytes)
  | ["encqm", ht, h, vi, off, lin, low, vt] =>
    let c : QContent := { offset := unhex off, linear := parseBytesList lin, lower := parseLower low }
    toHex (qmEncode (unhex ht) (parseH h) (parseVarInfo vi) c (unhex vt))
  | ["decqm", mode, ht, h, vt, nl, bytes] =>
    let p (g : Bool) := qmDecode g (oracleParse (unhex ht) (parseH h)) (oracleParse (unhex vt) (List.range nl.toNat!))
    if mode = "full" then
      errStr ((p true).run (unhex bytes)) fun r =>
        "vi=" ++ showVarInfo r.1.varinfo ++ " " ++ showContent r.1.content ++ " labels=" ++ showLabels r.1.labels ++ s!" rest={r.2.length}"
    else allPrefixes qmKey (p true) (p false) (unhex bytes)
  | ["encexpr", ht, isz, ex] => toHex (exprEncode (unhex ht) isz.toNat! (parseExpr ex))
  | ["decexpr", mode, ht, h, bytes] =>
    let p (g : Bool) := exprDecode g (oracleParse (unhex ht) (parseH h))
    if mode = "full" then errStr ((p true).run (unhex bytes)) fun r => showExpr r.1.2 ++ s!" rest={r.2.length}"
    else allPrefixes (fun (r : QHeader Nat × ExprContent) => r.2) (p true) (p false) (unhex bytes)
  | ["raw", which, guard, a, b, n, buff] =>
    let g := guard = "1"
    let bs := unhex buff
    if which = "vartypes" then errStr (ivartypesLoad g a.toNat! bs n.toNat!) fun r => toString r.length
    else if which = "records" then errStr (rawRecords g a.toNat! bs n.toNat!) fun r => toString r.length
    else if which = "linear" then
      errStr ((linbLoads a.toNat! n.toNat! bs).bind fun arr => ilinearLoad g b.toNat! arr n.toNat!) fun r => toString r.length
    else "bad-op"
  | ["labeltext", fixed, l] => charsToHex (labelText (fixed = "1") (parseFLabel l.toList))
  | ["roundlabel", l] => showFLabel (deserializeLabel (serializeLabel (parseFLabel l.toList)))
  | ["loadsstr", h] => match loadsStr (hexToChars h) with
    | some cs => charsToHex cs
    | none => "none"
  | ["loadsj", h] => match loadsJ (hexToChars h) with
    | some v => showJVal v
    | none => "none"
  | ["matchpath", h] => match matchConstraint (hexToChars h) with
    | some g => charsToHex g
    | none => "none"
  | ["enccqm", isz, vi, lt, oht, oex, cons] =>
    let cs := (splitList cons "^").map fun s => (parseConstraint s).1
    let m : CqmContent := { varinfo := parseVarInfo vi, labelsText := if lt = "none" then none else some (unhex lt),
                            objHdrText := unhex oht, objective := parseExpr oex, constraints := cs }
    showMembers (cqmMembers isz.toNat! m)
  | ["deccqm", dsz, counts, oracle, dirs, members] =>
    let tbl := parseOracle oracle
    let okd := (splitList dirs ",").filterMap fun e => match e.splitOn ":" with
      | [d, "1"] => some (hexToChars d)
      | _ => none
    let a := parseMembers members
    "dirs=" ++ (let ds := constraintDirs a; if ds.isEmpty then "-" else String.intercalate "," (ds.map charsToHex)) ++ " " ++
    errStr (cqmDecodeChecked true dsz.toNat! (parseCounts counts) (oracleTable tbl) (fun d => okd.contains d) a) showCqm
  | ["hdrbqm", ver, ign, vt, dsz, isz, lin, low, labels] =>
    let c : QContent := { offset := [], linear := parseBytesList lin, lower := parseLower low }
    showHeaderDict (bqmHeaderDict ver.toNat! (ign = "1") vt.toNat! dsz.toNat! isz.toNat! c (parseLabels labels))
  | ["hdrqm", dsz, isz, lin, low, labels] =>
    let c : QContent := { offset := [], linear := parseBytesList lin, lower := parseLower low }
    showHeaderDict (qmHeaderDict dsz.toNat! isz.toNat! c (parseLabels labels))
  | ["hdrexpr", tn, dsz, isz, ex] => showHeaderDict (exprHeaderDict tn dsz.toNat! isz.toNat! (parseExpr ex))
  | ["hdrdqm", ign, labels] => if dqmVariablesFlag (ign = "1") (parseLabels labels) then "T" else "F"
  | ["hdrtextbqm", ver, ign, vt, dsz, isz, lin, low, labels] =>
    let c : QContent := { offset := [], linear := parseBytesList lin, lower := parseLower low }
    charsToHex (dumpsDict (bqmDict (bqmHeaderDict ver.toNat! (ign = "1") vt.toNat! dsz.toNat! isz.toNat! c (parseLabels labels))))
  | ["hdrtextqm", dsz, isz, lin, low, labels] =>
    let c : QContent := { offset := [], linear := parseBytesList lin, lower := parseLower low }
    charsToHex (dumpsDict (qmDict (qmHeaderDict dsz.toNat! isz.toNat! c (parseLabels labels))))
  | ["hdrtextexpr", tn, dsz, isz, ex] => charsToHex (dumpsDict (exprDict (exprHeaderDict tn dsz.toNat! isz.toNat! (parseExpr ex))))
  | ["parsehdr", kind, text] =>
    let r := if kind = "bqm" then parseBqmHeader (unhex text) else if kind = "qm" then parseQmHeader (unhex text) else parseExprHeader (unhex text)
    match r with
    | none => "none"
    | some h => s!"{h.nvars},{h.ninter},{h.dsize},{h.isize},{h.nsize},{h.vartype}," ++
        (match h.vars with | .flag b => if b then "T" else "F" | .labels l => s!"L{l.length}")
  | ["encdqmm", content] =>
    let c := parseDqm content
    String.intercalate ";" ((dqmMembers c).map showMember) ++ " counts=" ++ showDqmCounts (dqmCounts c)
  | ["decdqmm", members] =>
    errStr (dqmFromMembers ((members.splitOn ";").map parseMember)) showDqm
  | ["encdqm", ht, labelled, npz, vt] => toHex (dqmEncode (unhex ht) (labelled = "1") (unhex npz) (unhex vt))
  | ["decdqm", mode, ht, labelled, vt, nl, npzlen, nvars, bytes] =>
    let p := dqmDecode (oracleParse (unhex ht) (labelled = "1", ())) (oracleParse (unhex vt) (List.range nl.toNat!))
      (fun blob => if blob.length = npzlen.toNat! then some blob else none) (fun _ => nvars.toNat!)
    if mode = "full" then
      errStr (p.run (unhex bytes)) fun r => "npz=" ++ toString r.1.2.1.length ++ " labels=" ++ showLabels r.1.2.2 ++ s!" rest={r.2.length}"
    else allPrefixes (fun (r : Unit × Bytes × Option (List Nat)) => (r.2.1, r.2.2)) p p (unhex bytes)
  | ["declegacy", ver, counts, oracle, varsOracle, dirs, members] =>
    let v := (ver.splitOn ".").map String.toNat!
    let okd := (splitList dirs ",").filterMap fun e => match e.splitOn ":" with
      | [d, "1"] => some (hexToChars d)
      | _ => none
    let a := parseMembers members
    errStr (legacyDecodeChecked true id v (parseLegacyCounts counts) (oracleTable (parseOracle oracle))
        (oracleTable (parseVarsOracle varsOracle)) (fun d => okd.contains d) a)
      fun m => "obj=" ++ showLoaded m.objective ++ " cons=" ++
        (if m.constraints.isEmpty then "-" else String.intercalate "^" (m.constraints.map showLegacyConstraint))
  | ["deccqmhdr", ht, bytes] =>
    -- CQM: the header reader, then the zip contract: only the complete archive opens
    let bs := unhex bytes
    let full := containerLoad cqmPrefix (oracleParse (unhex ht) ()) cqmVerOk (fun _ => some ()) bs
    let body : Bytes := match (readHeader cqmPrefix (oracleParse (unhex ht) ())).run bs with
      | .ok (_, rest) => rest
      | _ => []
    let cls := (List.range (bs.length + 1)).map fun k =>
      match containerLoad cqmPrefix (oracleParse (unhex ht) ()) cqmVerOk (fun b => if b = body then some () else none) (bs.take k) with
      | .err e => "e:" ++ e.name
      | .ub => "ub"
      | .ok _ => if full.isOk then "=" else "?"
    String.intercalate ";" cls ++ " U:-"
  | ["eocd", bytes] =>
    match endRecData (unhex bytes) with
    | none => "none"
    | some r => s!"{r.location},{r.sizeCd},{r.offsetCd},{r.entries}"
  | ["eocdall", bytes] =>
    let bs := unhex bytes
    let hits := (List.range (bs.length + 1)).filterMap fun j =>
      match endRecData (bs.take j) with
      | some r => some s!"{j}:{r.location}"
      | none => none
    if hits.isEmpty then "-" else String.intercalate "," hits
  | ["dqmz", ht, labelled, vt, nl, bytes] =>
    errStr (dqmLoad Gen.dqmLoadsWholeFile (oracleParse (unhex ht) (labelled = "1", ())) (oracleParse (unhex vt) (List.range nl.toNat!))
        (fun r _ => some r.entries) (fun _ => nl.toNat!) (unhex bytes))
      fun r => s!"members={r.2.1} labels=" ++ (match r.2.2 with | none => "none" | some l => toString l.length)
  | ["hdrtextcqm", counts] => charsToHex (dumpsDict (cqmCountsDict (parseCounts counts)))
  | ["hdrtextdqm", counts, flag] =>
    match (counts.splitOn ",").map String.toNat! with
    | [a, b, c, d] => charsToHex (dumpsDict (dqmCountsDict { numVariables := a, numCases := b, numCaseInteractions := c, numVariableInteractions := d } (flag = "T")))
    | _ => "bad-op"
  | ["parsecnt", kind, text] =>
    if kind = "cqm" then
      match parseCqmHeader (unhex text) with
      | none => "none"
      | some k => s!"{k.numVariables},{k.numConstraints},{k.numBiases},{k.numQuadVars},{k.numQuadVarsReal},{k.numLinearReal},{k.numWeighted}"
    else
      match parseDqmHeader (unhex text) with
      | none => "none"
      | some (b, d) => (if b then "T" else "F") ++ s!" keys={d.length}"
  | ["zipwrite", base, entries] => toHex (zipBytes base.toNat! ((splitList entries ";").map parseZEntry))
  | ["zipread", bytes, orc] =>
    match zipOpen (readDirBytes crc32 (parseInflate orc)) (unhex bytes) with
    | none => "none"
    | some ms => showBMembers ms
  | ["zipreadall", bytes, orc] =>
    let b := unhex bytes
    let inf := parseInflate orc
    rangesOf ((List.range (b.length + 1)).filter fun j => (zipOpen (readDirBytes crc32 inf) (b.take j)).isSome)
  | ["npyhdr", descr, shape] =>
    toHex (npyHeader descr.toList (if shape = "-" then [] else (shape.splitOn ".").map String.toNat!))
  | ["npyparse", bytes] =>
    match parseNpy [] (unhex bytes) with
    | none => "none"
    | some m => String.ofList m.descr ++ ":" ++ (if m.shape.isEmpty then "-" else String.intercalate "." (m.shape.map toString)) ++ ":" ++ toHex m.data
  | ["npyparseall", bytes] =>
    let b := unhex bytes
    rangesOf ((List.range (b.length + 1)).filter fun j => (parseNpy [] (b.take j)).isSome)
  | ["ziptiledall", start, bytes, orc] =>
    let b := unhex bytes
    let inf := parseInflate orc
    rangesOf ((List.range (b.length + 1)).filter fun j => (openTiled crc32 inf start.toNat! (b.take j)).isSome)
  | ["ziplocalok", entries] =>
    String.intercalate "," (((splitList entries ";").map parseZEntry).map fun z => if localSize (localFixed z) z.lextra = z.stored.length then "1" else "0")
  | ["ziptiledstrictall", start, bytes, orc] =>
    let b := unhex bytes
    let inf := parseInflate orc
    rangesOf ((List.range (b.length + 1)).filter fun j => (openTiledStrict crc32 inf start.toNat! (b.take j)).isSome)
  | _ => "bad-op"

def main : IO Unit := do
  let h ← IO.getStdin
  let out ← IO.getStdout
  let rec loop : Nat → IO Unit
    | 0 => pure ()
    | fuel + 1 => do
      let line ← h.getLine
      if line.isEmpty then return ()
      out.putStrLn (handle (line.trimAscii.toString.splitOn " "))
      loop fuel
  loop 100000000
  out.flush
