import DimodModel.BqmFile

def hexVal (c : Char) : Nat :=
  if c.isDigit then c.toNat - '0'.toNat else c.toNat - 'a'.toNat + 10

def parseHex (s : String) : Bytes :=
  let rec go : List Char → Bytes
    | a :: b :: t => (UInt8.ofNat (hexVal a * 16 + hexVal b)) :: go t
    | _ => []
  go s.toList

def classOf (full : Except FErr (Decoded × Bytes)) (r : Except FErr (Decoded × Bytes)) : String :=
  match r with
  | .error .value => "err value"
  | .error .structErr => "err struct"
  | .error .json => "err json"
  | .error .index => "err index"
  | .ok (d, _) => match full with
    | .ok (d0, _) => if d = d0 then "ok equal" else "ok DIFFERENT"
    | _ => "ok ?"

def main : IO Unit := do
  let h ← IO.getStdin
  let rec loop : Nat → IO Unit
    | 0 => pure ()
    | fuel+1 => do
      let line ← h.getLine
      if line.isEmpty then return ()
      match line.trimAscii.toString.splitOn " " with
      | ["file", hex, nv, ni, ds, hv, jl, vjl] =>
        let bytes := parseHex hex
        let hdr : Header := { nvars := nv.toNat!, ninter := ni.toNat!, dsize := ds.toNat!, hasVars := hv = "1", jsonLen := jl.toNat! }
        let full := decode hdr vjl.toNat! bytes
        let outs := (List.range (bytes.length + 1)).map fun k => classOf full (decode hdr vjl.toNat! (bytes.take k))
        IO.println (String.intercalate ";" outs)
      | _ => IO.println "bad-op"
      loop fuel
  loop 1000000
