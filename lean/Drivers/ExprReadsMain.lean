import DimodModel.ExprReads
import DimodModel.ViewHeap
import DimodModel.Wire
open Wire

/-! Line-protocol driver `exprreadsdriver` (C01, round 8): one removal step on a CQM expression whose state is rebuilt from
    what the real expression reported BEFORE the step; the answer is what the model's label-based accessors, its
    `variables_` and its energy loop give AFTER the step.

      exprstep <n> <vars> <lin> <quad> <off> <op> <n'> <x>
        n, n'   number of model variables before / after the step
        vars    model indices in the expression's private order (a,b,c | -)      lin   positional linear biases
        quad    u:v:b,... in `iter_quadratic` order, model indices | -            off   offset
        op      R:v (parent remove_variable) | F:v:a (parent fix_variable) | V:v (the view's own remove_variable)
        x       the sample, one value per model index after the step
      answer  vars=… lin=<label reading of every model index> quad=<non-zero label readings g<=h> e=<loop> p=<label polynomial>

    C02, round 8 — the object graph of `.spin` / `.binary`:
      viewheap <S|B> <ops>       ops joined by ';': b<o> (`obj.binary`), s<o> (`obj.spin`), c<S|B><o> (`obj.change_vartype(vt, inplace=True)`)
      answer  ret=<object id every call returned> vts=<`.vartype` of every object> depth=<VartypeView layers of every object's data> -/

def splitTok (s : String) (sep : String) : List String := if s = "-" then [] else s.splitOn sep
def parseRats (s : String) : Option (List Rat) := (splitTok s ",").mapM parseRat?
def parseNats (s : String) : Option (List Nat) := (splitTok s ",").mapM (·.toNat?)
def showRats (l : List Rat) : String := if l.isEmpty then "-" else String.intercalate "," (l.map showRat)
def xOf (x : List Rat) : Nat → Rat := fun i => x.getD i 0

def step (line : String) : String :=
  let r : Option String := match line.trimAscii.toString.splitOn " " with
  | ["exprstep", n, vars, lin, quad, off, op, n', x] => do
      let n ← n.toNat?; let n' ← n'.toNat?
      let quad ← (splitTok quad ",").mapM (fun t => match t.splitOn ":" with
        | [u, v, b] => do pure ((← u.toNat?), (← v.toNat?), (← parseRat? b)) | _ => none)
      let e := ExprReads.rebuild n (← parseNats vars) (← parseRats lin) quad (← parseRat? off)
      let op ← (match op.splitOn ":" with
        | ["R", v] => do pure (ExprReads.StepOp.remove (← v.toNat?))
        | ["F", v, a] => do pure (ExprReads.StepOp.fix (← v.toNat?) (← parseRat? a))
        | ["V", v] => do pure (ExprReads.StepOp.viewRemove (← v.toNat?))
        | _ => none)
      let e' := ExprReads.applyOp e op
      let x ← parseRats x
      let q := ExprReads.labelQuadAll e' n'
      let qs := if q.isEmpty then "-" else String.intercalate "," (q.map fun t => s!"{t.1}:{t.2.1}:{showRat t.2.2}")
      let vs := if e'.vars.isEmpty then "-" else String.intercalate "," (e'.vars.map toString)
      pure s!"vars={vs} lin={showRats ((List.range n').map e'.linear)} quad={qs} e={showRat ((ExprReads.toEn e').energyCpp (xOf x))} p={showRat (ExprReads.labelPoly e' (xOf x))}"
  | ["viewheap", vt0, ops] => do
      let vt? (c : Char) : Option ViewHeap.VT := if c = 'S' then some .spin else if c = 'B' then some .binary else none
      let showVt (v : ViewHeap.VT) : String := match v with | .spin => "S" | .binary => "B"
      let ops ← (splitTok ops ";").mapM (fun (t : String) => match t.toList with
        | 'b' :: rest => (String.ofList rest).toNat?.map ViewHeap.Heap.Op.binary
        | 's' :: rest => (String.ofList rest).toNat?.map ViewHeap.Heap.Op.spin
        | 'c' :: v :: rest => do pure (ViewHeap.Heap.Op.changeVartype (← (String.ofList rest).toNat?) (← vt? v))
        | _ => none)
      let h0 := ViewHeap.init (← vt? (vt0.toList.headD 'x'))
      let (h, rets) := ops.foldl (fun (acc : ViewHeap.Heap × List Nat) op => ((acc.1.step op).1, acc.2 ++ [(acc.1.step op).2])) (h0, [])
      let ids := List.range h.objs.length
      let j (l : List String) : String := if l.isEmpty then "-" else String.intercalate "," l
      pure s!"ret={j (rets.map toString)} vts={j (ids.map fun o => showVt (h.objVt o))} depth={j (ids.map fun o => toString (h.objDepth o))}"
  | _ => none
  r.getD "bad-op"

partial def loop (h : IO.FS.Stream) : IO Unit := do
  let line ← h.getLine
  if line.isEmpty then return ()
  IO.println (step line)
  loop h

def main : IO Unit := do loop (← IO.getStdin)
