import Drivers.PenShow
import DimodModel.Generators
import DimodModel.Generators2
import DimodModel.RandomGen
import DimodModel.Generators3
import DimodModel.RandomCycle
open Wire Pen PenShow Gen

/-! Line-protocol driver for the C17 generator models (`DimodModel/Generators.lean`).

    gate <and|or|xor|halfadder|fulladder> <strength> <labels>
    mult <n> <m>
    comb <k> <strength> <SPIN|BINARY> <labels>
    iset <edges> <nodes|->            edges: u~v,u~v   nodes: labels
    mwis <strength|-> <mult> <edges> <none | lab=w,...>
    knap <capacity> <values> <weights>
    mknap <values> <weights> <capacities>
    binp <capacity> <weights>
    rnd graph <vt> <vars> <edges> <stream>          uniform / randint      (stream: the scalars the NumPy generator returned, in order)
    rnd ranr <r> <vars> <edges> <stream>            ran_r / power_r        → ok <model> #<scalars consumed>
    rnd doped <edges> <stream>
    rnd gnm <vt> <labels> <num_interactions> <stream>
    rnd gnp <vt> <labels> <p> <stream>
    rnd knap <n> <ratio> <stream> | rnd mknap <n> <bins> <stream> | rnd binp <n> <capacity> <stream>
    qknap <capacity> <values> <weights> <profits>          profits: rows separated by ";", "-" = no rows
    qmknap <values> <weights> <capacities> <profits>
    kmcsat <k> <labels> <clauses>                          clauses: idx:sign+idx:sign+... separated by ','
    qap <distance rows> <flow rows>
    bpsp <car labels>
    msq <size> <power>                                     constraint expressions shown without self-loop folding
    acclique <num_variables> | acloops <num_variables>
    fl <nodes> <edges> <cycles> <gauge>                    cycles: lab,lab,...@idx (planted) or ...@- separated by ';' ; gauge: lab=±1,... or -
    chim <m> <n> <t> <multiplier> <nodes|none> <edges> <draws>    draws: the recorded indices of choice((-1., 1.))
    mimo <nt> <y> <F rows>  |  mimob <nr> <nt> <draws>  |  comp <nr> <nt> <attenuation rows> <draws>
    qpsk <nt> <Re y> <Im y> <Re F rows> <Im F rows>  |  qam <amplitude bits> <nt> <Re y> <Im y> <Re F rows> <Im F rows>
-/

def kindOf? (s : String) : Option GateKind :=
  if s = "and" then some .and else if s = "or" then some .or else if s = "xor" then some .xor
  else if s = "halfadder" then some .halfadder else if s = "fulladder" then some .fulladder else none

def parseLabels (s : String) : Option (List Label) := (csv s).mapM parseLabel?

def parseEdges (s : String) : Option (List (Label × Label)) :=
  (csv s).mapM fun e =>
    match e.splitOn "~" with
    | [a, b] => do let a ← parseLabel? a; let b ← parseLabel? b; pure (a, b)
    | _ => none

def parseRats (s : String) : Option (List Rat) := (csv s).mapM parseRat?

def showBag (vt : VT) (bag : List (PTerm Label)) : String :=
  "ok " ++ showBq ((Bq.empty vt : Bq Label).apply bag) false

def senseName : Sense → String | .le => "le" | .ge => "ge" | .eq => "eq"

def showGCqm (q : GCqm) : String :=
  let vars := String.intercalate "," (q.vars.map showLabel)
  let cons := q.cons.map fun c =>
    s!"{toHex c.label}:{senseName c.sense}:{showRat c.rhs}:" ++ showBq ((Bq.empty .binary : Bq Label).apply c.lhs) false
  s!"ok {vars}|{showBq ((Bq.empty .binary : Bq Label).apply q.obj) false}|" ++ String.intercalate "|" cons

def parseMatrix (s : String) : Option (List (List Rat)) :=
  if s = "-" then some [] else (s.splitOn ";").mapM parseRats

def parseClauses (s : String) : Option (List Clause) :=
  (csv s).mapM fun c => (c.splitOn "+").mapM fun l =>
    match l.splitOn ":" with
    | [i, sg] => do let i ← i.toNat?; let sg ← sg.toInt?; pure (i, sg)
    | _ => none

/-- a bag as an INTEGER-variable expression: squares stay quadratic self-loops; every touched variable is listed -/
def showRawBag (bag : List (PTerm Label)) : String :=
  let st := bag.foldl (fun (st : List (Label × Rat) × List ((Label × Label) × Rat) × Rat) t =>
    match t with
    | .const c => (st.1, st.2.1, st.2.2 + c)
    | .lin v c => (addKey st.1 v c, st.2.1, st.2.2)
    | .quad u v c => (addKey (addKey st.1 u 0) v 0, addPair st.2.1 u v c, st.2.2)) (([] : List (Label × Rat)), ([] : List ((Label × Label) × Rat)), (0 : Rat))
  showBq { vt := .binary, lin := st.1, quad := st.2.1, off := st.2.2 } false

def showRawCqm (q : GCqm) : String :=
  let cons := q.cons.map fun c => s!"{toHex c.label}:{senseName c.sense}:{showRat c.rhs}:" ++ showRawBag c.lhs
  "ok " ++ String.intercalate "|" cons

def answer (line : String) : String :=
  match line.trimAscii.toString.splitOn " " with
  | ["gate", k, s, labels] =>
    match kindOf? k, parseRat? s, parseLabels labels with
    | some k, some s, some labels =>
      match gate k labels s with
      | some bag => showBag .binary bag
      | none => "err"
    | _, _, _ => "bad-op"
  | ["mult", n, m] =>
    match n.toNat?, m.toNat? with
    | some n, some m =>
      match mulCircuit n m with
      | some gs => showBag .binary (circuitBag gs)
      | none => "err"
    | _, _ => "bad-op"
  | ["comb", k, s, vt, labels] =>
    match k.toInt?, parseRat? s, vtOf? vt, parseLabels labels with
    | some k, some s, some vt, some labels =>
      match combinations labels k s vt with
      | some bag => showBag vt bag
      | none => "err"
    | _, _, _, _ => "bad-op"
  | ["iset", edges, nodes] =>
    match parseEdges edges, parseLabels nodes with
    | some edges, some nodes =>
      match independentSet edges nodes with
      | some bag => showBag .binary bag
      | none => "err"
    | _, _ => "bad-op"
  | ["mwis", s, mult, edges, nodes] =>
    match (if s = "-" then some none else (parseRat? s).map some), parseRat? mult, parseEdges edges,
          (if nodes = "none" then some none else (parseTerms nodes).map some) with
    | some s, some mult, some edges, some nodes =>
      match mwis edges nodes s mult with
      | some bag => showBag .binary bag
      | none => "err"
    | _, _, _, _ => "bad-op"
  | ["knap", cap, values, weights] =>
    match parseRat? cap, parseRats values, parseRats weights with
    | some cap, some values, some weights =>
      match knapsack values weights cap with
      | some q => showGCqm q
      | none => "err"
    | _, _, _ => "bad-op"
  | ["mknap", values, weights, caps] =>
    match parseRats values, parseRats weights, parseRats caps with
    | some values, some weights, some caps =>
      match multiKnapsack values weights caps with
      | some q => showGCqm q
      | none => "err"
    | _, _, _ => "bad-op"
  | ["qknap", cap, values, weights, profits] =>
    match parseRat? cap, parseRats values, parseRats weights, parseMatrix profits with
    | some cap, some values, some weights, some profits =>
      match quadraticKnapsack values weights profits cap with
      | some q => showGCqm q
      | none => "err"
    | _, _, _, _ => "bad-op"
  | ["qmknap", values, weights, caps, profits] =>
    match parseRats values, parseRats weights, parseRats caps, parseMatrix profits with
    | some values, some weights, some caps, some profits =>
      match quadraticMultiKnapsack values weights profits caps with
      | some q => showGCqm q
      | none => "err"
    | _, _, _, _ => "bad-op"
  | ["kmcsat", k, labels, clauses] =>
    match k.toNat?, parseLabels labels, parseClauses clauses with
    | some k, some labels, some clauses =>
      match kmcsat labels k clauses with
      | some bag => showBag .spin bag
      | none => "err"
    | _, _, _ => "bad-op"
  | ["qap", d, f] =>
    match parseMatrix d, parseMatrix f with
    | some d, some f =>
      match quadraticAssignment d f with
      | some q => showGCqm q
      | none => "err"
    | _, _ => "bad-op"
  | ["bpsp", cars] =>
    match parseLabels cars with
    | some cars =>
      match bpsp cars with
      | some bag => showBag .spin bag
      | none => "err"
    | none => "bad-op"
  | ["msq", n, power] =>
    match n.toNat?, power.toNat? with
    | some n, some power =>
      match magicSquare n power with
      | some q => showRawCqm q
      | none => "err"
    | _, _ => "bad-op"
  | ["binp", cap, weights] =>
    match parseRat? cap, parseRats weights with
    | some cap, some weights => showGCqm (binPacking weights cap)
    | _, _ => "bad-op"
  | ["rnd", kind, a, b, c, stream] =>
    match (if stream = "-" then some [] else parseRats stream) with
    | none => "bad-op"
    | some draws =>
      let σ : Rnd.Stream := fun i => draws.getD i 0
      if kind = "graph" then
        match vtOf? a, parseLabels b, parseEdges c with
        | some vt, some vars, some edges => let r := Rnd.graphGen vars edges σ; showBag vt r.1 ++ s!" #{r.2}"
        | _, _, _ => "bad-op"
      else if kind = "ranr" then
        match a.toNat?, parseLabels b, parseEdges c with
        | some r, some vars, some edges =>
          match Rnd.ranR r vars edges σ with
          | some res => showBag .spin res.1 ++ s!" #{res.2}"
          | none => "err"
        | _, _, _ => "bad-op"
      else if kind = "gnm" then
        match vtOf? a, parseLabels b, c.toNat? with
        | some vt, some labels, some m => let r := Rnd.gnm labels m σ; showBag vt r.1 ++ s!" #{r.2}"
        | _, _, _ => "bad-op"
      else if kind = "gnp" then
        match vtOf? a, parseLabels b, parseRat? c with
        | some vt, some labels, some p => let r := Rnd.gnp labels p σ; showBag vt r.1 ++ s!" #{r.2}"
        | _, _, _ => "bad-op"
      else "bad-op"
  | ["rnd", kind, a, b, stream] =>
    match (if stream = "-" then some [] else parseRats stream) with
    | none => "bad-op"
    | some draws =>
      let σ : Rnd.Stream := fun i => draws.getD i 0
      if kind = "knap" then
        match a.toNat?, parseRat? b with
        | some n, some ratio =>
          let r := Rnd.randomKnapsack n ratio σ
          match r.1 with
          | some q => showGCqm q ++ s!" #{r.2}"
          | none => "err"
        | _, _ => "bad-op"
      else if kind = "mknap" then
        match a.toNat?, b.toNat? with
        | some n, some bins =>
          let r := Rnd.randomMultiKnapsack n bins σ
          match r.1 with
          | some q => showGCqm q ++ s!" #{r.2}"
          | none => "err"
        | _, _ => "bad-op"
      else if kind = "binp" then
        match a.toNat?, parseRat? b with
        | some n, some cap => let r := Rnd.randomBinPacking n cap σ; showGCqm r.1 ++ s!" #{r.2}"
        | _, _ => "bad-op"
      else "bad-op"
  | ["rnd", "doped", edges, stream] =>
    match parseEdges edges, (if stream = "-" then some [] else parseRats stream) with
    | some edges, some draws =>
      let σ : Rnd.Stream := fun i => draws.getD i 0
      let r := Rnd.doped edges σ
      showBag .spin r.1 ++ s!" #{r.2}"
    | _, _ => "bad-op"
  | _ => "bad-op"

def parseNats (s : String) : Option (List Nat) := (csv s).mapM (·.toNat?)

def parseCycles (s : String) : Option (List (List Label × Option Nat)) :=
  if s = "-" then some [] else
  (s.splitOn ";").mapM fun c =>
    match c.splitOn "@" with
    | [ls, idx] => do
      let ls ← parseLabels ls
      let idx ← (if idx = "-" then some none else idx.toNat?.map some)
      pure (ls, idx)
    | _ => none

def answer3 (line : String) : Option String :=
  match line.trimAscii.toString.splitOn " " with
  | ["mult", n, m] => some <|
    match n.toNat?, m.toNat? with
    | some n, some m => match mulCircuitBag n m with | some bag => showBag .binary bag | none => "err"
    | _, _ => "bad-op"
  | ["acclique", n] => some <|
    match n.toNat? with
    | some n => match acClique n with | some b => "ok " ++ showBq b false | none => "err"
    | none => "bad-op"
  | ["acloops", n] => some <|
    match n.toNat? with
    | some n => match acLoops n with | some b => "ok " ++ showBq b false | none => "err"
    | none => "bad-op"
  | ["rcyc", adj, draws] => some <|
    -- `_random_cycle`: adj = key>nb,nb;key>-;…  (dict order, set orders as iterated), draws = randint / choice indices
    let parseEntry (e : String) : Option (Label × List Label) :=
      match e.splitOn ">" with
      | [k, ns] => do let k ← parseLabel? k; let ns ← parseLabels ns; pure (k, ns)
      | _ => none
    match (if adj = "-" then some [] else (adj.splitOn ";").mapM parseEntry), parseNats draws with
    | some adj, some draws =>
      match randomCycle adj draws with
      | none => "bad-draws"
      | some none => "none"
      | some (some c) => "ok " ++ String.intercalate "," (c.map showLabel)
    | _, _ => "bad-op"
  | ["fl", nodes, edges, cycles, gauge] => some <|
    match parseLabels nodes, parseEdges edges, parseCycles cycles, (if gauge = "-" then some none else (parseTerms gauge).map some) with
    | some nodes, some edges, some cycles, some gauge =>
      let bag := frustratedLoop nodes edges cycles
      match gauge with
      | none => showBag .spin bag
      | some g =>
        -- the gauge acts on the accumulated interactions of the model (one entry per edge)
        let b := (Bq.empty .spin : Bq Label).apply bag
        let p : Label → Rat := fun v => Bq.lookupKey g v
        "ok " ++ showBq { b with quad := b.quad.map (fun q => (q.1, q.2 * p q.1.1 * p q.1.2)) } false
    | _, _, _, _ => "bad-op"
  | ["chim", m, n, t, mult, nodes, edges, draws] => some <|
    match m.toNat?, n.toNat?, t.toNat?, parseRat? mult, parseNats draws with
    | some m, some n, some t, some mult, some draws =>
      let sub := if nodes = "none" then some none else
        match parseLabels nodes, parseEdges edges with
        | some ns, some es => some (some (ns, es))
        | _, _ => none
      match sub with
      | none => "bad-op"
      | some sub =>
        match chimeraAnticluster m n t mult sub draws with
        | some bag => showBag .spin bag
        | none => "err"
    | _, _, _, _, _ => "bad-op"
  | ["mimo", nt, y, f] => some <|
    match nt.toNat?, parseRats y, parseMatrix f with
    | some nt, some y, some f => match mimoBpsk nt y f with | some bag => showBag .spin bag | none => "err"
    | _, _, _ => "bad-op"
  | ["comp", nr, nt, a, draws] => some <|
    match nr.toNat?, nt.toNat?, parseMatrix a, parseNats draws with
    | some nr, some nt, some a, some draws => match compBinary nr nt a draws with | some bag => showBag .spin bag | none => "err"
    | _, _, _, _ => "bad-op"
  | ["qpsk", nt, yr, yi, fr, fi] => some <|
    match nt.toNat?, parseRats yr, parseRats yi, parseMatrix fr, parseMatrix fi with
    | some nt, some yr, some yi, some fr, some fi => match mimoQpsk nt yr yi fr fi with | some bag => showBag .spin bag | none => "err"
    | _, _, _, _, _ => "bad-op"
  | ["qam", na, nt, yr, yi, fr, fi] => some <|
    match na.toNat?, nt.toNat?, parseRats yr, parseRats yi, parseMatrix fr, parseMatrix fi with
    | some na, some nt, some yr, some yi, some fr, some fi => match mimoQam na nt yr yi fr fi with | some bag => showBag .spin bag | none => "err"
    | _, _, _, _, _, _ => "bad-op"
  | ["mimob", nr, nt, draws] => some <|
    match nr.toNat?, nt.toNat?, parseNats draws with
    | some nr, some nt, some draws => match mimoBinary nr nt draws with | some bag => showBag .spin bag | none => "err"
    | _, _, _ => "bad-op"
  | _ => none

partial def loop (h : IO.FS.Stream) : IO Unit := do
  let line ← h.getLine
  if line.isEmpty then return ()
  IO.println ((answer3 line).getD (answer line))
  loop h

def main : IO Unit := do loop (← IO.getStdin)
