import Drivers.PenShow
import DimodModel.Generators
open Wire Pen PenShow Gen

/-! Line-protocol driver for the C17 generator models (`DimodModel/Generators.lean`).

    gate <and|or|xor|halfadder|fulladder> <strength> <labels>
    mult <n> <m>
    comb <k> <strength> <SPIN|BINARY> <labels>
    iset <edges> <nodes|->            edges: u~v,u~v   nodes: labels
    mwis <strength|-> <mult> <edges> <none | lab=w,...>
    knap <capacity> <values> <weights>
    mknap <values> <weights> <capacities>
    binp <capacity> <weights>
-/

def kindOf? (s : String) : Option GateKind :=
  if s = "and" then some .and else if s = "or" then some .or else if s = "xor" then some .xor
  else if s = "halfadder" then some .halfadder else if s = "fulladder" then some .fulladder else none

def parseLabels (s : String) : Option (List Label) := (csv s).mapM parseLabel?

def parseEdges (s : String) : Option (List (Label × Label)) :=
  (csv s).mapM fun e =>
    match e.splitOn "~" with
    | [a, b] => do let a ← parseLabel? a; let b ← parseLabel? b; pure (a, b)
    | _ => none

def parseRats (s : String) : Option (List Rat) := (csv s).mapM parseRat?

def showBag (vt : VT) (bag : List (PTerm Label)) : String :=
  "ok " ++ showBq ((Bq.empty vt : Bq Label).apply bag) false

def senseName : Sense → String | .le => "le" | .ge => "ge" | .eq => "eq"

def showGCqm (q : GCqm) : String :=
  let vars := String.intercalate "," (q.vars.map showLabel)
  let cons := q.cons.map fun c =>
    s!"{toHex c.label}:{senseName c.sense}:{showRat c.rhs}:" ++ showBq ((Bq.empty .binary : Bq Label).apply c.lhs) false
  s!"ok {vars}|{showBq ((Bq.empty .binary : Bq Label).apply q.obj) false}|" ++ String.intercalate "|" cons

def answer (line : String) : String :=
  match line.trimAscii.toString.splitOn " " with
  | ["gate", k, s, labels] =>
    match kindOf? k, parseRat? s, parseLabels labels with
    | some k, some s, some labels =>
      match gate k labels s with
      | some bag => showBag .binary bag
      | none => "err"
    | _, _, _ => "bad-op"
  | ["mult", n, m] =>
    match n.toNat?, m.toNat? with
    | some n, some m =>
      match mulCircuit n m with
      | some gs => showBag .binary (circuitBag gs)
      | none => "err"
    | _, _ => "bad-op"
  | ["comb", k, s, vt, labels] =>
    match k.toInt?, parseRat? s, vtOf? vt, parseLabels labels with
    | some k, some s, some vt, some labels =>
      match combinations labels k s vt with
      | some bag => showBag vt bag
      | none => "err"
    | _, _, _, _ => "bad-op"
  | ["iset", edges, nodes] =>
    match parseEdges edges, parseLabels nodes with
    | some edges, some nodes =>
      match independentSet edges nodes with
      | some bag => showBag .binary bag
      | none => "err"
    | _, _ => "bad-op"
  | ["mwis", s, mult, edges, nodes] =>
    match (if s = "-" then some none else (parseRat? s).map some), parseRat? mult, parseEdges edges,
          (if nodes = "none" then some none else (parseTerms nodes).map some) with
    | some s, some mult, some edges, some nodes =>
      match mwis edges nodes s mult with
      | some bag => showBag .binary bag
      | none => "err"
    | _, _, _, _ => "bad-op"
  | ["knap", cap, values, weights] =>
    match parseRat? cap, parseRats values, parseRats weights with
    | some cap, some values, some weights =>
      match knapsack values weights cap with
      | some q => showGCqm q
      | none => "err"
    | _, _, _ => "bad-op"
  | ["mknap", values, weights, caps] =>
    match parseRats values, parseRats weights, parseRats caps with
    | some values, some weights, some caps =>
      match multiKnapsack values weights caps with
      | some q => showGCqm q
      | none => "err"
    | _, _, _ => "bad-op"
  | ["binp", cap, weights] =>
    match parseRat? cap, parseRats weights with
    | some cap, some weights => showGCqm (binPacking weights cap)
    | _, _ => "bad-op"
  | _ => "bad-op"

partial def loop (h : IO.FS.Stream) : IO Unit := do
  let line ← h.getLine
  if line.isEmpty then return ()
  IO.println (answer line)
  loop h

def main : IO Unit := do loop (← IO.getStdin)
